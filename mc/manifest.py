#!/usr/bin/env python3
"""Regenerates /verif/MANIFEST.json from the drivers present in mc/props and mc/manifest_meta.json."""
import ast, json, os, re, sys
V = os.path.dirname(os.path.dirname(os.path.abspath(__file__)))
meta = json.load(open(os.path.join(V, "mc", "manifest_meta.json")))
props = [json.loads(l) for l in open(os.path.join(V, "properties.jsonl"))]
checks, na = [], []
for p in props:
  pid = p["id"]
  path = os.path.join(V, "mc", "props", pid.lower() + ".py")
  m = meta["checks"].get(pid)
  if os.path.exists(path) and m is None and pid in meta.get("enabled", []):
    # derive the manifest text from the driver itself (docstring, RULE, ASSUMPTIONS)
    tree = ast.parse(open(path).read())
    consts = {}
    for n in tree.body:
      if isinstance(n, ast.Assign) and isinstance(n.targets[0], ast.Name):
        try:
          consts[n.targets[0].id] = ast.literal_eval(n.value)
        except Exception:
          pass
    doc = " ".join((ast.get_docstring(tree) or "").split())
    m = {
      "engine": consts.get("ENGINE", "space+parity"),
      "technique": consts.get("TECHNIQUE", "bounded-exhaustive enumeration of the stated finite space executed on the real kernels: " + consts.get("RULE", "")[:260]),
      "text": doc[:900],
      "note": "; ".join(consts.get("ASSUMPTIONS", []))[:600] or "trusts MuJoCo C 3.13 as the specification; CPU backend only",
    }
  if os.path.exists(path) and m and not m.get("disabled"):
    src = open(path).read()
    lvl = re.search(r'^LEVEL\s*=\s*"(\w+)"', src, re.M).group(1)
    checks.append({
      "property_id": pid,
      "quick_cmd": f"/venv/bin/python mc/run.py {pid} --tier quick",
      "thorough_cmd": f"/venv/bin/python mc/run.py {pid} --tier thorough",
      "evidence_file": f"/verif/evidence/{pid}.json",
      "replay_cmd_template": f"/venv/bin/python mc/run.py {pid} --replay {{path}}",
      "engine": m["engine"],
      "level_claimed": {"category": lvl, "text": m["text"], "design_ref": m.get("design_ref", f"DESIGN.md §4 {pid}")},
      "level_note": m["note"],
      "technique": m["technique"],
    })
  else:
    na.append({"property_id": pid, "reason": (m or {}).get("na_reason", "check not built yet in this session; no claim is made")})
man = {
  "version": 1,
  "setup_cmd": meta["setup_cmd"],
  "hooks": meta["hooks"],
  "engines": meta["engines"],
  "checks": checks,
  "notes": meta["notes"],
  "not_applicable": na,
}
json.dump(man, open(os.path.join(V, "MANIFEST.json"), "w"), indent=1)
print(f"{len(checks)} checks, {len(na)} not claimed")
