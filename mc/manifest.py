#!/usr/bin/env python3
"""Regenerates /verif/MANIFEST.json from the drivers present in mc/props and mc/manifest_meta.json."""
import json, os, re, sys
V = os.path.dirname(os.path.dirname(os.path.abspath(__file__)))
meta = json.load(open(os.path.join(V, "mc", "manifest_meta.json")))
props = [json.loads(l) for l in open(os.path.join(V, "properties.jsonl"))]
checks, na = [], []
for p in props:
  pid = p["id"]
  path = os.path.join(V, "mc", "props", pid.lower() + ".py")
  m = meta["checks"].get(pid)
  if os.path.exists(path) and m and not m.get("disabled"):
    src = open(path).read()
    lvl = re.search(r'^LEVEL\s*=\s*"(\w+)"', src, re.M).group(1)
    checks.append({
      "property_id": pid,
      "quick_cmd": f"/venv/bin/python mc/run.py {pid} --tier quick",
      "thorough_cmd": f"/venv/bin/python mc/run.py {pid} --tier thorough",
      "evidence_file": f"/verif/evidence/{pid}.json",
      "replay_cmd_template": f"/venv/bin/python mc/run.py {pid} --replay {{path}}",
      "engine": m["engine"],
      "level_claimed": {"category": lvl, "text": m["text"], "design_ref": m.get("design_ref", f"DESIGN.md §4 {pid}")},
      "level_note": m["note"],
      "technique": m["technique"],
    })
  else:
    na.append({"property_id": pid, "reason": (m or {}).get("na_reason", "check not built yet in this session; no claim is made")})
man = {
  "version": 1,
  "setup_cmd": meta["setup_cmd"],
  "hooks": meta["hooks"],
  "engines": meta["engines"],
  "checks": checks,
  "notes": meta["notes"],
  "not_applicable": na,
}
json.dump(man, open(os.path.join(V, "MANIFEST.json"), "w"), indent=1)
print(f"{len(checks)} checks, {len(na)} not claimed")
