"""Snapshots of a Data object and their comparison: exact (bit identity) or `reorder`
(commutative-sum round-off; contacts and constraint rows as multisets)."""

import itertools

import numpy as np

from mc import util

STATE_FIELDS = ("time", "qpos", "qvel", "act", "history", "qacc_warmstart", "ctrl", "qfrc_applied", "xfrc_applied", "eq_active", "mocap_pos", "mocap_quat", "userdata")
OUT_FIELDS = (
  "qacc",
  "act_dot",
  "sensordata",
  "energy",
  "xpos",
  "xquat",
  "qfrc_bias",
  "qfrc_passive",
  "qfrc_actuator",
  "qfrc_smooth",
  "qacc_smooth",
  "qfrc_constraint",
  "actuator_force",
  "actuator_length",
  "ten_length",
  "subtree_com",
  "cvel",
)
COUNT_FIELDS = ("nefc", "ne", "nf", "nl", "overflow", "solver_niter")
SLEEP_FIELDS = ("tree_asleep", "tree_awake", "body_awake")


def take(m, d, outputs=True, rows=True, contacts=True, sleep=False):
  s = {"state": {}, "out": {}, "count": {}}
  for f in STATE_FIELDS:
    a = getattr(d, f, None)
    if a is not None:
      s["state"][f] = a.numpy().copy()
  if outputs:
    for f in OUT_FIELDS:
      a = getattr(d, f, None)
      if a is not None:
        s["out"][f] = a.numpy().copy()
  for f in COUNT_FIELDS:
    s["count"][f] = getattr(d, f).numpy().copy()
  if sleep:
    for f in SLEEP_FIELDS:
      a = getattr(d, f, None)
      if a is not None and a.size:
        s["count"][f] = a.numpy().copy()
  s["nacon"] = int(d.nacon.numpy()[0])
  if contacts:
    s["contacts"] = [util.mjw_contacts(d, w) for w in range(d.nworld)]
  if rows:
    s["rows"] = [util.efc_dense(m, d, w)[1] for w in range(d.nworld)]
  return s


def world_slice(s, w):
  """Snapshot restricted to one world (as if nworld==1)."""
  o = {"state": {k: v[w : w + 1] for k, v in s["state"].items()}, "out": {k: v[w : w + 1] for k, v in s["out"].items()}}
  o["count"] = {k: v[w : w + 1] for k, v in s["count"].items()}
  if "contacts" in s:
    o["contacts"] = [s["contacts"][w]]
    o["nacon"] = len(s["contacts"][w])
  else:
    o["nacon"] = None
  if "rows" in s:
    o["rows"] = [s["rows"][w]]
  return o


def _canon_contacts(cl):
  def k(c):
    return (int(c["geom"][0]), int(c["geom"][1])) + tuple(np.round(np.asarray(c["pos"]) * 1e4).astype(int).tolist()) + (float(c["dist"]),)

  return sorted(cl, key=k)


CONTACT_VALS = ("dist", "pos", "frame", "includemargin", "friction", "solref", "solreffriction", "solimp")
ROW_VALS = ("J", "pos", "margin", "D", "vel", "aref", "frictionloss", "force")


def compare_exact(c, a, b, pre="", skip=(), contacts_as_multiset=True):
  """Bit identity of two snapshots; contacts are compared as an (ordered-canonically) multiset because the shared
  contact buffer interleaves worlds; rows in order."""
  for grp in ("state", "out", "count"):
    for f in a[grp]:
      if f in skip or f not in b[grp]:
        continue
      c.bits(f"{pre}{f}", a[grp][f], b[grp][f], vkey=f"{grp}:{f}")
  if "contacts" in a and "contacts" in b and "contacts" not in skip:
    for w, (ca, cb) in enumerate(zip(a["contacts"], b["contacts"])):
      if len(ca) != len(cb):
        c.fail("contacts:count", f"{pre}world {w}: {len(ca)} contacts vs {len(cb)}")
        continue
      for x, y in zip(_canon_contacts(ca), _canon_contacts(cb)):
        for f in CONTACT_VALS + ("dim", "geom"):
          c.bits(f"{pre}contact[{w}].{f}", np.asarray(x[f]), np.asarray(y[f]), vkey=f"contacts:{f}")
  if "rows" in a and "rows" in b and "rows" not in skip:
    for w, (ra, rb) in enumerate(zip(a["rows"], b["rows"])):
      for f in ROW_VALS + ("type", "id", "state"):
        x, y = ra[f], rb[f]
        if f == "id" and len(x) == len(y) and len(x) == len(ra["type"]) == len(rb["type"]):
          # a contact row's id indexes the contact buffer shared by all worlds: not a per-world observable
          x = np.where(ra["type"] >= 5, -1, x)
          y = np.where(rb["type"] >= 5, -1, y)
        c.bits(f"{pre}efc[{w}].{f}", x, y, vkey=f"rows:{f}")


def _match_groups(c, pre, name, A, B, keyfn, vecfn, valfields, tol):
  ga, gb = {}, {}
  for x in A:
    ga.setdefault(keyfn(x), []).append(x)
  for x in B:
    gb.setdefault(keyfn(x), []).append(x)
  if {k: len(v) for k, v in ga.items()} != {k: len(v) for k, v in gb.items()}:
    c.fail(f"{name.split('[')[0]}:multiset", f"{pre}{name} multiset differs: {sorted((k, len(v)) for k, v in ga.items())} vs {sorted((k, len(v)) for k, v in gb.items())}")
    return None
  allpairs = []
  for k, la in sorted(ga.items(), key=lambda kv: str(kv[0])):
    lb = gb[k]
    # assignment minimising vector distance (groups are tiny; brute force <= 6, greedy above)
    if len(la) <= 6:
      best, bestp = None, None
      for p in itertools.permutations(range(len(lb))):
        cost = sum(float(np.sum(np.abs(vecfn(la[i]) - vecfn(lb[p[i]])))) for i in range(len(la)))
        if best is None or cost < best:
          best, bestp = cost, p
      pairs = [(la[i], lb[bestp[i]]) for i in range(len(la))]
    else:
      rest, pairs = list(lb), []
      for x in la:
        j = min(range(len(rest)), key=lambda j: float(np.sum(np.abs(vecfn(x) - vecfn(rest[j])))))
        pairs.append((x, rest.pop(j)))
    for x, y in pairs:
      for f in valfields:
        c.close(f"{pre}{name}{k}.{f}", x[f], y[f], tol, vkey=f"{name.split('[')[0]}:{f}")
    allpairs += pairs
  return allpairs


def compare_reorder(c, a, b, pre="", tol="solver", skip=()):
  """Equality up to round-off of reordered commutative sums and the listing order of contacts / rows."""
  for f in ("overflow", "nefc", "ne", "nf", "nl"):
    c.equal(f"{pre}{f}", a["count"][f], b["count"][f], vkey=f"count:{f}")
  for f in a["count"]:
    if f in ("overflow", "nefc", "ne", "nf", "nl", "solver_niter") or f in skip:
      continue
    c.equal(f"{pre}{f}", a["count"][f], b["count"][f], vkey=f"count:{f}")
  for grp in ("state", "out"):
    for f in a[grp]:
      if f in skip or f not in b[grp]:
        continue
      x, y = a[grp][f], b[grp][f]
      if x.dtype.kind in "biu":
        c.equal(f"{pre}{f}", x, y, vkey=f"{grp}:{f}")
      else:
        c.close(f"{pre}{f}", x, y, tol, vkey=f"{grp}:{f}")
  labels_a, labels_b = {}, {}
  if "contacts" in a and "contacts" not in skip:
    if a["nacon"] != b["nacon"]:
      c.fail("contacts:nacon", f"{pre}nacon {a['nacon']} vs {b['nacon']}")
    for w, (ca, cb) in enumerate(zip(a["contacts"], b["contacts"])):
      pairs = _match_groups(
        c, pre, f"contact[{w}]", ca, cb, lambda x: (int(x["geom"][0]), int(x["geom"][1]), int(x["dim"])), lambda x: np.asarray(x["pos"], np.float64), CONTACT_VALS, tol
      )
      for n, (x, y) in enumerate(pairs or []):
        lab = (int(x["geom"][0]), int(x["geom"][1]), n)
        labels_a[(w, x["index"])] = (lab, x["efc_address"])
        labels_b[(w, y["index"])] = (lab, y["efc_address"])
  if "rows" in a and "rows" not in skip:
    for w, (ra, rb) in enumerate(zip(a["rows"], b["rows"])):
      la = _row_list(ra, w, labels_a)
      lb = _row_list(rb, w, labels_b)
      # row forces are not compared across schedules: with redundant contacts (a box on 4 corners) the split of the
      # force between rows is ill-conditioned and moves with summation order; J^T force (qfrc_constraint) is compared
      _match_groups(c, pre, f"efc[{w}]", la, lb, lambda x: (int(x["type"]), x["id"]), lambda x: np.concatenate([np.asarray(x["J"], np.float64), [x["pos"]]]), tuple(f for f in ROW_VALS if f != "force"), tol)
      # structural: rows grouped equality | friction | limit | contact in that order
      ty = rb["type"]
      if len(ty) and np.any(np.diff(_type_rank(ty)) < 0):
        c.fail("rows:order", f"{pre}world {w}: constraint rows not grouped E|F|L|C: {ty.tolist()}")


def _row_list(r, w, labels):
  """Rows as dicts; a contact row's id (index into the shared, order-dependent contact buffer) is replaced by the
  matched contact's label plus the row's slot k within that contact, so that listing order does not matter."""
  out = []
  for i in range(len(r["type"])):
    x = {f: r[f][i] for f in ROW_VALS + ("type",)}
    rid = int(r["id"][i])
    if int(r["type"][i]) >= 5:
      lab = labels.get((w, rid))
      if lab is None:
        x["id"] = ("unmatched", rid)
      else:
        adr = np.asarray(lab[1]).reshape(-1)
        hit = np.nonzero(adr == i)[0]
        k = int(hit[0]) if len(hit) else int(i - adr[0])
        x["id"] = lab[0] + (k,)
    else:
      x["id"] = rid
    out.append(x)
  return out


def _type_rank(ty):
  # ConstraintType: EQUALITY=0, FRICTION_DOF=1, FRICTION_TENDON=2, LIMIT_JOINT=3, LIMIT_TENDON=4, CONTACT_*>=5
  r = np.array(ty).copy()
  r[(r == 1) | (r == 2)] = 1
  r[(r == 3) | (r == 4)] = 2
  r[r >= 5] = 3
  return r


def check_efc_address(c, m, d, pre=""):
  """Every contact row address points at a row of that contact; distinct (contact, k) -> distinct rows."""
  n = min(int(d.nacon.numpy()[0]), d.naconmax)
  if n == 0:
    return
  adr = d.contact.efc_address.numpy()[:n]
  wid = d.contact.worldid.numpy()[:n]
  ty = d.efc.type.numpy()
  ids = d.efc.id.numpy()
  nefc = d.nefc.numpy()
  seen = set()
  for ci in range(n):
    for k in range(adr.shape[1]):
      a = int(adr[ci, k])
      if a < 0:
        continue
      w = int(wid[ci])
      if a >= nefc[w]:
        c.fail("efc_address:range", f"{pre}contact {ci} address {a} >= nefc {nefc[w]}")
        continue
      if ty[w, a] < 5 or ids[w, a] != ci:
        c.fail("efc_address:target", f"{pre}contact {ci} slot {k} -> row {a} of type {ty[w, a]} id {ids[w, a]}")
      if (w, a) in seen:
        c.fail("efc_address:dup", f"{pre}row {a} of world {w} referenced twice")
      seen.add((w, a))
