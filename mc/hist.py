"""E4: histories of API operations on a live Data (explicit enumeration / BFS), shared by C09, C12, C13, C14.

A history is a list of op names; `apply(op, ctx)` executes one on the real Data.  Live Warp objects do not copy,
so a state is always rebuilt by replaying its history on a fresh Data.
"""

import itertools

import numpy as np


class Ctx:
  """One live (model, data) pair plus scene-specific handles."""

  def __init__(self, mjm, m, d, variant=0):
    self.mjm, self.m, self.d, self.variant = mjm, m, d, variant


def get_integration_state(mjm, m, d):
  import mujoco
  import warp as wp

  import mujoco_warp as mjw

  sig = int(mjw.State.INTEGRATION)
  n = mujoco.mj_stateSize(mjm, sig)
  buf = wp.zeros((d.nworld, n), dtype=float)
  mjw.get_state(m, d, buf, sig)
  return buf.numpy().copy()


def set_integration_state(mjm, m, d, state):
  import warp as wp

  import mujoco_warp as mjw

  sig = int(mjw.State.INTEGRATION)
  buf = wp.array(np.ascontiguousarray(state, dtype=np.float32), dtype=float)
  mjw.set_state(m, d, buf, sig)


def _jadr(mjm, name):
  import mujoco

  return int(mjm.jnt_qposadr[mujoco.mj_name2id(mjm, mujoco.mjtObj.mjOBJ_JOINT, name)])


def _setq(d, fn):
  import warp as wp

  q = d.qpos.numpy()
  fn(q)
  wp.copy(d.qpos, wp.array(q, dtype=float))


# ------------------------------------------------------------------------- ops on the `rich` scene


def op_step(ctx):
  import mujoco_warp as mjw

  mjw.step(ctx.m, ctx.d)


def op_forward(ctx):
  import mujoco_warp as mjw

  mjw.forward(ctx.m, ctx.d)


def _ctrl(vals):
  def f(ctx):
    from mc import util
    import mujoco_warp as mjw

    nu = ctx.mjm.nu
    v = np.array([[vals[(w + i) % len(vals)] for i in range(nu)] for w in range(ctx.d.nworld)], dtype=np.float32)
    util.set_field(ctx.d.ctrl, v)
    mjw.step(ctx.m, ctx.d)

  return f


def op_pose_collide(ctx):
  """Move the capsule body f into the box/sphere stack and the pendulum towards the floor: many more contacts/rows."""
  a = _jadr(ctx.mjm, "ff")
  h1 = _jadr(ctx.mjm, "h1")

  def fn(q):
    for w in range(q.shape[0]):
      q[w, a : a + 3] = [0.12 + 0.01 * w, 0.02, 0.16]
      q[w, h1] = 0.29

  _setq(ctx.d, fn)


def op_pose_free(ctx):
  """Lift every free body: no contacts at all."""
  adrs = [_jadr(ctx.mjm, n) for n in ("fa", "fb", "ff")]

  def fn(q):
    for w in range(q.shape[0]):
      for k, a in enumerate(adrs):
        q[w, a + 2] = 1.0 + 0.4 * k + 0.05 * w

  _setq(ctx.d, fn)


def op_xfrc(ctx):
  from mc import util

  x = ctx.d.xfrc_applied.numpy()
  x[:, 2, :] = [0.5, -0.3, 1.0, 0.02, 0.01, -0.03]
  util.set_field(ctx.d.xfrc_applied, x)


def op_eq_toggle(ctx):
  from mc import util

  e = ctx.d.eq_active.numpy()
  e[:, 0] = ~e[:, 0]
  util.set_field(ctx.d.eq_active, e)


def op_reset(ctx):
  import mujoco_warp as mjw

  mjw.reset_data(ctx.m, ctx.d)


def _reset_mask(mask):
  def f(ctx):
    import warp as wp

    import mujoco_warp as mjw

    mk = np.array([mask[w % len(mask)] for w in range(ctx.d.nworld)], dtype=bool)
    mjw.reset_data(ctx.m, ctx.d, reset=wp.array(mk, dtype=bool))

  return f


OPS = {
  "step": op_step,
  "forward": op_forward,
  "step_ctrl_a": _ctrl((0.8, -0.6, 0.3)),
  "step_ctrl_b": _ctrl((-1.2, 0.2, 0.9)),
  "pose_collide": op_pose_collide,
  "pose_free": op_pose_free,
  "xfrc": op_xfrc,
  "eq_toggle": op_eq_toggle,
  "reset": op_reset,
  "reset_w0": _reset_mask((True, False, False)),
  "reset_w1": _reset_mask((False, True, False)),
}


def apply(op, ctx):
  OPS[op](ctx)


def histories(alphabet, depth, first=None):
  """All op sequences of length <= depth (optionally with a fixed first op), shortest first."""
  out = []
  for n in range(0 if first is None else 1, depth + 1):
    if first is None:
      out += [list(h) for h in itertools.product(alphabet, repeat=n)]
    else:
      out += [[first] + list(h) for h in itertools.product(alphabet, repeat=n - 1)]
  return out
