#!/venv/bin/python
"""Runner: mc/run.py <Cxx> --tier quick|thorough [--replay FILE] [--jobs N]

exit 0  property held on everything explored (KNOWN-FINDING lines possible)
exit 1  + "VIOLATION property=<id> replay=<path>" for every violation not in known_findings.json
exit 2  harness error (driver exception, nondeterminism, evidence invalid)
"""

import argparse
import collections
import fnmatch
import hashlib
import importlib
import json
import os
import queue
import select
import subprocess
import sys
import threading
import time

VERIF = os.path.dirname(os.path.dirname(os.path.abspath(__file__)))
sys.path.insert(0, VERIF)
PY = "/venv/bin/python"


class Worker:
  def __init__(self, prop, idx, logdir):
    self.prop, self.idx, self.logdir = prop, idx, logdir
    self.proc = None
    self.start()

  def start(self):
    p2c_r, p2c_w = os.pipe()
    c2p_r, c2p_w = os.pipe()
    os.makedirs(self.logdir, exist_ok=True)
    self.logpath = os.path.join(self.logdir, f"worker{self.idx}.log")
    self.log = open(self.logpath, "ab")
    env = dict(os.environ)
    env.setdefault("PYTHONHASHSEED", "0")
    for k in ("OMP_NUM_THREADS", "OPENBLAS_NUM_THREADS", "MKL_NUM_THREADS", "NUMEXPR_NUM_THREADS"):
      env.setdefault(k, "1")
    env["PYTHONPATH"] = VERIF + os.pathsep + env.get("PYTHONPATH", "")
    self.proc = subprocess.Popen(
      [PY, "-m", "mc.worker", self.prop, str(p2c_r), str(c2p_w)],
      pass_fds=(p2c_r, c2p_w),
      stdout=self.log,
      stderr=subprocess.STDOUT,
      stdin=subprocess.DEVNULL,
      cwd=VERIF,
      env=env,
    )
    os.close(p2c_r)
    os.close(c2p_w)
    self.w = os.fdopen(p2c_w, "w")
    self.rfd = c2p_r
    self.rbuf = b""
    self.ready = False

  def send(self, o):
    self.w.write(json.dumps(o) + "\n")
    self.w.flush()

  def recv(self, timeout):
    """Returns parsed message, or None on EOF (worker died), or 'timeout'."""
    deadline = time.time() + timeout
    while b"\n" not in self.rbuf:
      left = deadline - time.time()
      if left <= 0:
        return "timeout"
      r, _, _ = select.select([self.rfd], [], [], min(left, 1.0))
      if r:
        chunk = os.read(self.rfd, 1 << 20)
        if not chunk:
          return None
        self.rbuf += chunk
    line, self.rbuf = self.rbuf.split(b"\n", 1)
    return json.loads(line)

  def kill(self):
    try:
      self.proc.kill()
    except Exception:
      pass
    self.proc.wait()
    try:
      self.w.close()
    except Exception:
      pass
    try:
      os.close(self.rfd)
    except Exception:
      pass

  def tail(self, n=1500):
    try:
      self.log.flush()
      with open(self.logpath, "rb") as f:
        return f.read()[-n:].decode(errors="replace")
    except Exception:
      return ""


def load_known(prop):
  path = os.path.join(VERIF, "known_findings.json")
  if not os.path.exists(path):
    return []
  data = json.load(open(path))
  return [f for f in data.get("findings", []) if f.get("property") == prop]


def match_known(known, vkey):
  for f in known:
    if vkey == f["vkey"] or fnmatch.fnmatchcase(vkey, f["vkey"]):
      return f
  return None


def main():
  ap = argparse.ArgumentParser()
  ap.add_argument("prop")
  ap.add_argument("--tier", default=os.environ.get("VERIF_TIER", "quick"), choices=["quick", "thorough"])
  ap.add_argument("--replay")
  ap.add_argument("--jobs", type=int, default=int(os.environ.get("VERIF_JOBS", "0")))
  ap.add_argument("--limit", type=int, default=0, help="debug: only the first N scenarios (evidence marks non-exhaustive)")
  ap.add_argument("--no-evidence", action="store_true")
  args = ap.parse_args()
  prop = args.prop.upper()
  seed = int(os.environ.get("VERIF_SEED", "0"))
  t0 = time.time()
  drv = importlib.import_module(f"mc.props.{prop.lower()}")

  if args.replay:
    rp = json.load(open(args.replay))
    scns = [rp["scenario"]]
  else:
    scns = list(drv.scenarios(args.tier, seed))
  total = len(scns)
  capped = None
  if args.limit and total > args.limit:
    scns = scns[: args.limit]
    capped = f"--limit {args.limit} of {total}"
  budget = getattr(drv, "BUDGET", {}).get(args.tier)
  if os.environ.get("VERIF_BUDGET"):
    budget = float(os.environ["VERIF_BUDGET"])
  scn_timeout = getattr(drv, "SCENARIO_TIMEOUT", 3000)
  jobs = args.jobs or min(getattr(drv, "JOBS", 16), os.cpu_count() or 4, max(1, len(scns)))
  logdir = os.path.join(VERIF, "logs", prop)

  q = queue.Queue()
  for i, s in enumerate(scns):
    q.put((i, s))
  results = [None] * len(scns)
  lock = threading.Lock()
  stop = {"flag": False, "harness_error": None}
  canaries = []

  def loop(widx):
    w = Worker(prop, widx, logdir)
    try:
      msg = w.recv(600)
      if not isinstance(msg, dict) or not msg.get("ready"):
        with lock:
          stop["harness_error"] = f"worker {widx} failed to start: {msg!r}\n{w.tail()}"
          stop["flag"] = True
        return
      canaries.append(msg.get("canary"))
      while not stop["flag"]:
        if budget and time.time() - t0 > budget:
          return
        try:
          i, s = q.get_nowait()
        except queue.Empty:
          return
        w.send({"i": i, "scn": s})
        msg = w.recv(scn_timeout)
        if msg is None or msg == "timeout":
          rc = w.proc.poll()
          kind = "hang" if msg == "timeout" else "crash"
          tail = w.tail()
          w.kill()
          rc = w.proc.returncode if rc is None else rc
          vk = kind
          if hasattr(drv, "crash_vkey"):
            vk = f"{kind}:{drv.crash_vkey(s)}"
          results[i] = {
            "ok": False,
            "crash": rc,
            "outcome": kind,
            "violations": [{"vkey": vk, "what": f"worker {kind} (returncode {rc}) while executing scenario", "log_tail": tail[-800:]}],
          }
          w = Worker(prop, widx, logdir)
          m2 = w.recv(600)
          if not isinstance(m2, dict) or not m2.get("ready"):
            with lock:
              stop["harness_error"] = f"worker {widx} failed to restart"
              stop["flag"] = True
            return
          continue
        results[msg["i"]] = msg["res"]
    finally:
      try:
        w.send({"quit": True})
      except Exception:
        pass
      time.sleep(0.05)
      w.kill()

  threads = [threading.Thread(target=loop, args=(k,), daemon=True) for k in range(jobs)]
  for t in threads:
    t.start()
  for t in threads:
    t.join()

  if stop["harness_error"]:
    print("HARNESS ERROR:", stop["harness_error"])
    sys.exit(2)

  executed = [(s, r) for s, r in zip(scns, results) if r is not None]
  if len(executed) < len(scns):
    capped = (capped + "; " if capped else "") + f"time budget {budget}s hit after {len(executed)} of {len(scns)} scenarios"

  # ------------------------------------------------------------------ classify
  known = load_known(prop)
  errors = [(s, r) for s, r in executed if r.get("error")]
  nondet = [(s, r) for s, r in executed if r.get("nondeterministic")]
  viol_lines, known_hits = [], collections.OrderedDict()
  nviol = 0
  os.makedirs(os.path.join(VERIF, "replays", prop), exist_ok=True)
  for s, r in executed:
    if r.get("error"):
      continue
    if r.get("nondeterministic"):
      # the harness owns every source of nondeterminism (proved on the first scenario of every worker); a scenario whose two
      # executions in the same process disagree means the implementation read memory it does not own or did not initialise
      first = (r.get("violations") or (r.get("second") or {}).get("violations") or [{}])[0]
      r["violations"] = [dict(vkey="nondeterministic:" + str(first.get("vkey", "result")), what="two executions of the same scenario in one process disagree: " + str(first.get("what", ""))[:300])]
    unknown = []
    for v in r.get("violations", []):
      f = match_known(known, v.get("vkey", ""))
      if f is not None:
        known_hits.setdefault(f["vkey"], [f, 0])
        known_hits[f["vkey"]][1] += 1
      else:
        unknown.append(v)
    if unknown:
      nviol += 1
      h = hashlib.sha1(json.dumps(s, sort_keys=True).encode()).hexdigest()[:12]
      path = os.path.join(VERIF, "replays", prop, f"{h}.json")
      with open(path, "w") as f:
        json.dump({"property": prop, "tier": args.tier, "seed": seed, "scenario": s, "violations": unknown}, f, indent=1, default=str)
      if len(viol_lines) < 25:
        viol_lines.append((path, unknown[0]))

  for vkey, (f, n) in known_hits.items():
    print(f"KNOWN-FINDING: property={prop} {f.get('what', vkey)} [{n} scenario(s); key={vkey}]")
  for path, v in viol_lines:
    print(f"VIOLATION property={prop} replay={path}")
    print(f"   {v.get('vkey')}: {str(v.get('what'))[:400]}")

  # ------------------------------------------------------------------ evidence
  keys = set()
  agg = collections.Counter()
  outcome_classes = collections.Counter()
  for s, r in executed:
    if r.get("nontrivial") and not r.get("error"):
      keys.add(r.get("key") or hashlib.sha1(json.dumps(s, sort_keys=True).encode()).hexdigest())
    for k, v in (r.get("counts") or {}).items():
      agg[k] += v
    outcome_classes[r.get("outcome", "ok" if r.get("ok") else "violation")] += 1
  samples = []
  pick = [0, len(executed) // 2, len(executed) - 1] if executed else []
  for j in sorted(set(pick)):
    s, r = executed[j]
    samples.append({"scenario": s, "result": {k: r.get(k) for k in ("ok", "nontrivial", "outcome", "info", "counts") if k in r}})
  level = getattr(drv, "LEVEL", "exploration")
  cov = {
    "evaluations": len(executed) + int(agg.pop("extra_evaluations", 0)),
    "distinct_nontrivial": len(keys) + int(agg.pop("extra_distinct", 0)),
    "rule": getattr(drv, "RULE", ""),
    "samples": json.loads(json.dumps(samples, default=str)),
    "exhaustive": capped is None and not args.replay,
    "scenarios_enumerated": total,
    "outcome_classes": dict(outcome_classes),
    "bounds": getattr(drv, "BOUNDS", {}).get(args.tier, ""),
    "known_findings_hit": {k: n for k, (f, n) in known_hits.items()},
  }
  if capped:
    cov["cap"] = capped
  if any(canaries):
    cov["schedule_canary_verified_workers"] = sum(1 for c in canaries if c)
  for k, v in agg.items():
    cov[k] = int(v)
  if level == "model_checking":
    cov.setdefault("states", 0)
    cov.setdefault("transitions", 0)
    cov.setdefault("traces_validated_against_impl", 0)
  if hasattr(drv, "coverage_extra"):
    cov.update(drv.coverage_extra(executed, args.tier))
  ev = {
    "property_id": prop,
    "tier": args.tier,
    "seed": seed,
    "level": level,
    "coverage": cov,
    "assumptions": list(getattr(drv, "ASSUMPTIONS", [])),
    "wall_s": round(time.time() - t0, 2),
    "violations": nviol,
  }
  if not args.no_evidence and not args.replay:
    os.makedirs(os.path.join(VERIF, "evidence"), exist_ok=True)
    with open(os.path.join(VERIF, "evidence", f"{prop}.json"), "w") as f:
      json.dump(ev, f, indent=1, default=str)

  print(
    f"[{prop} {args.tier} seed={seed}] scenarios={len(executed)}/{total} nontrivial_distinct={cov['distinct_nontrivial']} "
    f"violations={nviol} known={len(known_hits)} errors={len(errors)} nondet={len(nondet)} wall={ev['wall_s']}s "
    + " ".join(f"{k}={v}" for k, v in agg.items())
  )
  if errors:
    s, r = errors[0]
    print("HARNESS ERROR (driver exception):", r["error"])
    print(r.get("traceback", ""))
    print("scenario:", json.dumps(s)[:600])
    sys.exit(2)
  if nondet:
    s, r = nondet[0]
    print("NONDETERMINISM (reported as violation): same scenario, two runs, different observations:", json.dumps(s)[:400])
  sys.exit(1 if nviol else 0)


if __name__ == "__main__":
  main()
