"""E6 child: runs a process history (list of items) in THIS fresh process and prints the last item's observation."""
import hashlib
import json
import os
import sys

sys.path.insert(0, os.path.dirname(os.path.dirname(os.path.abspath(__file__))))
from mc import world  # noqa: E402

wp = world.setup()
import numpy as np  # noqa: E402

import mujoco  # noqa: E402
import mujoco_warp as mjw  # noqa: E402
from mc import util  # noqa: E402
from mc.props import c36  # noqa: E402


def run_item(name):
  it = c36.ITEMS[name]
  mjm = util.load(it["xml"]())
  for k, v in it.get("mjopt", {}).items():
    setattr(mjm.opt, k, v)
  if it.get("disable"):
    mjm.opt.disableflags |= it["disable"]
  m = mjw.put_model(mjm)
  for k, v in it.get("mopt", {}).items():
    setattr(m.opt, k, v)
  d = mjw.make_data(mjm, nworld=it.get("nworld", 2), **it.get("caps", {}))
  st = it["states"](mjm, d.nworld)
  for w, s in enumerate(st):
    util.copy_state(s, d, world=w)
  mjw.step(m, d)
  mjw.kinematics(m, d)
  mjw.collision(m, d)
  out = {
    "qpos": d.qpos.numpy(),
    "qvel": d.qvel.numpy(),
    "qacc": d.qacc.numpy(),
    "sensordata": d.sensordata.numpy(),
    "nefc": d.nefc.numpy(),
    "overflow": d.overflow.numpy(),
  }
  nacon = int(d.nacon.numpy()[0])
  cons = []
  for w in range(d.nworld):
    for c in util.mjw_contacts(d, w):
      cons.append((w, int(c["geom"][0]), int(c["geom"][1]), float(c["dist"]), *[float(x) for x in c["pos"]]))
  cons.sort()
  h = hashlib.sha1()
  for k in sorted(out):
    h.update(np.ascontiguousarray(out[k]).tobytes())
  h.update(json.dumps(cons).encode())
  return dict(
    digest=h.hexdigest()[:20],
    nacon=nacon,
    nefc=out["nefc"].tolist(),
    overflow=out["overflow"].tolist(),
    qpos_head=[float(x) for x in out["qpos"][0][:6]],
    qacc_absmax=float(np.abs(out["qacc"]).max()) if out["qacc"].size else 0.0,
    contacts_per_pair=sorted({(c[1], c[2]): 0 for c in cons}.keys()),
    ncontacts=len(cons),
  )


if __name__ == "__main__":
  history = json.loads(sys.argv[1])
  res = None
  for name in history:
    res = run_item(name)
  print("RESULT " + json.dumps(res))
