"""Shared helpers for drivers: building models/data on both engines, comparisons, contacts, rows."""

import hashlib
import json

import numpy as np

TOL = {"f32": 2e-5, "f32dyn": 2e-4, "solver": 2e-3, "loose": 2e-2}


def sha(obj):
  return hashlib.sha1(json.dumps(obj, sort_keys=True, default=str).encode()).hexdigest()[:16]


def np_digest(*arrays):
  h = hashlib.sha1()
  for a in arrays:
    a = np.ascontiguousarray(a)
    h.update(str(a.shape).encode())
    h.update(a.tobytes())
  return h.hexdigest()[:16]


class Cmp:
  """Collects violations of one scenario; every comparison names its field and tolerance class."""

  def __init__(self, prefix=""):
    self.violations = []
    self.prefix = prefix
    self.nchecked = 0
    self.maxrel = 0.0

  def fail(self, vkey, what, **extra):
    if len(self.violations) < 12:
      self.violations.append(dict(vkey=f"{self.prefix}{vkey}", what=what, **extra))

  def close(self, name, got, want, tol="f32", scale=None, vkey=None, atol=0.0):
    got = np.asarray(got, dtype=np.float64)
    want = np.asarray(want, dtype=np.float64)
    self.nchecked += 1
    if got.shape != want.shape:
      try:
        got = got.reshape(want.shape)
      except ValueError:
        self.fail(vkey or name, f"{name}: shape {got.shape} vs reference {want.shape}")
        return False
    if want.size == 0:
      return True
    if not np.all(np.isfinite(got)):
      if np.all(np.isfinite(want)):
        self.fail(vkey or name, f"{name}: non-finite value in MJWarp result")
        return False
      return True
    if not np.all(np.isfinite(want)):
      return True  # reference unusable
    rel = TOL[tol] if isinstance(tol, str) else tol
    s = (1.0 + np.max(np.abs(want))) if scale is None else scale
    err = np.abs(got - want)
    bound = rel * s + atol
    m = float(err.max())
    self.maxrel = max(self.maxrel, m / s)
    if m > bound:
      idx = np.unravel_index(int(err.argmax()), err.shape)
      self.fail(
        vkey or name,
        f"{name}: |got-want|={m:.3g} > {bound:.3g} at {tuple(int(i) for i in idx)} got={got[idx]:.6g} want={want[idx]:.6g}",
      )
      return False
    return True

  def equal(self, name, got, want, vkey=None):
    self.nchecked += 1
    g, w = np.asarray(got), np.asarray(want)
    if g.shape != w.shape or not np.array_equal(g, w):
      self.fail(vkey or name, f"{name}: got {np.array2string(g, threshold=20)} want {np.array2string(w, threshold=20)}")
      return False
    return True

  def bits(self, name, got, want, vkey=None):
    """Bit identity (NaN == NaN)."""
    self.nchecked += 1
    g, w = np.ascontiguousarray(got), np.ascontiguousarray(want)
    if g.shape != w.shape or g.dtype != w.dtype or g.tobytes() != w.tobytes():
      msg = f"{name}: not bit-identical"
      if g.shape == w.shape and g.size:
        try:
          diff = np.abs(g.astype(np.float64) - w.astype(np.float64))
          idx = np.unravel_index(int(np.nanargmax(diff)), diff.shape)
          msg += f" max|diff|={np.nanmax(diff):.3g} at {tuple(int(i) for i in idx)} got={g[idx]} want={w[idx]}"
        except Exception:
          pass
      else:
        msg += f" shape {g.shape} vs {w.shape}"
      self.fail(vkey or name, msg)
      return False
    return True

  def true(self, name, cond, what="", vkey=None):
    self.nchecked += 1
    if not cond:
      self.fail(vkey or name, f"{name}: {what}")
      return False
    return True

  def result(self, nontrivial=True, key=None, **extra):
    r = dict(ok=not self.violations, violations=self.violations, nontrivial=bool(nontrivial), key=key)
    r.update(extra)
    return r


# ------------------------------------------------------------------------------- building


def load(xml):
  import mujoco

  return mujoco.MjModel.from_xml_string(xml)


def try_load(xml):
  import mujoco

  try:
    return mujoco.MjModel.from_xml_string(xml), None
  except Exception as e:  # compiler rejection: counted, never silently dropped
    return None, str(e)[:200]


def mj_data(mjm, qpos=None, qvel=None, ctrl=None, act=None, mocap_pos=None, mocap_quat=None, qfrc_applied=None, xfrc_applied=None, time=None):
  import mujoco

  d = mujoco.MjData(mjm)
  if qpos is not None:
    d.qpos[:] = qpos
  if qvel is not None:
    d.qvel[:] = qvel
  if ctrl is not None:
    d.ctrl[:] = ctrl
  if act is not None:
    d.act[:] = act
  if mocap_pos is not None:
    d.mocap_pos[:] = mocap_pos
  if mocap_quat is not None:
    d.mocap_quat[:] = mocap_quat
  if qfrc_applied is not None:
    d.qfrc_applied[:] = qfrc_applied
  if xfrc_applied is not None:
    d.xfrc_applied[:] = xfrc_applied
  if time is not None:
    d.time = time
  return d


def mj_warnings(mjd):
  return int(sum(w.number for w in mjd.warning))


def copy_state(mjd, d, world=None):
  """Copy MuJoCo integration inputs into (all worlds or one world of) an MJWarp Data made by make_data."""
  import warp as wp

  def put(arr, val):
    a = arr.numpy()
    val = np.asarray(val, dtype=a.dtype).reshape(a.shape[1:])
    if world is None:
      a[:] = val
    else:
      a[world] = val
    wp.copy(arr, wp.array(a, dtype=arr.dtype, shape=arr.shape))

  put(d.qpos, mjd.qpos)
  put(d.qvel, mjd.qvel)
  if mjd.ctrl.size:
    put(d.ctrl, mjd.ctrl)
  if mjd.act.size:
    put(d.act, mjd.act)
  put(d.qfrc_applied, mjd.qfrc_applied)
  put(d.xfrc_applied, mjd.xfrc_applied)
  if mjd.mocap_pos.size:
    put(d.mocap_pos, mjd.mocap_pos)
    put(d.mocap_quat, mjd.mocap_quat)
  put(d.qacc_warmstart, mjd.qacc_warmstart)
  t = d.time.numpy()
  if world is None:
    t[:] = mjd.time
  else:
    t[world] = mjd.time
  wp.copy(d.time, wp.array(t, dtype=float))


def set_field(arr, val, world=None):
  """Assign a numpy value into a warp array (whole or one leading index)."""
  import warp as wp

  a = arr.numpy()
  if world is None:
    a[...] = np.asarray(val, dtype=a.dtype).reshape(a.shape) if np.asarray(val).size == a.size else val
  else:
    a[world] = val
  wp.copy(arr, wp.array(a, dtype=arr.dtype, shape=arr.shape))


# ------------------------------------------------------------------------------- contacts / rows


def mjw_contacts(d, world=0):
  """Contacts of one world as a list of dicts (float64)."""
  n = int(d.nacon.numpy()[0])
  n = min(n, d.naconmax)
  if n == 0:
    return []
  wid = d.contact.worldid.numpy()[:n]
  sel = np.nonzero(wid == world)[0]
  c = d.contact
  f = dict(
    dist=c.dist.numpy()[:n],
    pos=c.pos.numpy()[:n],
    frame=c.frame.numpy()[:n],
    includemargin=c.includemargin.numpy()[:n],
    friction=c.friction.numpy()[:n],
    solref=c.solref.numpy()[:n],
    solreffriction=c.solreffriction.numpy()[:n],
    solimp=c.solimp.numpy()[:n],
    dim=c.dim.numpy()[:n],
    geom=c.geom.numpy()[:n],
    efc_address=c.efc_address.numpy()[:n],
  )
  if hasattr(c, "type"):
    f["type"] = c.type.numpy()[:n]
  out = []
  for i in sel:
    out.append({k: np.array(v[i], dtype=np.float64 if v.dtype.kind == "f" else v.dtype) for k, v in f.items()} | {"index": int(i)})
  return out


def mj_contacts(mjd):
  out = []
  for i in range(mjd.ncon):
    c = mjd.contact[i]
    out.append(
      dict(
        dist=np.float64(c.dist),
        pos=np.array(c.pos),
        frame=np.array(c.frame).reshape(3, 3),
        includemargin=np.float64(c.includemargin),
        friction=np.array(c.friction),
        solref=np.array(c.solref),
        solreffriction=np.array(c.solreffriction),
        solimp=np.array(c.solimp),
        dim=int(c.dim),
        geom=np.array(c.geom),
        efc_address=int(c.efc_address),
        index=i,
      )
    )
  return out


def contact_key(c):
  g = tuple(int(x) for x in c["geom"])
  return g


def efc_dense(m, d, world=0):
  """(nefc, dict of per-row arrays incl. dense J [nefc, nv]) for one world, float64."""
  nefc = int(d.nefc.numpy()[world])
  nefc = min(nefc, d.njmax)
  nv = m.nv
  e = d.efc
  J = np.zeros((nefc, nv))
  if m.is_sparse:
    rownnz = e.J_rownnz.numpy()[world]
    rowadr = e.J_rowadr.numpy()[world]
    colind = e.J_colind.numpy()[world, 0]
    Jv = e.J.numpy()[world, 0]
    for r in range(nefc):
      a, k = int(rowadr[r]), int(rownnz[r])
      J[r, colind[a : a + k]] = Jv[a : a + k]
  else:
    J[:] = e.J.numpy()[world, :nefc, :nv]
  rows = dict(
    J=J,
    type=e.type.numpy()[world, :nefc].copy(),
    id=e.id.numpy()[world, :nefc].copy(),
    pos=e.pos.numpy()[world, :nefc].astype(np.float64),
    margin=e.margin.numpy()[world, :nefc].astype(np.float64),
    D=e.D.numpy()[world, :nefc].astype(np.float64),
    vel=e.vel.numpy()[world, :nefc].astype(np.float64),
    aref=e.aref.numpy()[world, :nefc].astype(np.float64),
    frictionloss=e.frictionloss.numpy()[world, :nefc].astype(np.float64),
    force=e.force.numpy()[world, :nefc].astype(np.float64),
    state=e.state.numpy()[world, :nefc].copy(),
  )
  return nefc, rows


def mj_efc_dense(mjm, mjd):
  import mujoco

  nefc, nv = mjd.nefc, mjm.nv
  if mujoco.mj_isSparse(mjm):
    J = np.zeros((nefc, nv))
    for r in range(nefc):
      a, k = mjd.efc_J_rowadr[r], mjd.efc_J_rownnz[r]
      J[r, mjd.efc_J_colind[a : a + k]] = mjd.efc_J[a : a + k]
  else:
    J = np.array(mjd.efc_J).reshape(nefc, nv) if nefc else np.zeros((0, nv))
  return nefc, dict(
    J=J,
    type=np.array(mjd.efc_type),
    id=np.array(mjd.efc_id),
    pos=np.array(mjd.efc_pos),
    margin=np.array(mjd.efc_margin),
    D=np.array(mjd.efc_D),
    vel=np.array(mjd.efc_vel),
    aref=np.array(mjd.efc_aref),
    frictionloss=np.array(mjd.efc_frictionloss),
    force=np.array(mjd.efc_force),
    state=np.array(mjd.efc_state),
  )


def overflow_bits(d):
  return d.overflow.numpy().copy()


def full_m(mjm, d, world=0):
  """Dense inertia matrix of one world from MJWarp's own CSR storage (same layout as mjd.M), float64."""
  import mujoco

  out = np.zeros((mjm.nv, mjm.nv))
  mujoco.mju_sym2dense(out, d.M.numpy()[world].astype(np.float64), mjm.M_rownnz, mjm.M_rowadr, mjm.M_colind)
  return out


def mj_full_m(mjm, mjd):
  import mujoco

  out = np.zeros((mjm.nv, mjm.nv))
  if hasattr(mjd, "qM"):
    mujoco.mj_fullM(mjm, out, mjd.qM)
  else:  # MuJoCo >= 3.13: inertia stored in CSR form as mjd.M
    mujoco.mju_sym2dense(out, np.asarray(mjd.M, dtype=np.float64), mjm.M_rownnz, mjm.M_rowadr, mjm.M_colind)
  return out
