"""C34 Ray casting returns the nearest eligible hit; BVH path == brute-force path.

Space (enumerated, nothing sampled):
  * scenes: one geom of every type (plane finite / infinite, sphere, capsule, ellipsoid, cylinder, box, convex
    asymmetric mesh, non-convex mesh, hfield) in an identity pose (sizes = lattice spacing, so lattice rays start
    inside, outside and exactly on the surface, graze and run parallel to faces) and in a generic pose; 3-geom
    scenes (static geom + geom on a body + geom on its child body, distinct groups, plus a transparent shell and a
    geom with a transparent material).
  * rays: origins on a 5x5x5 lattice x the 26 lattice directions (unnormalised), shared by both worlds or per world.
  * filters (3-geom scenes, 3x3x3 lattice): geomgroup None + 8 masks x flg_static {T,F} x bodyexclude {-1, every body}.
  * nworld=2, world 1 in a different configuration; brute-force path and BVH path (render context, all groups
    enabled, refit to the current Data); ray() vs rays().
Oracle: mj_ray (dist, geomid, normal) per ray and world; BVH vs brute force.
Boundary rule: a disagreeing ray is "don't care" only if MuJoCo's own answer changes when that ray is moved by 2e-5
(grazing / on-surface / edge rays).
"""

import itertools

import numpy as np

from mc import space, util

ID = "C34"
LEVEL = "exploration"
RULE = (
  "enumerate scenes (every geom type x 2 poses; 3-geom type triples) x lattice rays (5^3 origins x 26 directions) x "
  "filters (9 group masks x static flag x excluded body); every ray is compared with mj_ray and BVH vs brute force; "
  "non-trivial = the reference has both hits and misses and >=1 hit per present geom type; distinct = hash of the spec"
)
BOUNDS = {
  "quick": "10 single-geom types x 2 poses (3250 rays x 2 worlds each); 10 three-geom scenes x 72 filter settings x 702 rays",
  "thorough": "same singles with a 7^3 lattice; all 120 three-geom type triples x 72 filter settings",
}
ASSUMPTIONS = [
  "MuJoCo C 3.13 mj_ray is the reference; class f32 on dist (relative to 1+dist) and normal; geom id exact",
  "boundary rule on MuJoCo's testimony only: a mismatching ray is excluded iff mj_ray's own (geomid, dist) changes under a 2e-5 shift of the ray",
  "BVH path: render context built with all six geom groups enabled and refit to the Data (the default context only contains groups 0-2)",
  "flex geoms are out of scope here (C40); CPU backend only",
]
BUDGET = {"quick": 600, "thorough": 3000}

TYPES = ("plane", "planeinf", "sphere", "capsule", "ellipsoid", "cylinder", "box", "mesh", "meshnc", "hfield")
S = 0.3  # lattice spacing and canonical geom size

ASSET = (
  "<asset>"
  '<mesh name="wedge" vertex="0 0 0  0.6 0 0  0 0.5 0  0 0 0.7  0.5 0.4 0.1"/>'
  # non-convex L-shaped prism with explicit faces (outward orientation)
  '<mesh name="ell" vertex="0 0 0  0.6 0 0  0.6 0.3 0  0.3 0.3 0  0.3 0.6 0  0 0.6 0  0 0 0.3  0.6 0 0.3  0.6 0.3 0.3  0.3 0.3 0.3  0.3 0.6 0.3  0 0.6 0.3" '
  'face="0 3 1  1 3 2  0 5 3  3 5 4  6 7 9  7 8 9  6 9 11  9 10 11  0 1 7  0 7 6  1 2 8  1 8 7  2 3 9  2 9 8  3 4 10  3 10 9  4 5 11  4 11 10  5 0 6  5 6 11"/>'
  '<hfield name="hf" nrow="4" ncol="5" size="0.6 0.45 0.3 0.15" elevation="0.1 0.5 0.9 0.3 0.0  0.7 0.2 0.4 1.0 0.6  0.3 0.8 0.1 0.5 0.9  0.0 0.4 0.6 0.2 0.7"/>'
  '<material name="ghostmat" rgba="0.5 0.5 0.5 0"/>'
  '<material name="solidmat" rgba="0.2 0.6 0.3 1"/>'
  "</asset>"
)


def geom_xml(t, name, group=0, pos="0 0 0", quat="1 0 0 0", extra=""):
  a = f'name="{name}" group="{group}" pos="{pos}" quat="{quat}" {extra}'
  if t == "plane":
    return f'<geom {a} type="plane" size="{2 * S} {S} 0.1"/>'
  if t == "planeinf":
    return f'<geom {a} type="plane" size="0 0 0.1"/>'
  if t == "sphere":
    return f'<geom {a} type="sphere" size="{S}"/>'
  if t == "capsule":
    return f'<geom {a} type="capsule" size="{S} {S}"/>'
  if t == "ellipsoid":
    return f'<geom {a} type="ellipsoid" size="{S} {2 * S} {0.5 * S}"/>'
  if t == "cylinder":
    return f'<geom {a} type="cylinder" size="{S} {S}"/>'
  if t == "box":
    return f'<geom {a} type="box" size="{S} {2 * S} {S}"/>'
  if t == "mesh":
    return f'<geom {a} type="mesh" mesh="wedge"/>'
  if t == "meshnc":
    return f'<geom {a} type="mesh" mesh="ell"/>'
  if t == "hfield":
    return f'<geom {a} type="hfield" hfield="hf"/>'
  raise ValueError(t)


STATIC_ONLY = ("plane", "planeinf", "hfield")


def single_xml(t, pose, variant):
  p, q = ((0, 0, 0), (1, 0, 0, 0)) if pose == "id" else space.pose_of(1, variant)
  p = tuple(0.5 * x for x in p)
  if t in STATIC_ONLY:
    # static geom; a second (moving) small sphere keeps nv > 0 and gives world 1 a different scene
    g = geom_xml(t, "g0", pos=space.fmt(p), quat=space.fmt(q))
    return (
      f'<mujoco><compiler angle="radian"/>{ASSET}<worldbody>{g}'
      '<body name="b1" pos="0.45 0.45 0.45"><joint name="j1" type="slide" axis="0 0 1"/><geom name="g1" type="sphere" size="0.1"/></body>'
      "</worldbody></mujoco>"
    )
  g = geom_xml(t, "g0")
  return (
    f'<mujoco><compiler angle="radian"/>{ASSET}<worldbody>'
    f'<body name="b1" pos="{space.fmt(p)}" quat="{space.fmt(q)}"><joint name="j1" type="ball"/>{g}</body>'
    "</worldbody></mujoco>"
  )


def triple_xml(types, variant):
  t0, t1, t2 = types
  p0, q0 = space.pose_of(0, variant)
  p1, q1 = space.pose_of(1, variant)
  p2, q2 = space.pose_of(2, variant)
  f = space.fmt
  g0 = geom_xml(t0, "g0", group=variant % 2, pos=f(tuple(-1.2 * x for x in p0)), quat=f(q0))
  # moving geoms: static-only types are replaced by their nearest movable relative (box for planes, mesh for hfield)
  mv = {"plane": "box", "planeinf": "box", "hfield": "mesh"}
  g1 = geom_xml(mv.get(t1, t1), "g1", group=2 + variant % 2)
  g2 = geom_xml(mv.get(t2, t2), "g2", group=4 + variant % 2, extra='material="solidmat"' if variant % 2 else "")
  return (
    f'<mujoco><compiler angle="radian"/>{ASSET}<worldbody>'
    f"{g0}"
    '<geom name="ghost" type="sphere" size="0.75" rgba="1 0 0 0" group="1"/>'
    '<geom name="ghost2" type="box" size="0.2 0.2 0.2" pos="0.1 0.1 -0.2" material="ghostmat" group="3"/>'
    f'<body name="b1" pos="{f(tuple(0.9 * x for x in p1))}" quat="{f(q1)}"><joint name="j1" type="hinge" axis="{f(space.axis_of(1, variant))}"/>{g1}'
    f'<body name="b2" pos="{f(tuple(1.5 * x for x in p2))}" quat="{f(q2)}"><joint name="j2" type="ball"/>{g2}</body></body>'
    '<body name="b3" pos="0.5 -0.5 0.5"><geom name="g3" type="sphere" size="0.12" group="5"/></body>'  # static (welded) child body
    "</worldbody></mujoco>"
  )


MASKS = (
  None,
  (1, 1, 1, 1, 1, 1),
  (0, 0, 0, 0, 0, 0),
  (1, 0, 0, 0, 0, 0),
  (0, 1, 0, 1, 0, 1),
  (1, 0, 1, 0, 1, 0),
  (0, 0, 1, 1, 0, 0),
  (0, 0, 0, 0, 1, 1),
  (1, 1, 0, 0, 0, 1),
)

DIRS = [d for d in itertools.product((-1, 0, 1), repeat=3) if d != (0, 0, 0)]


def lattice(n):
  h = (n - 1) // 2
  return [tuple(S * k for k in ijk) for ijk in itertools.product(range(-h, h + 1), repeat=3)]


def scenarios(tier, seed):
  variant = seed % 4
  out = []
  n = 5 if tier == "quick" else 7
  for t in TYPES:
    for pose in ("id", "gen"):
      for share in (1, 0):
        if share == 0 and pose == "id":
          continue
        for unit in (1, 0):
          out.append(dict(fam="single", type=t, pose=pose, variant=variant, lattice=n, share=share, unit=unit))
  if tier == "quick":
    triples = [(TYPES[i], TYPES[(i + 1) % 10], TYPES[(i + 3) % 10]) for i in range(10)]
  else:
    triples = list(itertools.combinations(TYPES, 3))
  for tr in triples:
    for static in (1, 0):
      for unit in (1, 0):
        out.append(dict(fam="triple", types=list(tr), variant=variant, lattice=3, static=static, unit=unit))
  return out


# ------------------------------------------------------------------------------------------- execution


def build_xml(scn):
  if scn["fam"] == "single":
    return single_xml(scn["type"], scn["pose"], scn["variant"])
  return triple_xml(scn["types"], scn["variant"])


def _mj_cast(mjm, mjd, pnt, vec, mask, static, exclude):
  import mujoco

  gid = np.zeros(1, dtype=np.int32)
  nrm = np.zeros(3)
  gg = None if mask is None else np.array(mask, dtype=np.uint8)
  dist = mujoco.mj_ray(mjm, mjd, pnt, vec, gg, int(static), int(exclude), gid, nrm)
  return float(dist), int(gid[0]), nrm.copy()


def _boundary(mjm, mjd, p, v, mask, static, exclude, ref):
  """MuJoCo's own testimony that the ray is a boundary case: its answer changes under a 2e-5 shift."""
  d0, g0, n0 = ref
  h = 2e-5
  vn = v / np.linalg.norm(v)
  a = np.cross(vn, [1.0, 0.0, 0.0]) if abs(vn[0]) < 0.9 else np.cross(vn, [0.0, 1.0, 0.0])
  a /= np.linalg.norm(a)
  b = np.cross(vn, a)
  # lattice rays through lattice-sized geoms are often degenerate in two or three ways at once (on the surface *and* through an
  # edge *and* along a face), so the shifts span a 5x5x5 neighbourhood, not just the axes
  shifts = [(h * (i * a + j * b + k * vn), 0.0) for i, j, k in itertools.product((-2, -1, 0, 1, 2), repeat=3) if (i, j, k) != (0, 0, 0)]
  shifts += [(0.0, h * (i * a + j * b)) for i, j in itertools.product((-1, 0, 1), repeat=2) if (i, j) != (0, 0)]
  for dp, dv in shifts:
    d1, g1, n1 = _mj_cast(mjm, mjd, p + dp, v + dv * np.linalg.norm(v), mask, static, exclude)
    if g1 != g0 or abs(d1 - d0) > 1e-3 * (1 + abs(d0)) or np.max(np.abs(n1 - n0)) > 1e-2:
      return True
  return False


def _on_mesh_edge(mjm, mjd, g, hit, tol=2e-6):
  """True if the world point `hit` lies (within tol) on an edge of a triangle of mesh geom g that contains it."""
  mid = int(mjm.geom_dataid[g])
  R, p = mjd.geom_xmat[g].reshape(3, 3), mjd.geom_xpos[g]
  x = R.T @ (hit - p)
  va, fa = int(mjm.mesh_vertadr[mid]), int(mjm.mesh_faceadr[mid])
  V = np.array(mjm.mesh_vert[va : va + int(mjm.mesh_vertnum[mid])], float)
  for f in np.array(mjm.mesh_face[fa : fa + int(mjm.mesh_facenum[mid])]):
    a, b, c = V[f[0]], V[f[1]], V[f[2]]
    n = np.cross(b - a, c - a)
    area = np.linalg.norm(n)
    if area < 1e-12 or abs(np.dot(x - a, n)) / area > tol:
      continue
    w0 = np.dot(np.cross(b - x, c - x), n) / area**2
    w1 = np.dot(np.cross(c - x, a - x), n) / area**2
    w2 = 1.0 - w0 - w1
    if min(w0, w1, w2) > -1e-5 and min(abs(w0), abs(w1), abs(w2)) < 1e-5:
      return True
  return False


def _compare(c, tag, wid, mjm, mjd, P, V, mask, static, exclude, dist, gid, nrm, stats, vsuffix):
  """dist/gid/nrm: MJWarp outputs for the rays (P, V) of one world."""
  nb = 0
  for r in range(len(P)):
    ref = _mj_cast(mjm, mjd, P[r], V[r], mask, static, exclude[r])
    d0, g0, n0 = ref
    stats["hit" if g0 >= 0 else "miss"] += 1
    if g0 >= 0:
      stats["types"].add(int(mjm.geom_type[g0]))
    ok = gid[r] == g0 and abs(dist[r] - d0) <= 2e-5 * (1 + abs(d0))
    okn = ok and (g0 < 0 or np.max(np.abs(nrm[r] - n0)) <= 2e-4)
    if ok and okn:
      continue
    if _boundary(mjm, mjd, P[r], V[r], mask, static, exclude[r], ref):
      nb += 1
      continue
    gt = "none" if g0 < 0 else str(int(mjm.geom_type[g0]))
    wt = "none" if gid[r] < 0 else str(int(mjm.geom_type[gid[r]]))
    kind = "normal" if ok else ("geomid" if gid[r] != g0 else "dist")
    unit = "" if abs(np.linalg.norm(V[r]) - 1.0) < 1e-6 else ":nonunit_vec"
    qual = ""
    if g0 >= 0 and int(mjm.geom_type[g0]) in (1, 7) and float(np.dot(n0, V[r])) > 0:
      qual = ":ref_hits_back_face"  # the ray leaves the mesh / hfield solid (origin inside it)
    if g0 >= 0 and int(mjm.geom_type[g0]) == 1:
      nl = mjd.geom_xmat[g0].reshape(3, 3).T @ n0
      if np.max(np.abs(nl)) > 1 - 1e-9:
        qual = ":ref_hits_hfield_base_box"  # a face of the hfield's base/side box (axis-aligned local normal), not a surface triangle
    if not qual and g0 >= 0 and int(mjm.geom_type[g0]) == 7 and _on_mesh_edge(mjm, mjd, g0, P[r] + d0 * V[r]):
      qual = ":ref_hit_on_triangle_edge"  # the hit point lies on an edge shared by two (coplanar) triangles
    if not qual and g0 >= 0 and int(mjm.geom_type[g0]) == 3 and gid[r] < 0:
      zl = float((mjd.geom_xmat[g0].reshape(3, 3).T @ (P[r] + d0 * V[r] - mjd.geom_xpos[g0]))[2])
      if abs(abs(zl) - float(mjm.geom_size[g0][1])) <= 2e-6:
        qual = ":ref_hit_on_capsule_seam"  # the hit point lies on the circle where the cylinder meets a cap (smooth surface, no boundary)
    if g0 < 0 and gid[r] >= 0 and int(mjm.geom_type[gid[r]]) in (1, 7) and abs(float(np.dot(nrm[r], V[r]))) < 1e-5 * np.linalg.norm(V[r]):
      qual = ":got_triangle_coplanar_with_ray"
    vk = f"{tag}:{kind}:ref_geomtype={gt}:got_geomtype={wt}{qual}{vsuffix}{unit}"
    stats["viol"].setdefault(vk, [0, None])
    stats["viol"][vk][0] += 1
    if stats["viol"][vk][1] is None:
      stats["viol"][vk][1] = (
      f"{tag} world {wid} ray {r} pnt={np.round(P[r], 4).tolist()} vec={np.round(V[r], 4).tolist()} mask={mask} static={static} exclude={int(exclude[r])}: "
      f"got (dist={dist[r]:.6g}, geom={int(gid[r])}, n={np.round(nrm[r], 4).tolist()}) want (dist={d0:.6g}, geom={g0}, n={np.round(n0, 4).tolist()})"
      )
  stats["boundary"] += nb
  c.nchecked += len(P)


def execute(scn):
  import mujoco
  import warp as wp
  import mujoco_warp as mjw
  from mujoco_warp._src.types import vec6

  xml = build_xml(scn)
  mjm, err = util.try_load(xml)
  if mjm is None:
    return dict(ok=True, nontrivial=False, outcome="rejected_by_compiler", info=err)
  try:
    m = mjw.put_model(mjm)
  except NotImplementedError as e:
    return dict(ok=True, nontrivial=False, outcome="unsupported", info=str(e)[:200])
  c = util.Cmp()
  nworld = 2
  d = mjw.make_data(mjm, nworld=nworld)
  v = scn["variant"]
  # world configurations
  mjds = []
  for w in range(nworld):
    mjd = mujoco.MjData(mjm)
    if w == 1:
      k = 0
      for j in range(mjm.njnt):
        a = mjm.jnt_qposadr[j]
        if mjm.jnt_type[j] == mujoco.mjtJoint.mjJNT_BALL:
          q = np.array(space.QPOS_QUAT[v][2], float)
          mjd.qpos[a : a + 4] = q / np.linalg.norm(q)
        else:
          mjd.qpos[a] = space.QPOS_SCALAR[v][1 + k % 2]
          k += 1
    mujoco.mj_kinematics(mjm, mjd)
    mjds.append(mjd)
    util.copy_state(mjd, d, world=w)
  mjw.kinematics(m, d)
  rc = mjw.create_render_context(mjm, nworld=nworld, enabled_geom_groups=[0, 1, 2, 3, 4, 5])
  mjw.refit_bvh(m, d, rc)

  origins = lattice(scn["lattice"])
  P0 = np.array([o for o in origins for _ in DIRS], dtype=np.float64)
  V0 = np.array([dd for _ in origins for dd in DIRS], dtype=np.float64)
  nray = len(P0)
  if scn.get("unit", 0):
    V0 = V0 / np.linalg.norm(V0, axis=1, keepdims=True)
  share = scn.get("share", 1)
  if share:
    Pw = [P0, P0]
    Vw = [V0, V0]
    pnt = wp.array(P0.astype(np.float32).reshape(1, nray, 3), dtype=wp.vec3)
    vec = wp.array(V0.astype(np.float32).reshape(1, nray, 3), dtype=wp.vec3)
  else:
    P1 = P0 + np.array([0.07, -0.04, 0.11])
    V1 = V0[::-1] * 1.7 + np.array([0.13, 0.05, -0.09])
    if scn.get("unit", 0):
      V1 = V1 / np.linalg.norm(V1, axis=1, keepdims=True)
    Pw, Vw = [P0, P1], [V0, V1]
    pnt = wp.array(np.stack([P0, P1]).astype(np.float32), dtype=wp.vec3)
    vec = wp.array(np.stack([V0, V1]).astype(np.float32), dtype=wp.vec3)
  # the oracle must see the float32-rounded rays the kernels see
  Pw = [p.astype(np.float32).astype(np.float64) for p in Pw]
  Vw = [x.astype(np.float32).astype(np.float64) for x in Vw]

  if scn["fam"] == "single":
    settings = [(None, 1, -1)]
  else:
    settings = [(mk, scn["static"], ex) for mk in MASKS for ex in [-1] + list(range(mjm.nbody))]
  stats = dict(hit=0, miss=0, boundary=0, types=set(), viol={})
  dist = wp.zeros((nworld, nray), dtype=float)
  gid = wp.zeros((nworld, nray), dtype=int)
  nrm = wp.zeros((nworld, nray), dtype=wp.vec3)
  for si, (mask, static, ex) in enumerate(settings):
    gg = vec6(-1, -1, -1, -1, -1, -1) if mask is None else vec6(*[float(x) for x in mask])
    if ex == -1 and scn["fam"] == "triple" and si == 0:
      # per-ray exclusion: cycle over all bodies within one call
      exc = np.array([(r % (mjm.nbody + 1)) - 1 for r in range(nray)], dtype=np.int32)
    else:
      exc = np.full(nray, ex, dtype=np.int32)
    exw = wp.array(exc, dtype=int)
    vs = "" if mask is None and static and ex == -1 and not np.any(exc != -1) else ":filtered"
    res = {}
    for path, ctx in (("brute", None), ("bvh", rc)):
      dist.fill_(-7.0)
      gid.fill_(-7)
      mjw.rays(m, d, pnt, vec, gg, bool(static), exw, dist, gid, nrm, ctx)
      res[path] = (dist.numpy().astype(np.float64), gid.numpy().copy(), nrm.numpy().astype(np.float64))
    for w in range(nworld):
      for path in ("brute", "bvh"):
        dd, gi, nn = res[path]
        _compare(c, f"{path}_vs_mj_ray", w, mjm, mjds[w], Pw[w], Vw[w], mask, static, exc, dd[w], gi[w], nn[w], stats, vs)
    # single-ray entry point agrees with the batch (first, middle, last ray)
    if si == 0:
      for r in (0, nray // 2, nray - 1):
        p1 = wp.array(np.stack([Pw[w][r] for w in range(nworld)]).astype(np.float32).reshape(nworld, 1, 3), dtype=wp.vec3)
        v1 = wp.array(np.stack([Vw[w][r] for w in range(nworld)]).astype(np.float32).reshape(nworld, 1, 3), dtype=wp.vec3)
        for path, ctx in (("brute", None), ("bvh", rc)):
          d1, g1, n1 = mjw.ray(m, d, p1, v1, gg, bool(static), int(exc[r]), ctx)
          c.bits(f"ray_vs_rays:{path}:dist", d1.numpy()[:, 0], res[path][0][:, r].astype(np.float32), vkey=f"ray_vs_rays:{path}")
          c.equal(f"ray_vs_rays:{path}:geomid", g1.numpy()[:, 0], res[path][1][:, r], vkey=f"ray_vs_rays:{path}")
  for vk in sorted(stats["viol"]):
    n, what = stats["viol"][vk]
    c.fail(vk, f"[{n} rays] {what}")
  present = set(int(t) for t in mjm.geom_type)
  # half of every filter setting's evaluations are the BVH path: count hits once per (world, path)
  nontrivial = stats["hit"] > 0 and stats["miss"] > 0 and (scn["fam"] == "triple" or int(mjm.geom_type[0]) in stats["types"])
  info = dict(
    nray=nray, settings=len(settings), hit=stats["hit"], miss=stats["miss"], boundary=stats["boundary"],
    types_hit=sorted(stats["types"]), types_present=sorted(present),
  )  # fmt: skip
  return c.result(nontrivial=nontrivial, key=util.sha(scn), info=info, counts=dict(rays_compared=stats["hit"] + stats["miss"], boundary_rays=stats["boundary"]))
