"""C25 Solver termination is correctly reported and transparent.

Space: iteration limit L x tolerance x solver x (cone, Jacobian) x both loop forms (graph_conditional on/off) x
all 27 assignments of 3 situations to the 3 worlds of a batch.  The situations are states of one model:
  A  nothing touches anything (nefc = 0; the loop still runs one iteration),
  B  two violated joint limits (converges in 2-4 iterations),
  C  a two-box stack sliding on a plane plus a joint limit (Newton 4-6, CG 40-70 iterations),
so worlds of one batch converge at different iterations.

Oracle (integer / bit exact, no tolerance): let n*_s be the iteration count of situation s in an unlimited
(L = 200) solo run.  With limit L: solver_niter = min(L, n*_s) <= L, ITERATIONS overflow bit <=> L < n*_s;
for L >= n*_s the result equals the unlimited result bit for bit (the first iterations are identical);
world w of any mixed batch under either loop form equals the same world of the homogeneous batch (s,s,s) of its
situation bit for bit (qacc, qfrc_constraint, efc.force, efc.state, Ma, niter, overflow) - iterating on for other
worlds is transparent; the homogeneous batch has identical worlds and equals the solo run (niter / bit exactly;
floats bit for bit, reported separately as "batch size changes the result").
Second family: opt.tolerance and stat.meaninertia batched per world with every combination of batch sizes {1,2,4} (nworld=4):
world w stops exactly like world w of an unbatched Model holding its values (niter, bit and outputs bit for bit).
"""

import itertools

import numpy as np

from mc import util

ID = "C25"
LEVEL = "exploration"
RULE = (
  "enumerate (solver, cone, jacobian, tolerance, L); each scenario runs all 27 world assignments of 3 situations under both "
  "loop forms plus solo and unlimited reference runs; non-trivial = the situations' unlimited iteration counts are not all "
  "equal and >=1 world has constraints; distinct = (configuration, assignment, loop form)"
)
BOUNDS = {
  "quick": "L in {0,1,2,3,5,8,50} x tol in {1e-2,1e-6,1e-10} x {Newton,CG} x pyramidal dense; 27 assignments x 2 loop forms each; plus opt.tolerance x stat.meaninertia batch sizes {1,2,4}^2 (nworld=4, 2 situation assignments, 2 loop forms)",
  "thorough": "same L, tol, solvers x {pyramidal,elliptic} x {dense,sparse}; 27 assignments x 2 loop forms each",
}
ASSUMPTIONS = [
  "fresh Data per run (the overflow word is sticky by design)",
  "unlimited = 200 iterations; a situation still not converged then counts as n* = infinity",
  "on the CPU backend graph_conditional=True is a Python while-loop over the same iteration function",
  "L = 0: no tolerance test is ever evaluated; the bit is expected for worlds that have constraint rows (reported under its own key)",
]
BUDGET = {"quick": 400, "thorough": 3000}

LS = (0, 1, 2, 3, 5, 8, 50)
TOLS = ("1e-2", "1e-6", "1e-10")
LBIG = 200
ITER_BIT = 1 << 9

XML = """<mujoco><option solver="{solver}" cone="{cone}" iterations="{L}" tolerance="{tol}" jacobian="{jac}"/>
<worldbody><geom type="plane" size="3 3 .1" friction="0.8"/>
<body name="b1" pos="0 0 0.098"><freejoint/><geom type="box" size="0.1 0.1 0.1" mass="1" friction="0.8"/></body>
<body name="b2" pos="0.02 0.01 0.294"><freejoint/><geom type="box" size="0.08 0.08 0.1" mass="3" friction="0.6"/></body>
<body name="p" pos="1 0 1"><joint name="h" type="hinge" axis="0 1 0" limited="true" range="-0.5 0.5" damping="0.1"/><geom type="capsule" size="0.03 0.2" pos="0 0 -0.2"/>
<body pos="0 0 -0.4"><joint name="h2" type="hinge" axis="0 1 0" limited="true" range="-0.3 0.3"/><geom type="capsule" size="0.03 0.15" pos="0 0 -0.15"/></body></body>
</worldbody></mujoco>"""


def scenarios(tier, seed):
  v = seed % 4
  combos = [("pyramidal", "dense")] if tier == "quick" else [("pyramidal", "dense"), ("elliptic", "dense"), ("pyramidal", "sparse"), ("elliptic", "sparse")]
  out = []
  for cone, jac in combos:
    for solver in ("Newton", "CG"):
      for tol in TOLS:
        for L in LS:
          out.append(dict(solver=solver, cone=cone, jac=jac, tol=tol, L=L, variant=v))
  # per-world termination parameters: opt.tolerance and stat.meaninertia batched with every combination of batch sizes {1,2,4}
  for cone, jac in combos:
    for solver in ("Newton", "CG"):
      for nt, nm in itertools.product((1, 2, 4), repeat=2):
        if (nt, nm) != (1, 1):
          out.append(dict(fam="scaled", solver=solver, cone=cone, jac=jac, tol="1e-6", L=200, ntol=nt, nmi=nm, variant=v))
  return out


SCALED_TOL = (1e-6, 1e-3, 1e-9, 1e-5)
SCALED_MI = (1.0, 40.0, 0.02, 6.0)  # factors on the compiled meaninertia
SCALED_ASSIGN = ("CCCC", "CBCB")


def _exec_scaled(scn):
  """World w of a Model with batched opt.tolerance / stat.meaninertia stops exactly like world w of an unbatched Model holding
  world w's values (same batch, same situations): niter, ITERATIONS bit and every solver output bit for bit."""
  import mujoco
  import warp as wp

  import mujoco_warp as mjw

  cfg = f"{scn['solver']}:{scn['cone']}:{scn['jac']}"
  mjm = mujoco.MjModel.from_xml_string(XML.format(solver=scn["solver"], cone=scn["cone"], jac=scn["jac"], tol=scn["tol"], L=scn["L"]))
  st = states(mjm, scn["variant"])
  c = util.Cmp()
  nt, nm = scn["ntol"], scn["nmi"]

  def model(tols, mis, gc):
    m = mjw.put_model(mjm)
    m.opt.graph_conditional = gc
    m.opt.warn_overflow = False
    m.opt.tolerance = wp.array(np.array(tols, np.float32), dtype=float)
    m.stat.meaninertia = wp.array(np.array(mis, np.float32) * np.float32(mjm.stat.meaninertia), dtype=float)
    return m

  niters = set()
  for assign in SCALED_ASSIGN:
    for gc in (True, False):
      form = "while" if gc else "fixed"
      got = _run(mjw, model(SCALED_TOL[:nt], SCALED_MI[:nm], gc), mjm, st, list(assign))
      for w in range(4):
        ref = _run(mjw, model([SCALED_TOL[w % nt]], [SCALED_MI[w % nm]], gc), mjm, st, list(assign))[w]
        niters.add(ref["niter"])
        k = _same(got[w], ref)
        c.true(
          f"tolerance batch {nt} x meaninertia batch {nm}, situations {assign}, {form}: world {w} vs unbatched Model with its values",
          k is None,
          "" if k is None else f"differs in {k}: {got[w][k] if k in ('niter', 'bit', 'nefc') else got[w][k][:4]} vs {ref[k] if k in ('niter', 'bit', 'nefc') else ref[k][:4]}",
          vkey=f"batched_termination_parameter:{'niter_or_bit' if k in ('niter', 'bit') else 'result'}:{cfg}",
        )
  return c.result(nontrivial=len(niters) > 1, key=util.sha(scn), info=dict(niters=sorted(niters)), counts=dict(extra_evaluations=15))


def states(mjm, v):
  """Situation -> (qpos, qvel); the value alphabet (velocities, penetrations) depends on the seed variant."""
  q0 = np.array(mjm.qpos0)
  v0 = np.zeros(mjm.nv)
  s = (1.0, 0.8, 1.2, 0.9)[v]
  A = q0.copy()
  A[2] = 1.0
  A[9] = 2.0
  B = A.copy()
  B[14] = 0.6 * s
  B[15] = -0.4 * s
  C = q0.copy()
  C[14] = 0.55 * s
  C[2] -= 0.001 * v
  vA = v0.copy()
  vA[:3] = (0.3 * s, -0.2, 0.1)
  vC = v0.copy()
  vC[0] = 0.5 * s
  vC[6] = -0.4
  vC[11] = 2.0 * s
  return {"A": (A, vA), "B": (B, vA), "C": (C, vC)}


def _run(mjw, m, mjm, st, assign):
  d = mjw.make_data(mjm, nworld=len(assign))
  d.qpos.assign(np.stack([st[k][0] for k in assign]).astype(np.float32))
  d.qvel.assign(np.stack([st[k][1] for k in assign]).astype(np.float32))
  mjw.forward(m, d)
  out = []
  niter = d.solver_niter.numpy()
  ovf = d.overflow.numpy()
  nefc = d.nefc.numpy()
  qacc, qfc, Ma = d.qacc.numpy(), d.qfrc_constraint.numpy(), d.efc.Ma.numpy()
  force, state = d.efc.force.numpy(), d.efc.state.numpy()
  for w in range(len(assign)):
    n = int(nefc[w])
    out.append(
      dict(
        niter=int(niter[w]),
        bit=bool(ovf[w] & ITER_BIT),
        other_overflow=int(ovf[w] & ~ITER_BIT & ~(1 << 10)),
        nefc=n,
        qacc=qacc[w].copy(),
        qfrc_constraint=qfc[w].copy(),
        Ma=Ma[w].copy(),
        force=force[w, :n].copy(),
        state=state[w, :n].copy(),
      )
    )
  return out


def _same(a, b):
  for k in ("niter", "bit", "nefc"):
    if a[k] != b[k]:
      return k
  for k in ("qacc", "qfrc_constraint", "Ma", "force", "state"):
    if a[k].shape != b[k].shape or a[k].tobytes() != b[k].tobytes():
      return k
  return None


def execute(scn):
  import mujoco
  import mujoco_warp as mjw
  from mujoco_warp._src import types

  assert int(types.OverflowType.ITERATIONS) == ITER_BIT
  if scn.get("fam") == "scaled":
    return _exec_scaled(scn)
  L = scn["L"]
  cfg = f"{scn['solver']}:{scn['cone']}:{scn['jac']}"

  def model(iters, gc):
    mjm = mujoco.MjModel.from_xml_string(XML.format(solver=scn["solver"], cone=scn["cone"], jac=scn["jac"], tol=scn["tol"], L=iters))
    m = mjw.put_model(mjm)
    m.opt.graph_conditional = gc
    m.opt.warn_overflow = False
    return mjm, m

  mjm, m_big = model(LBIG, True)
  st = states(mjm, scn["variant"])
  c = util.Cmp()
  # unlimited reference per situation
  ref = {s: _run(mjw, m_big, mjm, st, [s])[0] for s in "ABC"}
  nstar = {s: (ref[s]["niter"] if not ref[s]["bit"] else 10**9) for s in "ABC"}
  for s in "ABC":
    c.true(f"unlimited {s}: niter<=L", ref[s]["niter"] <= LBIG, f"{ref[s]['niter']}", vkey=f"niter_exceeds_limit:{cfg}")
  models = {gc: model(L, gc)[1] for gc in (True, False)}
  nevals = 0
  solo = {}
  for gc in (True, False):
    form = "while" if gc else "fixed"
    for s in "ABC":
      r = _run(mjw, models[gc], mjm, st, [s])[0]
      solo[gc, s] = r
      tag = f"solo {s} L={L} tol={scn['tol']} {form}"
      c.true(f"{tag}: niter <= L", r["niter"] <= L, f"niter={r['niter']}", vkey=f"niter_exceeds_limit:{cfg}")
      c.equal(f"{tag}: niter == min(L, n*={nstar[s]})", r["niter"], min(L, nstar[s]), vkey=f"niter_not_min_L_nstar:{cfg}")
      want_bit = L < nstar[s]
      if L == 0:
        if r["nefc"] > 0:
          c.true(f"{tag}: ITERATIONS bit (nefc={r['nefc']}, no tolerance test met)", r["bit"], "bit not set although the world stopped unconverged", vkey=f"iterations_bit_missing_at_L0:{cfg}")
      else:
        c.true(f"{tag}: ITERATIONS bit == (L < n*={nstar[s]})", r["bit"] == want_bit, f"bit={r['bit']}", vkey=f"iterations_bit_wrong:{cfg}")
      if L >= nstar[s]:
        k = _same(dict(r, bit=False), dict(ref[s], bit=False))
        c.true(f"{tag}: equals the unlimited result", k is None, f"differs in {k}", vkey=f"limit_above_nstar_changes_result:{cfg}")
    k = None
  for s in "ABC":
    k = _same(solo[True, s], solo[False, s])
    c.true(f"solo {s} L={L}: while-loop form == fixed-loop form", k is None, f"differs in {k}", vkey=f"loop_forms_differ:{cfg}")

  def show(x):
    return x if np.isscalar(x) or isinstance(x, (bool, int)) else x[:4]

  # homogeneous batches (s,s,s): all worlds converge together.  They are the reference for the mixed batches, so that
  # "other worlds keep iterating" is isolated from "the batch has another size than the solo run".
  homo = {}
  for gc in (True, False):
    form = "while" if gc else "fixed"
    for s in "ABC":
      res = _run(mjw, models[gc], mjm, st, [s, s, s])
      homo[gc, s] = res
      for w in (1, 2):
        k = _same(res[w], res[0])
        c.true(f"batch {s}{s}{s} L={L} {form}: world {w} == world 0", k is None, f"differs in {k}", vkey=f"identical_worlds_differ:{cfg}:{form}")
      k = _same(res[0], solo[gc, s])
      if k in ("niter", "bit", "nefc"):
        c.fail(f"batch_termination_differs_from_solo:{cfg}:{form}", f"batch {s}{s}{s} L={L} tol={scn['tol']} {form}: {k} {res[0][k]} vs solo {solo[gc, s][k]}")
      elif k is not None:
        c.fail(
          f"batch_size_changes_result:{cfg}",
          f"situation {s} L={L} tol={scn['tol']} {form}: world 0 of a 3-world batch of identical worlds differs from the 1-world run in {k}: {show(res[0][k])} vs {show(solo[gc, s][k])}",
        )
  for assign in itertools.product("ABC", repeat=3):
    for gc in (True, False):
      form = "while" if gc else "fixed"
      res = _run(mjw, models[gc], mjm, st, list(assign)) if len(set(assign)) > 1 else homo[gc, assign[0]]
      nevals += 1
      for w, s in enumerate(assign):
        k = _same(res[w], homo[gc, s][w])
        if k is not None:
          c.fail(
            f"other_worlds_change_result:{cfg}:{form}",
            f"assignment {''.join(assign)} L={L} tol={scn['tol']} {form}: world {w} (situation {s}, n*={nstar[s]}) differs from the same world of the batch {s}{s}{s} in {k}: {show(res[w][k])} vs {show(homo[gc, s][w][k])}",
          )
        c.nchecked += 1
  nontrivial = len(set(nstar.values())) > 1 and any(ref[s]["nefc"] > 0 for s in "ABC")
  return c.result(
    nontrivial=nontrivial,
    key=util.sha(scn),
    info=dict(nstar={s: (n if n < 10**9 else "inf") for s, n in nstar.items()}, nefc={s: ref[s]["nefc"] for s in "ABC"}, checked=c.nchecked),
    counts=dict(extra_evaluations=nevals - 1, extra_distinct=(nevals - 1) if nontrivial else 0),
  )
