"""C35 Rendered depth and segmentation match ray casting.

Space (enumerated): a "zoo" scene holding one geom of every type (plane, hfield static; sphere, capsule, ellipsoid, cylinder, box,
convex mesh, non-convex mesh on a rotating body and its child), geoms spread over groups 0-5, in 3 cyclic arrangements;
3 cameras (two world-fixed, one on the rotating body) x camera model {fovy, intrinsic (focal + sensorsize), intrinsic with
principal point, orthographic} x resolution {1x1, 3x2, 8x8} (from the model or via cam_res) x nworld {1, 2 (different pose)} x
rendered groups {all, 0-2, odd}; back-face culling and pre-computed rays alternate. Every pixel of every camera and world is compared.
Oracle 1 (the property): the pixel's ray = cam_xpos + t * cam_xmat @ ray_table[pixel], cast with the brute-force mjw.rays among the
rendered groups: depth == dist * cos(angle to optical axis), segmentation == (geom, mjOBJ_GEOM) or (-1, -1); silhouette pixels fall
under the boundary rule (mj_ray's own answer changes under a 2e-5 shift).
Oracle 2 (the ray table itself): a point on pixel (px, py)'s ray must project, through MuJoCo's own camprojection sensor, onto
(px + 0.5, py + 0.5); orthographic cameras must not send every pixel along the same ray.
get_depth / get_segmentation return the same buffers (scaled / clamped).
Render histories (one RenderContext rendered repeatedly): every sequence of length <= 3 over the scene changes {N: nothing, B: the
joints of every world move to the next pose, C: the mocap rig carrying the two world cameras moves/rotates}; after each change
kinematics / camlight / refit_bvh / render run on the SAME context and every pixel of every camera and world of that frame is held
against oracle 1 (and the accessors). The length-3 histories are enumerated; the shorter ones are their prefixes (each frame is
checked). x camera model (quick: two per history, cycling), two worlds with different poses; rendered groups / arrangement / culling /
rays / rgb cycle.
Camera selections (cam_active of create_render_context): the three cameras have different fovy / focal / orthographic extent and, here,
three different resolutions; every ordered selection without repetition of the 3 cameras (15: singles, pairs and triples in every
order) given as indices and as names, and every non-empty subset given as a boolean mask (7), x camera model (quick: two per selection and form, all four per ordered selection). Slot s of the context
renders camera act[s] (the driver's own list, not the context's): its pixels are held against oracle 1 cast from THAT camera's pose and
against oracle 2 through THAT camera's camprojection sensor, with that camera's resolution.
"""

import itertools

import numpy as np

from mc import space, util
from mc.props import c34

ID = "C35"
LEVEL = "exploration"
RULE = (
  "enumerate arrangements x camera model x resolution x nworld x rendered groups; every pixel of every camera in every world is "
  "compared with the brute-force ray cast of its own ray; histories: all sequences of <= 3 scene changes over {nothing, move bodies, "
  "move cameras} re-rendered on one context, every frame compared; camera selections: every ordered selection of the 3 (different) "
  "cameras as indices / names and every subset as a boolean mask x camera model, each slot compared with its true camera; non-trivial = at least one pixel of some camera hits a geom; "
  "distinct = hash of the spec"
)
BOUNDS = {
  "quick": "3 arrangements x 4 camera models x 3 resolutions x nworld {1,2} x 3 group sets = 216 single-frame scenarios, 3 cameras each; "
  "+ 27 histories (3 changes over {N,B,C}; all shorter ones are prefixes) x 2 of the 4 camera models (pairs cycling) at 8x8, nworld 2 = 54 scenarios of 4 frames; "
  "+ 37 cam_active selections (15 ordered selections as indices, 15 as names, 7 boolean masks) x 2 of the 4 camera models (index and name form of one selection together see all 4) = 74 scenarios at (3x2, 2x3, 4x3)",
  "thorough": "9 arrangements x 4 camera models x 4 resolutions (+16x12) x nworld {1,2} x 3 group sets x both culling flags; "
  "+ 27 histories x 4 camera models x 3 group sets x nworld {1,2} x resolutions {3x2, 8x8}; "
  "+ 37 cam_active selections x 4 camera models x nworld {1,2} x resolutions {3x2, 8x8} (third camera (w+1) x (h+1))",
}
ASSUMPTIONS = [
  "oracle 1 is mjw.rays without a render context (C34 checks that function against mj_ray); depth class f32, ids exact; a depth-only "
  "disagreement with mjw.rays (same geom) is referred to mj_ray itself, same tolerance (grazing rays: the two float32 casts can sit on "
  "opposite sides of the float64 distance)",
  "cameras are kept outside every geom, so back-face culling on/off must give the same image",
  "oracle 2 uses MuJoCo's camprojection sensor, which ignores the principal point: cameras with a principal point are only checked by oracle 1",
  "intrinsic cameras get a sensor with the aspect ratio of the rendered image (a mismatch is cropped by MJWarp and stretched by MuJoCo's projection; not part of the property)",
  "no OpenGL in the sandbox: MuJoCo's own renderer is not available as a reference; rgb/shading is out of scope of the property",
  "no transparent geoms in the scene (rays() skips alpha=0 geoms, the renderer draws them); flex is out of scope (C40)",
  "cam_active selections hold no camera twice (a repeated camera is not excluded by the API but adds nothing to the property)",
  "histories change the state only (qpos, mocap pose), followed by kinematics, com_pos, camlight, refit_bvh; the model, the context options and the resolution stay fixed within a history",
]
BUDGET = {"quick": 600, "thorough": 3000}

SLOT_TYPES = ("sphere", "capsule", "ellipsoid", "cylinder", "box", "mesh", "meshnc", "hfield")
CAM_KINDS = ("fovy", "intrinsic", "principal", "ortho")
RESOLUTIONS = ((1, 1), (3, 2), (8, 8), (16, 12))
GROUPSETS = ((0, 1, 2, 3, 4, 5), (0, 1, 2), (1, 3, 5))
HIST_LETTERS = "NBC"  # scene change before a re-render: Nothing, Bodies (joint poses), Cameras (mocap rig of cA and cB)
# (hinge of b1, slide of b2) taken by the k-th "B" of a history; one row per world (world 0 starts at 0, world 1 at the pose in execute)
BODY_POSES = (((0.8, 0.1), (-1.9, -0.04), (2.7, 0.07)), ((-0.6, -0.03), (2.2, 0.09), (-2.5, 0.0)))
# (translation, rotation axis, angle) of the camera rig taken by the k-th "C" (world w takes entry (k + w) % 3): the cameras stay > 2.5
# away from the scene centre and above the floor, i.e. outside every geom
RIG_POSES = (((0.15, -0.1, 0.2), (0, 0, 1), 0.35), ((-0.2, 0.1, -0.1), (0, 0, 1), -0.5), ((0.05, 0.2, 0.1), (1, 0, 0), 0.08))


def cam_attrs(kind, res, i, aspect):
  r = f'resolution="{res[0]} {res[1]}"' if res else ""
  ss = f"{0.024 * aspect:.6g} 0.024"  # the sensor has the aspect ratio of the rendered image (MuJoCo and MJWarp treat a mismatch differently)
  if kind == "fovy":
    return f'{r} fovy="{(38, 55, 70)[i]}"'
  if kind == "intrinsic":
    return f'{r} sensorsize="{ss}" focal="{(0.03, 0.024, 0.018)[i]} {(0.028, 0.026, 0.02)[i]}"'
  if kind == "principal":
    return f'{r} sensorsize="{ss}" focal="0.03 0.028" principal="{(0.004, -0.003, 0.002)[i]} {(-0.002, 0.003, 0.0045)[i]}"'
  return f'{r} projection="orthographic" fovy="{(2.4, 3.0, 1.6)[i]}"'


def cam_resolutions(scn):
  """Resolution of each camera of the MODEL. Camera 1 renders the transposed resolution, so pixel offsets of the cameras differ; in the
  camera-selection scenarios the third camera differs from both (a slot rendered with another camera's resolution shows)."""
  w, h = scn["res"]
  return [(w, h), (h, w), (w + 1, h + 1) if "act" in scn else (w, h)]


def cam_selections():
  """Every cam_active of 3 cameras: ordered selections without repetition as indices and as names, subsets as boolean masks."""
  out = []
  for n in (1, 2, 3):
    for sel in itertools.permutations(range(3), n):
      out.append(("int", list(sel)))
      out.append(("name", list(sel)))
  for n in (1, 2, 3):
    for sel in itertools.combinations(range(3), n):
      out.append(("bool", list(sel)))
  return out


def build_xml(scn):
  v, arr = scn["variant"], scn["arr"]
  kind = scn["kind"]
  rs = cam_resolutions(scn)
  res = [r if scn["resmode"] == "model" else None for r in rs]
  aspect = [r[0] / r[1] for r in rs]
  ring = []
  n = len(SLOT_TYPES)
  for k in range(n):
    t = SLOT_TYPES[(k + arr) % n]
    ang = 2 * np.pi * k / n + 0.2 * v
    rad = 1.15 + 0.1 * (k % 3)
    p = (rad * np.cos(ang), rad * np.sin(ang), 0.45 + 0.12 * (k % 4))
    q = space._QUAT[(k + v) % len(space._QUAT)]
    ring.append((t, k, space.fmt(tuple(float(x) for x in p)), space.fmt(q)))
  static, moving, child = [], [], []
  for t, k, p, q in ring:
    # group by type (not by slot) and a fixed model extent below: the render kernel is specialised on the set of rendered geom
    # types and on znear = vis.map.znear * stat.extent, so this keeps the number of kernel variants (CPU compiles) at 12
    g = c34.geom_xml(t, f"g_{t}", group=SLOT_TYPES.index(t) % 6, pos=p, quat=q)
    (static if t in c34.STATIC_ONLY else (child if k % 3 == 2 else moving)).append(g)
  return (
    f'<mujoco><compiler angle="radian"/>{c34.ASSET}<visual><map znear="0.01"/></visual><statistic extent="4" center="0 0 0.5"/><worldbody>'
    '<geom name="floor" type="plane" size="1.6 1.3 0.1" pos="0 0 -0.05" group="0"/>'
    + "".join(static)
    + '<body name="rig" mocap="true">'  # at the origin: the "world" cameras can be moved between frames of a history
    + f'<camera name="cA" pos="0.2 -3.4 1.5" xyaxes="1 0.05 0 0 0.35 1" {cam_attrs(kind, res[0], 0, aspect[0])}/>'
    + f'<camera name="cB" pos="2.4 2.2 2.6" xyaxes="-0.7 0.75 0 -0.45 -0.4 0.8" {cam_attrs(kind, res[1], 1, aspect[1])}/>'
    + "</body>"
    + '<body name="b1" pos="0 0 0.1"><joint name="j1" type="hinge" axis="0 0 1"/>'
    + "".join(moving)
    + f'<camera name="cC" pos="0 0 0.55" xyaxes="0 -1 0 0.1 0 1" {cam_attrs(kind, res[2], 2, aspect[2])}/>'
    + '<body name="b2" pos="0 0 0.05"><joint name="j2" type="slide" axis="0 0 1"/>'
    + "".join(child)
    + "</body></body>"
    '<body name="probe" mocap="true"><site name="probe" size="0.001" rgba="0 0 0 0"/></body>'
    "</worldbody><sensor>"
    + "".join(f'<camprojection site="probe" camera="{c}"/>' for c in ("cA", "cB", "cC"))
    + "</sensor></mujoco>"
  )


def scenarios(tier, seed):
  variant = seed % 4
  out = []
  arrs = (0, 3, 5) if tier == "quick" else tuple(range(8)) + (0,)
  ress = RESOLUTIONS[:3] if tier == "quick" else RESOLUTIONS
  idx = 0
  for ai, arr in enumerate(arrs):
    for kind in CAM_KINDS:
      for res in ress:
        for nworld in (1, 2):
          for gs in range(len(GROUPSETS)):
            culls = (idx % 2,) if tier == "quick" else (0, 1)
            for cull in culls:
              out.append(
                dict(arr=arr + (8 if ai == 8 else 0), kind=kind, res=list(res), resmode=("model", "arg")[(idx // 2) % 2], nworld=nworld, groups=gs,
                     cull=cull, precomputed=(idx // 3) % 2, variant=variant, rgb=(idx // 5) % 2)
              )  # fmt: skip
            idx += 1
  # render histories on one context: every sequence of 3 scene changes (shorter sequences are prefixes; every frame is checked)
  hists = ["".join(h) for h in itertools.product(HIST_LETTERS, repeat=3)]
  hress = ((8, 8),) if tier == "quick" else ((3, 2), (8, 8))
  hworlds = (2,) if tier == "quick" else (1, 2)
  hgroups = (None,) if tier == "quick" else tuple(range(len(GROUPSETS)))
  idx = 0
  for hi, hist in enumerate(hists):
    # quick: each history with two of the four camera models (the pair cycles through all pairs); thorough: all four
    kinds = [CAM_KINDS[(hi + j * (1 + (hi // 4) % 3)) % 4] for j in range(2)] if tier == "quick" else CAM_KINDS
    for kind in kinds:
      for res in hress:
        for nworld in hworlds:
          for gs in hgroups:
            out.append(
              dict(arr=(0, 3, 5)[(idx // 2) % 3], kind=kind, res=list(res), resmode=("model", "arg")[(idx // 2) % 2], nworld=nworld,
                   groups=idx % len(GROUPSETS) if gs is None else gs, cull=idx % 2, precomputed=(idx // 3) % 2, variant=variant,
                   rgb=(idx // 5) % 2, hist=hist)
            )  # fmt: skip
            idx += 1
  # camera selections: slot != camera id, fewer slots than cameras, another order
  sress = ((3, 2),) if tier == "quick" else ((3, 2), (8, 8))
  sworlds = (None,) if tier == "quick" else (1, 2)
  idx = 0
  for si, (form, act) in enumerate(cam_selections()):
    # quick: two of the four camera models per selection; the index form and the name form of one ordered selection (consecutive
    # entries) take complementary pairs, so every ordered selection meets all four; the pair of a boolean mask cycles. thorough: all four
    kinds = [CAM_KINDS[(si + (si // 2) % 2 + 2 * j) % 4] for j in range(2)] if tier == "quick" else CAM_KINDS
    for ki, kind in enumerate(kinds):
      for res in sress:
        for nw in sworlds:
          out.append(
            dict(arr=(0, 3, 5)[idx % 3], kind=kind, res=list(res), resmode=("model", "arg")[(si // 2 + si + ki) % 2], nworld=1 + (idx // 8) % 2 if nw is None else nw,
                 groups=(idx // 3) % len(GROUPSETS), cull=idx % 2, precomputed=int(idx % 5 != 4), variant=variant, rgb=(idx // 7) % 2,
                 act=act, actform=form)
          )  # fmt: skip
          idx += 1
  return out


def _axis_angle_quat(axis, angle):
  a = np.asarray(axis, dtype=np.float64)
  a = a / np.linalg.norm(a)
  return np.concatenate([[np.cos(0.5 * angle)], np.sin(0.5 * angle) * a])


def execute(scn):
  import copy

  import mujoco
  import warp as wp
  import mujoco_warp as mjw
  from mujoco_warp._src.types import vec6

  scn = dict(scn)
  scn["arr"] = scn["arr"] % 8
  key = util.sha(scn)
  hist = scn.get("hist", "")
  xml = build_xml(scn)
  mjm, err = util.try_load(xml)
  if mjm is None:
    return dict(ok=True, nontrivial=False, outcome="rejected_by_compiler", info=err)
  try:
    m = mjw.put_model(mjm)
  except NotImplementedError as e:
    return dict(ok=True, nontrivial=False, outcome="unsupported", info=str(e)[:200])
  c = util.Cmp()
  ca = util.Cmp()  # accessor checks of all frames (reported after the pixel classes, once per vkey)
  nworld = scn["nworld"]
  v = scn["variant"]
  probe_mid = int(mjm.body_mocapid[mujoco.mj_name2id(mjm, mujoco.mjtObj.mjOBJ_BODY, "probe")])
  rig_mid = int(mjm.body_mocapid[mujoco.mj_name2id(mjm, mujoco.mjtObj.mjOBJ_BODY, "rig")])
  d = mjw.make_data(mjm, nworld=nworld)
  mjds = []
  for w in range(nworld):
    mjd = mujoco.MjData(mjm)
    if w == 1:
      mjd.qpos[0] = (0.9, -0.7, 1.3, -1.1)[v]
      mjd.qpos[1] = (0.12, -0.05, 0.08, 0.1)[v]
    mjds.append(mjd)
  groups = list(GROUPSETS[scn["groups"]])
  kw = dict(nworld=nworld, render_rgb=bool(scn["rgb"]), render_depth=True, render_seg=True, enabled_geom_groups=groups,
            enable_backface_culling=bool(scn["cull"]), use_precomputed_rays=bool(scn["precomputed"]))  # fmt: skip
  rs_cam = cam_resolutions(scn)
  # slot s of the context renders camera act[s]; everything below is per slot, the true camera's data is looked up through act
  act = list(scn.get("act", range(mjm.ncam)))
  cam_names = ("cA", "cB", "cC")
  if "act" in scn:
    form = scn["actform"]
    kw["cam_active"] = [cam_names[a] for a in act] if form == "name" else [i in act for i in range(mjm.ncam)] if form == "bool" else list(act)
  rs = [rs_cam[a] for a in act]
  if scn["resmode"] == "arg":
    kw["cam_res"] = [tuple(r) for r in rs]
  rc = mjw.create_render_context(mjm, **kw)
  ncam = len(act)
  npxs = [r[0] * r[1] for r in rs]
  offs = [0] + list(np.cumsum(npxs))
  nray = int(offs[-1])
  cam_of = np.concatenate([np.full(n, ci) for ci, n in enumerate(npxs)])
  mask = tuple(1 if g in groups else 0 for g in range(6))
  gg = vec6(*[float(x) for x in mask])
  ortho = scn["kind"] == "ortho"
  seltag = f" with cam_active={kw['cam_active']}" if "act" in scn else ""
  kindkey = scn["kind"]
  hits = miss = nb = nref = vacated = 0
  types_seen = set()
  viol = {}
  prev = None  # (rendered seg, rendered depth, reference geom) of the previous frame of the history
  nB = nC = 0

  # frame 0 is the first render of the context; every further frame applies one scene change and renders on the same context
  for fi, change in enumerate([""] + list(hist)):
    if change == "B":
      for w in range(nworld):
        hinge, slide = BODY_POSES[w][nB % 3]
        mjds[w].qpos[0] = hinge + 0.15 * v
        mjds[w].qpos[1] = slide
      nB += 1
    elif change == "C":
      for w in range(nworld):
        pos, axis, ang = RIG_POSES[(nC + w) % 3]
        mjds[w].mocap_pos[rig_mid] = pos
        mjds[w].mocap_quat[rig_mid] = _axis_angle_quat(axis, ang + (0.05 * v if axis[2] else 0.0))
      nC += 1
    for w in range(nworld):
      mujoco.mj_forward(mjm, mjds[w])
      util.copy_state(mjds[w], d, world=w)
    mjw.kinematics(m, d)
    mjw.com_pos(m, d)
    mjw.camlight(m, d)
    mjw.refit_bvh(m, d, rc)
    mjw.render(m, d, rc)
    depth = rc.depth_data.numpy().astype(np.float64)
    seg = rc.seg_data.numpy()
    table = rc.ray.numpy().astype(np.float64)
    ftag = "" if not hist else f"frame {fi} of history '{hist}' (after {hist[:fi] or 'the first render'}): "

    if fi == 0:
      c.equal("cam_res", rc.cam_res.numpy(), np.array(rs), vkey="context:cam_res")
      c.equal("cam_id_map", rc.cam_id_map.numpy(), np.array(act), vkey="context:cam_id_map")
      if not c.true("buffers", depth.shape == (nworld, nray) and table.shape[0] == nray, f"depth {depth.shape} rays {table.shape}", vkey="context:buffer_shape"):
        return c.result(nontrivial=False, key=key)

      # ---- oracle 2: the ray table against MuJoCo's own projection (the table belongs to the context: checked at its first frame)
      if ortho:
        if npxs[0] > 1:
          same = all(np.array_equal(table[offs[ci]], table[offs[ci] + k]) for ci in range(ncam) for k in range(npxs[ci]))
          c.true("ray_table:orthographic", not same, "every pixel of an orthographic camera is cast along the same ray from the same origin (constant image)", vkey="ray_table:orthographic:all_pixels_same_ray")
      elif scn["kind"] != "principal" and not hist:
        mjd = mjds[0]
        mjp = copy.deepcopy(mjm)  # camprojection works in the resolution stored in the model: give it the rendered one
        mjp.cam_resolution[:] = np.array(rs_cam)
        worst = 0.0
        for ci in range(ncam):
          W = rs[ci][0]
          for k in range(npxs[ci]):
            px, py = k % W, k // W
            cid = act[ci]
            dirw = mjd.cam_xmat[cid].reshape(3, 3) @ table[offs[ci] + k]
            pd = mujoco.MjData(mjp)
            pd.qpos[:] = mjd.qpos
            pd.mocap_pos[probe_mid] = mjd.cam_xpos[cid] + 1.7 * dirw
            mujoco.mj_forward(mjp, pd)
            got = np.array(pd.sensordata[2 * cid : 2 * cid + 2])
            worst = max(worst, float(np.max(np.abs(got - np.array([px + 0.5, py + 0.5])))))
        c.true("ray_table:projection", worst < 2e-3 * max(rs_cam[0]), f"a point on a pixel's ray projects {worst:.4g} px away from the pixel centre of its camera{seltag} (MuJoCo camprojection)", vkey=f"ray_table:projection:{kindkey}")

    # ---- oracle 1: every pixel against the brute-force cast of its own ray
    cam_xpos = d.cam_xpos.numpy().astype(np.float64)
    cam_xmat = d.cam_xmat.numpy().astype(np.float64)
    P = np.zeros((nworld, nray, 3))
    V = np.zeros((nworld, nray, 3))
    for w in range(nworld):
      for ci in range(ncam):
        sl = slice(offs[ci], offs[ci + 1])
        P[w, sl] = cam_xpos[w, act[ci]]
        V[w, sl] = table[sl] @ cam_xmat[w, act[ci]].T
    pnt = wp.array(P.astype(np.float32), dtype=wp.vec3)
    vec = wp.array(V.astype(np.float32), dtype=wp.vec3)
    exw = wp.array(np.full(nray, -1, dtype=np.int32), dtype=int)
    rd = wp.zeros((nworld, nray), dtype=float)
    rg = wp.zeros((nworld, nray), dtype=int)
    rn = wp.zeros((nworld, nray), dtype=wp.vec3)
    mjw.rays(m, d, pnt, vec, gg, True, exw, rd, rg, rn, None)
    rd, rg, rn = rd.numpy().astype(np.float64), rg.numpy(), rn.numpy().astype(np.float64)
    Pf, Vf = P.astype(np.float32).astype(np.float64), V.astype(np.float32).astype(np.float64)
    for w in range(nworld):
      for r in range(nray):
        g0, d0 = int(rg[w, r]), float(rd[w, r])
        cosz = -table[r][2]
        want_depth = d0 * cosz if g0 >= 0 else 0.0
        want_seg = (g0, int(mujoco.mjtObj.mjOBJ_GEOM)) if g0 >= 0 else (-1, -1)
        if g0 >= 0:
          hits += 1
          types_seen.add(int(mjm.geom_type[g0]))
        else:
          miss += 1
          if prev is not None and prev[2][w, r] >= 0:
            vacated += 1  # the pixel showed a geom in the previous frame and is background now
        got_seg = (int(seg[w, r][0]), int(seg[w, r][1]))
        ok = got_seg == want_seg and abs(depth[w, r] - want_depth) <= 2e-5 * (1 + abs(want_depth))
        if ok:
          continue
        ref = c34._mj_cast(mjm, mjds[w], Pf[w, r], Vf[w, r], mask, 1, -1)
        if c34._boundary(mjm, mjds[w], Pf[w, r], Vf[w, r], mask, 1, -1, ref):
          nb += 1
          continue
        if got_seg == want_seg and ref[1] == g0 and abs(depth[w, r] - ref[0] * cosz) <= 2e-5 * (1 + abs(ref[0] * cosz)):
          # depth-only disagreement between two float32 casts (render and mjw.rays) of a grazing ray, each on its own side of the
          # float64 answer: MuJoCo's mj_ray is the higher authority (C34 holds mjw.rays against it) and decides with the same tolerance
          nref += 1
          continue
        gt = "none" if g0 < 0 else str(int(mjm.geom_type[g0]))
        wt = "none" if got_seg[0] < 0 else str(int(mjm.geom_type[got_seg[0]])) if got_seg[1] == 5 and got_seg[0] < mjm.ngeom else "bad"
        kind = "seg" if got_seg != want_seg else "depth"
        note = ""
        if prev is not None and prev[2][w, r] != g0:
          # classification only: the nearest hit of this pixel changed since the previous frame, yet the image shows the old value
          pseg = (int(prev[0][w, r][0]), int(prev[0][w, r][1]))
          if kind == "seg" and got_seg == pseg:
            kind, note = "seg_stale", f"; the previous frame rendered seg={pseg} at this pixel (stale value kept)"
          elif kind == "depth" and depth[w, r] == prev[1][w, r]:
            kind, note = "depth_stale", f"; the previous frame rendered depth={prev[1][w, r]:.6g} at this pixel (stale value kept)"
        qual = ""
        if g0 >= 0 and int(mjm.geom_type[g0]) == 1:
          nl = mjds[w].geom_xmat[g0].reshape(3, 3).T @ rn[w, r]
          if np.max(np.abs(nl)) > 1 - 1e-6:
            qual = ":ray_hits_hfield_base_box"
        if g0 >= 0 and int(mjm.geom_type[g0]) in (1, 7) and float(np.dot(rn[w, r], Vf[w, r])) > 0:
          qual = ":ray_hits_back_face"
        vk = f"render_vs_rays:{kind}:ray_geomtype={gt}:render_geomtype={wt}{qual}"
        viol.setdefault(vk, [0, None])
        viol[vk][0] += 1
        if viol[vk][1] is None:
          ci = int(cam_of[r])
          k = r - offs[ci]
          viol[vk][1] = (
            f"{ftag}world {w} camera {act[ci]}{seltag and f' (slot {ci}{seltag})'} pixel ({k % rs[ci][0]},{k // rs[ci][0]}): render depth={depth[w, r]:.6g} seg={got_seg}; ray cast dist={d0:.6g} "
            f"-> depth={want_depth:.6g} seg={want_seg}; mj_ray=({ref[0]:.6g}, {ref[1]}){note}"
          )
    c.nchecked += nworld * nray
    prev = (seg.copy(), depth.copy(), rg.copy())

    # ---- accessors
    for ci in range(ncam):
      W, H = rs[ci]
      npx = npxs[ci]
      out = wp.zeros((nworld, H, W), dtype=float)
      scale = 3.0
      mjw.get_depth(rc, ci, scale, out)
      want = np.clip(rc.depth_data.numpy()[:, offs[ci] : offs[ci + 1]] / np.float32(scale), 0.0, 1.0).reshape(nworld, H, W)
      ca.close(f"{ftag}get_depth:cam{ci}", out.numpy(), want, 1e-6, vkey="get_depth")
      so = wp.zeros((nworld, H, W), dtype=wp.vec2i)
      mjw.get_segmentation(rc, ci, so)
      ca.equal(f"{ftag}get_segmentation:cam{ci}", so.numpy().reshape(nworld, npx, 2), seg[:, offs[ci] : offs[ci + 1]].reshape(nworld, npx, 2), vkey="get_segmentation")

  for vk in sorted(viol):
    c.fail(vk, f"[{viol[vk][0]} pixels] {viol[vk][1]}")
  c.nchecked += ca.nchecked
  seen = set()
  for x in ca.violations:
    if x["vkey"] not in seen:
      seen.add(x["vkey"])
      c.fail(x["vkey"], x["what"])
  nontrivial = hits > 0
  nframes = 1 + len(hist)
  info = dict(pixels=nframes * nworld * nray, hits=hits, miss=miss, boundary=nb, types=sorted(types_seen))
  counts = dict(pixels_compared=nframes * nworld * nray, boundary_pixels=nb, depth_decided_by_mj_ray=nref)
  if hist:
    info.update(frames=nframes, vacated=vacated)
    counts.update(history_frames=nframes, pixels_vacated_between_frames=vacated)
  return c.result(nontrivial=nontrivial, key=key, info=info, counts=counts)
