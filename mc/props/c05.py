"""C05 Constraint assembly agrees with MuJoCo C.

Space: every DFS-ordered 3-body tree x joint pattern x every feature set of <=k constraint features (connect / weld /
joint equality / tendon equality, each active, compile-time inactive or runtime inactive; dof and tendon friction loss;
hinge / slide / ball / tendon limits violated, inside margin or outside; a contact of every condim, in-margin, in-gap,
adhesive) x cone {pyramidal, elliptic} x jacobian {dense, sparse} x solver {Newton, CG}; two worlds holding two states.
Oracle: mj_forward rows (only where MuJoCo's dense and sparse modes agree with each other, after removing rows whose
Jacobian is identically zero) + structural invariants on MJWarp alone.
"""

import itertools

import numpy as np

from mc import space, util
from mc.refs import conscenes as cs

ID = "C05"
LEVEL = "exploration"
RULE = (
  "enumerate all 3-body trees x joint pattern x every set of <=k feature groups with every option per group; each scenario "
  "runs 2 cones x 2 jacobians x 2 solvers x 2 worlds (two states); non-trivial = MuJoCo's reference has >=1 row with a "
  "non-zero Jacobian that was compared; distinct = canonical hash of the spec"
)
BOUNDS = {
  "quick": "k<=1: all 5 trees x both joint patterns x all options; k=2: all 5 trees x core options (2 per group, 4 contacts), joint pattern alternating with (tree index + feature-set index)",
  "thorough": "k<=2: all 5 trees x both joint patterns x all options; k=3: all 5 trees x core options, joint pattern alternating",
}
ASSUMPTIONS = [
  "MuJoCo C 3.13 (python bindings) is the reference, trusted only where its dense and sparse Jacobian modes agree",
  "rows whose Jacobian is identically zero (max|J| < 1e-6 on a side) are removed from both sides before rows/counts are compared",
  "tolerance classes: J f32 (2e-5; contact rows: 1e-4 + 2*(measured frame and position difference of the matched contacts), and their vel/pos/aref allowances propagate the measured contact geometry difference: rows are compared given the contacts, contact geometry is C04), pos/margin/D/aref/frictionloss/vel f32dyn (2e-4), each relative to 1+max|reference| of the field over the rows of one constraint kind",
  "boundary rule: a limit/contact row whose |pos - margin| < 1e-5 may be present on either side",
  "contacts only between closed-form primitive pairs (plane/sphere/capsule/box vs sphere/capsule); real values from curated alphabets (VERIF_SEED mod 4)",
  "data comes from make_data (fresh) followed by a single forward(); CPU backend only",
  "solver {Newton, CG} only crossed with the sparse Jacobian: the row builders are specialised on (is_sparse, is_sparse and newton) only, so dense+CG runs the same assembly code as dense+Newton",
  "sparse runs use an ample njmax_nnz (njmax*nv) so that row parity stays observable; that make_data's default njmax_nnz covers the rows actually produced is checked separately (capacity:default_njmax_nnz)",
]
BUDGET = {"quick": 900, "thorough": 4000}

TYPE_NAMES = {0: "equality", 1: "friction_dof", 2: "friction_tendon", 3: "limit_joint", 4: "limit_tendon", 5: "contact_frictionless", 6: "contact_pyramidal", 7: "contact_elliptic"}
EQ_NAMES = {0: "eq_connect", 1: "eq_weld", 2: "eq_joint", 3: "eq_tendon", 4: "eq_flex", 5: "eq_flexvert", 6: "eq_flexstrain"}
FIELDS = (("J", "f32"), ("pos", "f32dyn"), ("margin", "f32dyn"), ("D", "f32dyn"), ("aref", "f32dyn"), ("frictionloss", "f32dyn"), ("vel", "f32dyn"))
ZERO_J = 1e-6


# reduced option alphabet used for the larger feature sets (two most different options per group, four contacts)
CORE = {
  "connect": ("body", "site"),
  "weld": ("body", "world"),
  "jeq": ("two", "offrt"),
  "teq": ("one", "two"),
  "dfl": ("one", "all"),
  "tfl": ("fixed", "spatial"),
  "hlim": ("lo", "margin"),
  "slim": ("lo", "hi"),
  "blim": ("viol", "out"),
  "tlim": ("hi", "sp_hi"),
  "con": ("c1w", "c3bb", "c6w", "adhmargin"),
}


def scenarios(tier, seed):
  variant = seed % 4
  trees = space.trees(3)
  out, seen = [], set()

  def add(fsets, pats_of):
    for fi, fs in enumerate(fsets):
      for ti, parents in enumerate(trees):
        for pat in pats_of(ti, fi):
          scn = dict(parents=list(parents), pattern=pat, feats=fs, state=1, variant=variant)
          k = util.sha(scn)
          if cs.applicable(scn) and k not in seen:
            seen.add(k)
            out.append(scn)

  both = lambda ti, fi: (0, 1)
  alt = lambda ti, fi: ((ti + fi) % 2,)
  if tier == "quick":
    add(cs.feature_sets(1), both)
    add(cs.feature_sets(2, options=CORE), alt)
  else:
    add(cs.feature_sets(2), both)
    add(cs.feature_sets(3, options=CORE), alt)
  out.sort(key=lambda s: len(s["feats"]))
  return out


# ------------------------------------------------------------------------------------------- row bookkeeping


def _kind(mjm, t, i):
  if t == 0:
    return EQ_NAMES.get(int(mjm.eq_type[i]), "equality") if 0 <= i < mjm.neq else "equality"
  return TYPE_NAMES.get(int(t), f"type{t}")


def _strip(rows, nefc):
  keep = [r for r in range(nefc) if np.max(np.abs(rows["J"][r])) >= ZERO_J] if nefc else []
  return keep


def _boundary(rows, r):
  t = int(rows["type"][r])
  return t >= 3 and abs(rows["pos"][r] - rows["margin"][r]) < 1e-5


def _group(rows, keep, idmap=None):
  """(type, id) -> ordered list of row indices."""
  g = {}
  for r in keep:
    t, i = int(rows["type"][r]), int(rows["id"][r])
    if idmap is not None and t >= 5:
      i = idmap.get(i, -1000 - i)
    g.setdefault((t, i), []).append(r)
  return g


def _match_contacts(cw, cm):
  """Map MJWarp contact index -> MuJoCo contact index (same geom pair, nearest position)."""
  idmap, used = {}, set()
  for a in cw:
    best, bd = None, 1e9
    for b in cm:
      if b["index"] in used or tuple(int(x) for x in a["geom"]) != tuple(int(x) for x in b["geom"]):
        continue
      dd = float(np.linalg.norm(a["pos"] - b["pos"]))
      if dd < bd:
        best, bd = b, dd
    if best is not None and bd < 1e-3:
      used.add(best["index"])
      idmap[a["index"]] = best["index"]
  return idmap


def _rows_equal(ra, a, rb, b, tolJ=2e-4):
  return np.max(np.abs(ra["J"][a] - rb["J"][b])) <= tolJ * (1 + np.max(np.abs(rb["J"][b])))


def compare_rows(c, pre, mjm, rows_w, keep_w, rows_m, keep_m, idmap, tols=None, geom=None):
  """Compare two row sets as multisets keyed by (type,id) then order / J row.  Returns number of rows compared."""
  gw, gm = _group(rows_w, keep_w, idmap), _group(rows_m, keep_m)
  pairs = {}  # kind -> list of (rw, rm)
  for key in sorted(set(gw) | set(gm)):
    lw, lm = gw.get(key, []), gm.get(key, [])
    kind = _kind(mjm, key[0], key[1])
    if len(lw) != len(lm):
      # boundary rule
      lw2 = [r for r in lw if not _boundary(rows_w, r)]
      lm2 = [r for r in lm if not _boundary(rows_m, r)]
      if len(lw2) == len(lm2):
        lw, lm = lw2, lm2
      else:
        both = ":both_sides_active" if kind.startswith("limit") and len(lm) == 2 and len(lw) == 1 else ""
        c.fail(f"rowcount:{kind}{both}", f"{pre}{kind} id={key[1]}: {len(lw)} rows vs reference {len(lm)}")
        continue
    if not lw:
      continue
    order = list(range(len(lm)))
    if not all(_rows_equal(rows_w, a, rows_m, b) for a, b in zip(lw, lm)) and len(lw) <= 6 and key[0] < 5:
      # property says multiset: look for a permutation of the reference rows that matches by J
      for perm in itertools.permutations(range(len(lm))):
        if all(_rows_equal(rows_w, a, rows_m, lm[p]) for a, p in zip(lw, perm)):
          order = list(perm)
          break
    for k, (a, p) in enumerate(zip(lw, order)):
      kk = kind if key[0] != 7 else (kind + ("_normal" if k == 0 else "_friction"))
      pairs.setdefault(kk, []).append((a, lm[p]))
  n = 0
  for kind, pr in pairs.items():
    ia = [a for a, _ in pr]
    ib = [b for _, b in pr]
    n += len(pr)
    for f, tol in FIELDS:
      t = (tols or {}).get(f, tol)
      atol = 0.0
      if kind.startswith("contact") and tols is None:
        # Rows are compared *given the contacts*: the contact geometry itself (frame, position, distance; C04's subject,
        # accepted there to 2e-5) differs between the engines by the measured dF, dp, dd of the matched contacts, and a
        # contact row is (frame row) x (point Jacobian at the contact position), its reference acceleration
        # -K*I*dist - B*vel.  The measured geometry difference is propagated; index/sign defects give O(0.1).
        dF, dp, dd, v1 = (geom or (0.0, 0.0, 0.0, 0.0))
        tolJ = 1e-4 + 2.0 * (dF + dp)
        if f == "J":
          t, atol = 0.0, tolJ * (1 + float(np.max(np.abs(rows_m["J"][ib]))))
        elif f == "vel":
          atol = tolJ * v1
        elif f == "pos":
          atol = dd
        elif f == "aref" and "KBIP" in rows_m:
          kb = rows_m["KBIP"][ib]
          atol = float(np.max(2.0 * kb[:, 0] * kb[:, 2] * dd + kb[:, 1] * tolJ * v1))
      c.close(f"{pre}{f}[{kind}]", rows_w[f][ia], rows_m[f][ib], t, vkey=f"{f}:{kind}", atol=atol)
  return n


def structural(c, pre, m, d, w, cone_elliptic, rows, nefc):
  """Invariants on MJWarp's own output."""
  ne, nf, nl = int(d.ne.numpy()[w]), int(d.nf.numpy()[w]), int(d.nl.numpy()[w])
  t = rows["type"]
  ok = (
    ne + nf + nl <= nefc
    and np.all(t[:ne] == 0)
    and np.all((t[ne : ne + nf] == 1) | (t[ne : ne + nf] == 2))
    and np.all((t[ne + nf : ne + nf + nl] == 3) | (t[ne + nf : ne + nf + nl] == 4))
    and np.all(t[ne + nf + nl :] >= 5)
  )
  c.true(pre + "grouping", ok, f"rows not grouped E|F|L|C: ne={ne} nf={nf} nl={nl} nefc={nefc} types={t.tolist()}", vkey="struct:grouping")
  # contact addresses
  cons = util.mjw_contacts(d, w)
  seen = {}
  for con in cons:
    dim = int(con["dim"])
    nrow = dim if (cone_elliptic or dim == 1) else 2 * (dim - 1)
    adr = np.asarray(con["efc_address"]).reshape(-1)
    a = adr[:nrow]
    if np.all(a < 0):
      if np.any(adr >= 0):
        c.fail("struct:efc_address", f"{pre}contact {con['index']}: stray address {adr.tolist()}")
      continue
    if np.any(a < 0) or np.any(a >= nefc):
      c.fail("struct:efc_address", f"{pre}contact {con['index']} dim {dim}: addresses {a.tolist()} (nefc {nefc})")
      continue
    if np.any(adr[nrow:] >= 0):
      c.fail("struct:efc_address", f"{pre}contact {con['index']} dim {dim}: address beyond its rows {adr.tolist()}")
    for k, r in enumerate(a):
      r = int(r)
      if r in seen:
        c.fail("struct:efc_address", f"{pre}row {r} claimed by contacts {seen[r]} and {(con['index'], k)}")
      seen[r] = (con["index"], k)
      if t[r] < 5 or int(rows["id"][r]) != con["index"]:
        c.fail("struct:efc_address", f"{pre}contact {con['index']} row {k} -> efc row {r} of type {int(t[r])} id {int(rows['id'][r])}")
  ncrow = int(np.sum(t >= 5))
  c.true(pre + "contact rows covered", ncrow == len(seen), f"{ncrow} contact rows but {len(seen)} addressed by contacts", vkey="struct:efc_address")
  # sparse structure
  if m.is_sparse and nefc:
    rownnz = d.efc.J_rownnz.numpy()[w][:nefc]
    rowadr = d.efc.J_rowadr.numpy()[w][:nefc]
    colind = d.efc.J_colind.numpy()[w, 0]
    spans = sorted((int(a), int(a + k)) for a, k in zip(rowadr, rownnz) if k > 0)
    ok = all(spans[i][1] <= spans[i + 1][0] for i in range(len(spans) - 1)) and (not spans or (spans[0][0] >= 0 and spans[-1][1] <= colind.shape[0]))
    c.true(pre + "rowadr", ok, f"row spans overlap / out of range: {spans}", vkey="struct:sparse_rowadr")
    for r in range(nefc):
      ci = colind[int(rowadr[r]) : int(rowadr[r]) + int(rownnz[r])]
      if ci.size and (ci.min() < 0 or ci.max() >= m.nv or (np.any(np.diff(ci) <= 0) and np.any(np.diff(ci) >= 0))):
        c.fail("struct:sparse_colind", f"{pre}row {r}: colind {ci.tolist()} not strictly monotonic in [0,{m.nv})")
  return cons


def mj_reference(mjm, qpos, qvel, eq_off):
  import mujoco

  mjd = util.mj_data(mjm, qpos=qpos, qvel=qvel)
  for e in eq_off:
    mjd.eq_active[e] = 0
  mujoco.mj_forward(mjm, mjd)
  return mjd


def execute(scn):
  import mujoco
  import mujoco_warp as mjw

  mjm, info = cs.build(scn)
  if mjm is None:
    return dict(ok=True, nontrivial=False, outcome="rejected_by_compiler", info=info)
  c = util.Cmp()
  st = scn.get("state", 1)
  states = [(info["qpos"], info["qvel"]), cs.state_of(scn["pattern"], scn.get("variant", 0), 3 - st)]
  nrows = nconfig = ndegenerate = 0
  for cone in (0, 1):
    mjm.opt.cone = cone
    refs = {}
    for jac in (0, 1):
      mjm.opt.jacobian = jac
      refs[jac] = []
      for qpos, qvel in states:
        mjd = mj_reference(mjm, qpos, qvel, info["eq_off"])
        nefc, rows = util.mj_efc_dense(mjm, mjd)
        rows["KBIP"] = np.array(mjd.efc_KBIP).reshape(-1, 4)
        refs[jac].append(dict(mjd=mjd, nefc=nefc, rows=rows, keep=_strip(rows, nefc), con=util.mj_contacts(mjd), warn=util.mj_warnings(mjd)))
    trusted = []
    for w in range(2):
      a, b = refs[0][w], refs[1][w]
      sc = util.Cmp()
      compare_rows(sc, "", mjm, a["rows"], a["keep"], b["rows"], b["keep"], None, tols={f: 1e-9 for f, _ in FIELDS})
      trusted.append(not sc.violations and not a["warn"] and not b["warn"])
      ndegenerate += not trusted[-1]
    for jac in (0, 1):
      mjm.opt.jacobian = jac
      for solver in (2, 1) if jac else (2,):  # Newton, CG
        mjm.opt.solver = solver
        m = mjw.put_model(mjm)
        if jac:
          if solver == 2:
            d_default = mjw.make_data(mjm)
          d = mjw.make_data(mjm, nworld=2, njmax_nnz=int(d_default.njmax) * mjm.nv)
        else:
          d = mjw.make_data(mjm, nworld=2)
        for w, (qpos, qvel) in enumerate(states):
          util.copy_state(util.mj_data(mjm, qpos=qpos, qvel=qvel), d, world=w)
        if info["eq_off"]:
          ea = d.eq_active.numpy()
          ea[:, info["eq_off"]] = False
          util.set_field(d.eq_active, ea)
        mjw.forward(m, d)
        nconfig += 1
        tag = f"cone{cone}:jac{jac}:sol{solver}:"
        pend = []
        if jac and solver == 2:
          need = max(int(np.sum(d.efc.J_rownnz.numpy()[w][: int(d.nefc.numpy()[w])])) for w in range(2))
          dflt = int(d_default.njmax_nnz)
          c.true(tag + "default njmax_nnz", dflt >= need, f"make_data default njmax_nnz={dflt} < {need} non-zeros produced by this state (rows are dropped silently)", vkey="capacity:default_njmax_nnz")
        for w in range(2):
          pre = f"{tag}w{w}:"
          nefc, rows = util.efc_dense(m, d, w)
          cons = structural(c, pre, m, d, w, cone == 1, rows, nefc)
          ref = refs[jac][w]
          if not trusted[w]:
            continue
          # contacts: same set, then rows by matched id
          cm = ref["con"]
          idmap = _match_contacts(cons, cm)
          if len(cons) != len(cm) or len(idmap) != len(cm):
            c.fail("contacts:set", f"{pre}{len(cons)} contacts vs reference {len(cm)} (matched {len(idmap)})")
            continue
          frames_ok = True
          dF = dp = dd = 0.0
          for cw in cons:
            b = cm[idmap[cw["index"]]]
            dF = max(dF, float(np.max(np.abs(cw["frame"] - b["frame"]))))
            dp = max(dp, float(np.max(np.abs(cw["pos"] - b["pos"]))))
            dd = max(dd, abs(float(cw["dist"]) - float(b["dist"])))
            # a different tangent-basis convention shows as O(0.1..1); float32 geometry as <= 1e-3
            if np.max(np.abs(cw["frame"] - b["frame"])) > 1e-3:
              # rows of a contact are only comparable if both engines use the same contact frame (C04's subject)
              c.fail("contacts:frame", f"{pre}contact geoms {b['geom'].tolist()}: frame {np.round(cw['frame'], 4).tolist()} vs reference {np.round(b['frame'], 4).tolist()}")
              frames_ok = False
            aw = bool(np.asarray(cw["efc_address"]).reshape(-1)[0] >= 0)
            if aw != (b["efc_address"] >= 0) and abs(b["dist"] - b["includemargin"]) > 1e-5:
              c.fail("contacts:active", f"{pre}contact geoms {b['geom'].tolist()} dist {b['dist']:.5g}: row present {aw} vs reference {b['efc_address'] >= 0}")
          if not frames_ok:
            continue
          sc = util.Cmp()
          keep = _strip(rows, nefc)
          geom = (dF, dp, dd, float(np.sum(np.abs(states[w][1]))))
          nrows += compare_rows(sc, pre, mjm, rows, keep, ref["rows"], ref["keep"], idmap, geom=geom)
          # counts after the same removal
          for nm, lo, hi in (("ne", 0, 0), ("nf", 1, 2), ("nl", 3, 4), ("nc", 5, 7)):
            cw_ = sum(1 for r in keep if lo <= rows["type"][r] <= hi and not _boundary(rows, r))
            cm_ = sum(1 for r in ref["keep"] if lo <= ref["rows"]["type"][r] <= hi and not _boundary(ref["rows"], r))
            nboth = sum(1 for v in sc.violations if v["vkey"].endswith(":both_sides_active")) if nm == "nl" else 0
            sfx = ":both_sides_active" if nboth and cm_ - cw_ == nboth else ""
            sc.true(f"{pre}{nm}", cw_ == cm_, f"{cw_} vs reference {cm_} (rows with non-zero Jacobian)", vkey=f"count:{nm}{sfx}")
          pend.append((w, sc))
        # triage of reference-acceleration mismatches on connect/weld rows: does a second forward() on the same Data
        # (com_vel now evaluated at this state) repair them?  Then the first forward() used stale cvel/cdof_dot.
        stale = any(v["vkey"] in ("aref:eq_connect", "aref:eq_weld") for _, sc in pend for v in sc.violations)
        repaired = {}
        if stale:
          mjw.forward(m, d)
          for w, sc in pend:
            nefc, rows = util.efc_dense(m, d, w)
            sc2 = util.Cmp()
            ref = refs[jac][w]
            idmap = _match_contacts(util.mjw_contacts(d, w), ref["con"])
            compare_rows(sc2, "", mjm, rows, _strip(rows, nefc), ref["rows"], ref["keep"], idmap, geom=(1e-3, 1e-3, 1e-4, 10.0))
            repaired[w] = not any(v["vkey"].startswith("aref:") for v in sc2.violations)
        for w, sc in pend:
          for v in sc.violations:
            if v["vkey"] in ("aref:eq_connect", "aref:eq_weld") and repaired.get(w):
              v = dict(v, vkey=v["vkey"] + ":stale_cvel_first_forward", what=v["what"] + " [matches after a 2nd forward() on the same Data]")
            c.fail(v["vkey"], v["what"])
          c.nchecked += sc.nchecked
  ref0 = refs[0][0]
  return c.result(
    nontrivial=nrows > 0 and len(ref0["keep"]) > 0,
    key=util.sha(scn),
    outcome="degenerate" if ndegenerate else "ok",
    info=dict(nv=int(mjm.nv), nefc0=int(ref0["nefc"]), rows_compared=nrows, checked=c.nchecked),
    counts=dict(extra_evaluations=nconfig * 2, degenerate_refs=ndegenerate),
  )
