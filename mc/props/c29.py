"""C29 Sleeping follows MuJoCo's sleep semantics.

Model checking over event histories.  Scenes: three free bodies A (box), B (box), C (sphere) resting on a plane
(`apart`; `stacked` = B rests on A; `connect` / `weld` = A-B equality; `connect_off` = the equality starts inactive;
`tendon` = taut limited spatial tendon A-B; `tendon_slack` = 0.1 mm of slack, a kick tightens it; `motor_stacked` = A carries a motor (policy AUTO_NEVER) and B rests on it), started from the settled
rest pose so that everything falls asleep after mjMINAWAKE steps.  A history places <=2 events from the alphabet
{xfrc on a body (one step), qfrc on a tree (one step), velocity kick above the tolerance, velocity kick below the
tolerance, toggle eq_active, drop C next to (touching) A} at step positions of a 46-step run; ALL placements over the
stated position grid are executed: every trace is one world of a batched mjw.step run and is replayed lock-step by
MuJoCo C (mj_step, mjENBL_SLEEP) with bit-identical float32 inputs.

Oracle 1 (monitor automaton on MJWarp's own observables, every step of every trace):
  frozen      tree asleep before and after a step => its qpos/qvel are bit-unchanged; asleep => qvel == 0 and qacc == 0
  justified   awake -> asleep only if every tree of its constraint island (union-find over the trees touched by each
              row of MJWarp's own efc.J) allows sleeping and was quiet (asleep, or |dof_length*qvel| < sleep_tolerance
              after the step and no applied force) for the mjMINAWAKE-1 observable samples before
  wake        applied xfrc/qfrc => awake after the step; sleeping tree given a velocity => awake after the step;
              the trees touched by one constraint row / one listed contact are all awake or all asleep after the step
              (touching or being linked to an awake tree wakes; islands sleep as a whole)
  bookkeeping tree_awake, ntree_awake, body_awake, body_awake_ind, nbody_awake, dof_awake_ind, nv_awake agree with
              tree_asleep; sleeping trees form closed cycles; trees linked by a row and asleep share one cycle;
              awake counters lie in [-(1+mjMINAWAKE), -1]
Oracle 2 (lock step with MuJoCo C): the awake sets may differ only in runs of <=2 steps that start with one engine
  putting the tree to sleep (float32/float64 threshold crossing, MJWarp tests velocities after and MuJoCo before the
  integration); a run that starts with a wake-up in only one engine, or lasts longer, is a violation; sleeping cycles
  (as partitions) agree whenever the awake sets agree.  If an event lands inside such a run the rest of that trace is
  not comparable (counted as desync, oracle 1 continues).
Second family (schedules): the same traces with the task order of the waking / sleep bookkeeping kernels reversed or
  rotated (mc.world.LaunchHook); integer sleep observables must equal the ascending run exactly.
Two-source family (`twosrc`, `sched2`; scenes `row`, `row_eq`, `row_ten`: A - B - C floating in a row, no gravity, soft
  contacts, B is the sleeper): at step T2 the sleeping B is reached IN ONE STEP by an almost-asleep tree (woken by a tiny
  kick GAP = 1..9 steps earlier, countdown -10..-2; it is teleported into contact with B) and by a freshly woken tree
  (velocity kick in the same step, countdown -11) through a contact (touching for this step only / staying), an
  equality that becomes active, or a tendon limit that becomes active; both body orders (A slow / C slow), i.e. both
  contact orders.  Oracles: lock step with MuJoCo C (awake sets by the rules above AND the countdown of a tree that both
  engines wake in the same step may differ by at most 2), monitor (after the step the woken tree's countdown is at most
  the countdown its contact / tendon sources had when the step began, + 1: it cannot fall asleep before its most awake
  waker), schedules (descending / rotated order of the wake kernels must give the same tree_asleep VALUES at every step).
Chain family (`chain`): the same scenes when the slow tree is asleep (again) at T2 (GAP 10..12, or never kicked): the
  freshly woken tree reaches it only through the middle sleeper (three trees in three sleep cycles).  MuJoCo C wakes the
  whole chain in one step; see /verif/candidates/C29.md (vkey monitor:wake:chain_of_sleepers:*).
"""

import itertools

import numpy as np

from mc import util

ID = "C29"
LEVEL = "model_checking"
WORLD = {"sched": True}
RULE = (
  "scenes x Jacobian x ALL placements of <=2 events (alphabet per scene) on the step-position grid of a 46-step run that starts at "
  "rest and lets everything fall asleep; one scenario = (scene, first event, its step) and all second events after it (one world "
  "each); state = (tree_asleep vector, monitor quiet counters saturated, pending event), transition = one step of one trace; every "
  "trace is validated lock-step against MuJoCo C; non-trivial = some tree fell asleep AND some sleeping tree was woken in the trace "
  "batch; distinct = (scene, jacobian, first event, step, schedule); plus the two-source / chain families on the row scenes: both body "
  "orders x every countdown difference (gap 1..9 / 10..12) x link kind {contact once, contact staying, equality, tendon}"
)
BOUNDS = {
  "quick": "7 scenes dense (+stacked sparse), 7-8 events, 9 positions {0,5,8,9,10,12,16,20,26}, all placements of <=2 events, 46 steps; schedule family: 3 scenes x {desc, rot} on single-event traces; two-source family: 3 row scenes x 2 orders x gaps 1..9 (+chain 10..12, none) in history and {desc, rot} schedule form",
  "thorough": "8 scenes dense (+4 sparse), full alphabet (11-12 events), first event at every step 0..29, second event at every later step within 16 steps, 46 steps; schedule family on all scenes",
}
ASSUMPTIONS = [
  "MuJoCo C 3.13 mj_step with mjENBL_SLEEP is the reference; inputs (rest pose, event values) are float32-exact so both engines see identical inputs",
  "fall-asleep times may differ by <=2 steps (DESIGN C29); wake-ups must coincide",
  "user sleep policies never/allowed/init are rejected by put_model (NotImplementedError) and counted as unsupported; tendon equalities are rejected by MuJoCo's sleeping code and counted as rejected",
  "option iterations=20 for both engines (the compacted CPU solve always runs all iterations; Newton needs <10 here, worlds hitting the limit are counted as iteration_limit_hits); sleep_tolerance=0.01; timestep 0.002",
  "events are gentle (forces below the weight, kicks <= 0.125 m/s) so that float32/float64 contact dynamics stay together",
  "traces are batched as worlds of one Data (batch independence is C09's property)",
  "schedules: serial task orders of whole kernels only (CPU backend)",
]
BUDGET = {"quick": 900, "thorough": 3500}
NSTEP = 46
MINAWAKE = 10
K_AWAKE = -(1 + MINAWAKE)
TOL = 0.01
BOUNDARY = 1e-5
BOUNDARY_WINDOW = 12  # a flipped contact/limit changes the island, which shows as a sleep-time difference within one countdown
QUICK_POS = (0, 5, 8, 9, 10, 12, 16, 20, 26)
SCENES = ("apart", "stacked", "connect", "connect_off", "tendon", "tendon_slack", "motor_stacked", "weld")
QUICK_SCENES = SCENES[:7]
SPARSE_QUICK = ("stacked",)
SPARSE_THOROUGH = ("apart", "stacked", "connect_off", "tendon_slack")
T2_WINDOW = 16  # thorough: second event at most 16 steps after the first (everything is asleep again by then)
WAKE_KERNELS = ("_wake_kernel", "_wake_collision_kernel", "_wake_tendon_kernel", "_wake_equality_kernel", "_update_sleep_trees", "_update_sleep_bodies", "_update_sleep_dofs", "_sweep_awake_trees", "_check_island_can_sleep", "_build_cycles", "_compact_dofs")


ROW_SCENES = ("row", "row_eq", "row_ten")
T2 = 24  # step of the two-source wake-up in the row scenes
GAPS = tuple(range(1, 10))  # the almost-asleep source is woken (tiny kick) GAP steps earlier: its countdown is -10+GAP-1 = -10..-2 at T2
CHAIN_GAPS = (10, 11, 12)  # ... by then it is asleep again: the freshly woken source reaches it only through the middle sleeper


def _row_xml(scene, jac):
  """Two-source scenes: A - B - C floating in a row (no gravity, very soft contacts), B is the sleeper in the middle."""
  sec = ""
  if scene == "row_eq":
    sec = (
      '<equality><connect name="e0" body1="B" body2="A" anchor="0 0 0" active="false" solref="10 1"/>'
      '<connect name="e2" body1="B" body2="C" anchor="0 0 0" active="false" solref="10 1"/></equality>'
    )
  elif scene == "row_ten":
    sec = (
      '<tendon><spatial name="t0" limited="true" range="0 0.6" solreflimit="10 1"><site site="sb"/><site site="sa"/></spatial>'
      '<spatial name="t2" limited="true" range="0 0.6" solreflimit="10 1"><site site="sb"/><site site="sc"/></spatial></tendon>'
    )
  return f"""<mujoco>
  <option timestep="0.002" gravity="0 0 0" sleep_tolerance="{TOL}" iterations="20" jacobian="{jac}"><flag sleep="enable"/></option>
  <default><geom solref="10 1"/></default>
  <worldbody>
    <body name="A" pos="-0.5 0 0"><joint name="ja" type="free"/><geom name="ga" type="sphere" size=".1"/><site name="sa"/></body>
    <body name="B" pos="0 0 0"><joint name="jb" type="free"/><geom name="gb" type="sphere" size=".1"/><site name="sb"/></body>
    <body name="C" pos="0.5 0 0"><joint name="jc" type="free"/><geom name="gc" type="sphere" size=".1"/><site name="sc"/></body>
  </worldbody>
  {sec}
</mujoco>"""


def build_xml(scene, jac="dense", policy=None):
  if scene in ROW_SCENES:
    return _row_xml(scene, jac)
  a, b, c = "0 0 0.1", "0.6 0 0.1", "1.4 0.3 0.1"
  bgeom, sec = 'type="box" size=".1 .1 .1"', ""
  if scene in ("stacked", "motor_stacked"):
    # a sphere with rolling friction resting on A: sphere-box is an analytic collider in both engines (box-box manifolds
    # of the two engines differ in depth per corner and flicker, which is a collision matter, not a sleeping one)
    b, bgeom = "0.01 0.005 0.26", 'type="sphere" size=".06" condim="6" friction="1 0.3 0.3"'
  if scene in ("connect", "connect_off"):
    act = ' active="false"' if scene == "connect_off" else ""
    sec = f'<equality><connect name="eq" body1="A" body2="B" anchor="0.3 0 0"{act}/></equality>'
  elif scene == "weld":
    sec = '<equality><weld name="eq" body1="A" body2="B"/></equality>'
  elif scene == "tendon":
    sec = '<tendon><spatial name="t" limited="true" range="0 0.5995"><site site="sa"/><site site="sb"/></spatial></tendon>'
  elif scene == "tendon_slack":
    sec = '<tendon><spatial name="t" limited="true" range="0 0.6001"><site site="sa"/><site site="sb"/></spatial></tendon>'
  elif scene == "teneq":
    sec = (
      '<tendon><spatial name="t"><site site="sa"/><site site="sb"/></spatial><spatial name="t2"><site site="sb"/><site site="sc"/></spatial></tendon>'
      '<equality><tendon tendon1="t" tendon2="t2"/></equality>'
    )
  if scene == "motor_stacked":
    sec += '<actuator><motor name="m" joint="ja" gear="0 0 1 0 0 0"/></actuator>'
  pol = f' sleep="{policy}"' if policy else ""
  return f"""<mujoco>
  <option timestep="0.002" sleep_tolerance="{TOL}" iterations="20" jacobian="{jac}"><flag sleep="enable"/></option>
  <worldbody>
    <geom name="floor" type="plane" size="10 10 .1"/>
    <body name="A" pos="{a}"{pol}><joint name="ja" type="free"/><geom name="ga" type="box" size=".1 .1 .1" mass="1.0"/><site name="sa" pos="0 0 0.1"/></body>
    <body name="B" pos="{b}"><joint name="jb" type="free"/><geom name="gb" {bgeom} mass="0.8"/><site name="sb" pos="0 0 0.1"/></body>
    <body name="C" pos="{c}"><joint name="jc" type="free"/><geom name="gc" type="sphere" size=".1" mass="0.5" condim="6" friction="1 0.3 0.3"/><site name="sc"/></body>
  </worldbody>
  {sec}
</mujoco>"""


def alphabet(scene, tier):
  if tier == "quick":
    ev = ["xfrc:0", "xfrc:2", "qfrc:1", "kick:0", "kick:2", "tiny:1", "drop"]
    if scene == "stacked":
      ev.append("kick:1")
  else:
    ev = ["xfrc:0", "xfrc:1", "xfrc:2", "qfrc:0", "qfrc:1", "qfrc:2", "kick:0", "kick:1", "kick:2", "tiny:1", "drop"]
  if scene in ("connect", "connect_off", "weld"):
    ev.append("eq")
  return ev


def scenarios(tier, seed):
  variant = seed % 4
  out = []
  # two-source wake-ups: a sleeper reached in ONE step by an almost-asleep tree (contact) and a freshly woken tree
  # (contact / equality / tendon), both body orders, every countdown difference; history family and schedule family
  for sc in ROW_SCENES:
    for jac in ("dense", "sparse") if (sc == "row" and tier == "thorough") else ("dense",):
      out.append(dict(fam="twosrc", scene=sc, jac=jac, tier=tier, variant=variant))
      out.append(dict(fam="chain", scene=sc, jac=jac, tier=tier, variant=variant))
    for mode in ("desc", "rot"):
      out.append(dict(fam="sched2", scene=sc, jac="dense", mode=mode, tier=tier, variant=variant))
  pos = QUICK_POS if tier == "quick" else tuple(range(30))
  scs = QUICK_SCENES if tier == "quick" else SCENES
  sparse = SPARSE_QUICK if tier == "quick" else SPARSE_THOROUGH
  for sc in scs:
    for jac in ("dense", "sparse") if sc in sparse else ("dense",):
      for t1 in pos:
        for e1 in alphabet(sc, tier):
          out.append(dict(fam="hist", scene=sc, jac=jac, e1=e1, t1=t1, tier=tier, variant=variant))
  for pol in ("never", "allowed", "init"):
    out.append(dict(fam="policy", scene="apart", jac="dense", policy=pol, variant=variant))
  out.append(dict(fam="teneq", scene="teneq", jac="dense", variant=variant))
  sched_scenes = ("stacked", "connect_off", "tendon_slack") if tier == "quick" else SCENES
  for sc in sched_scenes:
    for mode in ("desc", "rot"):
      for e1 in alphabet(sc, tier):
        out.append(dict(fam="sched", scene=sc, jac="dense", e1=e1, mode=mode, tier=tier, variant=variant))
  return out


# ----------------------------------------------------------------------------------- models

_M = {}


def _rest_pose(mjm):
  """Settled pose (MuJoCo C, sleeping disabled), rounded to float32 so both engines start from identical inputs."""
  import copy

  import mujoco

  m2 = copy.copy(mjm)
  m2.opt.enableflags &= ~int(mujoco.mjtEnableBit.mjENBL_SLEEP)
  d = mujoco.MjData(m2)
  for _ in range(1500):
    mujoco.mj_step(m2, d)
  return d.qpos.astype(np.float32).astype(np.float64)


def _model(scene, jac):
  import mujoco_warp as mjw

  key = (scene, jac)
  if key not in _M:
    mjm = util.load(build_xml(scene, jac))
    m = mjw.put_model(mjm)
    q0 = _rest_pose(mjm)
    tree_dofs = [list(range(int(mjm.tree_dofadr[t]), int(mjm.tree_dofadr[t]) + int(mjm.tree_dofnum[t]))) for t in range(mjm.ntree)]
    dof_tree = np.zeros(mjm.nv, int)
    for t, ds in enumerate(tree_dofs):
      dof_tree[ds] = t
    onehot = np.zeros((mjm.nv, mjm.ntree), np.float32)
    onehot[np.arange(mjm.nv), dof_tree] = 1
    # qpos slices per tree (free joints only)
    tree_qpos = [list(range(7 * t, 7 * t + 7)) for t in range(mjm.ntree)]
    info = dict(tree_dofs=tree_dofs, dof_tree=dof_tree, onehot=onehot, tree_qpos=tree_qpos, policy=np.array(mjm.tree_sleep_policy))
    _M[key] = (mjm, m, q0, info)
  return _M[key]


# ----------------------------------------------------------------------------------- events

XFRC_SCALE = (1.0, 1.5, 0.75, 2.0)
KICK = (0.0625, 0.09375, 0.046875, 0.125)


def _event_edit(ev, variant, scene, q0):
  """Returns a function (qpos, qvel, xfrc, qfrc, eq) -> None editing 1-world numpy views in place (float32-exact values)."""
  kind, _, arg = ev.partition(":")
  t = int(arg) if arg else 0
  s = XFRC_SCALE[variant]

  def f(qpos, qvel, xfrc, qfrc, eq):
    if kind == "xfrc":
      xfrc[t + 1, :] = [0.25 * s, 0.0, 0.5 * s, 0.0, 0.0, 0.0078125 * s]
    elif kind == "qfrc":
      qfrc[6 * t + 2] = 0.75 * s
    elif kind == "kick":
      qvel[6 * t + 0] = -KICK[variant] if t == 0 else KICK[variant]  # A is kicked away from B (tightens the tendon)
    elif kind == "tiny":
      qvel[6 * t + 2] = 0.00390625
    elif kind == "eq":
      eq[0] = not eq[0]
    elif kind in ("touch2", "touch2s", "toucheq", "touchten"):
      # row scenes: t is the freshly woken ("fast") source, 2-t the almost-asleep one; the sleeper is tree 1 at the origin
      slow = 2 - t
      sgn = (lambda tree: -1.0 if tree == 0 else 1.0)
      qpos[7 * slow] = np.float32(sgn(slow) * 0.19)  # 1 cm overlap with the sleeper
      if kind == "touch2":  # touches during this step only, then flies away
        qpos[7 * t] = np.float32(sgn(t) * 0.19)
        qvel[6 * t + 1] = 50.0
      elif kind == "touch2s":  # touches and stays
        qpos[7 * t] = np.float32(sgn(t) * 0.19)
        qvel[6 * t + 1] = KICK[variant]
      elif kind == "toucheq":  # linked by an equality that becomes active in this step
        eq[0 if t == 0 else 1] = True
        qvel[6 * t + 1] = KICK[variant]
      else:  # linked by a tendon limit that becomes active in this step
        qpos[7 * t] = np.float32(sgn(t) * 0.7)
        qvel[6 * t + 1] = KICK[variant]
    elif kind == "drop":
      # C is put on the floor against the -x face of A (2 mm overlap) with a downward velocity: it wakes by velocity and touches A
      qpos[14:17] = [np.float32(q0[0] - 0.198), np.float32(q0[1]), np.float32(0.1 + 0.001953125)]
      qpos[17:21] = [1, 0, 0, 0]
      qvel[12:18] = 0
      qvel[14] = -0.25

  return f


def _traces2(scene, chain=False):
  """Row scenes: (tiny kick on the slow source GAP steps before) + (two-source touch at T2), both body orders.

  chain=True: the slow source is asleep (again) at T2, so the three trees form a chain awake - sleeper - sleeper."""
  kinds = {"row": ("touch2", "touch2s"), "row_eq": ("toucheq",), "row_ten": ("touchten",)}[scene]
  out = []
  for slow in (0, 2):
    fast = 2 - slow
    for kind in kinds:
      if chain:
        out.append([(T2, f"{kind}:{fast}")])
      for gap in CHAIN_GAPS if chain else GAPS:
        out.append([(T2 - gap, f"tiny:{slow}"), (T2, f"{kind}:{fast}")])
  return out


def _traces(scn):
  """All traces of one scenario: list of [(step, event), ...]."""
  tier = scn["tier"]
  ab = alphabet(scn["scene"], tier)
  pos = QUICK_POS if tier == "quick" else tuple(range(30))
  e1, t1 = scn["e1"], scn["t1"]
  out = [[(t1, e1)]]
  if t1 == pos[0] and e1 == ab[0]:
    out.insert(0, [])
  for t2 in pos:
    for e2 in ab:
      if (t2, ab.index(e2)) > (t1, ab.index(e1)) and (tier == "quick" or t2 - t1 <= T2_WINDOW):
        out.append([(t1, e1), (t2, e2)])
  return out


# ----------------------------------------------------------------------------------- monitor


def _cycles(ta):
  """Partition of the sleeping trees of one world into cycles, or None if malformed."""
  n = len(ta)
  seen, parts = set(), []
  for t in range(n):
    if ta[t] < 0 or t in seen:
      continue
    cyc, cur = [], t
    for _ in range(n + 1):
      if cur < 0 or cur >= n or ta[cur] < 0:
        return None
      cyc.append(cur)
      cur = int(ta[cur])
      if cur == t:
        break
    else:
      return None
    if cur != t or len(set(cyc)) != len(cyc):
      return None
    seen.update(cyc)
    parts.append(tuple(sorted(cyc)))
  return sorted(parts)


def _components(ntree, touched_rows):
  par = list(range(ntree))

  def find(x):
    while par[x] != x:
      par[x] = par[par[x]]
      x = par[x]
    return x

  for row in touched_rows:
    ts = np.nonzero(row)[0]
    for u in ts[1:]:
      par[find(int(u))] = find(int(ts[0]))
  return [find(t) for t in range(ntree)]


def _touched(m, d, info, nworld):
  """bool [nworld, njmax, ntree]: trees with a non-zero Jacobian entry in each active constraint row."""
  nefc = np.minimum(d.nefc.numpy(), d.njmax)
  ntree = info["onehot"].shape[1]
  if not m.is_sparse:
    J = d.efc.J.numpy()[:, : d.njmax, : m.nv]
    tch = (np.abs(J) > 0).astype(np.float32) @ info["onehot"] > 0
  else:
    tch = np.zeros((nworld, d.njmax, ntree), bool)
    rownnz, rowadr = d.efc.J_rownnz.numpy(), d.efc.J_rowadr.numpy()
    colind, Jv = d.efc.J_colind.numpy()[:, 0], d.efc.J.numpy()[:, 0]
    for w in range(nworld):
      for r in range(int(nefc[w])):
        a, k = int(rowadr[w, r]), int(rownnz[w, r])
        cols = colind[w, a : a + k][Jv[w, a : a + k] != 0]
        tch[w, r, info["dof_tree"][cols]] = True
  mask = np.arange(d.njmax)[None, :] < nefc[:, None]
  return tch & mask[:, :, None]


class Monitor:
  def __init__(self, c, mjm, m, d, info, nworld, labels):
    self.c, self.mjm, self.m, self.d, self.info, self.nw, self.labels = c, mjm, m, d, info, nworld, labels
    self.nt = mjm.ntree
    self.quiet = np.zeros((nworld, self.nt), int)
    self.L = np.array(mjm.dof_length, np.float32)
    self.tol = float(mjm.opt.sleep_tolerance)
    self.body_tree = np.array(mjm.body_treeid)
    self.geom_tree = self.body_tree[np.array(mjm.geom_bodyid)]
    self.allowed = info["policy"] != 1  # AUTO_NEVER
    self.states = set()
    self.nsleep = 0
    self.nwake = 0

  def pre(self):
    d = self.d
    self.ta_pre = d.tree_asleep.numpy().copy()
    self.qpos_pre = d.qpos.numpy().copy()
    self.qvel_pre = d.qvel.numpy().copy()
    xf = d.xfrc_applied.numpy()
    qf = d.qfrc_applied.numpy()
    forced = np.zeros((self.nw, self.nt), bool)
    for t in range(self.nt):
      bodies = np.nonzero(self.body_tree == t)[0]
      forced[:, t] = np.any(xf[:, bodies].reshape(self.nw, -1) != 0, axis=1) | np.any(qf[:, self.info["tree_dofs"][t]] != 0, axis=1)
    self.forced = forced

  def post(self, k):
    c, d, nw, nt, info = self.c, self.d, self.nw, self.nt, self.info
    ta = d.tree_asleep.numpy().copy()
    awake = ta < 0
    pre_asleep = self.ta_pre >= 0
    qpos, qvel, qacc = d.qpos.numpy(), d.qvel.numpy(), d.qacc.numpy()

    def tag(w):
      return f"trace {self.labels[w]} step {k}: "

    # --- frozen
    for t in range(nt):
      ds, qs = info["tree_dofs"][t], info["tree_qpos"][t]
      both = pre_asleep[:, t] & ~awake[:, t]
      same = np.all(qpos[:, qs].view(np.uint32) == self.qpos_pre[:, qs].view(np.uint32), axis=1) & np.all(qvel[:, ds].view(np.uint32) == self.qvel_pre[:, ds].view(np.uint32), axis=1)
      for w in np.nonzero(both & ~same)[0]:
        c.fail("monitor:frozen:state_changed", tag(w) + f"tree {t} asleep before and after the step but qpos/qvel changed")
      zero = np.all(qvel[:, ds] == 0, axis=1) & np.all(qacc[:, ds] == 0, axis=1)
      for w in np.nonzero(~awake[:, t] & ~zero)[0]:
        c.fail("monitor:frozen:nonzero_vel_acc", tag(w) + f"tree {t} asleep with qvel={qvel[w, ds].tolist()} qacc={qacc[w, ds].tolist()}")
    # --- wake conditions
    for w, t in zip(*np.nonzero(self.forced & ~awake)):
      c.fail("monitor:wake:applied_force", tag(w) + f"tree {t} has applied force but is asleep after the step")
    kicked = np.stack([np.any(self.qvel_pre[:, info["tree_dofs"][t]] != 0, axis=1) for t in range(nt)], axis=1)
    for w, t in zip(*np.nonzero(pre_asleep & kicked & ~awake)):
      c.fail("monitor:wake:velocity", tag(w) + f"sleeping tree {t} was given a velocity but is asleep after the step")
    self.nwake += int(np.sum(pre_asleep & awake))
    mixed = np.any(awake, axis=1) & np.any(~awake, axis=1)
    newly = ~pre_asleep & ~awake
    woken = pre_asleep & awake
    any_woken = np.any(woken, axis=1)
    need_rows = mixed | np.any(newly, axis=1) | np.any(~awake, axis=1) | any_woken
    tch = None
    if np.any(need_rows):
      tch = _touched(self.m, d, info, nw)
      any_aw = np.any(tch & awake[:, None, :], axis=2)
      any_as = np.any(tch & ~awake[:, None, :], axis=2)
      for w, r in zip(*np.nonzero(any_aw & any_as)):
        # chain: every awake tree of the row was itself asleep when the step began (woken in this very step)
        chain = bool(np.all(woken[w][tch[w, r] & awake[w]]))
        vk = "monitor:wake:chain_of_sleepers:row" if chain else "monitor:wake:row_links_awake_and_asleep"
        c.fail(vk, tag(w) + f"constraint row {r} (type {int(d.efc.type.numpy()[w, r])}) touches trees {np.nonzero(tch[w, r])[0].tolist()} with awake flags {awake[w].astype(int).tolist()} (tree_asleep before {self.ta_pre[w].tolist()})")
    links = {}
    if np.any(mixed | any_woken):
      n = min(int(d.nacon.numpy()[0]), d.naconmax)
      if n:
        geom = d.contact.geom.numpy()[:n]
        wid = d.contact.worldid.numpy()[:n]
        ok = (geom[:, 0] >= 0) & (geom[:, 1] >= 0)
        t1 = np.where(ok, self.geom_tree[np.clip(geom[:, 0], 0, None)], -1)
        t2 = np.where(ok, self.geom_tree[np.clip(geom[:, 1], 0, None)], -1)
        for i in np.nonzero((t1 >= 0) & (t2 >= 0) & (t1 != t2))[0]:
          w = int(wid[i])
          links.setdefault(w, set()).add((int(t1[i]), int(t2[i])))
          if awake[w, t1[i]] != awake[w, t2[i]]:
            aw_t = int(t1[i]) if awake[w, t1[i]] else int(t2[i])
            vk = "monitor:wake:chain_of_sleepers:contact" if woken[w, aw_t] else "monitor:wake:contact_links_awake_and_asleep"
            c.fail(vk, tag(w) + f"contact {geom[i].tolist()} between trees {int(t1[i])},{int(t2[i])} with awake flags {awake[w].astype(int).tolist()}")
    # --- a woken tree inherits the countdown of the most awake tree it touches (contact) or is tied to by an active tendon
    # limit: after the step its counter is at most (counter of every such source when the step began) + 1; a source that
    # was itself asleep and woken by its own perturbation in this step counts as fully awake.  The whole sleep cycle of the
    # woken tree shares it.  (Equalities only wake sleepers, they do not lower the counter of a tree that a contact has
    # already woken - MuJoCo C behaves the same, see the row_eq traces.)
    src = (~pre_asleep) | ((kicked | self.forced) & pre_asleep)
    src_val = np.where(pre_asleep, K_AWAKE, self.ta_pre)
    for w in np.nonzero(any_woken)[0]:
      lk = set(links.get(w, ()))
      ety = d.efc.type.numpy()[w]
      for r in np.nonzero((np.sum(tch[w], axis=1) > 1) & (ety[: tch.shape[1]] == 4))[0]:  # LIMIT_TENDON
        ts = np.nonzero(tch[w, r])[0].tolist()
        lk.update((a, b) for a in ts for b in ts if a != b)
      cyc = _cycles(self.ta_pre[w]) or []
      for a, b in sorted(lk | {(y, x) for x, y in lk}):
        if not (woken[w, a] and src[w, b]):
          continue
        bound = int(src_val[w, b]) + 1
        members = next((p for p in cyc if a in p), (a,))
        for t in members:
          if ta[w, t] > bound:
            c.fail(
              "monitor:wake:countdown_above_source",
              tag(w) + f"tree {t} (sleep cycle of tree {a}) was woken in this step and touches/links tree {b} whose countdown was {int(src_val[w, b])}, "
              f"but its own countdown is {int(ta[w, t])} > {bound}: it can fall asleep again before its waker (tree_asleep before {self.ta_pre[w].tolist()} after {ta[w].tolist()})",
            )
    # --- justified sleep
    for w, t in zip(*np.nonzero(newly)):
      self.nsleep += 1
      comp = _components(nt, tch[w])
      isl = [u for u in range(nt) if comp[u] == comp[t]]
      for u in isl:
        if not self.allowed[u]:
          c.fail("monitor:sleep:policy_never", tag(w) + f"tree {t} fell asleep but tree {u} of its island must never sleep")
        if self.quiet[w, u] < MINAWAKE - 1:
          c.fail("monitor:sleep:not_quiet_long_enough", tag(w) + f"tree {t} fell asleep; island tree {u} was quiet for only {int(self.quiet[w, u])} samples (< {MINAWAKE - 1})")
    # --- quiet counters (samples after the step; sleeping = quiet)
    for t in range(nt):
      ds = info["tree_dofs"][t]
      below = np.all(np.abs(qvel[:, ds] * self.L[ds]) < np.float32(self.tol), axis=1)
      q = (~awake[:, t]) | (below & ~self.forced[:, t] & self.allowed[t])
      self.quiet[:, t] = np.where(q, self.quiet[:, t] + 1, 0)
    # --- bookkeeping
    tw = d.tree_awake.numpy()
    for w in np.nonzero(np.any(tw != awake.astype(tw.dtype), axis=1))[0]:
      c.fail("monitor:book:tree_awake", tag(w) + f"tree_awake {tw[w].tolist()} vs tree_asleep {ta[w].tolist()}")
    bad = (ta < K_AWAKE) | (ta >= nt)
    for w in np.nonzero(np.any(bad, axis=1))[0]:
      c.fail("monitor:book:tree_asleep_range", tag(w) + f"tree_asleep {ta[w].tolist()}")
    c.equal(f"step {k}: ntree_awake", d.ntree_awake.numpy(), awake.sum(axis=1), vkey="monitor:book:ntree_awake")
    ba = d.body_awake.numpy()
    want_ba = np.where(self.body_tree[None, :] < 0, -1, np.where(awake[:, np.clip(self.body_tree, 0, None)], 1, 0))  # STATIC=-1 ASLEEP=0 AWAKE=1
    for w in np.nonzero(np.any(ba != want_ba, axis=1))[0]:
      c.fail("monitor:book:body_awake", tag(w) + f"body_awake {ba[w].tolist()} want {want_ba[w].tolist()}")
    nba, bai = d.nbody_awake.numpy(), d.body_awake_ind.numpy()
    nva, dai = d.nv_awake.numpy(), d.dof_awake_ind.numpy()
    dof_awake = awake[:, info["dof_tree"]]
    for w in range(nw):
      wb = np.nonzero(want_ba[w] != 0)[0]
      if int(nba[w]) != len(wb) or sorted(bai[w, : len(wb)].tolist()) != wb.tolist():
        c.fail("monitor:book:body_awake_ind", tag(w) + f"nbody_awake={int(nba[w])} ind={bai[w].tolist()} want {wb.tolist()}")
      wd = np.nonzero(dof_awake[w])[0]
      if int(nva[w]) != len(wd) or sorted(dai[w, : len(wd)].tolist()) != wd.tolist():
        c.fail("monitor:book:dof_awake_ind", tag(w) + f"nv_awake={int(nva[w])} ind={dai[w].tolist()} want {wd.tolist()}")
      if np.any(~awake[w]):
        parts = _cycles(ta[w])
        if parts is None:
          c.fail("monitor:book:cycle_malformed", tag(w) + f"tree_asleep {ta[w].tolist()}")
        elif tch is not None:
          cyc_of = {t: i for i, p in enumerate(parts) for t in p}
          for r in np.nonzero(np.sum(tch[w], axis=1) > 1)[0]:
            ts = [int(t) for t in np.nonzero(tch[w, r])[0] if not awake[w, t]]
            if len({cyc_of[t] for t in ts}) > 1:
              c.fail("monitor:book:linked_sleepers_in_different_cycles", tag(w) + f"row {r} links sleeping trees {ts}, cycles {parts}")
      self.states.add((self.labels[w] is None, tuple(ta[w].tolist()), tuple(np.minimum(self.quiet[w], MINAWAKE).tolist())))
    c.nchecked += 8 * nw
    return ta, awake


# ----------------------------------------------------------------------------------- execution


class _SchedHook:
  def __init__(self, mode):
    self.mode = mode
    self.hits = 0

  def before(self, index, key, n, outputs):
    if n < 2 or not any(key.startswith(k) or f".{k}" in key or key.endswith(k) for k in WAKE_KERNELS):
      return None
    self.hits += 1
    if self.mode == "desc":
      return "desc"
    r = max(1, n // 3)
    return [(t + r) % n for t in range(n)]


def _run_w(scn, traces, hook=None, monitor=True, c=None):
  """Runs all traces as worlds of one batched MJWarp Data; returns per-step tree_asleep [NSTEP, nw, nt] (+ monitor)."""
  import mujoco_warp as mjw

  from mc import world

  mjm, m, q0, info = _model(scn["scene"], scn["jac"])
  nw = len(traces)
  d = mjw.make_data(mjm, nworld=nw)
  qp = np.tile(q0.astype(np.float32), (nw, 1))
  util.set_field(d.qpos, qp)
  labels = ["+".join(f"{e}@{t}" for t, e in tr) or "none" for tr in traces]
  mon = Monitor(c, mjm, m, d, info, nw, labels) if monitor else None
  by_step = {}
  for w, tr in enumerate(traces):
    for t, e in tr:
      by_step.setdefault(t, []).append((w, e))
  series = np.zeros((NSTEP, nw, mjm.ntree), np.int32)
  dirty_force = False
  for k in range(NSTEP):
    evs = by_step.get(k, [])
    if evs or dirty_force:
      qpos, qvel = d.qpos.numpy().copy(), d.qvel.numpy().copy()
      xfrc, qfrc = np.zeros_like(d.xfrc_applied.numpy()), np.zeros_like(d.qfrc_applied.numpy())
      eq = d.eq_active.numpy().copy() if mjm.neq else np.zeros((nw, 1), bool)
      for w, e in evs:
        _event_edit(e, scn["variant"], scn["scene"], q0)(qpos[w], qvel[w], xfrc[w], qfrc[w], eq[w])
      util.set_field(d.qpos, qpos)
      util.set_field(d.qvel, qvel)
      util.set_field(d.xfrc_applied, xfrc)
      util.set_field(d.qfrc_applied, qfrc)
      if mjm.neq:
        util.set_field(d.eq_active, eq)
      dirty_force = bool(np.any(xfrc != 0) or np.any(qfrc != 0))
    if mon:
      mon.pre()
    if hook is not None:
      world.set_hook(hook)
    try:
      mjw.step(m, d)
    finally:
      if hook is not None:
        world.set_hook(None)
    if mon:
      ta, _ = mon.post(k)
    else:
      ta = d.tree_asleep.numpy()
    series[k] = ta
  if mon:
    mon.iter_hits = int(np.sum((d.overflow.numpy() & (1 << 9)) != 0))
  return series, mon, d


def _run_c(scn, trace):
  """MuJoCo C replay of one trace: per-step tree_asleep [NSTEP, nt], or (None, message) if MuJoCo refuses."""
  import mujoco

  mjm, _, q0, _ = _model(scn["scene"], scn["jac"])
  mjd = mujoco.MjData(mjm)
  mjd.qpos[:] = q0
  by_step = {}
  for t, e in trace:
    by_step.setdefault(t, []).append(e)
  out = np.zeros((NSTEP, mjm.ntree), np.int32)
  boundary = np.zeros(NSTEP, bool)
  gids = [mujoco.mj_name2id(mjm, mujoco.mjtObj.mjOBJ_GEOM, n) for n in ("ga", "gb", "gc")]
  lim = [t for t in range(mjm.ntendon) if mjm.tendon_limited[t]]
  prev_slack = None
  dirty = False
  for k in range(NSTEP):
    evs = by_step.get(k, [])
    if evs or dirty:
      qpos, qvel = mjd.qpos.astype(np.float32), mjd.qvel.astype(np.float32)
      xfrc, qfrc = np.zeros((mjm.nbody, 6), np.float32), np.zeros(mjm.nv, np.float32)
      eq = np.array(mjd.eq_active, bool) if mjm.neq else np.zeros(1, bool)
      for e in evs:
        # only the entries the event writes are copied back (the untouched state keeps its float64 value)
        q2, v2 = qpos.copy(), qvel.copy()
        _event_edit(e, scn["variant"], scn["scene"], q0)(q2, v2, xfrc, qfrc, eq)
        ch = q2 != qpos
        mjd.qpos[ch] = q2[ch]
        ch = v2 != qvel
        mjd.qvel[ch] = v2[ch]
        qpos, qvel = q2, v2
      mjd.xfrc_applied[:] = xfrc
      mjd.qfrc_applied[:] = qfrc
      if mjm.neq:
        mjd.eq_active[:] = eq
      dirty = bool(np.any(xfrc != 0) or np.any(qfrc != 0))
    mujoco.mj_step(mjm, mjd)
    out[k] = mjd.tree_asleep
    # boundary rule (DESIGN 3): an inclusion predicate of the reference within 1e-5 of flipping (contact between two
    # trees about to appear/vanish, tendon limit about to switch) makes the continuation a don't-care
    for g1, g2 in ((gids[0], gids[1]), (gids[0], gids[2]), (gids[1], gids[2])):
      if abs(mujoco.mj_geomDistance(mjm, mjd, g1, g2, 0.01, None)) < BOUNDARY:
        boundary[k] = True
    if lim:
      slack = np.array([mjm.tendon_range[t, 1] - mjd.ten_length[t] for t in lim])
      if evs:
        prev_slack = None  # a teleport is not a threshold crossing
      if np.any(np.abs(slack) < BOUNDARY) or (prev_slack is not None and np.any(np.sign(slack) != np.sign(prev_slack))):
        boundary[k] = True
      prev_slack = slack
  return out, boundary, util.mj_warnings(mjd)


def _direct(ev):
  """Trees whose wake-up by this event is discrete (no threshold involved)."""
  kind, _, arg = ev.partition(":")
  if kind in ("xfrc", "qfrc", "kick", "tiny", "touch2", "touch2s", "toucheq", "touchten"):
    return {int(arg)}
  if kind == "eq":
    return {0, 1}
  return {0, 2}  # drop: C gets a velocity and overlaps A by 2 mm


def _lockstep(c, label, trace, sw, sc, boundary, counts):
  """Compares the awake series of one trace (sw, sc: [NSTEP, nt] tree_asleep).

  Allowed: runs of <=2 steps in which the engines disagree about a tree (threshold crossings: a velocity falling below
  the tolerance, a contact or tendon limit appearing one step apart; MJWarp evaluates sleeping after, MuJoCo before the
  integration).  Not allowed: a longer run, or a tree directly hit by a discrete perturbation waking in one engine only.
  """
  nt = sw.shape[1]
  aw, ac = sw < 0, sc < 0
  direct = {}
  for t, e in trace:
    direct.setdefault(t, set()).update(_direct(e))
  run = np.zeros(nt, int)
  for k in range(NSTEP):
    if k in direct and k > 0 and np.any(aw[k - 1] != ac[k - 1]):
      counts["lockstep_desync"] += 1
      return False
    for t in range(nt):
      if k and aw[k, t] and ac[k, t] and not aw[k - 1, t] and not ac[k - 1, t] and abs(int(sw[k, t]) - int(sc[k, t])) > 2:
        if np.any(boundary[max(0, k - BOUNDARY_WINDOW) : k + 1]):
          counts["lockstep_boundary"] += 1
          return False
        c.fail("lockstep:woken_countdown", f"trace {label} step {k}: tree {t} woke up in both engines but with countdown {int(sw[k, t])} in MJWarp and {int(sc[k, t])} in MuJoCo (MJWarp {sw[k].tolist()}, MuJoCo {sc[k].tolist()})")
        return False
      if aw[k, t] == ac[k, t]:
        if run[t]:
          kind = "sleep" if not aw[k, t] else "wake"
          # for a sleep run the engine that was already asleep went first; for a wake run the one already awake
          first = ("W" if not aw[k - 1, t] else "C") if kind == "sleep" else ("W" if aw[k - 1, t] else "C")
          key = f"{kind}_first_in_{'MJWarp' if first == 'W' else 'MuJoCo'}_by_{int(run[t])}"
          counts[key] = counts.get(key, 0) + 1
        run[t] = 0
        continue
      if run[t] == 0 and k in direct and t in direct[k]:
        prev = aw[k - 1, t] if k else True
        if not prev:  # both were asleep: the perturbation must wake the tree in both engines in this very step
          who = "MJWarp" if aw[k, t] else "MuJoCo"
          c.fail(f"lockstep:perturbation_woke_only_{who}", f"trace {label} step {k}: tree {t} was woken by the event only in {who} (MJWarp tree_asleep {sw[k].tolist()}, MuJoCo {sc[k].tolist()})")
          return False
      run[t] += 1
      if run[t] > 2:
        if np.any(boundary[max(0, k - BOUNDARY_WINDOW) : k + 1]):
          counts["lockstep_boundary"] += 1
          return False
        who = "MuJoCo" if aw[k, t] else "MJWarp"
        c.fail(f"lockstep:asleep_only_in_{who}", f"trace {label} step {k}: tree {t} asleep only in {who} for more than 2 steps (MJWarp {sw[k].tolist()}, MuJoCo {sc[k].tolist()})")
        return False
    if np.all(aw[k] == ac[k]) and np.any(~aw[k]):
      pw, pc = _cycles(sw[k]), _cycles(sc[k])
      if pw != pc:
        if np.any(boundary[max(0, k - BOUNDARY_WINDOW) : k + 1]):
          counts["lockstep_boundary"] += 1
          return False
        c.fail("lockstep:cycles", f"trace {label} step {k}: sleeping cycles {pw} vs MuJoCo {pc}")
        return False
  return True


def _merge(c, cm):
  """Monitor violations are collected separately so that they cannot crowd out the lock-step / schedule ones (cap 12 each)."""
  seen = set()
  for v in cm.violations:  # at most 3 per monitor key
    n = sum(1 for x in seen if x[0] == v["vkey"])
    if n < 3:
      seen.add((v["vkey"], n))
      c.violations.append(v)
  c.nchecked += cm.nchecked


def execute(scn):
  import mujoco_warp as mjw

  fam = scn["fam"]
  if fam == "policy":
    mjm, err = util.try_load(build_xml("apart", "dense", policy=scn["policy"]))
    if mjm is None:
      return dict(ok=True, nontrivial=False, outcome="rejected_by_compiler", info=err)
    try:
      mjw.put_model(mjm)
    except NotImplementedError as e:
      return dict(ok=True, nontrivial=False, outcome="unsupported", info=str(e)[:120])
    return dict(ok=True, nontrivial=False, outcome="accepted_user_policy")
  if fam == "teneq":
    import mujoco

    mjm = util.load(build_xml("teneq", "dense"))
    mjd = mujoco.MjData(mjm)
    try:
      for _ in range(3):
        mujoco.mj_step(mjm, mjd)
    except Exception as e:  # MuJoCo's sleeping code refuses tendon equalities
      return dict(ok=True, nontrivial=False, outcome="rejected_by_reference", info=str(e)[:120])
    return dict(ok=True, nontrivial=False, outcome="reference_accepts_teneq")

  c, cm = util.Cmp(), util.Cmp()
  counts = dict(states=0, transitions=0, traces_validated_against_impl=0, lockstep_desync=0, lockstep_boundary=0, extra_evaluations=0)
  if fam in ("sched", "sched2"):
    tier = scn["tier"]
    pos = QUICK_POS if tier == "quick" else tuple(range(0, 30, 3))
    traces = [[(t, scn["e1"])] for t in pos] if fam == "sched" else _traces2(scn["scene"])
    base, _, dbase = _run_w(scn, traces, monitor=False)
    hook = _SchedHook(scn["mode"])
    got, mon, d = _run_w(scn, traces, hook=hook, monitor=True, c=cm)
    labels = mon.labels
    for w in range(len(traces)):
      for k in range(NSTEP):
        if not np.array_equal(base[k, w] < 0, got[k, w] < 0):
          c.fail(f"schedule:{scn['mode']}:awake_set", f"trace {labels[w]} step {k}: awake set {(got[k, w] < 0).astype(int).tolist()} under schedule vs {(base[k, w] < 0).astype(int).tolist()} ascending")
          break
        if _cycles(base[k, w]) != _cycles(got[k, w]):
          c.fail(f"schedule:{scn['mode']}:cycles", f"trace {labels[w]} step {k}: cycles {_cycles(got[k, w])} vs {_cycles(base[k, w])}")
          break
        if fam == "sched2" and not np.array_equal(base[k, w], got[k, w]):
          c.fail(f"schedule:{scn['mode']}:countdown", f"trace {labels[w]} step {k}: tree_asleep {got[k, w].tolist()} under schedule vs {base[k, w].tolist()} ascending")
          break
    c.close("final qpos under schedule", d.qpos.numpy(), dbase.qpos.numpy(), "solver", vkey=f"schedule:{scn['mode']}:qpos")
    counts.update(states=len(mon.states), transitions=NSTEP * len(traces), traces_validated_against_impl=0, extra_evaluations=2 * len(traces) - 1, scheduled_launches=hook.hits)
    nontrivial = mon.nsleep > 0 and mon.nwake > 0 and hook.hits > 0
    _merge(c, cm)
    return c.result(nontrivial=nontrivial, key=util.sha(scn), counts=counts, info=dict(traces=len(traces), hits=hook.hits))

  traces = _traces2(scn["scene"], chain=fam == "chain") if fam in ("twosrc", "chain") else _traces(scn)
  sw, mon, _ = _run_w(scn, traces, monitor=True, c=cm)
  degenerate = 0
  for w, tr in enumerate(traces):
    sc, boundary, warn = _run_c(scn, tr)
    if warn:
      degenerate += 1
      continue
    if _lockstep(c, mon.labels[w], tr, sw[:, w], sc, boundary, counts):
      counts["traces_validated_against_impl"] += 1
  counts.update(states=len(mon.states), transitions=NSTEP * len(traces), extra_evaluations=len(traces) - 1, degenerate_reference=degenerate, iteration_limit_hits=mon.iter_hits)
  nontrivial = mon.nsleep > 0 and mon.nwake > 0
  _merge(c, cm)
  return c.result(nontrivial=nontrivial, key=util.sha(scn), counts=counts, info=dict(traces=len(traces), fell_asleep=mon.nsleep, woke=mon.nwake, checked=c.nchecked))
