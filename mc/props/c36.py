"""C36 Results do not depend on what else ran in the process.

Process-history enumeration: an item is a (model, configuration) pair; ALL ordered histories of items up to a length,
ending in each target item, are executed each in a FRESH subprocess (so that process globals -- the kernel cache keyed
by builder arguments, the primitive narrow-phase dispatch lists, Warp's module table -- start empty) and the target's
observation (state after one step, contacts of a collision pass) must be bit-identical to running the target alone.
Items are chosen to collide on every cache-key form: same kernel builder with different static arguments (nv, njmax,
cone, jacobian, warn_overflow), NATIVECCD on/off (box-box primitive vs convex), a model that introduces new primitive
pair types, different nworld, the same model with a different maximum contact dimension (condim 4 vs 6 on the elliptic sparse
Newton path), implicit-integrator models of equal (nworld, nbody, nv).
"""

import json
import os
import subprocess

from mc import scenes, util

ID = "C36"
LEVEL = "model_checking"
SELFCHECK_DETERMINISM = False  # each scenario already runs two fresh processes (alone vs after the history)
RULE = (
  "states = process histories (ordered item sequences); all histories of length <= L over the item alphabet ending in each target; "
  "transition = simulating one item in the process; every history is executed in a fresh subprocess of the real implementation and "
  "compared bit-exactly with the target run alone"
)
BOUNDS = {"quick": "8 items, all histories of length <= 2 (64 ordered pairs + 8 solos)", "thorough": "10 items: all histories of length <= 2 (110); 5 core items: all 125 histories of length 3"}
ASSUMPTIONS = ["fresh subprocess per history; same kernel cache directory on disk (the on-disk cache is keyed by source hash)", "bit identity"]
BUDGET = {"quick": 550, "thorough": 3400}
SCENARIO_TIMEOUT = 1500

BOXES = """<mujoco><option timestep="0.004"/><worldbody><geom type="plane" size="3 3 .1"/>
  <body pos="0 0 0.099"><freejoint/><geom type="box" size=".1 .1 .1"/></body>
  <body pos="0.05 0.02 0.297"><freejoint/><geom type="box" size=".1 .1 .1"/></body></worldbody></mujoco>"""
PRIMS = """<mujoco><option timestep="0.004"/><worldbody><geom type="plane" size="3 3 .1"/>
  <body pos="0 0 0.099"><freejoint/><geom type="box" size=".1 .1 .1"/></body>
  <body pos="0.05 0 0.26"><freejoint/><geom type="capsule" size=".05 .1" quat="0.7071 0.7071 0 0"/></body>
  <body pos="0.6 0 0.09"><freejoint/><geom type="cylinder" size=".1 .09"/></body>
  <body pos="0.62 0 0.27"><freejoint/><geom type="sphere" size=".1"/></body></worldbody></mujoco>"""


CONVEX = """<mujoco><option timestep="0.004" {opt}/><worldbody><geom type="plane" size="3 3 .1"/>
  <body pos="0 0 0.099"><freejoint/><geom type="box" size="{b}"/></body>
  <body pos="0.03 0.02 {z1}"><freejoint/><geom type="ellipsoid" size="{e}"/></body>
  <body pos="-0.04 -0.03 {z2}"><freejoint/><geom type="cylinder" size="{c}"/></body></worldbody></mujoco>"""


ELLC = """<mujoco><option timestep="0.004" cone="elliptic" jacobian="sparse"/><worldbody><geom type="plane" size="3 3 .1" condim="{cd}" friction="0.8 0.02 0.01"/>
  <body pos="0 0 0.099"><freejoint/><geom type="sphere" size=".1" condim="{cd}" friction="0.8 0.02 0.01"/></body>
  <body pos="0.5 0 {z}"><freejoint/><geom type="box" size=".1 .1 .1" condim="{cd}" friction="0.6 0.03 0.02"/></body></worldbody></mujoco>"""


def _slide_states(mjm, nworld):
  import mujoco

  out = []
  for w in range(nworld):
    d = mujoco.MjData(mjm)
    d.qvel[0:6] = [0.6 + 0.1 * w, -0.3, 0.0, 2.0, -1.0, 3.0]  # sliding and spinning sphere: contact in the cone's middle zone
    d.qvel[6:12] = [-0.2, 0.4, 0.0, 0.5, 0.5, -2.0]
    out.append(d)
  return out


IMPL = """<mujoco><option timestep="0.004" integrator="implicit"/><worldbody>
  <body pos="0 0 1">{j}<geom type="box" size=".1 .07 .05" pos="0.03 0.02 0.01" contype="0" conaffinity="0"/></body></worldbody></mujoco>"""


def _spin_states(mjm, nworld):
  import mujoco

  out = []
  for w in range(nworld):
    d = mujoco.MjData(mjm)
    d.qvel[:] = [0.5, -0.3, 0.2, 2.0 + w, -1.5, 1.0][: mjm.nv]
    out.append(d)
  return out


def _default_states(mjm, nworld):
  import mujoco

  out = []
  for w in range(nworld):
    d = mujoco.MjData(mjm)
    d.qvel[:] = 0.01 * (w + 1)
    out.append(d)
  return out


def _nativeccd_off():
  import mujoco

  return int(mujoco.mjtDisableBit.mjDSBL_NATIVECCD)


ITEMS = {
  "rich": dict(xml=lambda: scenes.rich(), states=lambda mjm, n: scenes.rich_states(mjm, n, 0)),
  "rich_ell_sparse": dict(xml=lambda: scenes.rich('cone="elliptic" jacobian="sparse"'), states=lambda mjm, n: scenes.rich_states(mjm, n, 0)),
  "rich_caps_warn": dict(xml=lambda: scenes.rich(), states=lambda mjm, n: scenes.rich_states(mjm, n, 0), caps=dict(njmax=96, naconmax=40), mopt=dict(warn_overflow=False), nworld=3),
  "small_cg": dict(xml=lambda: scenes.small('solver="CG"'), states=lambda mjm, n: scenes.small_states(mjm, n, 0)),
  "small": dict(xml=lambda: scenes.small(""), states=lambda mjm, n: scenes.small_states(mjm, n, 0), nworld=1),
  "boxes": dict(xml=lambda: BOXES, states=_default_states),
  "boxes_nonative": dict(xml=lambda: BOXES, states=_default_states, disable="nativeccd"),
  "prims": dict(xml=lambda: PRIMS, states=_default_states),
  # same geom kinds and pair-type counts, different sizes/poses and a different convex-solver iteration budget
  "convex": dict(xml=lambda: CONVEX.format(opt="", b=".2 .2 .1", e=".06 .08 .05", c=".05 .04", z1="0.245", z2="0.237"), states=_default_states),
  # same (nworld, nbody, nv), one with a free joint and one without, implicit integrator (derivative scratch buffers keyed by shape)
  "impl_free": dict(xml=lambda: IMPL.format(j='<freejoint/>'), states=_spin_states),
  "impl_6dof": dict(xml=lambda: IMPL.format(j='<joint type="hinge" axis="1 0 0"/><joint type="hinge" axis="0 1 0"/><joint type="hinge" axis="0 0 1"/><joint type="slide" axis="1 0 0"/><joint type="slide" axis="0 1 0"/><joint type="slide" axis="0 0 1"/>'), states=_spin_states),
  # same kernel builders, different max contact dimension (a static argument of the elliptic sparse Hessian kernel)
  "ell_condim4": dict(xml=lambda: ELLC.format(cd=4, z="0.099"), states=_slide_states),
  "ell_condim6": dict(xml=lambda: ELLC.format(cd=6, z="0.0985"), states=_slide_states),
  "convex_ccd4": dict(xml=lambda: CONVEX.format(opt='ccd_iterations="4"', b=".25 .15 .1", e=".07 .05 .06", c=".04 .05", z1="0.255", z2="0.247"), states=_default_states),
}
for _it in ITEMS.values():
  if _it.get("disable") == "nativeccd":
    _it["disable"] = None  # resolved lazily in the child (needs mujoco)


def _resolve():
  import mujoco

  ITEMS["boxes_nonative"]["disable"] = int(mujoco.mjtDisableBit.mjDSBL_NATIVECCD)


try:
  _resolve()
except Exception:
  pass

NAMES = list(ITEMS)
QUICK_NAMES = ["rich", "rich_ell_sparse", "small_cg", "boxes", "boxes_nonative", "prims", "convex", "convex_ccd4"]  # each child costs ~10-25 s of process start-up


def scenarios(tier, seed):
  import itertools

  out = []
  if tier == "quick":
    for a, b in (("impl_free", "impl_6dof"), ("ell_condim4", "ell_condim6")):
      for h in ([a], [b], [a, b], [b, a]):
        out.append(dict(history=h))
    for target in QUICK_NAMES:
      for n in range(0, 2):
        for prefix in itertools.product(QUICK_NAMES, repeat=n):
          out.append(dict(history=list(prefix) + [target]))
    return out
  # thorough: all histories of length <= 2 over all items, and all histories of length 3 over the five items that share
  # the most process-global state (each child process costs 10-25 s: 10^3 histories would not finish in the budget)
  for target in NAMES:
    for n in range(0, 2):
      for prefix in itertools.product(NAMES, repeat=n):
        out.append(dict(history=list(prefix) + [target]))
  core = ["rich", "boxes_nonative", "convex_ccd4", "ell_condim4", "ell_condim6"]
  for h in itertools.product(core, repeat=3):
    out.append(dict(history=list(h)))
  return out


_SOLO = {}


def _child(history):
  env = dict(os.environ)
  for k in ("OMP_NUM_THREADS", "OPENBLAS_NUM_THREADS", "MKL_NUM_THREADS"):
    env[k] = "1"
  p = subprocess.run(["/venv/bin/python", os.path.join(os.path.dirname(os.path.dirname(os.path.abspath(__file__))), "proc_child.py"), json.dumps(history)], capture_output=True, text=True, env=env, timeout=1400)
  for line in p.stdout.splitlines():
    if line.startswith("RESULT "):
      return json.loads(line[7:]), p.returncode
  return dict(crash=p.returncode, stderr=p.stderr[-600:]), p.returncode


def execute(scn):
  h = scn["history"]
  target = h[-1]
  c = util.Cmp()
  if target not in _SOLO:
    _SOLO[target] = _child([target])[0]
  solo = _SOLO[target]
  if "crash" in solo:
    c.fail(f"crash:alone:{target}", f"target {target} alone crashed: {solo}")
    return c.result(nontrivial=True, key=util.sha(scn))
  counts = dict(states=len(h), transitions=len(h), traces_validated_against_impl=1)
  if len(h) == 1:
    again = _child(h)[0]
    c.true(f"{target} alone twice", again.get("digest") == solo["digest"], f"two fresh processes disagree: {again} vs {solo}", vkey=f"nondeterministic_across_processes:{target}")
    return c.result(nontrivial=True, key=util.sha(scn), counts=counts, info=dict(solo=solo))
  got, rc = _child(h)
  if "crash" in got:
    c.fail(f"crash:after:{'>'.join(h[:-1])}:target={target}", f"history {h} crashed (rc {rc}): {got.get('stderr', '')[-300:]}")
  elif got["digest"] != solo["digest"]:
    c.fail(
      f"differs_after:{h[-2]}:target={target}",
      f"history {h}: target result differs from running it alone: nacon {got['nacon']} vs {solo['nacon']}, contacts {got['ncontacts']} vs {solo['ncontacts']}, "
      f"nefc {got['nefc']} vs {solo['nefc']}, qpos[:6] {got['qpos_head']} vs {solo['qpos_head']}",
    )
  return c.result(nontrivial=True, key=util.sha(scn), counts=counts, info=dict(after=got, alone=solo))
