"""C40 Flex deformables agree with MuJoCo C.

Space: flexcomp grids  dim 1 (3 and 4 vertices), dim 2 (2x2, 3x3), dim 3 (2x2x2; 3x3x3 in the thorough tier)
x dof in {full, 2d, trilinear} x feature in {elasticity, elasticity+damping, edge spring/damper, edge equality,
strain equality} x collision in {none, self, sphere, plane} x 2 states (smooth perturbation; "fold" state that
brings the last vertex onto the first so that non-adjacent elements overlap), Euler integrator (MuJoCo 3.13
refuses implicit integrators with flex elasticity).

Oracle: mj_forward on the same model and state: flexvert_xpos, flexedge_length / velocity / J (class f32),
qfrc_spring / qfrc_damper / qfrc_passive (f32dyn), constraint rows (count per type; pos, J, D, aref after
matching rows inside each (type, id) group; f32dyn), contacts (count; dist/pos/normal after matching by
(geom, flex, elem, vert) ids; f32dyn), qacc (solver).

Family "params" (contact parameter mixing, MuJoCo's mj_contactParam): flex side x partner side, a side being
priority in {-1,0,1} x solref format {standard, direct (negative)} x solmix {1, 0, 2.5}, all 18 x 18 ordered pairs, for
the partner kinds plane, sphere and second flex, plus the 18 sides for self-collision; solref / solimp / friction values
(one object per role with zero friction), condim {1,3,4,6}, margin {0, .004, .008} and gap {0, .0015} differ between
all objects of a model.  Oracle: the parameter fields of MuJoCo's contacts of the same pair (solref, effective
solreffriction, solimp, friction, dim, includemargin; class f32).

Family "pinned" (pinned vertices on a body of a MOVING kinematic tree; the parity scenarios above only have free vertex
bodies, where a vertex coincides with the inertial frame of its point-mass body): shape {1d4, 2d33, 3d222} x pin body
{hinged arm, free-floating base, jointless mount welded to a hinged arm, jointless mount welded to a free base} x pin
set {one vertex, two vertices, first grid face} x elasticity (1D: edge stiffness; 2D: elastic2d in {stretch, bend, both};
3D: young), no collision, the same 2 states (the pin body's joints are perturbed too).  The forces on a pinned vertex act
on the pin body away from its centre of mass, so they reach the pin tree's dofs with a lever arm.  Same oracle as the
parity scenarios (flexvert_xpos, edges, qfrc_spring / qfrc_damper / qfrc_passive, qacc).  Damping and edge equality stay
off in this family: they differ from MuJoCo on the unchanged library for such flexes (candidates/C40.md section 10).
"""

import itertools

import numpy as np

from mc import util

ID = "C40"
LEVEL = "exploration"
RULE = (
  "enumerate shape x dof x feature x collision, 2 states each, nworld=2 (state A / state B swapped); non-trivial = MuJoCo accepts "
  "the model, put_model accepts it, vertices moved, and the feature under test is active in MuJoCo's result (spring/damper force "
  "non-zero, equality rows present, contacts present for a collision scenario); distinct = hash of spec; family params: "
  "enumerate partner kind x flex side x partner priority (the model holds the 6 partners of that priority), 2 states; non-trivial = "
  "every (flex, partner) pair of the model has contacts in both engines and its parameters were compared; family pinned: enumerate "
  "shape x pin body kind x pin set x elasticity kind, 2 states; non-trivial = MuJoCo accepts the model, spring force non-zero, and a "
  "pinned vertex sits off the centre of mass of a pin body that belongs to a tree with dofs"
)
BOUNDS = {
  "quick": "shapes 1d3,1d4,2d22,2d33,3d222 x dof {full,2d,trilinear} x 5 features x 4 collision modes (compiler/put_model rejections counted); "
  "params: 18 flex sides x 18 partner sides (priority x solref format x solmix) x {plane, sphere, flex} on a 2x2 cloth + 18 sides of a self-colliding rope; "
  "pinned: shapes 1d4,2d33,3d222 x 4 pin-body kinds (hinge, free, mount welded to hinge / free) x pin sets {1 vertex, 2 vertices, first face} x "
  "elasticity kinds (1D edge stiffness; 2D elastic2d stretch/bend/both; 3D young)",
  "thorough": "adds 3d333 and a second value alphabet per scenario; params: also rope and 2x2x2 solid against plane/sphere, rope against rope, 3x3x3 solid self; pinned: also 1d3, 2d22, 3d333",
}
ASSUMPTIONS = [
  "Euler integrator only; MuJoCo C 3.13 mj_forward is the reference",
  "flex-plane and flex self contacts are matched by their integer ids (geom, flex, elem, vert) and compared point for point (f32dyn); "
  "flex-sphere contacts through invariants (validity, presence per pair, deepest penetration) because the manifolds differ by design",
  "the sensor stage is disabled in the parity scenarios (see family 'sensor_stage')",
  "deepest-penetration invariant only for dim < 3 (MuJoCo: solid tetrahedra, MJWarp: surface triangles)",
  "models put_model refuses (NotImplementedError / ValueError) are outside the property ('accepted models'); an IndexError from put_model is reported as such",
  "real values (stiffness, Young modulus, perturbation amplitudes) from 4 curated alphabets (VERIF_SEED mod 4)",
  "params: contact.solreffriction is compared by its effective value (all-zero means 'same as solref' to the constraint builder of both engines; "
  "MuJoCo stores zeros for flex contacts, MJWarp a copy of solref)",
  "params: pairs stay in clear penetration (no contact at the margin / gap boundary); contact sets and geometry are left to the parity scenarios",
]
BUDGET = {"quick": 400, "thorough": 3000}

SHAPES = {"1d3": ("3 1 1", 1), "1d4": ("4 1 1", 1), "2d22": ("2 2 1", 2), "2d33": ("3 3 1", 2), "3d222": ("2 2 2", 3), "3d333": ("3 3 3", 3)}
DOFS = ("full", "2d", "trilinear")
FEATURES = ("elasticity", "damping", "edgespring", "edgeeq", "straineq")
COLLISIONS = ("none", "self", "sphere", "plane")
YOUNG = (2e3, 3e3, 1.5e3, 2.5e3)
EDGEK = (80.0, 60.0, 100.0, 70.0)
AMP = (0.02, 0.015, 0.025, 0.018)

# Family "params" (contact parameter mixing, mj_contactParam): a "side" is what one of the two colliding objects
# contributes to the mix: priority x solref format x solmix; the remaining per-object parameters (solref / solimp /
# friction values, condim, margin, gap) are a function of the side index and of the role (flex or partner), chosen so
# that no two objects of a model carry the same values.
# Family "pinned": the body that carries the pinned vertices
MOUNTS = ("hinge", "free", "weld_hinge", "weld_free")
PINSETS = ("one", "two", "face")
ELASTIC2D = ("stretch", "bend", "both")

PRIOS = (-1, 0, 1)
SOLREF_FMT = ("std", "direct")
SOLMIX = (1.0, 0.0, 2.5)
SIDES = tuple(itertools.product(PRIOS, SOLREF_FMT, SOLMIX))
PKINDS = ("plane", "sphere", "flexflex", "self")
CONDIMS = (1, 3, 4, 6)
MARGINS = (0.0, 0.004, 0.008)
GAPS = (0.0, 0.0, 0.0015)
PARAM_FIELDS = (("solref", 0, 2), ("solreffriction", 2, 4), ("solimp", 4, 9), ("friction", 9, 14), ("dim", 14, 15), ("includemargin", 15, 16))


def scenarios(tier, seed):
  v = seed % 4
  shapes = [s for s in SHAPES if s != "3d333" or tier != "quick"]
  out = []
  for shape, dof, feat, col in itertools.product(shapes, DOFS, FEATURES, COLLISIONS):
    for vv in [v] if tier == "quick" else [v, (v + 1) % 4]:
      out.append(dict(shape=shape, dof=dof, feature=feat, collision=col, variant=vv))
  # full forward() including the sensor stage on states with flex contacts, in a child process (see _CHILD)
  for shape, dof, col in (("1d4", "full", "self"), ("1d4", "2d", "self"), ("2d33", "full", "sphere"), ("2d33", "full", "plane"), ("3d222", "trilinear", "sphere")):
    out.append(dict(fam="sensor_stage", shape=shape, dof=dof, feature="edgeeq", collision=col, variant=v))
  # pinned vertices on a body of a moving kinematic tree
  for shape in ["1d4", "2d33", "3d222"] if tier == "quick" else list(SHAPES):
    dim = SHAPES[shape][1]
    for mount, pins, el in itertools.product(MOUNTS, PINSETS, ELASTIC2D if dim == 2 else [None]):
      if dim == 1 and pins == "face":
        continue  # the first "face" of a rope is its first vertex
      for vv in [v] if tier == "quick" else [v, (v + 1) % 4]:
        out.append(dict(fam="pinned", shape=shape, dof="full", feature="elasticity", collision="none", mount=mount, pins=pins, elastic2d=el, variant=vv))
  # contact parameter mixing: the flex takes every side of SIDES in turn; a model holds the six partners (solref format
  # x solmix) of one partner priority (MuJoCo keeps at most 50 contacts per flex, so not all 18 partners at once)
  pshapes = {"plane": ["2d22"], "sphere": ["2d22"], "flexflex": ["2d22"], "self": ["1d4"]}
  if tier != "quick":
    pshapes = {"plane": ["2d22", "1d4", "3d222"], "sphere": ["2d22", "1d4", "3d222"], "flexflex": ["2d22", "1d4"], "self": ["1d4", "3d333"]}
  for kind in PKINDS:
    for shape in pshapes[kind]:
      for side, pprio in itertools.product(range(len(SIDES)), [None] if kind == "self" else range(len(PRIOS))):
        for vv in [v] if tier == "quick" else [v, (v + 1) % 4]:
          out.append(dict(fam="params", kind=kind, shape=shape, side=side, pprio=pprio, variant=vv))
  return out


def build_xml(scn):
  cnt, dim = SHAPES[scn["shape"]]
  v = scn["variant"]
  feat, col = scn["feature"], scn["collision"]
  inner = ""
  # MuJoCo refuses the elastic2d attribute on anything but a dim 2 flex
  e2d = f' elastic2d="{scn.get("elastic2d") or "both"}"' if dim == 2 else ""
  if feat == "elasticity":
    inner += f'<elasticity young="{YOUNG[v]}" poisson="0.2" thickness="0.02"{e2d}/>' if dim > 1 else f'<edge stiffness="{EDGEK[v]}"/>'
  elif feat == "damping":
    inner += f'<elasticity young="{YOUNG[v]}" poisson="0.2" thickness="0.02"{e2d} damping="0.01"/>' if dim > 1 else f'<edge stiffness="{EDGEK[v]}" damping="0.5"/>'
  elif feat == "edgespring":
    inner += f'<edge stiffness="{EDGEK[v]}" damping="0.5"/>'
  elif feat == "edgeeq":
    inner += '<edge equality="true"/>'
  elif feat == "straineq":
    inner += '<edge equality="strain"/>'
  world = ""
  if col == "none":
    inner += '<contact selfcollide="none" contype="0" conaffinity="0"/>'
  elif col == "self":
    inner += '<contact selfcollide="auto"/>'
  elif col == "sphere":
    inner += '<contact selfcollide="none"/>'
    world = '<geom name="ball" type="sphere" size="0.1" pos="0.05 0.04 0.42"/>'
  elif col == "plane":
    inner += '<contact selfcollide="none"/>'
    world = '<geom name="floor" type="plane" size="2 2 .1" pos="0 0 0.495"/>'
  d = "" if scn["dof"] == "full" else f' dof="{scn["dof"]}"'
  if scn.get("mount"):
    return f'<mujoco><option integrator="Euler"/><worldbody>{world}{pinned_body(scn, cnt, dim, inner)}</worldbody></mujoco>'
  return (
    f'<mujoco><option integrator="Euler"/><worldbody>{world}'
    f'<flexcomp name="f" type="grid" count="{cnt}" spacing="0.1 0.1 0.1" pos="0 0 0.5" radius="0.01" dim="{dim}" mass="1"{d}>{inner}</flexcomp>'
    "</worldbody></mujoco>"
  )


def pinned_body(scn, cnt, dim, inner):
  """Family "pinned": the flexcomp sits inside a tilted arm body (hinge or free joint) or inside a jointless, tilted mount
  welded to that arm; the grid starts away from the origin and from the centre of mass of the pin body, so that every
  pinned vertex has a lever arm."""
  n = [int(x) for x in cnt.split()]
  npin = {"one": 1, "two": 2, "face": n[1] * n[2]}[scn["pins"]]  # flexcomp grid: the last count runs fastest
  pin = f'<pin id="{" ".join(str(i) for i in range(npin))}"/>'
  fc = f'<flexcomp name="f" type="grid" count="{cnt}" spacing="0.1 0.1 0.1" pos="0.25 0.02 0.03" radius="0.01" dim="{dim}" mass="1">{inner}{pin}</flexcomp>'
  mount = scn["mount"]
  if mount.startswith("weld_"):
    fc = f'<body name="mount" pos="0.02 0.03 0.01" euler="10 0 5"><geom type="sphere" size="0.01" mass="0.05" contype="0" conaffinity="0"/>{fc}</body>'
  joint = '<freejoint/>' if mount.endswith("free") else '<joint type="hinge" axis="0 1 0.2"/>'
  return f'<body name="arm" pos="0 0 0.5" euler="20 30 40">{joint}<geom type="box" size=".1 .05 .02" pos="0.05 0.02 0.01" mass="1" contype="0" conaffinity="0"/>{fc}</body>'


def make_state(mjm, scn, which, amp=None, fold=None):
  import mujoco

  v = scn["variant"]
  k = np.arange(mjm.nq)
  q = np.array(mjm.qpos0) + (AMP[v] if amp is None else amp) * np.sin(k * 1.7 + which)
  qv = 0.2 * np.cos(np.arange(mjm.nv) * 1.3 + which)
  for j in range(mjm.njnt):
    if mjm.jnt_type[j] == int(mujoco.mjtJoint.mjJNT_FREE):
      a = mjm.jnt_qposadr[j] + 3
      q[a : a + 4] /= np.linalg.norm(q[a : a + 4])
  if (which == 1 if fold is None else fold) and mjm.nflexvert >= 4:
    # fold: bring the last vertex (if it owns translational dofs) close to the first one
    d0 = mujoco.MjData(mjm)
    mujoco.mj_forward(mjm, d0)
    b_last = mjm.flex_vertbodyid[mjm.nflexvert - 1]
    off = (0.004, 0.011, 0.006) if mjm.flex_dim[0] == 1 else (0.03, 0.02, 0.006)
    delta = d0.flexvert_xpos[0] - d0.flexvert_xpos[mjm.nflexvert - 1] + off
    for j in range(mjm.body_jntadr[b_last], mjm.body_jntadr[b_last] + mjm.body_jntnum[b_last]):
      if mjm.jnt_type[j] == int(mujoco.mjtJoint.mjJNT_SLIDE):
        q[mjm.jnt_qposadr[j]] = mjm.qpos0[mjm.jnt_qposadr[j]] + float(np.dot(mjm.jnt_axis[j], delta))
  return q, qv


# ------------------------------------------------------------------------------------------------ comparisons


def _match(A, B):
  """Greedy assignment of rows of A to rows of B (same count) minimising the distance."""
  n = len(A)
  used, perm = set(), []
  for i in range(n):
    best, bj = None, -1
    for j in range(n):
      if j in used:
        continue
      dist = float(np.abs(A[i] - B[j]).sum())
      if best is None or dist < best:
        best, bj = dist, j
    used.add(bj)
    perm.append(bj)
  return perm


def _mj_rows(mjm, mjd):
  """util.mj_efc_dense, robust to MuJoCo allocating efc_J larger than nefc*nv."""
  import mujoco

  if mujoco.mj_isSparse(mjm) or mjd.nefc == 0:
    return util.mj_efc_dense(mjm, mjd)
  nefc, nv = mjd.nefc, mjm.nv
  J = np.array(mjd.efc_J).reshape(-1)[: nefc * nv].reshape(nefc, nv)
  rows = dict(J=J)
  for f in ("type", "id", "pos", "margin", "D", "vel", "aref", "frictionloss", "force", "state"):
    rows[f] = np.array(getattr(mjd, "efc_" + f))
  return nefc, rows


def edge_reference(mjm, mjd):
  """Edge lengths and their time derivatives from MuJoCo's own vertex positions (MuJoCo skips flexedge_length /
  flexedge_velocity when nothing in the model needs them): length = |x_a - x_b|, velocity = central difference of
  that length along qvel (float64, eps 1e-6)."""
  import mujoco

  e = np.asarray(mjm.flex_edge).reshape(-1, 2)
  adr = np.zeros(len(e), int)
  for f in range(mjm.nflex):
    a, n = mjm.flex_edgeadr[f], mjm.flex_edgenum[f]
    adr[a : a + n] = mjm.flex_vertadr[f]

  def lengths(x):
    return np.linalg.norm(x[e[:, 0] + adr] - x[e[:, 1] + adr], axis=1)

  L = lengths(np.asarray(mjd.flexvert_xpos))
  eps = 1e-6
  out = []
  for sgn in (+1, -1):
    t = mujoco.MjData(mjm)
    t.qpos[:] = mjd.qpos
    mujoco.mj_integratePos(mjm, t.qpos, mjd.qvel, sgn * eps)
    mujoco.mj_kinematics(mjm, t)
    mujoco.mj_flex(mjm, t)
    out.append(lengths(np.asarray(t.flexvert_xpos)))
  return L, (out[0] - out[1]) / (2 * eps)


def compare_rows(c, pre, mjm, m, d, w, mjd, tag, with_contacts=True):
  nefc, rows = util.efc_dense(m, d, w)
  mnefc, mrows = _mj_rows(mjm, mjd)
  # rows whose Jacobian is entirely zero are kept by one Jacobian mode of MuJoCo and dropped by the other: strip on both sides
  keep = np.any(rows["J"] != 0, axis=1) if nefc else np.zeros(0, bool)
  mkeep = np.any(mrows["J"] != 0, axis=1) if mnefc else np.zeros(0, bool)
  if not with_contacts:
    keep &= np.asarray(rows["type"]) < 5
    mkeep &= np.asarray(mrows["type"]) < 5
  else:
    # a contact row without any Jacobian entry cannot act; MJWarp having more of them than MuJoCo is its own class
    zw = int(np.sum(~keep & (np.asarray(rows["type"]) >= 5))) if nefc else 0
    zm = int(np.sum(~mkeep & (np.asarray(mrows["type"]) >= 5))) if mnefc else 0
    if zw > zm:
      bad = np.nonzero(~keep & (np.asarray(rows["type"]) >= 5))[0]
      c.fail(
        f"contact_rows_zero_jacobian:{tag}",
        f"{pre}{zw} MJWarp contact rows have an all-zero Jacobian (MuJoCo: {zm}); their efc_force is {rows['force'][bad][:4]}",
      )
      keep &= np.asarray(rows["type"]) < 5
      mkeep &= np.asarray(mrows["type"]) < 5
  types = np.asarray(rows["type"])[keep]
  mtypes = np.asarray(mrows["type"])[mkeep]
  ok = c.equal(pre + "rows per type", np.bincount(types, minlength=8), np.bincount(mtypes, minlength=8), vkey=f"efc_count:{tag}")
  if not ok:
    return
  gi = np.nonzero(keep)[0]
  mi = np.nonzero(mkeep)[0]
  order = []
  for t in sorted(set(types.tolist())):
    a = [i for i in gi if rows["type"][i] == t]
    b = [i for i in mi if mrows["type"][i] == t]
    if t >= 5:
      # contact rows: ids are engine-specific contact indices; match by Jacobian + pos
      ids_a, ids_b = [0] * len(a), [0] * len(b)
    else:
      ids_a, ids_b = [int(rows["id"][i]) for i in a], [int(mrows["id"][i]) for i in b]
    for ident in sorted(set(ids_b)):
      aa = [i for i, x in zip(a, ids_a) if x == ident]
      bb = [i for i, x in zip(b, ids_b) if x == ident]
      if len(aa) != len(bb):
        c.fail(f"efc_count:{tag}", f"{pre}type {t} id {ident}: {len(aa)} rows vs MuJoCo {len(bb)}")
        return
      FA = np.array([np.concatenate([rows["J"][i], [rows["pos"][i]]]) for i in aa])
      FB = np.array([np.concatenate([mrows["J"][i], [mrows["pos"][i]]]) for i in bb])
      perm = _match(FA, FB)
      order += [(aa[k], bb[perm[k]]) for k in range(len(aa))]
  ia = [x for x, _ in order]
  ib = [y for _, y in order]
  for f, cls in (("J", "f32dyn"), ("pos", "f32dyn"), ("margin", "f32dyn"), ("D", "f32dyn"), ("aref", "f32dyn"), ("frictionloss", "f32dyn")):
    c.close(pre + "efc." + f, rows[f][ia], mrows[f][ib], cls, vkey=f"efc_{f}:{tag}")


def compare_geom_flex_invariants(c, pre, mjm, d, w, mjd, tag):
  """Flex-vs-convex-geom contacts: the engines use different manifolds by design (MuJoCo: one contact per element,
  duplicates on shared edges; MJWarp: de-duplicated triangle/vertex contacts), so they are compared through
  invariants: (a) every MJWarp sphere contact is geometrically valid (unit normal, pos = centre + (r + dist/2) n),
  (b) per (geom, flex) pair a contact exists in both engines or in neither (boundary rule 1e-5 on MuJoCo's side),
  (c) the deepest penetration of the pair agrees (f32dyn)."""
  import mujoco

  n = int(min(d.nacon.numpy()[0], d.naconmax))
  sel = np.nonzero(d.contact.worldid.numpy()[:n] == w)[0]
  geom = d.contact.geom.numpy()[:n][sel]
  flex = d.contact.flex.numpy()[:n][sel]
  dist = d.contact.dist.numpy()[:n][sel].astype(np.float64)
  pos = d.contact.pos.numpy()[:n][sel].astype(np.float64)
  nrm = d.contact.frame.numpy()[:n][sel][:, 0].astype(np.float64)
  deep_w, deep_m = {}, {}
  for i in range(len(sel)):
    g, f = int(max(geom[i])), int(max(flex[i]))
    deep_w[g, f] = min(deep_w.get((g, f), np.inf), dist[i])
    if g >= 0 and mjm.geom_type[g] == int(mujoco.mjtGeom.mjGEOM_SPHERE):
      ctr, r = np.asarray(mjd.geom_xpos[g]), float(mjm.geom_size[g, 0])
      c.close(pre + f"contact {i} |normal|", np.linalg.norm(nrm[i]), 1.0, "f32", vkey=f"flex_geom_contact_invalid:{tag}")
      c.close(pre + f"contact {i} pos on sphere", pos[i], ctr + (r + dist[i] / 2) * nrm[i], "f32dyn", vkey=f"flex_geom_contact_invalid:{tag}")
  for i in range(mjd.ncon):
    k = mjd.contact[i]
    key = (int(max(k.geom)), int(max(k.flex)))
    deep_m[key] = min(deep_m.get(key, np.inf), float(k.dist - k.includemargin))
  for key in sorted(set(deep_w) | set(deep_m)):
    if key not in deep_w:
      if deep_m[key] < -1e-5:
        c.fail(f"flex_geom_contact_missing:{tag}", f"{pre}MuJoCo has contacts between geom {key[0]} and flex {key[1]} (deepest {deep_m[key]:.5f}), MJWarp has none")
    elif key not in deep_m:
      if deep_w[key] < -1e-5:
        c.fail(f"flex_geom_contact_spurious:{tag}", f"{pre}MJWarp has contacts between geom {key[0]} and flex {key[1]} (deepest {deep_w[key]:.5f}), MuJoCo has none")
    elif mjm.flex_dim[key[1]] < 3:
      # dim 3: MuJoCo collides the geom with solid tetrahedra, MJWarp with the surface triangles - depths are not comparable
      c.close(pre + f"deepest penetration geom {key[0]} flex {key[1]}", deep_w[key], deep_m[key], "f32dyn", vkey=f"flex_geom_deepest:{tag}")


def compare_contacts(c, pre, mjm, d, w, mjd, tag, degenerate_normals):
  got = util.mjw_contacts(d, w)
  n = int(min(d.nacon.numpy()[0], d.naconmax))
  wid = d.contact.worldid.numpy()[:n]
  sel = np.nonzero(wid == w)[0]
  flex = d.contact.flex.numpy()[:n][sel]
  elem = d.contact.elem.numpy()[:n][sel]
  vert = d.contact.vert.numpy()[:n][sel]
  def canon(geom, fl, el, ve, dist, pos, normal):
    """Flex-flex contacts: the order of the two elements is a convention; put the smaller (flex, elem, vert) first and
    flip the normal with it."""
    a, b = (int(fl[0]), int(el[0]), int(ve[0])), (int(fl[1]), int(el[1]), int(ve[1]))
    normal = np.asarray(normal, np.float64)
    if geom[0] < 0 and geom[1] < 0 and b < a:
      a, b, normal = b, a, -normal
    key = (int(geom[0]), int(geom[1]), a[0], b[0], a[1], b[1], a[2], b[2])
    return key, np.concatenate([[dist], pos, normal])

  A = {}
  for i, cc in enumerate(got):
    key, val = canon(cc["geom"], flex[i], elem[i], vert[i], cc["dist"], cc["pos"], np.asarray(cc["frame"]).reshape(-1)[:3])
    A.setdefault(key, []).append(val)
  B = {}
  for i in range(mjd.ncon):
    k = mjd.contact[i]
    key, val = canon(k.geom, k.flex, k.elem, k.vert, k.dist, k.pos, np.asarray(k.frame)[:3])
    B.setdefault(key, []).append(val)
  c.equal(pre + "ncon", len(got), mjd.ncon, vkey=f"ncon:{tag}")
  if sorted(A) != sorted(B) or any(len(A[k]) != len(B[k]) for k in A):
    only_a = sorted(set(A) - set(B))[:3]
    only_b = sorted(set(B) - set(A))[:3]
    c.fail(f"contact_set:{tag}", f"{pre}contact id sets differ (geom0,geom1,flex0,flex1,elem0,elem1,vert0,vert1): only MJWarp {only_a}, only MuJoCo {only_b}")
    return set(A), set(B)
  for key in sorted(A):
    FA, FB = np.array(A[key]), np.array(B[key])
    perm = _match(FA, FB)
    FB = FB[perm]
    c.close(pre + f"contact{key}.dist", FA[:, 0], FB[:, 0], "f32dyn", vkey=f"contact_dist:{tag}")
    c.close(pre + f"contact{key}.pos", FA[:, 1:4], FB[:, 1:4], "f32dyn", vkey=f"contact_pos:{tag}")
    # skeletons of the two flex primitives intersect (dist == -(r1 + r2)): the normal is undefined, MuJoCo's choice arbitrary
    rad = float(mjm.flex_radius[key[2]] + mjm.flex_radius[key[3]]) if key[0] < 0 and key[1] < 0 else None
    ok_n = np.array([rad is None or abs(x + rad) > 1e-6 for x in FB[:, 0]])
    if ok_n.any():
      c.close(pre + f"contact{key}.normal", FA[ok_n, 4:7], FB[ok_n, 4:7], "f32dyn", vkey=f"contact_normal:{tag}")
    else:
      degenerate_normals.append(key)
  return set(A), set(B)


def _dense(rownnz, rowadr, colind, vals, shape):
  out = np.zeros(shape)
  for r in range(shape[0]):
    a, k = int(rowadr[r]), int(rownnz[r])
    out[r, np.asarray(colind[a : a + k], int)] = vals[a : a + k]
  return out


# Child process: forward() with the sensor stage enabled on a state that has flex contacts.  Flex contacts carry geom
# id -1.  Warp wraps a negative index once (a[-1] -> a[n-1]); with ngeom == 0 that is still element -1, i.e. whatever
# the allocator left in front of the array.  m.geom_bodyid is therefore replaced by a view whose preceding element is
# 2^28+3, so that such a read yields a wild body id and faults deterministically instead of sporadically.
_CHILD = """
import sys, json
sys.path.insert(0, %r)
from mc import world
wp = world.setup()
import numpy as np, mujoco, mujoco_warp as mjw
from mc import util
from mc.props import c40
scn = json.loads(sys.stdin.read())
mjm = mujoco.MjModel.from_xml_string(c40.build_xml(scn))
m = mjw.put_model(mjm)
ng = m.geom_bodyid.shape[0]
big = wp.array(np.concatenate([[(1 << 28) + 3], m.geom_bodyid.numpy()]).astype(np.int32))
m.geom_bodyid = wp.array(ptr=big.ptr + 4, shape=(ng,), dtype=wp.int32, device="cpu")
m._guard_keepalive = big
ncon = 0
for which in (0, 1):
  q, qv = c40.make_state(mjm, scn, which)
  mjd = util.mj_data(mjm, qpos=q, qvel=qv)
  mujoco.mj_forward(mjm, mjd)
  ncon += mjd.ncon
  d = mjw.make_data(mjm, njmax=400, nconmax=200)
  util.copy_state(mjd, d)
  print("FORWARD", which, mjd.ncon, flush=True)
  mjw.forward(m, d)
print("DONE", ncon, flush=True)
"""


def _exec_sensor_stage(scn):
  import os
  import subprocess
  import sys
  import json

  root = os.path.dirname(os.path.dirname(os.path.dirname(os.path.abspath(__file__))))
  p = subprocess.run([sys.executable, "-c", _CHILD % root], input=json.dumps(scn), capture_output=True, text=True, timeout=600, cwd=root)
  lines = [ln for ln in p.stdout.splitlines() if ln.startswith(("FORWARD", "DONE"))]
  c = util.Cmp()
  ncon = sum(int(ln.split()[2]) for ln in lines if ln.startswith("FORWARD"))
  if p.returncode < 0:
    c.fail(
      f"forward_crash_with_flex_contact:{scn['collision']}",
      f"forward() with the sensor stage died with signal {-p.returncode} after {lines[-1] if lines else 'start'} (flex contacts carry geom id -1; guarded geom_bodyid)",
    )
  elif p.returncode != 0 or not lines or not lines[-1].startswith("DONE"):
    raise RuntimeError(f"sensor_stage child failed: rc={p.returncode} {p.stderr[-800:]}")
  c.nchecked += 1
  return c.result(nontrivial=ncon > 0, key=util.sha(scn), info=dict(ncon=ncon))


# ------------------------------------------------------------------------------------------------ family "params"


def side_values(j, role, v):
  """Contact attributes of side j in the given role ("flex" or "partner"), value alphabet v."""
  prio, fmt, solmix = SIDES[j]
  r = 1 if role == "flex" else 0
  t = j + 0.5 * r + 0.25 * v
  solref = (0.02 + 0.002 * t, 0.9 + 0.03 * t) if fmt == "std" else (-(1000.0 + 100.0 * t), -(40.0 + 3.0 * t))
  fri = (0.0, 0.0, 0.0) if j == (9 if r else 4) else (0.3 + 0.05 * t, 0.01 + 0.002 * t, 0.001 + 0.0002 * t)
  return dict(
    priority=prio,
    solmix=solmix,
    solref=solref,
    solimp=(0.80 + 0.005 * t, 0.90 + 0.004 * t, 0.001 + 0.0001 * t, 0.5, 2.0),
    friction=fri,
    condim=CONDIMS[(j + 2 * r) % 4],
    margin=MARGINS[(j // 2 + r) % 3],
    gap=GAPS[(j + j // 3 + 2 * r) % 3],
  )


def _attr_str(a):
  def f(x):
    return " ".join(f"{y:.6g}" for y in x)

  return (
    f'priority="{a["priority"]}" solmix="{a["solmix"]:g}" solref="{f(a["solref"])}" solimp="{f(a["solimp"])}" '
    f'friction="{f(a["friction"])}" condim="{a["condim"]}" margin="{a["margin"]:g}" gap="{a["gap"]:g}"'
  )


def side_text(j, role, v):
  a = side_values(j, role, v)
  return f"{role}(side {j}: priority {a['priority']}, solref {SIDES[j][1]}, solmix {a['solmix']:g}, condim {a['condim']}, margin {a['margin']:g}, gap {a['gap']:g})"


def partner_sides(scn):
  """Side indices of the partners of the model, in the order of their geom / flex ids."""
  return [] if scn["kind"] == "self" else [j for j in range(len(SIDES)) if SIDES[j][0] == PRIOS[scn["pprio"]]]


def build_params_xml(scn):
  cnt, dim = SHAPES[scn["shape"]]
  v, kind, i = scn["variant"], scn["kind"], scn["side"]
  partners = partner_sides(scn)
  fa = _attr_str(side_values(i, "flex", v))
  world, more = "", ""
  if kind == "self":
    fc = f'<contact selfcollide="auto" {fa}/>'
  elif kind == "flexflex":
    # f collides with every g (contype/conaffinity 1/2 against 2/1), the g do not collide with each other
    fc = f'<contact selfcollide="none" contype="1" conaffinity="2" {fa}/>'
    for j in partners:
      ga = _attr_str(side_values(j, "partner", v))
      more += (
        f'<flexcomp name="g{j}" type="grid" count="{cnt}" spacing="0.1 0.1 0.1" pos="0.05 {0.05 if dim > 1 else 0.0} 0.515" radius="0.01" dim="{dim}" mass="1">'
        f'<edge equality="true"/><contact selfcollide="none" contype="2" conaffinity="1" {ga}/></flexcomp>'
      )
  else:
    fc = f'<contact selfcollide="none" {fa}/>'
    for j in partners:
      ga = _attr_str(side_values(j, "partner", v))
      if kind == "plane":
        world += f'<geom name="p{j}" type="plane" size="2 2 .1" pos="0 0 0.495" {ga}/>'
      else:
        world += f'<geom name="p{j}" type="sphere" size="0.1" pos="0.05 0.04 0.42" {ga}/>'
  return (
    f'<mujoco><option integrator="Euler"/><worldbody>{world}'
    f'<flexcomp name="f" type="grid" count="{cnt}" spacing="0.1 0.1 0.1" pos="0 0 0.5" radius="0.01" dim="{dim}" mass="1">'
    f'<edge equality="true"/>{fc}</flexcomp>{more}'
    "</worldbody></mujoco>"
  )


def _param_rows(geom, flex, elem, vert, solref, solreffriction, solimp, friction, dim, includemargin):
  """Per contact: (pair key, full id key, parameter vector).  solreffriction == 0 means "same as solref" to the
  constraint builder of both engines, so the effective value is compared."""
  out = []
  for i in range(len(dim)):
    g = (int(geom[i][0]), int(geom[i][1]))
    a, b = (int(flex[i][0]), int(elem[i][0]), int(vert[i][0])), (int(flex[i][1]), int(elem[i][1]), int(vert[i][1]))
    if g[0] < 0 and g[1] < 0 and b < a:
      a, b = b, a
    srf = np.asarray(solreffriction[i], np.float64)
    if not np.any(srf):
      srf = np.asarray(solref[i], np.float64)
    vec = np.concatenate([np.asarray(solref[i], np.float64), srf, np.asarray(solimp[i], np.float64), np.asarray(friction[i], np.float64), [float(dim[i])], [float(includemargin[i])]])
    out.append(((max(g), a[0], b[0]), (g, a, b), vec))
  return out


def compare_params(c, pre, scn, mjm, d, w, mjd, deferred):
  """Parameter fields of the contacts of every (geom, flex) / (flex, flex) pair against MuJoCo's.  Contacts with the
  same integer ids on both sides are compared one to one; pairs whose manifolds differ by design (flex against convex
  geom) are compared through the pair's parameter vector, which MuJoCo computes once per pair."""
  kind, v = scn["kind"], scn["variant"]
  n = int(min(d.nacon.numpy()[0], d.naconmax))
  sel = np.nonzero(d.contact.worldid.numpy()[:n] == w)[0]
  k = d.contact
  A = _param_rows(*[getattr(k, f).numpy()[:n][sel] for f in ("geom", "flex", "elem", "vert", "solref", "solreffriction", "solimp", "friction", "dim", "includemargin")])
  mc = mjd.contact
  B = _param_rows(mc.geom, mc.flex, mc.elem, mc.vert, mc.solref, mc.solreffriction, mc.solimp, mc.friction, mc.dim, mc.includemargin)
  deep_m = {}
  for i in range(mjd.ncon):
    deep_m[B[i][0]] = min(deep_m.get(B[i][0], np.inf), float(mc.dist[i] - mc.includemargin[i]))
  pairs_a, pairs_b = {}, {}
  for rows, pairs in ((A, pairs_a), (B, pairs_b)):
    for pk, fk, vec in rows:
      pairs.setdefault(pk, {}).setdefault(fk, []).append(vec)

  partners = partner_sides(scn)

  def partner_of(pk):
    # partner geoms have ids 0..5; partner flexes ids 1..6 (the flex under test is flex 0)
    g, f0, f1 = pk
    return partners[g] if g >= 0 else partners[max(f0, f1) - 1]

  def describe(pk):
    if kind == "self":
      return side_text(scn["side"], "flex", v) + " against itself"
    return side_text(scn["side"], "flex", v) + " x " + side_text(partner_of(pk), "partner", v)

  def gap_of(pk):
    if kind == "self":
      return side_values(scn["side"], "flex", v)["gap"] * 2
    return side_values(scn["side"], "flex", v)["gap"] + side_values(partner_of(pk), "partner", v)["gap"]

  def cmp_vec(pk, got, want, how):
    for name, lo, hi in PARAM_FIELDS:
      key = f"contact_param_{name}:{kind}"
      if name == "includemargin" and gap_of(pk) != 0.0:
        # own class (objects with a gap), checked after everything else: Cmp keeps the first 12 violations of a scenario
        deferred.append((f"{pre}{describe(pk)}: contact.{name} ({how})", got[lo:hi], want[lo:hi], key + ":gap"))
        continue
      if name == "dim":
        c.equal(f"{pre}{describe(pk)}: contact.dim ({how})", int(got[lo]), int(want[lo]), vkey=key)
      else:
        c.close(f"{pre}{describe(pk)}: contact.{name} ({how})", got[lo:hi], want[lo:hi], "f32", vkey=key)

  npairs = 0
  for pk in sorted(set(pairs_a) | set(pairs_b)):
    if pk not in pairs_a:
      # boundary rule as in compare_geom_flex_invariants: only a pair MuJoCo sees clearly inside its margin counts
      if deep_m[pk] < -1e-5:
        c.fail(f"contact_param_pair_missing:{kind}", f"{pre}{describe(pk)}: MuJoCo has contacts for the pair (dist - includemargin {deep_m[pk]:.5f}), MJWarp has none")
      continue
    if pk not in pairs_b:
      continue  # contact sets are the business of the parity scenarios
    npairs += 1
    uniq_b = np.unique(np.array([x for rows in pairs_b[pk].values() for x in rows]), axis=0)
    done = set()
    for fk in sorted(pairs_a[pk]):
      for got in pairs_a[pk][fk]:
        if fk in pairs_b[pk]:
          want, how = pairs_b[pk][fk][0], f"contact ids {fk}"  # several contacts with the same ids carry the same parameters in MuJoCo
        elif len(uniq_b) == 1:
          want, how = uniq_b[0], "pair parameters"
        else:
          continue
        sig = (got.tobytes(), want.tobytes())
        if sig not in done:  # equal (got, want) vectors of a pair are reported once
          done.add(sig)
          cmp_vec(pk, got, want, how)
  return npairs


def _exec_params(scn):
  import mujoco
  import mujoco_warp as mjw

  xml = build_params_xml(scn)
  mjm, err = util.try_load(xml)
  if mjm is None:
    return dict(ok=True, nontrivial=False, outcome="rejected_by_compiler", info=err, key=util.sha(scn))
  try:
    m = mjw.put_model(mjm)
  except (NotImplementedError, ValueError) as e:
    return dict(ok=True, nontrivial=False, outcome="unsupported", info=str(e)[:200], key=util.sha(scn))
  c = util.Cmp()
  refs = []
  for which in (0, 1):
    # small perturbation: every pair stays in penetration, far from the margin boundary; self: folded in both states
    q, qv = make_state(mjm, scn, which, amp=0.002 + 0.001 * which, fold=scn["kind"] == "self")
    mjd = util.mj_data(mjm, qpos=q, qvel=qv)
    try:
      mujoco.mj_forward(mjm, mjd)
    except mujoco.FatalError as e:
      return dict(ok=True, nontrivial=False, outcome="mujoco_fatal", info=str(e)[:200], key=util.sha(scn))
    refs.append(mjd)
  d = mjw.make_data(mjm, nworld=2, njmax=max(128, 3 * max(r.nefc for r in refs) + 64), nconmax=max(4096, 8 * max(r.ncon for r in refs) + 64))
  util.copy_state(refs[0], d, world=0)
  util.copy_state(refs[1], d, world=1)
  mjw.kinematics(m, d)
  mjw.flex(m, d)
  mjw.collision(m, d)
  ovf = d.overflow.numpy()
  npairs, deferred = [], []
  for w, mjd in enumerate(refs):
    pre = f"state{w}:"
    c.true(pre + "no capacity overflow in the harness", int(ovf[w]) & 0xFF == 0, f"overflow={int(ovf[w])}", vkey="harness_capacity")
    npairs.append(compare_params(c, pre, scn, mjm, d, w, mjd, deferred))
  for name, got, want, key in deferred:
    c.close(name, got, want, "f32", vkey=key)
  want = 1 if scn["kind"] == "self" else len(partner_sides(scn))
  return c.result(
    nontrivial=max(npairs) >= want,
    key=util.sha(scn),
    info=dict(nv=int(mjm.nv), ncon=[int(r.ncon) for r in refs], pairs=npairs, checked=c.nchecked),
  )


def execute(scn):
  if scn.get("fam") == "sensor_stage":
    return _exec_sensor_stage(scn)
  if scn.get("fam") == "params":
    return _exec_params(scn)
  import mujoco
  import mujoco_warp as mjw

  xml = build_xml(scn)
  mjm, err = util.try_load(xml)
  if mjm is None:
    return dict(ok=True, nontrivial=False, outcome="rejected_by_compiler", info=err, key=util.sha(scn))
  try:
    m = mjw.put_model(mjm)
  except (NotImplementedError, ValueError) as e:
    return dict(ok=True, nontrivial=False, outcome="unsupported", info=str(e)[:200], key=util.sha(scn))
  except IndexError as e:
    return dict(ok=True, nontrivial=False, outcome="put_model_IndexError", info=str(e)[:200], key=util.sha(scn))
  tag = f"dim{SHAPES[scn['shape']][1]}:{scn['dof']}:{scn['feature']}:{scn['collision']}"
  lever = True
  if scn.get("fam") == "pinned":
    tag += f":pinned_{scn['mount']}" + (f":elastic2d_{scn['elastic2d']}" if scn["elastic2d"] else "")
    # a free vertex body carries 3 slide joints; any other vertex body is a pin body.  The family is about pinned
    # vertices that sit off the centre of mass of a pin body whose tree has dofs (body_weldid 0 = static)
    r0 = mujoco.MjData(mjm)
    mujoco.mj_forward(mjm, r0)
    lever = any(
      mjm.body_jntnum[b] != 3 and mjm.body_weldid[b] != 0 and np.linalg.norm(r0.flexvert_xpos[i] - r0.xipos[b]) > 1e-3
      for i, b in enumerate(mjm.flex_vertbodyid)
    )
  c = util.Cmp()
  refs = []
  for which in (0, 1):
    q, qv = make_state(mjm, scn, which)
    mjd = util.mj_data(mjm, qpos=q, qvel=qv)
    try:
      mujoco.mj_forward(mjm, mjd)
    except mujoco.FatalError as e:
      return dict(ok=True, nontrivial=False, outcome="mujoco_fatal", info=str(e)[:200], key=util.sha(scn))
    refs.append(mjd)
  if scn["dof"] == "trilinear" and mjm.nflexvert:
    # a vertex strictly inside a cell of the interpolation grid depends on all 8 corner nodes (one on a cell face on <= 4)
    v0 = np.asarray(mjm.flex_vert0).reshape(-1, 3)
    inside = lambda v: int(np.sum((v0[v] > 1e-6) & (v0[v] < 1 - 1e-6))) == 3
    if any(inside(int(x)) for r in refs for k in range(r.ncon) for x in r.contact[k].vert if x >= 0):
      tag += ":contact_vertex_inside_cell"
  d = mjw.make_data(mjm, nworld=2, njmax=max(128, 3 * max(r.nefc for r in refs) + 64), nconmax=max(4096, 8 * max(r.ncon for r in refs) + 64))
  util.copy_state(refs[0], d, world=0)
  util.copy_state(refs[1], d, world=1)
  # the sensor stage is switched off here: sensor_acc indexes geom_bodyid with the -1 geom ids of flex contacts
  # (out-of-bounds read, sporadic SIGSEGV) - that defect is pinned down deterministically by the "sensor_stage" family
  m.opt.disableflags |= int(mjw.DisableBit.SENSOR)
  mjw.forward(m, d)
  ovf = d.overflow.numpy()
  active = dict(moved=False, spring=False, damper=False, rows=False, contacts=False)
  q0 = mujoco.MjData(mjm)
  mujoco.mj_forward(mjm, q0)
  for w, mjd in enumerate(refs):
    if util.mj_warnings(mjd) or not np.all(np.isfinite(mjd.qacc)):
      continue
    pre = f"state{w}:"
    c.true(pre + "no capacity overflow in the harness", int(ovf[w]) & 0xFF == 0, f"overflow={int(ovf[w])}", vkey="harness_capacity")
    c.close(pre + "flexvert_xpos", d.flexvert_xpos.numpy()[w], mjd.flexvert_xpos, "f32", vkey=f"flexvert_xpos:{tag}")
    # family pinned: smooth._flex_edges only walks the dofs of the two vertex bodies themselves, not those of the tree above them,
    # so edge velocity (and the edge Jacobian, where MuJoCo fills it) differ from MuJoCo for every flex that lives on a moving tree:
    # compared like everywhere else and listed as a known finding under the family's own keys (candidates/C40.md section 10)
    if mjm.nflexedge:
      Lref, Vref = edge_reference(mjm, mjd)
      # MuJoCo leaves these arrays at zero when nothing in the model consumes them; then MJWarp may either do the
      # same or hold the true value - anything else is wrong
      gotL, gotV = d.flexedge_length.numpy()[w], d.flexedge_velocity.numpy()[w]
      if np.any(np.asarray(mjd.flexedge_length) != 0) or np.any(gotL != 0):
        c.close(pre + "flexedge_length", gotL, Lref, "f32", vkey=f"flexedge_length:{tag}")
      if np.any(np.asarray(mjd.flexedge_velocity) != 0) or np.any(gotV != 0):
        c.close(pre + "flexedge_velocity", gotV, Vref, "f32dyn", vkey=f"flexedge_velocity:{tag}")
      # where MuJoCo did fill its own arrays they must agree with the reference too (validates the reference)
      if np.any(np.asarray(mjd.flexedge_length) != 0):
        c.close(pre + "flexedge_length (MuJoCo array vs vertex reference)", mjd.flexedge_length, Lref, 1e-9, vkey="harness_edge_reference")
        c.close(pre + "flexedge_length(mj)", d.flexedge_length.numpy()[w], mjd.flexedge_length, "f32", vkey=f"flexedge_length:{tag}")
      if np.any(np.asarray(mjd.flexedge_velocity) != 0):
        c.close(pre + "flexedge_velocity (MuJoCo array vs finite-difference reference)", mjd.flexedge_velocity, Vref, 1e-6, vkey="harness_edge_reference")
        c.close(pre + "flexedge_velocity(mj)", d.flexedge_velocity.numpy()[w], mjd.flexedge_velocity, "f32dyn", vkey=f"flexedge_velocity:{tag}")
      if mjd.flexedge_J.size and np.any(np.asarray(mjd.flexedge_J) != 0):
        shape = (mjm.nflexedge, mjm.nv)
        Jm = _dense(mjm.flexedge_J_rownnz, mjm.flexedge_J_rowadr, mjm.flexedge_J_colind.reshape(-1), np.asarray(mjd.flexedge_J).reshape(-1), shape)
        Jw = _dense(mjm.flexedge_J_rownnz, mjm.flexedge_J_rowadr, mjm.flexedge_J_colind.reshape(-1), d.flexedge_J.numpy()[w].reshape(-1), shape)
        c.close(pre + "flexedge_J", Jw, Jm, "f32", vkey=f"flexedge_J:{tag}")
    for f in ("qfrc_spring", "qfrc_damper", "qfrc_passive"):
      c.close(pre + f, getattr(d, f).numpy()[w], getattr(mjd, f), "f32dyn", vkey=f"{f}:{tag}")
    convex = scn["collision"] == "sphere"
    degen = []
    wtag = tag
    if not convex:
      pre_cmp = util.Cmp()
      ka, kb = compare_contacts(pre_cmp, pre, mjm, d, w, mjd, tag, degen)
      degen_found = bool(degen)
      degen = []
      if SHAPES[scn["shape"]][1] == 3 and ka < kb and all(k[0] < 0 and k[1] < 0 and k[4] >= 0 and k[5] >= 0 for k in kb - ka):
        # solid flex self-collision: every MJWarp contact is one of MuJoCo's, MuJoCo has further tetrahedron-tetrahedron pairs
        wtag = tag + ":tet_tet_pairs_missing"
    else:
      degen_found = False
    compare_rows(c, pre, mjm, m, d, w, mjd, wtag, with_contacts=not convex and not degen_found)
    if convex:
      compare_geom_flex_invariants(c, pre, mjm, d, w, mjd, tag)
    else:
      compare_contacts(c, pre, mjm, d, w, mjd, wtag, degen)
    if not c.violations and not convex and not degen:
      c.close(pre + "qacc", d.qacc.numpy()[w], mjd.qacc, "solver", vkey=f"qacc:{tag}")
    active["moved"] |= not np.allclose(mjd.flexvert_xpos, q0.flexvert_xpos)
    active["spring"] |= bool(np.any(mjd.qfrc_spring != 0))
    active["damper"] |= bool(np.any(mjd.qfrc_damper != 0))
    active["rows"] |= bool(np.any(np.asarray(mjd.efc_type) == 0))
    active["contacts"] |= mjd.ncon > 0
  feat, col = scn["feature"], scn["collision"]
  need = {"elasticity": active["spring"], "damping": active["damper"], "edgespring": active["spring"] and active["damper"], "edgeeq": active["rows"], "straineq": active["rows"]}[feat]
  if col != "none":
    need = need and active["contacts"]
  return c.result(
    nontrivial=active["moved"] and need and lever,
    key=util.sha(scn),
    info=dict(nv=int(mjm.nv), nflexvert=int(mjm.nflexvert), ncon=[int(r.ncon) for r in refs], nefc=[int(r.nefc) for r in refs], active=active, checked=c.nchecked),
  )
