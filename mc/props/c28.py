"""C28 Constraint islands are the connected components.

Space: all constraint graphs on T kinematic trees.  Every unordered tree pair carries one of
{no edge, connect equality, contact}; every tree carries a self edge in {none, dof friction, contact with
a static body}.  Contacts exist only through explicit <contact><pair>s between otherwise non-colliding,
mutually overlapping spheres, so the set of contact edges is exactly the spec's.  World 0 holds the
overlapping state (full graph), world 1 a state with every tree moved far away (graph minus contact
edges) - so a batch holds two different graphs.  Every graph is evaluated with the dense and the sparse
constraint Jacobian.  A second family puts one "generic" constraint (joint equality, tendon limit /
friction / equality over every non-empty subset of trees, site weld, weld or connect to the world /
a static body, joint limit) next to every choice of one extra connect edge.

Oracles: (1) union-find over the spec's own edge list, (2) union-find over edges re-derived in numpy from
MJWarp's own constraint rows (row type/id -> bodies -> trees; generic rows -> trees of non-zero Jacobian
columns), (3) MuJoCo's mj_island.  All integer-exact.
"""

import itertools

import numpy as np

from mc import util

ID = "C28"
LEVEL = "exploration"
RULE = (
  "enumerate every graph on T trees: each unordered pair in {none, connect, contact} x each tree's self edge in "
  "{none, dof friction, static-body contact}; plus generic-row family (kind x tree subset x extra connect edge); "
  "each scenario runs dense+sparse Jacobian, 2 worlds (full graph / graph without contact edges); non-trivial = at least "
  "one island found in world 0 and the expected labelling (spec union-find) has >=1 edge; distinct = hash of spec"
)
BOUNDS = {
  "quick": "T<=3 trees (3+27+729 graphs) + all 1024 graphs on 5 trees + 729 double-hub graphs on 8 trees + generic family on T=3 (all kinds x subsets x 4 extra-edge choices)",
  "thorough": "T<=4 trees (3+27+729+59049 graphs) + all graphs on 5 and 6 trees (1024+32768) + 8192 double-hub graphs on 8 trees + generic family on T=3 and T=4",
}
ASSUMPTIONS = [
  "island()/compute_island_mapping() are called directly after fwd_position (the library itself only calls them when sleep is enabled)",
  "order of dofs/rows inside an island is compared with MuJoCo's (ascending) order: the CPU backend runs tasks in order",
  "no 'random larger' graphs: the quantifier's random part is replaced by exhaustive T<=4",
  "flex rows (generic path through negative geom ids) are not generated here",
  "CPU backend only; MuJoCo C 3.13 mj_island as third oracle",
  "Data is first made with make_data's default capacities; if MJWarp's constraint rows (type, id) then differ from MuJoCo's "
  "(rows lost to a too small default njmax_nnz) that is reported under efc_rows_differ_from_mujoco:* and the island checks are "
  "redone with njmax_nnz = 64*nv",
]
BUDGET = {"quick": 400, "thorough": 3000}

PAIR_ALPHA = ("none", "connect", "contact")
SELF_ALPHA = ("none", "friction", "static")

GENERIC_KINDS = (
  "jointeq",  # joint equality over 1 or 2 trees
  "tenlimit",  # limited fixed tendon over a subset of trees
  "tenfriction",  # fixed tendon with frictionloss over a subset
  "teneq",  # tendon equality (one tendon over the subset, or two tendons splitting it)
  "siteweld",  # weld with site semantics between two trees (or tree and static body)
  "weldworld",  # weld of a tree body to the world
  "connectstatic",  # connect of a tree body to the static (non-world) body
  "jointlimit",  # violated joint limit
  "balllimit",  # violated ball joint limit (tree with free joint gets a ball child)
)


def _pairs(T):
  return list(itertools.combinations(range(T), 2))


def scenarios(tier, seed):
  tmax = 3 if tier == "quick" else 4
  variant = seed % 4
  out = []
  idx = 0
  for T in range(1, tmax + 1):
    prs = _pairs(T)
    for pa in itertools.product(range(3), repeat=len(prs)):
      for sa in itertools.product(range(3), repeat=T):
        out.append(dict(fam="graph", T=T, pairs=list(pa), selfs=list(sa), variant=variant, idx=idx))
        idx += 1
  # dense graphs: every labelled graph on 5 (thorough: 6) trees, and every "double hub" graph on 8 trees (two hub trees, every other
  # tree attached to hub A, hub B or both [thorough: or neither], hubs linked [thorough: or not]); edge kind by parity
  def dense(T, edge_set):
    prs = _pairs(T)
    codes = [0] * len(prs)
    for a, b in edge_set:
      codes[prs.index((min(a, b), max(a, b)))] = 2 if ((a + b) % 2 == 1 and abs(a - b) <= 3) else 1
    return codes

  for T in (5,) if tier == "quick" else (5, 6):
    prs = _pairs(T)
    for bits in range(1 << len(prs)):
      out.append(dict(fam="graph", T=T, pairs=dense(T, [p for i, p in enumerate(prs) if bits >> i & 1]), selfs=[0] * T, variant=variant, idx=idx))
      idx += 1
  hubs, leaves = (0, 5), (1, 2, 3, 4, 6, 7)
  for hub_edge in (1,) if tier == "quick" else (1, 0):
    for att in itertools.product((1, 2, 3) if tier == "quick" else (0, 1, 2, 3), repeat=len(leaves)):
      es = [hubs] if hub_edge else []
      for leaf, a in zip(leaves, att):
        es += [(hubs[0], leaf)] if a & 1 else []
        es += [(hubs[1], leaf)] if a & 2 else []
      out.append(dict(fam="graph", T=8, pairs=dense(8, es), selfs=[0] * 8, variant=variant, idx=idx))
      idx += 1
  for T in (3,) if tier == "quick" else (3, 4):
    subsets = [list(s) for k in range(1, T + 1) for s in itertools.combinations(range(T), k)]
    extras = [None] + [list(p) for p in _pairs(T)]
    for kind in GENERIC_KINDS:
      if kind in ("tenlimit", "tenfriction", "teneq"):
        subs = subsets
      elif kind in ("jointeq",):
        subs = [s for s in subsets if len(s) <= 2]
      elif kind == "siteweld":
        subs = [s for s in subsets if len(s) <= 2]
      else:
        subs = [s for s in subsets if len(s) == 1]
      for s in subs:
        for ex in extras:
          out.append(dict(fam="generic", T=T, kind=kind, subset=s, extra=ex, variant=variant, idx=idx))
          idx += 1
  return out


# ------------------------------------------------------------------------------------------------ model


def _scalar_joint(k):
  """Name of a scalar joint in tree k."""
  return f"j{k}" if k % 2 == 0 else f"jj{k}"


def build(scn):
  """Returns (xml, edges) where edges is the spec's list of (tree_a, tree_b, needs_contact)."""
  T, v = scn["T"], scn["variant"]
  idx = scn["idx"]
  fr = {k: "" for k in range(T)}
  lim = {k: "" for k in range(T)}
  ball = set()
  pairs_xml, eq_xml, ten_xml = "", "", ""
  edges = []
  # offsets between spheres (radius .2): all mutually overlapping in world 0
  dx = (0.05, 0.04, 0.06, 0.03)[v]
  if scn["fam"] == "graph":
    for pi, ((a, b), code) in enumerate(zip(_pairs(T), scn["pairs"])):
      if PAIR_ALPHA[code] == "connect":
        # alternate argument order so obj1/obj2 roles are both exercised
        b1, b2 = (f"r{a}", f"r{b}") if (pi + idx) % 2 == 0 else (f"r{b}", f"r{a}")
        eq_xml += f'<connect body1="{b1}" body2="{b2}" anchor="0.1 0.2 0.3"/>'
        edges.append((a, b, False))
      elif PAIR_ALPHA[code] == "contact":
        g1, g2 = (f"g{a}", f"g{b}") if (pi + idx) % 3 != 0 else (f"g{b}", f"g{a}")
        condim = (1, 3, 4, 6)[(pi + idx) % 4]
        pairs_xml += f'<pair geom1="{g1}" geom2="{g2}" condim="{condim}"/>'
        edges.append((a, b, True))
    for k, code in enumerate(scn["selfs"]):
      if SELF_ALPHA[code] == "friction":
        fr[k] = ' frictionloss="0.2"'
        edges.append((k, k, False))
      elif SELF_ALPHA[code] == "static":
        g1, g2 = ("gs", f"g{k}") if (k + idx) % 2 == 0 else (f"g{k}", "gs")
        pairs_xml += f'<pair geom1="{g1}" geom2="{g2}" condim="{(3, 1, 4)[(k + idx) % 3]}"/>'
        edges.append((k, k, True))
  else:
    kind, S, ex = scn["kind"], scn["subset"], scn["extra"]
    if ex is not None:
      eq_xml += f'<connect body1="r{ex[0]}" body2="r{ex[1]}" anchor="0.1 0.2 0.3"/>'
      edges.append((ex[0], ex[1], False))
    star = [(S[0], s, False) for s in S]  # a row over S connects all of S
    if kind == "jointeq":
      j2 = f' joint2="{_scalar_joint(S[1])}"' if len(S) == 2 else ""
      eq_xml += f'<joint joint1="{_scalar_joint(S[0])}"{j2} polycoef="0.1 1 0 0 0"/>'
      edges += star
    elif kind in ("tenlimit", "tenfriction"):
      att = ' limited="true" range="1 2"' if kind == "tenlimit" else ' frictionloss="0.3"'
      ten_xml += f'<fixed name="t0"{att}>' + "".join(f'<joint joint="{_scalar_joint(s)}" coef="{1.0 + 0.5 * i}"/>' for i, s in enumerate(S)) + "</fixed>"
      edges += star
    elif kind == "teneq":
      h = max(1, len(S) // 2)
      A, B = S[:h], S[h:]
      ten_xml += '<fixed name="t0">' + "".join(f'<joint joint="{_scalar_joint(s)}" coef="{1.0 + 0.5 * i}"/>' for i, s in enumerate(A)) + "</fixed>"
      if B:
        ten_xml += '<fixed name="t1">' + "".join(f'<joint joint="{_scalar_joint(s)}" coef="{-0.7 - 0.5 * i}"/>' for i, s in enumerate(B)) + "</fixed>"
        eq_xml += '<tendon tendon1="t0" tendon2="t1" polycoef="0.1 1 0 0 0"/>'
      else:
        eq_xml += '<tendon tendon1="t0" polycoef="0.1 1 0 0 0"/>'
      edges += star
    elif kind == "siteweld":
      s1 = f"s{S[0]}"
      s2 = f"s{S[1]}" if len(S) == 2 else "ss"
      if idx % 2:
        s1, s2 = s2, s1
      eq_xml += f'<weld site1="{s1}" site2="{s2}"/>'
      edges += star
    elif kind == "weldworld":
      eq_xml += f'<weld body1="c{S[0]}"/>' if S[0] % 2 else f'<weld body1="r{S[0]}"/>'
      edges += star
    elif kind == "connectstatic":
      b1, b2 = (f"r{S[0]}", "st") if idx % 2 == 0 else ("st", f"r{S[0]}")
      eq_xml += f'<connect body1="{b1}" body2="{b2}" anchor="0 0 0.1"/>'
      edges += star
    elif kind == "jointlimit":
      lim[S[0]] = ' limited="true" range="0.5 1"'
      edges += star
    elif kind == "balllimit":
      ball.add(S[0])
      edges += star
  gat = 'contype="0" conaffinity="0"'
  bodies = f'<body name="st" pos="0 0 0.02"><geom name="gs" size="0.2" {gat}/><site name="ss" pos="0.1 0 0"/></body>'
  for k in range(T):
    pos = f"{dx * (k + 1):.3g} {0.01 * k:.3g} 0"
    if k % 2 == 0:
      bodies += (
        f'<body name="r{k}" pos="{pos}"><joint name="j{k}" type="slide" axis="0 0 1"{fr[k]}{lim[k]}/>'
        f'<geom name="g{k}" size="0.2" {gat}/><site name="s{k}" pos="0 0.1 0"/>'
      )
      if k in ball:
        bodies += f'<body name="c{k}" pos="0 0 0.5"><joint name="jb{k}" type="ball" limited="true" range="0 0.3"/><geom size="0.02" mass="0.1" {gat}/></body>'
      bodies += "</body>"
    else:
      bodies += (
        f'<body name="r{k}" pos="{pos}"><freejoint name="j{k}"/><geom name="g{k}" size="0.2" {gat}/>'
        f'<body name="c{k}" pos="0 0 0.5"><joint name="jj{k}" type="hinge" axis="0 1 0"{fr[k]}{lim[k]}/>'
        f'<geom size="0.02" mass="0.1" {gat}/><site name="s{k}" pos="0 0.1 0"/>'
      )
      if k in ball:
        bodies += f'<body name="cc{k}" pos="0 0 0.3"><joint name="jb{k}" type="ball" limited="true" range="0 0.3"/><geom size="0.02" mass="0.1" {gat}/></body>'
      bodies += "</body></body>"
  cone = ("pyramidal", "elliptic")[(idx + v) % 2]
  xml = (
    f'<mujoco><option cone="{cone}"/><worldbody>{bodies}</worldbody>'
    + (f"<contact>{pairs_xml}</contact>" if pairs_xml else "")
    + (f"<tendon>{ten_xml}</tendon>" if ten_xml else "")
    + (f"<equality>{eq_xml}</equality>" if eq_xml else "")
    + "</mujoco>"
  )
  return xml, edges


# ------------------------------------------------------------------------------------------------ oracles


def components(ntree, edges):
  """Union-find reference: labels per tree (-1 untouched), islands numbered by their smallest tree."""
  parent = list(range(ntree))

  def find(x):
    while parent[x] != x:
      parent[x] = parent[parent[x]]
      x = parent[x]
    return x

  touched = [False] * ntree
  for a, b in edges:
    touched[a] = touched[b] = True
    ra, rb = find(a), find(b)
    if ra != rb:
      parent[max(ra, rb)] = min(ra, rb)
  label, out = {}, []
  for t in range(ntree):
    if not touched[t]:
      out.append(-1)
      continue
    r = find(t)
    if r not in label:
      label[r] = len(label)
    out.append(label[r])
  return out


def row_trees(mjm, rows, contact_geoms, r):
  """Trees touched by MJWarp's constraint row r, derived independently of island.py (numpy, from MjModel)."""
  import mujoco

  ct = mujoco.mjtConstraint
  ty, i = int(rows["type"][r]), int(rows["id"][r])
  bodies = None
  if ty == int(ct.mjCNSTR_EQUALITY) and int(mjm.eq_type[i]) in (int(mujoco.mjtEq.mjEQ_CONNECT), int(mujoco.mjtEq.mjEQ_WELD)):
    o1, o2 = int(mjm.eq_obj1id[i]), int(mjm.eq_obj2id[i])
    if int(mjm.eq_objtype[i]) == int(mujoco.mjtObj.mjOBJ_SITE):
      o1, o2 = int(mjm.site_bodyid[o1]), int(mjm.site_bodyid[o2])
    bodies = (o1, o2)
  elif ty in (int(ct.mjCNSTR_CONTACT_FRICTIONLESS), int(ct.mjCNSTR_CONTACT_PYRAMIDAL), int(ct.mjCNSTR_CONTACT_ELLIPTIC)):
    g = contact_geoms[i]
    bodies = (int(mjm.geom_bodyid[g[0]]), int(mjm.geom_bodyid[g[1]]))
  if bodies is not None:
    return sorted({int(mjm.body_treeid[b]) for b in bodies if mjm.body_treeid[b] >= 0})
  cols = np.nonzero(rows["J"][r])[0]
  return sorted({int(mjm.dof_treeid[c]) for c in cols})


def check_world(c, mjm, m, d, w, expect_labels, pre, mjd=None):
  """All island/mapping invariants of world w. Returns number of islands."""
  nv, ntree = mjm.nv, mjm.ntree
  nefc, rows = util.efc_dense(m, d, w)
  tree_island = d.tree_island.numpy()[w]
  nisland = int(d.nisland.numpy()[w])
  c.equal(pre + "tree_island(spec)", tree_island, np.array(expect_labels), vkey="tree_island_vs_spec_components")
  c.equal(pre + "nisland(spec)", nisland, max(expect_labels) + 1, vkey="nisland_vs_spec_components")
  # oracle 2: from MJWarp's own rows
  geoms = d.contact.geom.numpy()
  e2, rtrees = [], []
  for r in range(nefc):
    ts = row_trees(mjm, rows, geoms, r)
    rtrees.append(ts)
    e2 += [(ts[0], t) for t in ts]
  lab2 = components(ntree, e2)
  c.equal(pre + "tree_island(rows)", tree_island, np.array(lab2), vkey="tree_island_vs_row_components")
  if mjd is not None:
    c.equal(pre + "tree_island(mj)", tree_island, np.array(_mj_labels(mjm, mjd)), vkey="tree_island_vs_mj_island")
    c.equal(pre + "nisland(mj)", nisland, mjd.nisland, vkey="nisland_vs_mj_island")
  if nisland != max(lab2) + 1 or not np.array_equal(tree_island, lab2):
    return nisland  # maps are meaningless against a different labelling
  lab = np.array(lab2)
  # ---- dof side
  dof_island = d.dof_island.numpy()[w]
  want_dof_island = lab[mjm.dof_treeid] if nv else np.zeros(0, int)
  c.equal(pre + "dof_island", dof_island, want_dof_island, vkey="dof_island")
  nidof = int(d.nidof.numpy()[w])
  c.equal(pre + "nidof", nidof, int(np.sum(want_dof_island >= 0)), vkey="nidof")
  inv = np.array([int(np.sum(want_dof_island == i)) for i in range(nisland)], int)
  c.equal(pre + "island_nv", d.island_nv.numpy()[w, :nisland], inv, vkey="island_nv")
  iadr = np.concatenate([[0], np.cumsum(inv)[:-1]]).astype(int) if nisland else np.zeros(0, int)
  c.equal(pre + "island_idofadr", d.island_idofadr.numpy()[w, :nisland], iadr, vkey="island_idofadr")
  c.equal(
    pre + "island_dofadr",
    d.island_dofadr.numpy()[w, :nisland],
    np.array([int(np.nonzero(want_dof_island == i)[0][0]) for i in range(nisland)], int),
    vkey="island_dofadr",
  )
  d2i = d.map_dof2idof.numpy()[w]
  i2d = d.map_idof2dof.numpy()[w]
  c.true(pre + "map_dof2idof is a permutation", sorted(d2i.tolist()) == list(range(nv)), f"{d2i}", vkey="map_dof2idof_not_permutation")
  if sorted(d2i.tolist()) == list(range(nv)):
    c.equal(pre + "map_idof2dof[map_dof2idof]", i2d[d2i], np.arange(nv), vkey="dof_maps_not_inverse")
    for i in range(nisland):
      seg = i2d[iadr[i] : iadr[i] + inv[i]]
      c.true(pre + f"island {i} idof block", np.all(want_dof_island[seg] == i), f"dofs {seg} islands {want_dof_island[seg]}", vkey="idof_block_not_contiguous")
    c.true(pre + "unconstrained dofs after nidof", np.all(want_dof_island[i2d[nidof:]] == -1), vkey="idof_tail")
    c.equal(pre + "dof_islandid", d.dof_islandid.numpy()[w, :nidof], want_dof_island[i2d[:nidof]], vkey="dof_islandid")
  # ---- constraint side
  efc_island = d.efc.island.numpy()[w, :nefc]
  want_efc_island = np.array([lab[ts[0]] if ts else -1 for ts in rtrees], int)
  c.equal(pre + "efc_island", efc_island, want_efc_island, vkey="efc_island")
  for r, ts in enumerate(rtrees):
    if len({lab[t] for t in ts}) > 1:
      c.fail("row_spans_islands", f"{pre}row {r} touches trees {ts} in different islands")
  import mujoco

  ty = rows["type"]
  is_e = ty == int(mujoco.mjtConstraint.mjCNSTR_EQUALITY)
  is_f = (ty == int(mujoco.mjtConstraint.mjCNSTR_FRICTION_DOF)) | (ty == int(mujoco.mjtConstraint.mjCNSTR_FRICTION_TENDON))
  nefc_i = np.array([int(np.sum(want_efc_island == i)) for i in range(nisland)], int)
  ne_i = np.array([int(np.sum((want_efc_island == i) & is_e)) for i in range(nisland)], int)
  nf_i = np.array([int(np.sum((want_efc_island == i) & is_f)) for i in range(nisland)], int)
  c.equal(pre + "island_nefc", d.island_nefc.numpy()[w, :nisland], nefc_i, vkey="island_nefc")
  c.equal(pre + "island_ne", d.island_ne.numpy()[w, :nisland], ne_i, vkey="island_ne")
  c.equal(pre + "island_nf", d.island_nf.numpy()[w, :nisland], nf_i, vkey="island_nf")
  eadr = np.concatenate([[0], np.cumsum(nefc_i)[:-1]]).astype(int) if nisland else np.zeros(0, int)
  c.equal(pre + "island_iefcadr", d.island_iefcadr.numpy()[w, :nisland], eadr, vkey="island_iefcadr")
  e2i = d.map_efc2iefc.numpy()[w, :nefc]
  i2e = d.map_iefc2efc.numpy()[w, :nefc]
  inisl = want_efc_island >= 0
  ntot = int(inisl.sum())
  img = e2i[inisl]
  c.true(pre + "map_efc2iefc is a bijection onto [0,n)", sorted(img.tolist()) == list(range(ntot)), f"{e2i} island rows {np.nonzero(inisl)[0]}", vkey="map_efc2iefc_not_permutation")
  if sorted(img.tolist()) == list(range(ntot)):
    c.equal(pre + "map_iefc2efc[map_efc2iefc]", i2e[img], np.nonzero(inisl)[0], vkey="efc_maps_not_inverse")
    for i in range(nisland):
      seg = i2e[eadr[i] : eadr[i] + nefc_i[i]]
      ok = np.all(want_efc_island[seg] == i)
      c.true(pre + f"island {i} iefc block", ok, f"rows {seg}", vkey="iefc_block_not_contiguous")
      if ok:
        # equality rows first, then friction rows, then the rest
        c.true(pre + f"island {i} ne/nf order", np.all(is_e[seg[: ne_i[i]]]) and np.all(is_f[seg[ne_i[i] : ne_i[i] + nf_i[i]]]), f"types {ty[seg]}", vkey="iefc_category_order")
    c.equal(pre + "efc_islandid", d.efc_islandid.numpy()[w, :ntot], want_efc_island[i2e[:ntot]], vkey="efc_islandid")
  if mjd is not None and mjd.nisland > 0 and mjd.nefc == nefc and np.array_equal(mjd.efc_type, ty) and np.array_equal(mjd.efc_id, rows["id"]):
    # same rows in the same order: MuJoCo's maps are directly comparable (ascending order inside an island)
    c.equal(pre + "map_dof2idof(mj)", d2i, mjd.map_dof2idof, vkey="mj_parity:map_dof2idof")
    c.equal(pre + "map_idof2dof(mj)", i2d, mjd.map_idof2dof, vkey="mj_parity:map_idof2dof")
    c.equal(pre + "efc_island(mj)", efc_island, mjd.efc_island, vkey="mj_parity:efc_island")
    c.equal(pre + "map_efc2iefc(mj)", e2i[inisl], np.array(mjd.map_efc2iefc)[inisl], vkey="mj_parity:map_efc2iefc")
    c.equal(pre + "map_iefc2efc(mj)", i2e[:ntot], np.array(mjd.map_iefc2efc)[:ntot], vkey="mj_parity:map_iefc2efc")
    for f in ("island_nv", "island_nefc", "island_ne", "island_nf", "island_idofadr", "island_dofadr", "island_iefcadr"):
      c.equal(pre + f + "(mj)", getattr(d, f).numpy()[w, :nisland], getattr(mjd, f)[:nisland], vkey="mj_parity:" + f)
  return nisland


def _mj_labels(mjm, mjd):
  """mj_island's labels (its tree_island is not written when it finds no island)."""
  return [int(x) for x in mjd.tree_island] if mjd.nisland > 0 else [-1] * mjm.ntree


def far_qpos(mjm, T):
  """World-1 state: every tree moved far away from everything else (no contacts)."""
  import mujoco

  q = np.array(mjm.qpos0)
  for k in range(T):
    j = mujoco.mj_name2id(mjm, mujoco.mjtObj.mjOBJ_JOINT, f"j{k}")
    a = mjm.jnt_qposadr[j]
    q[a + (0 if k % 2 == 0 else 2)] = 10.0 * (k + 1)
  return _rot_balls(mjm, q)


def _rot_balls(mjm, q):
  """Ball joints get a rotated state so that their (tiny) limit is violated."""
  import mujoco

  for j in range(mjm.njnt):
    if mjm.jnt_type[j] == mujoco.mjtJoint.mjJNT_BALL:
      a = mjm.jnt_qposadr[j]
      q[a : a + 4] = (0.8, 0.6, 0.0, 0.0)
  return q


def execute(scn):
  import mujoco
  import mujoco_warp as mjw
  from mujoco_warp._src import island

  xml, edges = build(scn)
  mjm, err = util.try_load(xml)
  if mjm is None:
    raise RuntimeError(f"scenario model rejected by the compiler: {err}")
  T = scn["T"]
  assert mjm.ntree == T
  want0 = components(T, [(a, b) for a, b, _ in edges])
  want1 = components(T, [(a, b) for a, b, ct in edges if not ct])
  c = util.Cmp()
  nisl0 = 0
  for jac in ("dense", "sparse"):
    mjm.opt.jacobian = mujoco.mjtJacobian.mjJAC_DENSE if jac == "dense" else mujoco.mjtJacobian.mjJAC_SPARSE
    refs = []
    for q in (_rot_balls(mjm, np.array(mjm.qpos0)), far_qpos(mjm, T)):
      mjd = util.mj_data(mjm, qpos=q)
      mujoco.mj_forward(mjm, mjd)
      refs.append(mjd)
    # the spec's graph must be the one MuJoCo sees, otherwise the scenario builder is wrong (harness error)
    if _mj_labels(mjm, refs[0]) != want0 or _mj_labels(mjm, refs[1]) != want1:
      raise RuntimeError(f"spec components {want0}/{want1} != mj_island {_mj_labels(mjm, refs[0])}/{_mj_labels(mjm, refs[1])}")
    m = mjw.put_model(mjm)
    # first with make_data's default capacities (what a user gets); the island checks need MJWarp's rows to be
    # MuJoCo's rows - if the default sparse capacity loses rows, report that under its own key and redo the
    # island checks with a generous njmax_nnz
    for nnz in (None, 64 * mjm.nv):
      d = mjw.make_data(mjm, nworld=2, njmax_nnz=nnz)
      util.copy_state(refs[0], d, world=0)
      util.copy_state(refs[1], d, world=1)
      mjw.fwd_position(m, d)
      same = True
      for w in (0, 1):
        n = int(d.nefc.numpy()[w])
        ty, ids = d.efc.type.numpy()[w, :n], d.efc.id.numpy()[w, :n]
        if n != refs[w].nefc or not np.array_equal(ty, refs[w].efc_type) or not np.array_equal(ids, refs[w].efc_id):
          same = False
          kind = scn.get("kind", "graph")
          cap = "default_capacity" if nnz is None else "generous_capacity"
          c.fail(
            f"efc_rows_differ_from_mujoco:{cap}:{jac}:{kind}",
            f"{jac}:w{w}: make_data(njmax_nnz={nnz}) -> njmax_nnz={d.njmax_nnz}; efc type/id {ty.tolist()}/{ids.tolist()} vs MuJoCo "
            f"{refs[w].efc_type.tolist()}/{refs[w].efc_id.tolist()}; overflow={d.overflow.numpy().tolist()}",
          )
          break
      if same:
        break
    mjw.island(m, d)
    island.compute_island_mapping(m, d)
    nisl0 = check_world(c, mjm, m, d, 0, want0, f"{jac}:w0:", refs[0])
    check_world(c, mjm, m, d, 1, want1, f"{jac}:w1:", refs[1])
  return c.result(
    nontrivial=nisl0 > 0 and len(edges) > 0,
    key=util.sha(scn),
    info=dict(T=T, edges=len(edges), nisland=nisl0, checked=c.nchecked),
  )
