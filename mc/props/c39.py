"""C39 contact_force reports the contact wrench exactly as mujoco.mj_contactForce does.

Space: contact scenes of the shared constraint family (every 3-body tree x joint pattern x every contact option: condim 1/3/4/6
against world plane / sphere / capsule / box, body-body sphere and capsule contacts, in-margin, in-gap (no rows), adhesive
penetrating / in-margin / in-gap) optionally combined with one other constraint feature (so contact rows do not start at row 0),
plus dedicated multi-contact scenes (stacks, capsule condim 6, mixed pile) x cone {pyramidal, elliptic} x jacobian {dense,
sparse} x to_world_frame {False, True} x every contact id of a 3-world batch (ids interleave worlds) + ids out of range
x capacity slack of the Data buffers: ample (scene default), exact fit (njmax = constraint rows of the fullest world, naconmax =
contacts of the batch, both measured per scene and configuration from the ample run; legal, nothing overflows, the last contact's
row block ends exactly at njmax) and exact fit + 1.
Oracle: mujoco.mj_contactForce on an MjData holding MJWarp's solved forces: (a) the MjData produced by mjw.get_data_into,
(b) an MjData filled directly with MJWarp's efc_force / contact arrays using MJWarp's own row addresses (independent of
get_data_into's row re-ordering); world frame = contact.frame^T applied to force and torque.
"""

import numpy as np

from mc import space, util
from mc.refs import conscenes as cs
from mc.props import c06

ID = "C39"
LEVEL = "exploration"
RULE = (
  "enumerate contact scenes x cone x jacobian x buffer capacity {ample, exact fit, exact fit + 1}; every contact id of the batch is decoded with to_world_frame False and True; "
  "non-trivial = at least one decoded contact has a non-zero force with dim>1 or adhesion; distinct = canonical hash of the spec"
)
BOUNDS = {
  "quick": "all 11 contact options x 5 trees x 2 joint patterns; contact option x one other feature (core options) on cycling trees; 5 dedicated multi-contact scenes x 2 variants; capacity: ample on every (cone, jacobian), exact fit on both cones (jacobian alternating with cone and scenario), exact fit + 1 on one further configuration of the contact-only and dedicated scenes",
  "thorough": "same plus contact option x every other single feature option on all trees; dedicated scenes x 4 variants; capacity {ample, exact fit, exact fit + 1} on every (cone, jacobian)",
}
ASSUMPTIONS = [
  "class f32 (2e-5*(1+max|ref|)): both sides decode the same float32 efc_force, MuJoCo in float64",
  "oracle (b) fills a MjData (sized by mujoco._functions._realloc_con_efc, as get_data_into does) with MJWarp's arrays; oracle (a) is skipped for a world whose get_data_into result marks an inactive contact as active (reported under its own vkey; that is C31's subject)",
  "exact-fit capacities are measured from the ample run of the same model and states: njmax = max over worlds of nefc, naconmax = max(nacon, ncollision) (broadphase candidate pairs share the contact capacity); the tight runs are compared against oracles built from their own arrays, and evidence counts how many tight runs reproduced the ample run's nefc/nacon and how many worlds had a contact row block ending exactly at njmax",
  "ids >= nacon must leave the output untouched (kernel returns early); CPU backend; Newton solver",
]
BUDGET = {"quick": 400, "thorough": 2000}


def scenarios(tier, seed):
  variant = seed % 4
  trees = space.trees(3)
  out, seen = [], set()

  def add(scn):
    k = util.sha(scn)
    if k not in seen and (scn["fam"] != "tree" or cs.applicable(scn)):
      seen.add(k)
      out.append(scn)

  for co in cs.GROUPS["con"]:
    for ti in range(5):
      for pat in (0, 1):
        add(dict(fam="tree", parents=list(trees[ti]), pattern=pat, feats=[["con", co]], state=1, variant=variant))
  from mc.props import c05

  others = [g for g in cs.GROUP_ORDER if g != "con"]
  i = 0
  for g in others:
    for o in (c05.CORE[g] if tier == "quick" else cs.GROUPS[g]):
      for co in cs.GROUPS["con"]:
        tis = (i % 5,) if tier == "quick" else range(5)
        for ti in tis:
          fs = sorted([[g, o], ["con", co]], key=lambda x: cs.GROUP_ORDER.index(x[0]))
          add(dict(fam="tree", parents=list(trees[ti]), pattern=(i + ti) % 2, feats=fs, state=1, variant=variant))
        i += 1
  for name in ("sphere_slide", "capsule6", "stack2", "stack3", "pile_mixed"):
    for dv in range(2 if tier == "quick" else 4):
      add(dict(fam="dedicated", name=name, variant=(variant + dv) % 4))
  if tier != "quick":
    for scn in out:
      scn["cap"] = "full"  # every (cone, jacobian) x capacity {exact fit, +1}; quick: covering subset, see _capacity_plan
  return out


def _filled_mjdata(mujoco, mjm, d, w, sel, nefc):
  """MjData carrying MJWarp's forces and contacts of world w with MJWarp's own (contiguous per contact) row addresses."""
  res = mujoco.MjData(mjm)
  ncon = len(sel)
  mujoco._functions._realloc_con_efc(res, ncon=ncon, nefc=nefc, nJ=nefc * mjm.nv)
  res.ncon = ncon
  c = d.contact
  if ncon:
    res.contact.dist[:ncon] = c.dist.numpy()[sel]
    res.contact.pos[:ncon] = c.pos.numpy()[sel]
    res.contact.frame[:ncon] = c.frame.numpy()[sel].reshape((-1, 9))
    res.contact.includemargin[:ncon] = c.includemargin.numpy()[sel]
    res.contact.friction[:ncon] = c.friction.numpy()[sel]
    res.contact.adhesion[:ncon] = c.adhesion.numpy()[sel]
    res.contact.dim[:ncon] = c.dim.numpy()[sel]
    res.contact.geom[:ncon] = c.geom.numpy()[sel]
    res.contact.efc_address[:ncon] = c.efc_address.numpy()[sel][:, 0]
  if nefc:
    res.efc_force[:] = d.efc.force.numpy()[w, :nefc]
    res.efc_type[:] = d.efc.type.numpy()[w, :nefc]
  return res


def _capacity_plan(scn, cone, jac):
  """Capacity levels (slack added to the measured exact fit) to re-run for this (cone, jacobian) besides the ample run.

  thorough ("cap": "full"): every (cone, jacobian) x {exact fit, +1}.
  quick: exact fit for both cones, the jacobian alternating with the cone and a per-scenario parity (so all four
  (cone, jacobian) get exact-fit runs across neighbouring scenarios); +1 on one further configuration for the scenes whose
  only feature is the contact and for the dedicated multi-contact scenes.
  """
  if scn.get("cap") == "full":
    return (0, 1)
  p = int(util.sha(scn)[:8], 16) % 2
  plan = []
  if jac == (cone + p) % 2:
    plan.append(0)
  if (scn["fam"] != "tree" or len(scn["feats"]) == 1) and cone == p and jac == 1 - p:
    plan.append(1)
  return tuple(plan)


def _check_config(c, mods, mjm, m, d, tag, ktag):
  """All contact ids of the batch held by d against both oracles; returns (decoded, loaded, nefc per world, nacon, ncollision)."""
  mujoco, wp, mjw = mods
  ndecoded = nloaded = 0
  nworld = d.nworld
  nacon = min(int(d.nacon.numpy()[0]), d.naconmax)
  wid = d.contact.worldid.numpy()[:nacon]
  adr0 = d.contact.efc_address.numpy()[:nacon, 0] if nacon else np.zeros(0, int)
  dims = d.contact.dim.numpy()[:nacon]
  adh = d.contact.adhesion.numpy()[:nacon]
  nefcs = [min(int(x), d.njmax) for x in d.nefc.numpy()[:nworld]]
  # reference per contact (contact frame), both oracles
  want_b = np.zeros((nacon, 6))
  want_a = np.full((nacon, 6), np.nan)
  frames = d.contact.frame.numpy()[:nacon].astype(np.float64) if nacon else np.zeros((0, 3, 3))
  for w in range(nworld):
    sel = np.nonzero(wid == w)[0]
    nefc = nefcs[w]
    resb = _filled_mjdata(mujoco, mjm, d, w, sel, nefc)
    resa = mujoco.MjData(mjm)
    mjw.get_data_into(resa, mjm, d, world_id=w)
    c.true(f"{tag}:w{w}:get_data_into ncon", resa.ncon == len(sel), f"ncon {resa.ncon} vs {len(sel)} contacts of the world", vkey="get_data_into:ncon" + ktag)
    a_ok = resa.ncon == len(sel)
    for k, i in enumerate(sel):
      if a_ok and (resa.contact.efc_address[k] >= 0) != (adr0[i] >= 0):
        c.fail(
          "get_data_into:inactive_contact_address" + ktag,
          f"{tag}:w{w}: contact {int(i)} has efc_address {int(adr0[i])} on device but {int(resa.contact.efc_address[k])} after get_data_into (nefc {resa.nefc})",
        )
        a_ok = False
    for k, i in enumerate(sel):
      out6 = np.zeros(6)
      mujoco.mj_contactForce(mjm, resb, k, out6)
      want_b[i] = out6
      if a_ok:
        out6 = np.zeros(6)
        mujoco.mj_contactForce(mjm, resa, k, out6)
        want_a[i] = out6
  # MJWarp: all ids in reverse order (tid != id), then ids beyond nacon
  if nacon:
    order = np.arange(nacon - 1, -1, -1, dtype=np.int32)
    ids = wp.array(order, dtype=int)
    for twf in (False, True):
      # the result buffer is pre-filled with a sentinel: every requested contact below nacon must be WRITTEN (zero wrench for a
      # contact that is excluded from the solve, as mj_contactForce), a reused buffer must not keep the previous answer
      out = wp.array(np.full((nacon, 6), -3.25, dtype=np.float32), dtype=wp.spatial_vector)
      mjw.contact_force(m, d, ids, twf, out)
      got = out.numpy().astype(np.float64)
      for t, i in enumerate(order):
        for nm, want in (("filled", want_b[i]), ("get_data_into", want_a[i])):
          if np.any(np.isnan(want)):
            continue
          wv = want
          if twf:
            wv = np.concatenate([frames[i].T @ want[:3], frames[i].T @ want[3:]])
          c.close(
            f"{tag}:{'world' if twf else 'contact'}frame:contact{int(i)}:{nm}",
            got[t],
            wv,
            "f32",
            scale=1 + float(np.max(np.abs(want_b))),
            vkey=f"contact_force:{tag.split('[')[0]}:{'world' if twf else 'local'}:{nm}{ktag}",
          )
        ndecoded += 1
        if np.any(want_b[i] != 0) and (int(dims[i]) > 1 or float(adh[i]) != 0.0):
          nloaded += 1
  # ids out of range: output untouched
  sentinel = np.full((2, 6), 7.5, dtype=np.float32)
  out = wp.array(sentinel, dtype=wp.spatial_vector)
  mjw.contact_force(m, d, wp.array(np.array([nacon, nacon + 3], dtype=np.int32), dtype=int), False, out)
  c.equal(f"{tag}:ids beyond nacon leave output untouched", out.numpy(), sentinel, vkey="contact_force:out_of_range_id" + ktag)
  # a world is "on the boundary" when its rows fill njmax exactly and a contact owns the last row
  nbound = 0
  for w in range(nworld):
    if nefcs[w] == d.njmax and nefcs[w] > 0 and int(d.efc.type.numpy()[w, nefcs[w] - 1]) >= _CONTACT_ROW_TYPE_MIN:
      nbound += 1
  return ndecoded, nloaded, nefcs, nacon, int(d.ncollision.numpy()[0]), nbound, int(nacon == d.naconmax and nacon > 0)


_CONTACT_ROW_TYPE_MIN = 5  # mjtConstraint: CONTACT_FRICTIONLESS=5, CONTACT_PYRAMIDAL=6, CONTACT_ELLIPTIC=7


def execute(scn):
  import mujoco
  import warp as wp

  import mujoco_warp as mjw

  mods = (mujoco, wp, mjw)
  mjm, info = c06.build(scn)
  if mjm is None:
    return dict(ok=True, nontrivial=False, outcome="rejected_by_compiler", info=info)
  c = util.Cmp()
  states = [util.mj_data(mjm, qpos=qpos, qvel=qvel) for qpos, qvel in info["states"]]
  ndecoded = nloaded = nconfig = 0
  ncap = ncap_same = nbound = nfullcon = 0
  mjm.opt.solver = 2
  for cone in (0, 1):
    mjm.opt.cone = cone
    for jac in (0, 1):
      mjm.opt.jacobian = jac
      m = mjw.put_model(mjm)
      kw = dict(info["kw"])
      if jac:
        kw.setdefault("njmax", 64)
        kw["njmax_nnz"] = int(kw["njmax"]) * mjm.nv
      tag = f"{'elliptic' if cone else 'pyramidal'}:{'sparse' if jac else 'dense'}"

      def run(kw, tag, ktag):
        d = mjw.make_data(mjm, nworld=3, **kw)
        for w, mjd in enumerate(states):
          util.copy_state(mjd, d, world=w)
        mjw.forward(m, d)
        return _check_config(c, mods, mjm, m, d, tag, ktag)

      nd, nl, nefcs, nacon, ncoll, _, _ = run(kw, tag, "")
      ndecoded += nd
      nloaded += nl
      nconfig += 1
      # capacity slack: the same batch in buffers that are exactly as large as the ample run shows is needed
      # (njmax = rows of the fullest world, naconmax = contacts of the batch; legal, nothing overflows), and one slot larger
      need_j = max(nefcs)
      need_c = max(nacon, ncoll)  # candidate pairs of the broadphase share the contact capacity
      for slack in _capacity_plan(scn, cone, jac):
        kw2 = {k: v for k, v in kw.items() if k not in ("nconmax", "naconmax", "njmax", "njmax_nnz")}
        kw2["njmax"] = need_j + slack
        kw2["naconmax"] = need_c + slack
        if jac:
          kw2["njmax_nnz"] = kw2["njmax"] * mjm.nv
        lvl = "exact" if slack == 0 else f"plus{slack}"
        ctag = f"{tag}[njmax={kw2['njmax']}=nefc+{slack},naconmax={kw2['naconmax']}=need+{slack}]"
        nd, nl, nefcs2, nacon2, _, nb, nf = run(kw2, ctag, f":capacity_{lvl}")
        ndecoded += nd
        nloaded += nl
        nconfig += 1
        ncap += 1
        ncap_same += int(nefcs2 == nefcs and nacon2 == nacon)
        nbound += nb
        nfullcon += nf
  return c.result(
    nontrivial=nloaded > 0,
    key=util.sha(scn),
    info=dict(nv=int(mjm.nv), decoded=ndecoded, loaded=nloaded, configs=nconfig, capacity_runs=ncap, capacity_same_counts=ncap_same, boundary_worlds=nbound, checked=c.nchecked),
    counts=dict(extra_evaluations=ndecoded, capacity_runs=ncap, capacity_runs_same_counts=ncap_same, worlds_with_contact_rows_ending_at_njmax=nbound, capacity_runs_with_nacon_equal_naconmax=nfullcon),
  )
