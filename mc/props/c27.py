"""C27 Velocity derivatives are correct.

Space: every DFS-ordered tree with <=N bodies x joint-kind assignment x velocity-dependent feature set
  {actjoint (affine bias / affine gain / filter+act / clamped by forcerange / filter+actearly, on hinge, slide,
   ball and free joints), acttendon (same on spatial and fixed tendons), damping, dampingpoly, tendamp
   (polynomial tendon damping), fluidbox, fluidell, all}
  + synergy dimension `actsyn`: trees x scalar-joint kinds x EVERY subset of >= 3 scalar joints as one fixed tendon driven by
    velocity-dependent actuators (the moment row then spans serial chains, sibling branches with and without their common
    ancestor dof, both dofs of one body, and several trees: every shape of "moment support vs. tree-sparse M pattern")
  x integrator {implicitfast, implicit}; two states with non-zero qvel/ctrl/act as a 2-world batch.
Observed: the matrix MJWarp integrates with:  implicitfast -> deriv_smooth_vel output (M-structure, M - h qDeriv);
  implicit -> the D-structure matrix assembled exactly as forward.implicit does (map_m2d + deriv_rne_vel).
  qDeriv_mjw := (M_mjw - matrix)/h.
Oracles:
  (1) MuJoCo's analytic mjd.qDeriv left behind by mj_step (lower triangle for implicitfast, full D pattern for implicit);
  (2) central finite differences (float64, eps 1e-6) of MuJoCo's smooth force qfrc_passive - qfrc_bias + qfrc_actuator
      w.r.t. qvel, on the D sparsity pattern (implicit only: implicitfast drops the RNE term and symmetrises by design);
      used only where MuJoCo's own analytic derivative agrees with it (reference self-agreement);
  (3) integration: mjw.implicit() after mjw.forward() gives qvel + h*A^-1*(M qacc) for the matrix A it assembled (float64
      solve), and lands on MuJoCo's post-step qvel.
For `implicit` the pieces are checked separately (non-RNE part, RNE part, and how implicit() combines them), lower and
upper triangle separately, so that one defect does not smear over every comparison.
"""

import itertools

import numpy as np

from mc import space, util
from mc.props import c02 as _c02

ID = "C27"
LEVEL = "exploration"
RULE = (
  "enumerate trees(<=N) x joint kinds x feature sets x {implicitfast, implicit}, plus trees x scalar joint kinds x every subset "
  "of >=3 scalar joints as one actuated fixed tendon (actsyn); each scenario compares qDeriv of two states "
  "(2-world batch) with MuJoCo's analytic qDeriv, with float64 finite differences of MuJoCo's smooth force, and the integrated "
  "qvel; non-trivial = every requested feature has a non-zero finite-difference derivative block in the reference (actuator / "
  "passive / fluid / bias for implicit); distinct = canonical hash of the spec"
)
BOUNDS = {
  "quick": "N<=2: all joint kinds x 8 feature sets x 2 integrators; N=3: all joint kinds x {all} and kinds {weld,hinge,slide,ball,free} x 7 singles; "
  "actsyn: N=3 kinds {weld,hinge,slide} and N=4 kinds {weld,hinge}, every subset of >=3 scalar joints",
  "thorough": "N<=3: all joint kinds x 8 feature sets and all feature pairs x 2 integrators; N=4: kinds {weld,hinge,slide,ball,free} x {all}; "
  "actsyn: N<=3 kinds {weld,hinge,slide,hingeslide} and N=4 kinds {weld,hinge,slide}, every subset of >=3 scalar joints",
}
ASSUMPTIONS = [
  "MuJoCo C 3.13 analytic qDeriv (after mj_step) and float64 central differences are the references; class f32dyn relative to "
  "1+max|qDeriv| plus the cancellation floor 4e-7*max|M|/h of recovering qDeriv from the float32 matrix M - h*qDeriv (h = 0.02)",
  "finite differences judge MJWarp only where MuJoCo's analytic derivative agrees with them to 1e-4 (reference self-agreement)",
  "actuator alphabet: general actuators with affine gain/bias, filter dynamics (with and without actearly), forcerange clamping; "
  "dcmotor / muscle / user types are not enumerated (C03 covers their forces)",
  "transmissions: joint (hinge, slide, ball, free) and tendon (spatial, fixed; fixed tendons over 2 joints and, in actsyn, over every "
  "subset of >=3 scalar joints); site/body/slider-crank are not velocity-derivative specific",
  "real values from curated alphabets (VERIF_SEED mod 4), structure exhaustive",
  "CPU backend only",
]
BUDGET = {"quick": 400, "thorough": 3000}

FEATS = ("actjoint", "acttendon", "damping", "dampingpoly", "tendamp", "fluidbox", "fluidell")
H = 0.02
_REDUCED = ("weld", "hinge", "slide", "ball", "free")


def scenarios(tier, seed):
  v = seed % 4
  singles = [(f,) for f in FEATS]
  allon = [tuple(FEATS)]
  pairs = list(itertools.combinations(FEATS, 2))
  specs = []

  def add(nmin, nmax, fsets, kinds=space.JOINT_KINDS):
    for n in range(nmin, nmax + 1):
      for parents in space.trees(n):
        for joints in space.joint_assignments(parents, kinds=kinds):
          for fs in fsets:
            specs.append((tuple(parents), tuple(joints), tuple(fs)))

  def add_syn(nmin, nmax, kinds):
    # one fixed tendon over every subset of >= 3 of the model's scalar joints (indices into _scalar_joints order)
    for n in range(nmin, nmax + 1):
      for parents in space.trees(n):
        for joints in space.joint_assignments(parents, kinds=kinds):
          ns = len(_scalar_joints(joints))
          for k in range(3, ns + 1):
            for sub in itertools.combinations(range(ns), k):
              specs.append((tuple(parents), tuple(joints), ("actsyn",), tuple(sub)))

  if tier == "quick":
    add(1, 2, singles + allon)
    add(3, 3, allon)
    add(3, 3, singles, kinds=_REDUCED)
    add_syn(3, 3, ("weld", "hinge", "slide"))
    add_syn(4, 4, ("weld", "hinge"))
  else:
    add(1, 3, singles + pairs + allon)
    add(4, 4, allon, kinds=_REDUCED)
    add_syn(1, 3, ("weld", "hinge", "slide", "hingeslide"))
    add_syn(4, 4, ("weld", "hinge", "slide"))
  seen, out = set(), []
  for sp in specs:
    if sp in seen:
      continue
    seen.add(sp)
    for integ in ("implicitfast", "implicit"):
      scn = dict(parents=list(sp[0]), joints=list(sp[1]), feats=list(sp[2]), integ=integ, variant=v)
      if len(sp) > 3:
        scn["syn"] = list(sp[3])
      out.append(scn)
  return out


# ------------------------------------------------------------------------------- model

_SYNCOEF = ("0.8", "-1.7", "1.1", "-0.6", "0.5", "1.3", "-0.9", "0.7")


def _scalar_joints(joints):
  scal = []
  for i, k in enumerate(joints, 1):
    if k in ("hinge", "slide"):
      scal.append(f"j{i}")
    elif k == "hingeslide":
      scal += [f"j{i}", f"j{i}b"]
  return scal


_GEAR = {"hinge": "1.3", "slide": "0.8", "ball": "0.7 -0.4 0.5", "free": "0.7 -0.4 0.5 0.3 0.2 -0.6"}


def _act(name, target, t, gear=""):
  """Velocity-dependent general actuator #t on `target` (e.g. 'joint="j1"')."""
  g = f' gear="{gear}"' if gear else ""
  if t == 0:
    return f'<general name="{name}" {target}{g} gainprm="1.2" biastype="affine" biasprm="0.3 -1.5 -0.8"/>'
  if t == 1:
    return f'<general name="{name}" {target}{g} gaintype="affine" gainprm="2 0.5 0.7"/>'
  if t == 2:
    return f'<general name="{name}" {target}{g} dyntype="filter" dynprm="0.3" gaintype="affine" gainprm="1.5 0 0.6" biastype="affine" biasprm="0 0 -0.4"/>'
  if t == 3:
    return (
      f'<general name="{name}" {target}{g} gainprm="1.2" biastype="affine" biasprm="0.3 -1.5 -0.8" forcelimited="true" forcerange="-0.05 0.05"/>'
    )
  return f'<general name="{name}" {target}{g} dyntype="filter" dynprm="0.2" actearly="true" gaintype="affine" gainprm="0.9 0 -0.5"/>'


def model_xml(parents, joints, feats, integ, v, syn=None):
  n = len(parents)
  # armature on every joint keeps M - h*qDeriv well conditioned (velocity feedback gains are O(1), light bodies have M ~ 1e-3)
  decos = ["armature"] + [f for f in ("damping", "dampingpoly") if f in feats]
  ja = _c02._joint_attrs(decos, v)
  world, tens, acts = "", "", ""
  scal = _scalar_joints(joints)
  if "actsyn" in feats:
    # synergy tendon: non-zero moment on every joint of the subset `syn`; two velocity-dependent actuators on it
    tens += '<fixed name="ts">' + "".join(f'<joint joint="{scal[s]}" coef="{_SYNCOEF[p % len(_SYNCOEF)]}"/>' for p, s in enumerate(syn)) + "</fixed>"
    acts += _act("as0", 'tendon="ts"', v % 5)
    acts += _act("as1", 'tendon="ts"', (v + 2) % 5)
  if "acttendon" in feats or "tendamp" in feats:
    tattr = f' damping="{_c02._DPOLY[(v + 2) % 4]}"' if "tendamp" in feats else ""
    world = '<site name="sw" pos="0.05 -0.4 0.6" size="0.01"/>'
    tens += f'<spatial name="t0"{tattr}><site site="sw"/><site site="s1"/></spatial>'
    tnames = ["t0"]
    if n > 1:
      tens += f'<spatial name="t1"{tattr}><site site="sw"/><site site="s{n}"/></spatial>'
      tnames.append("t1")
    if len(scal) >= 2:
      tens += f'<fixed name="tf"{tattr}><joint joint="{scal[0]}" coef="0.8"/><joint joint="{scal[-1]}" coef="-1.7"/></fixed>'
      tnames.append("tf")
    if "acttendon" in feats:
      for a, tn in enumerate(tnames):
        acts += _act(f"at{a}", f'tendon="{tn}"', (a + v) % 5)
        acts += _act(f"au{a}", f'tendon="{tn}"', (a + v + 2) % 5)
  if "actjoint" in feats:
    for i, k in enumerate(joints, 1):
      names = {"hinge": [(f"j{i}", "hinge")], "slide": [(f"j{i}", "slide")], "ball": [(f"j{i}", "ball")], "free": [(f"j{i}", "free")]}.get(k)
      if k == "hingeslide":
        names = [(f"j{i}", "hinge"), (f"j{i}b", "slide")]
      for b, (jn, jk) in enumerate(names or []):
        acts += _act(f"a{jn}", f'joint="{jn}"', (i + b + v) % 5, _GEAR[jk])
        acts += _act(f"b{jn}", f'joint="{jn}"', (i + b + v + 2) % 5, _GEAR[jk])
  opt = f'<option timestep="{H}" integrator="{integ}"'
  geom_attrs = ""
  if "fluidbox" in feats or "fluidell" in feats:
    opt += " " + _c02._FLUID[v]
  if "fluidell" in feats:
    geom_attrs = 'fluidshape="ellipsoid" fluidcoef="0.6 0.3 1.4 1.1 0.9"'
  opt += "/>"
  sections = (f"<tendon>{tens}</tendon>" if tens else "") + (f"<actuator>{acts}</actuator>" if acts else "")
  return space.tree_xml(parents, joints, variant=v, joint_attrs=ja, world_extra=world, sections=sections, option=opt, geom_attrs=geom_attrs)


def _inputs(mjm, v, which):
  cs = space.QVEL_SCALAR[(v + 2) % 4]
  ctrl = np.array([0.7 * cs[(which + a) % 3] + 0.2 for a in range(mjm.nu)])
  act = np.array([0.5 * cs[(which + 2 * a + 1) % 3] - 0.1 for a in range(mjm.na)])
  return ctrl, act


# ------------------------------------------------------------------------------- references


class _Cmp(util.Cmp):
  """Keeps up to 40 violations per scenario (2 worlds x 9 checks), so that no class hides behind another."""

  def fail(self, vkey, what, **extra):
    if len(self.violations) < 40:
      self.violations.append(dict(vkey=f"{self.prefix}{vkey}", what=what, **extra))



def _fd_blocks(mjm, mjd0, eps=1e-6):
  """Central differences of MuJoCo's smooth force components w.r.t. qvel (float64): dict of nv x nv."""
  import mujoco

  nv = mjm.nv
  d = mujoco.MjData(mjm)
  out = {k: np.zeros((nv, nv)) for k in ("act", "pas", "fluid", "bias")}

  def forces(qvel):
    d.qpos[:] = mjd0.qpos
    d.qvel[:] = qvel
    d.ctrl[:] = mjd0.ctrl
    if mjm.na:
      d.act[:] = mjd0.act
    mujoco.mj_forward(mjm, d)
    return dict(act=d.qfrc_actuator.copy(), pas=(d.qfrc_passive - d.qfrc_fluid).copy(), fluid=d.qfrc_fluid.copy(), bias=d.qfrc_bias.copy())

  for j in range(nv):
    e = np.zeros(nv)
    e[j] = eps
    fp, fm = forces(mjd0.qvel + e), forces(mjd0.qvel - e)
    for k in out:
      out[k][:, j] = (fp[k] - fm[k]) / (2 * eps)
  return out


def _pattern(mjm):
  import mujoco

  P = np.zeros((mjm.nv, mjm.nv))
  mujoco.mju_sparse2dense(P, np.ones(mjm.nD), mjm.D_rownnz, mjm.D_rowadr, mjm.D_colind)
  return P > 0


def execute(scn):
  import mujoco
  import mujoco_warp as mjw
  import warp as wp
  from mujoco_warp._src import derivative, forward

  v, integ, feats = scn["variant"], scn["integ"], scn["feats"]
  xml = model_xml(scn["parents"], scn["joints"], feats, integ, v, scn.get("syn"))
  mjm, err = util.try_load(xml)
  if mjm is None:
    return dict(ok=True, nontrivial=False, outcome="rejected_by_compiler", info=err, key=util.sha(scn))
  nv = mjm.nv
  fam = "fast" if integ == "implicitfast" else "full"
  ftag = "+".join(feats)
  c = _Cmp(prefix=f"{fam}:")
  m = mjw.put_model(mjm)
  d = mjw.make_data(mjm, nworld=2)
  refs = []
  for w, which in enumerate((1, 2)):
    qpos, qvel = space.state_grid(scn["joints"], v, which)
    ctrl, act = _inputs(mjm, v, which)
    mjd = util.mj_data(mjm, qpos=qpos, qvel=qvel, ctrl=ctrl, act=act if mjm.na else None)
    mujoco.mj_forward(mjm, mjd)
    refs.append(mjd)
    util.copy_state(mjd, d, world=w)
  P = _pattern(mjm)
  rot3 = int(any(k in ("ball", "free") for k in scn["joints"]))
  ttag = "free=%d" % int("free" in scn["joints"])

  def dense_sym(csr):
    out = np.zeros((nv, nv))
    mujoco.mju_sym2dense(out, np.ascontiguousarray(csr, np.float64), mjm.M_rownnz, mjm.M_rowadr, mjm.M_colind)
    return out

  def dense_d(arr):
    out = np.zeros((nv, nv))
    mujoco.mju_sparse2dense(out, np.ascontiguousarray(arr, np.float64), mjm.D_rownnz, mjm.D_rowadr, mjm.D_colind)
    return out

  mjw.forward(m, d)
  Mcsr = d.M.numpy()
  qH = wp.zeros((2, m.nC), dtype=float)
  mjw.deriv_smooth_vel(m, d, qH)  # M - h*qDeriv(actuation, dampers, tendon dampers, fluid), M-structure
  qHn = qH.numpy()
  if integ == "implicit":
    # the pieces forward.implicit() assembles: D-structure copy of qH, and the RNE term
    wp.launch(forward._map_m2d, dim=(2, m.nD), inputs=[m.mapM2D, qH], outputs=[d.qLU])
    A0 = d.qLU.numpy().reshape(2, -1).copy()
    rne = wp.zeros((2, m.nD), dtype=float)
    derivative.deriv_rne_vel(m, d, rne)  # add mode: +h * d(qfrc_bias)/d(qvel)  (= -h*qDeriv_rne, cf. derivative_test.test_rne_derivative)
    Rn = rne.numpy()
    # the matrix forward.implicit() REALLY factorises: captured from the library's own call of smooth.factor_solve_lu
    # on a twin Data (implicit() advances the state), so the check follows the code instead of a replica of it
    from mujoco_warp._src import smooth as _smooth

    d2 = mjw.make_data(mjm, nworld=2)
    for w, mjd in enumerate(refs):
      util.copy_state(mjd, d2, world=w)
    mjw.forward(m, d2)
    captured = {}
    orig_lu = _smooth.factor_solve_lu

    def _capture(m_, d_, qLU, *a, **kw):
      captured["A"] = qLU.numpy().reshape(2, -1).copy()
      return orig_lu(m_, d_, qLU, *a, **kw)

    _smooth.factor_solve_lu = _capture
    try:
      forward.implicit(m, d2)
    finally:
      _smooth.factor_solve_lu = orig_lu
    if "A" not in captured:
      raise RuntimeError("forward.implicit() did not call smooth.factor_solve_lu: update the capture point")
    Aimp = captured["A"]

  active = {k: False for k in ("act", "pas", "fluid", "bias")}
  any_state = False
  selfagree = 0
  coriolis = 0
  posts = [None, None]
  for w, mjd in enumerate(refs):
    if util.mj_warnings(mjd) or not np.all(np.isfinite(mjd.qacc)):
      continue
    Mw = dense_sym(Mcsr[w])
    floor = 4e-7 * float(np.abs(Mw).max()) / H  # cancellation floor of (M - A)/h in float32
    # reference 1: MuJoCo analytic (left behind by mj_step)
    post = mujoco.MjData(mjm)
    post.qpos[:], post.qvel[:], post.ctrl[:] = mjd.qpos, mjd.qvel, mjd.ctrl
    if mjm.na:
      post.act[:] = mjd.act
    mujoco.mj_step(mjm, post)
    if util.mj_warnings(post) or not np.all(np.isfinite(post.qvel)):
      continue
    posts[w] = post
    any_state = True
    Dm = dense_d(post.qDeriv)
    # reference 2: finite differences of MuJoCo's smooth force components
    fd = _fd_blocks(mjm, mjd)
    for k in active:
      active[k] = active[k] or bool(np.any(np.abs(fd[k][P]) > 1e-6))
    if integ == "implicit":
      Dn = (Mw - dense_d(A0[w])) / H  # non-RNE part, D-structure (upper triangle mirrored from the M-structure)
      R = dense_d(Rn[w]) / H  # d bias / d qvel
      Dw = Dn - R  # the derivative MJWarp means to use
      Dfd = (fd["act"] + fd["pas"] + fd["fluid"] - fd["bias"]) * P
      scale = 1.0 + float(np.abs(Dfd).max())
      agree = float(np.abs(Dm - Dfd).max()) <= 1e-4 * scale
      selfagree += int(agree)
      # lower (incl. diagonal) and strictly upper triangle separately: MJWarp stores the non-RNE terms in the symmetric
      # M-structure, MuJoCo's `implicit` matrix is a general (non-symmetric) D-structure matrix
      for tri, sel in (("lower", np.tril), ("upper", lambda a: np.triu(a, 1))):
        c.close(f"qDeriv_vs_mujoco:{tri}:w{w}", sel(Dw), sel(Dm), "f32dyn", scale=1.0 + float(np.abs(Dm).max()), atol=2 * floor, vkey=f"qDeriv_vs_mujoco:{tri}:{ftag}:{ttag}")
        if agree:
          c.close(f"qDeriv_vs_fd:{tri}:w{w}", sel(Dw), sel(Dfd), "f32dyn", scale=scale, atol=2 * floor, vkey=f"qDeriv_vs_fd:{tri}:{ftag}:{ttag}")
          Dnfd = (fd["act"] + fd["pas"] + fd["fluid"]) * P
          c.close(f"nonrne_vs_fd:{tri}:w{w}", sel(Dn), sel(Dnfd), "f32dyn", scale=1.0 + float(np.abs(Dnfd).max()), atol=floor, vkey=f"nonrne_vs_fd:{tri}:{ftag}:{ttag}")
      if agree:
        c.close(f"rne_term_vs_fd:w{w}", R, fd["bias"] * P, "f32dyn", atol=floor, vkey=f"rne_term_vs_fd:{ttag}")
      # the matrix implicit() factorises must be M - h*(Dn - R) built from MJWarp's own pieces
      want = Mw - H * Dw
      c.close(f"assembly:w{w}", dense_d(Aimp[w]), want, "f32", vkey="implicit_assembly_sign_of_rne_term")
      if np.any(np.abs(R) > 1e-4):
        coriolis = 1
    else:
      Dw = np.tril((Mw - dense_sym(qHn[w])) / H)
      c.close(f"qDeriv_vs_mujoco:lower:w{w}", Dw, np.tril(Dm), "f32dyn", atol=floor, vkey=f"qDeriv_vs_mujoco:lower:{ftag}:{ttag}")
      # implicitfast keeps actuator + passive (+ symmetrised fluid) only; without fluid it is the exact lower triangle
      if "fluidbox" not in feats and "fluidell" not in feats:
        Dfd = np.tril((fd["act"] + fd["pas"]) * P)
        scale = 1.0 + float(np.abs(Dfd).max())
        if float(np.abs(np.tril(Dm) - Dfd).max()) <= 1e-4 * scale:
          selfagree += 1
          c.close(f"qDeriv_vs_fd:lower:w{w}", Dw, Dfd, "f32dyn", atol=floor, vkey=f"qDeriv_vs_fd:lower:{ftag}:{ttag}")

  # reference 3: the integrator really uses that matrix.
  #  (a) self-consistency: qvel' = qvel + h * A^-1 * (M qacc) with A = the matrix MJWarp assembled (float64 solve);
  #  (b) end to end against mj_step.
  qv0 = d.qvel.numpy().copy()
  Ma = d.efc.Ma.numpy().copy()
  mjw.implicit(m, d)
  qv = d.qvel.numpy()
  for w, post in enumerate(posts):
    if post is None:
      continue
    A = dense_d(Aimp[w]) if integ == "implicit" else dense_sym(qHn[w])
    try:
      own = qv0[w] + H * np.linalg.solve(A, Ma[w].astype(np.float64))
      c.close(f"integrates_own_matrix:w{w}", qv[w], own, "f32dyn", vkey="integrates_own_matrix")
    except np.linalg.LinAlgError:
      c.fail("assembled_matrix_singular", f"w{w}: the matrix MJWarp assembled for the implicit step is singular")
    c.close(f"qvel_after_implicit:w{w}", qv[w], post.qvel, "f32dyn", vkey=f"qvel_after_implicit:coriolis={coriolis}:rot3={rot3}")

  need = set()
  if "actjoint" in feats or "acttendon" in feats or "actsyn" in feats:
    need.add("act")
  if "damping" in feats or "dampingpoly" in feats or "tendamp" in feats:
    need.add("pas")
  if "fluidbox" in feats or "fluidell" in feats:
    need.add("fluid")
  if integ == "implicit":
    need.add("bias")
  nontrivial = any_state and all(active[k] for k in need)
  info = dict(nv=int(nv), nu=int(mjm.nu), checked=c.nchecked, maxrel=float(f"{c.maxrel:.3g}"), fd_selfagree=selfagree, active=[k for k in active if active[k]])
  return c.result(nontrivial=nontrivial, key=util.sha(scn), outcome="ok" if any_state else "degenerate", info=info)


def coverage_extra(executed, tier):
  n_fd = sum((r.get("info") or {}).get("fd_selfagree", 0) for _, r in executed if isinstance(r.get("info"), dict))
  return {"states_checked_against_finite_differences": int(n_fd)}
