"""C22 Jacobians are consistent with positions and velocities.

Families
  jac   : every DFS-ordered tree with <=N bodies x every joint-kind assignment x 2 states; jac() for the body origin, the
          body com and an offset point of every body (incl. the world body), one query per world of a batch; compared with
          mj_jac (f32) and with central finite differences (float64 MuJoCo kinematics, eps=1e-6) of the point position
          (translational block) and of the body orientation (rotational block) along every dof, hence also along qvel.
  rows  : the constraint scenes of C05 (every 3-body tree x joint pattern x feature sets) plus actuators (joint,
          jointinparent, fixed and spatial tendon, slider-crank, site with refsite) x jacobian {dense, sparse} x cone:
          efc.vel = J.qvel per row; ten_J and actuator_moment = finite differences of ten_length / actuator_length along
          every dof (and equal to MuJoCo's); one step() with dense and with sparse Jacobian gives the same next state.
"""

import itertools

import numpy as np

from mc import space, util
from mc.refs import conscenes as cs
from mc.refs import cost

ID = "C22"
LEVEL = "exploration"
RULE = (
  "enumerate (jac) all trees with <=N bodies x all joint-kind assignments, (rows) all 3-body trees x joint pattern x feature sets; "
  "non-trivial = a compared Jacobian has a non-zero entry and (rows) qvel != 0 with >=1 row; distinct = canonical hash of the spec"
)
BOUNDS = {
  "quick": "jac: N<=3 bodies, 2 states, 3 points per body; rows: feature sets k<=1 (all options) on all 5 trees x both joint patterns, k=2 (core options) on cycling trees",
  "thorough": "jac: N<=4 bodies; rows: k<=2 (all options) on all trees (pattern alternating), k=3 (core) cycling trees",
}
ASSUMPTIONS = [
  "jac vs mj_jac: class f32; finite differences: float64 MuJoCo kinematics (mj_integratePos + mj_kinematics + mj_comPos + mj_tendon + mj_transmission), eps=1e-6, compared at 1e-4*(1+max|J|) (truncation+round-off of the difference quotient ~1e-6)",
  "efc.vel = J.qvel: class f32dyn relative to |J|.|qvel| per row (MJWarp's own J and vel, both Jacobian layouts)",
  "actuator_moment = d(actuator_length)/dq is checked by finite differences for joint / jointinparent(scalar) / tendon / slider-crank transmissions; site transmissions (length is not the integral of the moment) are compared with MuJoCo's moment only",
  "dense vs sparse step: Newton, one step(), qpos/qvel/qacc compared under class solver (2e-3) plus the deviation the solver's own stopping rule allows each run (C06's allowance K*tol/scale + 16 eps32*|cost|, mapped to dofs by strong convexity; x dt, dt^2 for qvel, qpos); sparse Data gets an ample njmax_nnz (the default undercount is C05's finding)",
  "CPU backend; real values from curated alphabets (VERIF_SEED mod 4)",
]
BUDGET = {"quick": 600, "thorough": 3000}

FD_EPS = 1e-6
FD_TOL = 1e-4


def scenarios(tier, seed):
  variant = seed % 4
  out = []
  n = 3 if tier == "quick" else 4
  for parents in space.trees_upto(n):
    for joints in space.joint_assignments(parents):
      out.append(dict(fam="jac", parents=list(parents), joints=list(joints), variant=variant))
  from mc.props import c01, c05

  for wrap in c01.WRAPS:
    for arm in c01.ARMS:
      for chunk in range(3):
        out.append(dict(fam="wrap", wrap=wrap, arm=arm, chunk=chunk, variant=variant))
  trees = space.trees(3)
  seen = set()

  def add(fs, ti, pat):
    scn = dict(fam="rows", parents=list(trees[ti % 5]), pattern=pat, feats=fs, state=1, variant=variant)
    k = util.sha(scn)
    if k not in seen and cs.applicable(scn):
      seen.add(k)
      out.append(scn)

  if tier == "quick":
    for fi, fs in enumerate(cs.feature_sets(1)):
      for ti in range(5):
        for pat in (0, 1):
          add(fs, ti, pat)
    for fi, fs in enumerate(cs.feature_sets(2, options=c05.CORE)):
      add(fs, fi, fi % 2)
  else:
    for fi, fs in enumerate(cs.feature_sets(2)):
      for ti in range(5):
        add(fs, ti, (ti + fi) % 2)
    for fi, fs in enumerate(cs.feature_sets(3, options=c05.CORE)):
      add(fs, fi, fi % 2)
  return out


# ------------------------------------------------------------------------------------------- float64 finite differences


def _perturbed(mujoco, mjm, qpos, i, h, tendon=False):
  """MjData with kinematics evaluated at qpos (+) h*e_i."""
  d = mujoco.MjData(mjm)
  d.qpos[:] = qpos
  if i is not None:
    v = np.zeros(mjm.nv)
    v[i] = 1.0
    mujoco.mj_integratePos(mjm, d.qpos, v, h)
  mujoco.mj_kinematics(mjm, d)
  mujoco.mj_comPos(mjm, d)
  if tendon:
    mujoco.mj_tendon(mjm, d)
    mujoco.mj_transmission(mjm, d)
  return d


def _rotvec(R):
  """Rotation vector of a rotation matrix close to identity."""
  return 0.5 * np.array([R[2, 1] - R[1, 2], R[0, 2] - R[2, 0], R[1, 0] - R[0, 1]])


def fd_point_jacobians(mujoco, mjm, qpos, queries):
  """queries: list of (body, local point). Returns jacp [nq,3,nv], jacr [nq,3,nv] by central differences."""
  nv = mjm.nv
  base = _perturbed(mujoco, mjm, qpos, None, 0.0)
  R0 = np.array(base.xmat).reshape(-1, 3, 3)
  jp = np.zeros((len(queries), 3, nv))
  jr = np.zeros((len(queries), 3, nv))
  for i in range(nv):
    a = _perturbed(mujoco, mjm, qpos, i, +FD_EPS)
    b = _perturbed(mujoco, mjm, qpos, i, -FD_EPS)
    Ra = np.array(a.xmat).reshape(-1, 3, 3)
    Rb = np.array(b.xmat).reshape(-1, 3, 3)
    for k, (body, loc) in enumerate(queries):
      pa = a.xpos[body] + Ra[body] @ loc
      pb = b.xpos[body] + Rb[body] @ loc
      jp[k, :, i] = (pa - pb) / (2 * FD_EPS)
      jr[k, :, i] = (_rotvec(Ra[body] @ R0[body].T) - _rotvec(Rb[body] @ R0[body].T)) / (2 * FD_EPS)
  return jp, jr


# ------------------------------------------------------------------------------------------- family: jac


def exec_jac(scn):
  import mujoco
  import warp as wp

  import mujoco_warp as mjw

  xml = space.tree_xml(scn["parents"], scn["joints"], variant=scn["variant"])
  mjm, err = util.try_load(xml)
  if mjm is None:
    return dict(ok=True, nontrivial=False, outcome="rejected_by_compiler", info=err)
  c = util.Cmp()
  nb = mjm.nbody
  offs = np.array([0.07, -0.11, 0.05])
  nontriv = False
  m = mjw.put_model(mjm)
  nq = 3 * nb
  d = mjw.make_data(mjm, nworld=nq)
  for which in (1, 2):
    qpos, qvel = space.state_grid(scn["joints"], scn["variant"], which)
    mjd = util.mj_data(mjm, qpos=qpos, qvel=qvel)
    mujoco.mj_kinematics(mjm, mjd)
    mujoco.mj_comPos(mjm, mjd)
    if util.mj_warnings(mjd):
      continue
    R = np.array(mjd.xmat).reshape(-1, 3, 3)
    queries, points, bodies = [], [], []
    for b in range(nb):
      for kind in range(3):
        p = (mjd.xpos[b], mjd.xipos[b], mjd.xpos[b] + R[b] @ offs)[kind]
        queries.append((b, R[b].T @ (p - mjd.xpos[b])))
        points.append(np.array(p))
        bodies.append(b)
    util.copy_state(mjd, d)
    mjw.kinematics(m, d)
    mjw.com_pos(m, d)
    jacp = wp.zeros((nq, 3, mjm.nv), dtype=float)
    jacr = wp.zeros((nq, 3, mjm.nv), dtype=float)
    mjw.jac(m, d, jacp, jacr, wp.array(np.array(points, dtype=np.float32), dtype=wp.vec3), wp.array(np.array(bodies, dtype=np.int32), dtype=int))
    gp, gr = jacp.numpy().astype(np.float64), jacr.numpy().astype(np.float64)
    wantp, wantr = np.zeros_like(gp), np.zeros_like(gr)
    for k, (b, _) in enumerate(queries):
      jp, jr = np.zeros((3, mjm.nv)), np.zeros((3, mjm.nv))
      mujoco.mj_jac(mjm, mjd, jp, jr, points[k], b)
      wantp[k], wantr[k] = jp, jr
    pre = f"state{which}:"
    c.close(pre + "jacp vs mj_jac", gp, wantp, "f32", vkey="jacp:mj_jac")
    c.close(pre + "jacr vs mj_jac", gr, wantr, "f32", vkey="jacr:mj_jac")
    fp, fr = fd_point_jacobians(mujoco, mjm, mjd.qpos, queries)
    c.close(pre + "jacp vs d(position)/dq", gp, fp, FD_TOL, vkey="jacp:finite_difference")
    c.close(pre + "jacr vs d(orientation)/dq", gr, fr, FD_TOL, vkey="jacr:finite_difference")
    v = np.asarray(qvel, float)
    c.close(pre + "jacp.qvel vs d(position)/dt", gp @ v, fp @ v, FD_TOL, scale=1 + float(np.max(np.abs(fp))) * float(np.sum(np.abs(v))), vkey="jacp:velocity")
    # the optional-output variants must give the same numbers
    only_p = wp.zeros((nq, 3, mjm.nv), dtype=float)
    mjw.jac(m, d, only_p, None, wp.array(np.array(points, dtype=np.float32), dtype=wp.vec3), wp.array(np.array(bodies, dtype=np.int32), dtype=int))
    c.bits(pre + "jacp (jacr=None)", only_p.numpy(), jacp.numpy(), vkey="jacp:optional_output")
    nontriv = nontriv or (np.any(wantp != 0) and np.any(wantr != 0))
  return c.result(nontrivial=nontriv and mjm.nv > 0, key=util.sha(scn), info=dict(nv=int(mjm.nv), nbody=int(nb), queries=nq, checked=c.nchecked))


# ------------------------------------------------------------------------------------------- family: rows


def _add_actuators(xml, scn):
  pat = cs.PATTERNS[scn["pattern"]]
  feats = {g for g, _ in scn["feats"]}
  acts = f'<general name="aj" joint="{pat["H"]}" gear="1.7"/><general name="as" joint="{pat["S"]}" gear="-0.6"/>'
  acts += '<general name="asite" site="s3" refsite="s1" gear="0.5 -0.3 0.8 0.2 0.1 -0.4"/>'
  acts += '<general name="asite0" site="s2" gear="0.3 0.2 -0.5 0.1 0 0.2"/>'
  acts += f'<general name="acrank" cranksite="s3" slidersite="s1" cranklength="0.9" gear="1.3"/>'
  acts += f'<general name="ajp" jointinparent="{pat["H"]}" gear="0.9"/>'
  if "tendon name=\"tf\"" in xml or '<fixed name="tf"' in xml:
    acts += '<general name="atf" tendon="tf" gear="2.0"/>'
  if '<spatial name="ts"' in xml:
    acts += '<general name="ats" tendon="ts" gear="-1.1"/>'
  return xml.replace("</mujoco>", f"<actuator>{acts}</actuator></mujoco>")


FD_ACTUATORS = ("aj", "as", "acrank", "ajp", "atf", "ats")


def _moment_dense(m, d, w, nu, nv):
  out = np.zeros((nu, nv))
  rownnz = d.moment_rownnz.numpy()[w]
  rowadr = d.moment_rowadr.numpy()[w]
  colind = d.moment_colind.numpy()[w]
  val = d.actuator_moment.numpy()[w].astype(np.float64)
  for i in range(nu):
    a, k = int(rowadr[i]), int(rownnz[i])
    out[i, colind[a : a + k]] = val[a : a + k]
  return out


def _ten_J_dense(m, d, w, nt, nv):
  J = d.ten_J.numpy()[w].astype(np.float64)
  rownnz, rowadr, colind = m.ten_J_rownnz.numpy(), m.ten_J_rowadr.numpy(), m.ten_J_colind.numpy()
  out = np.zeros((nt, nv))
  for t in range(nt):
    a, k = int(rowadr[t]), int(rownnz[t])
    out[t, colind[a : a + k]] = J[a : a + k]
  return out


def _mj_dense_rows(mjm, vals, rownnz, rowadr, colind, n):
  out = np.zeros((n, mjm.nv))
  for t in range(n):
    a, k = int(rowadr[t]), int(rownnz[t])
    out[t, colind[a : a + k]] = vals[a : a + k]
  return out


def exec_rows(scn):
  import mujoco

  import mujoco_warp as mjw

  # two-pass build of the constraint scene, then add actuators to the final XML
  mjm0, info = cs.build(scn)
  if mjm0 is None:
    return dict(ok=True, nontrivial=False, outcome="rejected_by_compiler", info=info)
  mjm, err = util.try_load(_add_actuators(info["xml"], scn))
  if mjm is None:
    return dict(ok=True, nontrivial=False, outcome="rejected_by_compiler", info=err)
  c = util.Cmp()
  qpos, qvel = info["qpos"], info["qvel"]
  nv, nu, nt = mjm.nv, mjm.nu, mjm.ntendon
  ctrl = [0.4 * (-1) ** i for i in range(nu)]
  # float64 finite differences of tendon and actuator lengths
  fdT, fdA = np.zeros((nt, nv)), np.zeros((nu, nv))
  for i in range(nv):
    a = _perturbed(mujoco, mjm, qpos, i, +FD_EPS, tendon=True)
    b = _perturbed(mujoco, mjm, qpos, i, -FD_EPS, tendon=True)
    if nt:
      fdT[:, i] = (a.ten_length - b.ten_length) / (2 * FD_EPS)
    fdA[:, i] = (a.actuator_length - b.actuator_length) / (2 * FD_EPS)
  fd_rows = [mujoco.mj_name2id(mjm, mujoco.mjtObj.mjOBJ_ACTUATOR, nm) for nm in FD_ACTUATORS]
  fd_rows = [r for r in fd_rows if r >= 0]
  nrows = 0
  nontriv = False
  after = {}
  v = np.asarray(qvel, float)
  for cone in (0, 1):
    mjm.opt.cone = cone
    for jac in (0, 1):
      mjm.opt.jacobian = jac
      mjm.opt.solver = 2
      mjd = util.mj_data(mjm, qpos=qpos, qvel=qvel, ctrl=ctrl)
      for e in info["eq_off"]:
        mjd.eq_active[e] = 0
      mujoco.mj_forward(mjm, mjd)
      m = mjw.put_model(mjm)
      kw = dict(njmax=64, njmax_nnz=64 * nv) if jac else {}
      d = mjw.make_data(mjm, nworld=2, **kw)
      util.copy_state(mjd, d)
      if info["eq_off"]:
        ea = d.eq_active.numpy()
        ea[:, info["eq_off"]] = False
        util.set_field(d.eq_active, ea)
      mjw.forward(m, d)
      tag = f"cone{cone}:{'sparse' if jac else 'dense'}:"
      for w in (0, 1):
        nefc, rows = util.efc_dense(m, d, w)
        if nefc:
          mag = np.abs(rows["J"]) @ np.abs(v)
          err = np.abs(rows["J"] @ v - rows["vel"])
          bad = np.nonzero(err > 2e-4 * (1 + mag))[0]
          c.nchecked += 1
          nrows += nefc
          if bad.size:
            r = int(bad[np.argmax(err[bad])])
            c.fail(f"efc_vel:type{int(rows['type'][r])}:{'sparse' if jac else 'dense'}", f"{tag}w{w}: row {r} type {int(rows['type'][r])}: vel {rows['vel'][r]:.7g} but J.qvel {float(rows['J'][r] @ v):.7g}")
          nontriv = nontriv or (np.any(rows["J"] != 0) and np.any(v != 0))
      if cone == 0:
        if nt:
          Tw = _ten_J_dense(m, d, 0, nt, nv)
          Tm = _mj_dense_rows(mjm, mjd.ten_J, mjm.ten_J_rownnz, mjm.ten_J_rowadr, mjm.ten_J_colind, nt) if np.asarray(mjd.ten_J).size != nt * nv else np.array(mjd.ten_J).reshape(nt, nv)
          c.close(tag + "ten_J vs MuJoCo", Tw, Tm, "f32", vkey="ten_J:mujoco")
          c.close(tag + "ten_J vs d(ten_length)/dq", Tw, fdT, FD_TOL, vkey="ten_J:finite_difference")
          c.close(tag + "ten_velocity", d.ten_velocity.numpy()[0], fdT @ v, FD_TOL, scale=1 + float(np.max(np.abs(fdT))) * float(np.sum(np.abs(v))), vkey="ten_velocity:finite_difference")
        Aw = _moment_dense(m, d, 0, nu, nv)
        Am = np.zeros((nu, nv))
        mujoco.mju_sparse2dense(Am, mjd.actuator_moment, mjd.moment_rownnz, mjd.moment_rowadr, mjd.moment_colind)
        c.close(tag + "actuator_moment vs MuJoCo", Aw, Am, "f32", vkey="actuator_moment:mujoco")
        c.close(tag + "actuator_moment vs d(actuator_length)/dq", Aw[fd_rows], fdA[fd_rows], FD_TOL, vkey="actuator_moment:finite_difference")
        c.close(tag + "actuator_velocity", d.actuator_velocity.numpy()[0][fd_rows], fdA[fd_rows] @ v, FD_TOL, scale=1 + float(np.max(np.abs(fdA))) * float(np.sum(np.abs(v))), vkey="actuator_velocity:finite_difference")
        nontriv = nontriv or np.any(Am != 0)
      # what the solver's own stopping rule allows qacc to deviate from the optimum (see C06: K*tol/scale + float32 cost
      # resolution, turned into a per-dof bound by strong convexity)
      P = cost.problem_from_mjw(mjm, m, d, 0)
      ev = P.evaluate(d.qacc.numpy()[0].astype(np.float64))
      cmag = abs(ev["gauss"]) + (float(np.sum(np.abs(P.rows(ev["jar"])[2]))) if P.nefc else 0.0)
      allow = 20.0 * P.tolerance / P.scale() + 16 * 1.1920929e-07 * cmag
      slack = np.sqrt(2 * allow * np.maximum(np.diag(np.linalg.inv(P.M)), 0.0))
      # one step from the same state, remembered per Jacobian layout
      util.copy_state(mjd, d)
      mjw.step(m, d)
      after[(cone, jac)] = (d.qpos.numpy()[0].astype(np.float64), d.qvel.numpy()[0].astype(np.float64), d.qacc.numpy()[0].astype(np.float64), int(d.nefc.numpy()[0]), slack)
    a, b = after[(cone, 0)], after[(cone, 1)]
    c.true(f"cone{cone}:nefc dense == sparse", a[3] == b[3], f"{a[3]} vs {b[3]}", vkey="dense_vs_sparse:nefc")
    dt = float(mjm.opt.timestep)
    sl = 2 * float(np.max(np.maximum(a[4], b[4])))  # both runs may sit that far from the optimum
    for nm, x, y, at in (("qpos", a[0], b[0], sl * dt * dt), ("qvel", a[1], b[1], sl * dt), ("qacc", a[2], b[2], sl)):
      c.close(f"cone{cone}:step dense vs sparse:{nm}", y, x, "solver", vkey=f"dense_vs_sparse:{nm}", atol=at)
  return c.result(nontrivial=nontriv, key=util.sha(scn), info=dict(nv=int(nv), nu=int(nu), ntendon=int(nt), rows=nrows, checked=c.nchecked))


def exec_wrap(scn):
  """ten_J and the moment of a tendon actuator for a tendon that wraps a geom carried by a moving body (models of C01's
  wrapmove family): equal to MuJoCo's and to float64 finite differences of ten_length along every dof."""
  import mujoco

  import mujoco_warp as mjw
  from mc.props import c01

  xml = c01._wrapmove_xml(scn).replace("</mujoco>", '<actuator><general name="at" tendon="tw" gear="-1.3"/></actuator></mujoco>')
  mjm = util.load(xml)
  m = mjw.put_model(mjm)
  d = mjw.make_data(mjm, nworld=1)
  c = util.Cmp()
  nv = mjm.nv
  wrapped = 0
  grid = list(itertools.product(c01.WRAP_GRID, repeat=3))
  for k, a in enumerate(grid):
    if k % 3 != scn["chunk"]:
      continue
    v = np.zeros(nv)
    v[-2:] = a[1:]
    v[0 if scn["arm"] != "free" else 4] = a[0] * (0.2 if scn["arm"] == "shh" else 1.0)
    if scn["arm"] == "hbh":
      v[:] = [a[0], 0.6 * a[1], 0.0, 0.8 * a[1], a[2]]
    q = np.array(mjm.qpos0)
    mujoco.mj_integratePos(mjm, q, v, 1.0)
    base = _perturbed(mujoco, mjm, q, None, 0.0, tendon=True)
    wrapped += int(base.ten_wrapnum[0] == 4)
    h = 1e-6
    fd = np.array([(_perturbed(mujoco, mjm, q, i, h, True).ten_length[0] - _perturbed(mujoco, mjm, q, i, -h, True).ten_length[0]) / (2 * h) for i in range(nv)])
    util.copy_state(base, d)
    mjw.fwd_position(m, d)
    J = _ten_J_dense(m, d, 0, 1, nv)[0]
    Jm = _mj_dense_rows(mjm, np.asarray(base.ten_J), mjm.ten_J_rownnz, mjm.ten_J_rowadr, mjm.ten_J_colind, 1)[0] if np.asarray(base.ten_J).size != nv else np.asarray(base.ten_J).reshape(-1)
    pre = f"wrap {scn['wrap']} arm {scn['arm']} pose {k}: "
    c.close(pre + "ten_J vs finite differences of ten_length", J, fd, 1e-4, vkey="wrap:ten_J_vs_fd")
    c.close(pre + "ten_J vs MuJoCo", J, Jm, "f32", vkey="wrap:ten_J_vs_mujoco")
    c.close(pre + "actuator_moment vs gear*fd", _moment_dense(m, d, 0, 1, nv)[0], -1.3 * fd, 1e-4, vkey="wrap:actuator_moment_vs_fd")
  return c.result(nontrivial=wrapped > 0, key=util.sha(scn), info=dict(wrapped=wrapped))


def execute(scn):
  if scn["fam"] == "wrap":
    return exec_wrap(scn)
  return exec_jac(scn) if scn["fam"] == "jac" else exec_rows(scn)
