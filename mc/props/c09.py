"""C09 Worlds in a batch do not influence each other.

Explicit-state exploration: a batch state is the tuple of per-world situations; ALL assignments of a 4-situation
alphabet to nworld in {2,3} worlds (every ordering and batch position) are simulated for 3 steps with a control
change, and after every step each world must equal, bit for bit, the same situation simulated alone (nworld=1):
integration state, outputs, contacts and constraint rows.  Variants: plain, sparse Jacobian, elliptic cone, sleeping
enabled, delayed actuator, shared contact buffer exactly sufficient for the batch, a 9-box grid under the three broadphases with
sleeping, and `sleepers` (40 steps; worlds whose trees fall asleep at different steps, so island counts differ between worlds).
"""

import itertools

import numpy as np

from mc import scenes, snap, util

ID = "C09"
LEVEL = "model_checking"
RULE = (
  "states = tuples of per-world situations (4^nworld assignments, nworld in {2,3}) x 3 steps; transition = one step of the batch; every "
  "trace is validated against the implementation by simulating each of its worlds alone; invariant checked in every state: world i == solo"
)
BOUNDS = {
  "quick": "variants {dense, sparse, elliptic, sleep, delay, tight contact buffer, 3 grid broadphase variants, sleepers (40 steps)}, nworld in {2,3}, all 16+64 assignments, 3 steps",
  "thorough": "same plus RK4/implicitfast variants and nworld=4 (256 assignments) for the dense variant",
}
ASSUMPTIONS = ["bit identity (same arithmetic per world)", "cases where any capacity overflow bit is set are excluded and counted", "solo run = make_data(nworld=1) with default capacities"]
BUDGET = {"quick": 500, "thorough": 3400}
NSIT = 4
NSTEP = 3
CAP_BITS = 0x1FF

VARIANTS = {
  "dense": dict(opt='jacobian="dense"'),
  "sparse": dict(opt='jacobian="sparse"'),
  "elliptic": dict(opt='cone="elliptic"'),
  "sleep": dict(opt="", sleep=True),
  "delay": dict(opt="", delay=True),
  "tightcon": dict(opt="", tight=True),
  "rk4": dict(opt='integrator="RK4"'),
  "grid_sap_tile_sleep": dict(scene="grid", sleep=True, broadphase="SAP_TILE"),
  "grid_sap_seg_sleep": dict(scene="grid", sleep=True, broadphase="SAP_SEGMENTED"),
  "grid_nxn_sleep": dict(scene="grid", sleep=True, broadphase="NXN"),
  "grid_sap_tile": dict(scene="grid", sleep=False, broadphase="SAP_TILE"),
  "implicitfast": dict(opt='integrator="implicitfast"'),
  # worlds whose trees fall asleep at different steps (12, 13, 34) so that the number of islands differs between worlds
  "sleepers": dict(scene="sleepers", sleep=True, nstep=40),
}

SLEEPERS_XML = """<mujoco><option timestep="0.004" sleep_tolerance="0.01"><flag sleep="enable"/></option><worldbody><geom type="plane" size="5 5 .1"/>
<body name="b0" pos="-1 0 0.1"><freejoint/><geom type="box" size=".1 .1 .1"/></body>
<body name="b1" pos="0 0 0.1"><freejoint/><geom type="box" size=".1 .1 .1"/></body>
<body name="b2" pos="1 0 0.1"><freejoint/><geom type="sphere" size=".1"/></body>
<body pos="2 0 1"><joint name="hh" type="hinge" axis="0 1 0" frictionloss="0.1" damping="0.1"/><geom type="capsule" fromto="0 0 0 .2 0 0" size=".03" contype="0" conaffinity="0"/></body>
</worldbody><actuator><motor joint="hh"/></actuator></mujoco>"""


def _sleepers_situation(mjm, s, seed):
  """0: box0 held awake by a 1e-3 N applied force, the rest falls asleep; 1: same for box1; 2: the sphere is dropped 4 mm and box0 slides
  (they fall asleep 20 steps after the others); 3: everything rests."""
  import mujoco

  d = mujoco.MjData(mjm)
  if s == 0:
    d.xfrc_applied[1, 0] = 1e-3
  elif s == 1:
    d.xfrc_applied[2, 0] = 1e-3
  elif s == 2:
    d.qpos[16] += 0.004
    d.qvel[0] = 0.05
  d.qpos[mjm.nq - 1] = 0.2 * (s + 1) + 0.05 * seed
  return d


_SCENE = {}


def scenarios(tier, seed):
  out = []
  names = ["dense", "sparse", "elliptic", "sleep", "delay", "tightcon", "grid_sap_tile_sleep", "grid_sap_seg_sleep", "grid_nxn_sleep", "grid_sap_tile", "sleepers"] + (["rk4", "implicitfast"] if tier == "thorough" else [])
  for v in names:
    for nw in (2, 3):
      for a in itertools.product(range(NSIT), repeat=nw):
        out.append(dict(variant=v, assign=list(a), seed=seed % 4))
  if tier == "thorough":
    for a in itertools.product(range(NSIT), repeat=4):
      out.append(dict(variant="dense", assign=list(a), seed=seed % 4))
  return out


_M, _SOLO = {}, {}


GRID_N = 9


def grid_xml(sleep):
  """9 free boxes in a tight 3x3 grid (nv=55: dense Jacobian) on a plane plus a hinge with friction loss (every world always has a row):
  a dense sweep-and-prune axis (many AABB overlaps along the sweep direction), whole trees that can be asleep."""
  flag = '<flag sleep="enable"/>' if sleep else ""
  bodies = ""
  for i in range(GRID_N):
    x, y = 0.23 * (i % 3), 0.23 * (i // 3)
    bodies += f'<body name="g{i}" pos="{x:.3f} {y:.3f} 0.0995"><freejoint name="f{i}"/><geom type="box" size=".1 .1 .1" mass="0.5"/></body>'
  # 24 static spheres hovering over the grid: no contacts, but their sweep-axis projections overlap everything, so the SAP
  # candidate count exceeds the number of launched threads and the grid-stride loop of the SAP kernel really strides
  statics = "".join(f'<geom type="sphere" size="0.02" pos="{0.03 * (i % 8) + 0.1:.3f} {0.09 * (i // 8) + 0.1:.3f} {0.6 + 0.05 * (i % 3):.3f}"/>' for i in range(24))
  return f"""<mujoco><option timestep="0.004" jacobian="dense">{flag}</option><worldbody><geom name="floor" type="plane" size="5 5 .1"/>{statics}{bodies}
  <body pos="2 0 1"><joint name="hh" type="hinge" axis="0 1 0" frictionloss="0.1" damping="0.1"/><geom type="capsule" fromto="0 0 0 .2 0 0" size=".03" contype="0" conaffinity="0"/></body>
  </worldbody></mujoco>"""


def _model(v):
  import mujoco_warp as mjw

  if v not in _M:
    cfg = VARIANTS[v]
    if cfg.get("scene") == "grid":
      mjm = util.load(grid_xml(cfg.get("sleep", False)))
    elif cfg.get("scene") == "sleepers":
      mjm = util.load(SLEEPERS_XML)
    else:
      mjm = util.load(scenes.rich(cfg.get("opt", ""), sleep=cfg.get("sleep", False), delay=cfg.get("delay", False)))
    m = mjw.put_model(mjm)
    if cfg.get("broadphase"):
      m.opt.broadphase = getattr(mjw.BroadphaseType, cfg["broadphase"])
    _M[v] = (mjm, m)
    _SCENE[id(mjm)] = (cfg.get("scene", "rich"), cfg.get("nstep", NSTEP))
  return _M[v]


def _grid_situation(mjm, s, seed):
  """0: resting, every tree forced asleep; 1: resting awake with small velocities; 2: dropped from 0.5 m;
  3: boxes pushed into each other (many box-box contacts)."""
  import mujoco

  d = mujoco.MjData(mjm)
  for i in range(GRID_N):
    a = mjm.jnt_qposadr[i]
    if s == 2:
      d.qpos[a + 2] += 0.5 + 0.02 * i
    if s == 3:
      d.qpos[a] *= 0.9
      d.qpos[a + 1] *= 0.9
  if s == 1:
    d.qvel[:] = 0.02 * np.cos(np.arange(mjm.nv) + seed)
  d.qpos[mjm.nq - 1] = 0.3 * (s + 1)
  return d


def _situation(mjm, s, seed):
  """MjData holding situation s."""
  import mujoco

  base = scenes.rich_states(mjm, 4, seed)
  d = base[s]
  jid = lambda n: int(mjm.jnt_qposadr[mujoco.mj_name2id(mjm, mujoco.mjtObj.mjOBJ_JOINT, n)])
  if s == 0:  # free fall: lift all free bodies, no contacts
    for k, n in enumerate(("fa", "fb", "ff")):
      d.qpos[jid(n) + 2] = 1.0 + 0.4 * k
  elif s == 3:  # pushed stack
    d.xfrc_applied[2, :] = [0.8, -0.4, 0.5, 0.02, 0.0, -0.03]
    d.qpos[jid("ff") : jid("ff") + 3] = [0.13, 0.02, 0.17]  # capsule pushed into the stack: more contacts
  return d


def _ctrl(step, s, nu):
  return np.array([0.5 * np.sin(0.9 * step + 1.3 * s + j) for j in range(nu)], dtype=np.float32)


def _simulate(mjm, m, assign, seed, **kw):
  import mujoco_warp as mjw

  nw = len(assign)
  kw.setdefault("njmax", 100)
  kw.setdefault("naconmax", 24 * nw)
  scene, nstep = _SCENE[id(mjm)]
  grid = scene == "grid"
  situation = {"grid": _grid_situation, "sleepers": _sleepers_situation, "rich": _situation}[scene]
  if grid:
    kw["njmax"] = 400
    kw["naconmax"] = max(kw["naconmax"], 120 * nw) if "tight" not in kw else kw["naconmax"]
  d = mjw.make_data(mjm, nworld=nw, **kw)
  for w, s in enumerate(assign):
    util.copy_state(situation(mjm, s, seed), d, world=w)
  if grid and (m.opt.enableflags & mjw.EnableBit.SLEEP):
    # situation 0: put every free-box tree to sleep (self-cycles), as the repository's own sleep tests do
    from mujoco_warp._src import sleep as _sleep

    ta = d.tree_asleep.numpy()
    for w, s in enumerate(assign):
      if s == 0:
        for t in range(GRID_N):
          ta[w, t] = t
    util.set_field(d.tree_asleep, ta)
    _sleep.update_sleep(m, d)
  snaps = []
  for step in range(nstep):
    if step >= 1:
      util.set_field(d.ctrl, np.stack([_ctrl(step, s, mjm.nu) for s in assign]))
    mjw.step(m, d)
    snaps.append(snap.take(m, d, sleep=True))
  return snaps


def execute(scn):
  mjm, m = _model(scn["variant"])
  assign, seed, var = scn["assign"], scn["seed"], scn["variant"]
  nw = len(assign)
  c = util.Cmp()
  NSTEP = _SCENE[id(mjm)][1]
  counts = dict(states=NSTEP, transitions=NSTEP, traces_validated_against_impl=len(assign), excluded_overflow=0)
  # references: each situation alone (nworld=1) and in a homogeneous batch of the same size
  for s in set(assign):
    if (var, s, seed) not in _SOLO:
      _SOLO[(var, s, seed)] = _simulate(mjm, m, [s], seed)
    if (var, s, seed, nw) not in _SOLO:
      homo = _simulate(mjm, m, [s] * nw, seed)
      _SOLO[(var, s, seed, nw)] = homo
      _SOLO[(var, s, seed, nw, "viol")] = hv = []
      solo = _SOLO[(var, s, seed)]
      for step in range(NSTEP):
        if np.any((homo[step]["count"]["overflow"] | solo[step]["count"]["overflow"]) & CAP_BITS):
          break
        cc = util.Cmp()
        snap.compare_exact(cc, snap.world_slice(homo[step], 0), snap.world_slice(solo[step], 0), pre=f"situation {s} step {step}: batch of {nw} vs alone: ")
        if cc.violations:
          # same worlds, different batch size: distinguish pure summation-order round-off from real influence
          cr = util.Cmp()
          snap.compare_reorder(cr, snap.world_slice(homo[step], 0), snap.world_slice(solo[step], 0), pre=f"situation {s} step {step}: batch of {nw} vs alone: ", tol=1e-4, skip=("solver_niter",))
          if cr.violations:
            for v in cr.violations[:3]:
              v["vkey"] = f"{var}:solo_vs_batch:beyond_roundoff:{v['vkey']}"
              hv.append(v)
          else:
            v = cc.violations[0]
            v["vkey"] = f"{var}:solo_vs_batch:bits_differ_within_roundoff"
            hv.append(v)
          break
    c.violations += [dict(v) for v in _SOLO[(var, s, seed, nw, "viol")]]
  kw = {}
  if VARIANTS[var].get("tight"):
    kw = dict(naconmax=sum(max(x["nacon"] for x in _SOLO[(var, s, seed)]) for s in assign))
  batch = _simulate(mjm, m, assign, seed, **kw)
  for step in range(NSTEP):
    if np.any(batch[step]["count"]["overflow"] & CAP_BITS):
      counts["excluded_overflow"] += 1
      break
    for w, s in enumerate(assign):
      ref = _SOLO[(var, s, seed, nw)][step]
      cc = util.Cmp()
      snap.compare_exact(cc, snap.world_slice(batch[step], w), snap.world_slice(ref, 0), pre=f"assignment {assign} step {step} world {w} (situation {s}) vs same situation in a homogeneous batch of {nw}: ")
      if cc.violations:
        # same distinction as for batch size: with the sweep-and-prune broadphases the order in which a world's contacts are
        # listed depends on its batch position (work packages are dealt to threads across worlds), which moves sums by round-off
        cr = util.Cmp()
        snap.compare_reorder(cr, snap.world_slice(batch[step], w), snap.world_slice(ref, 0), pre=f"assignment {assign} step {step} world {w} (situation {s}): ", tol=1e-4, skip=("solver_niter",))
        if cr.violations:
          for v in cr.violations[:4]:
            v["vkey"] = f"{var}:position:beyond_roundoff:{v['vkey']}"
            c.violations.append(v)
        else:
          v = cc.violations[0]
          v["vkey"] = f"{var}:position:bits_differ_within_roundoff"
          c.violations.append(v)
    if len(c.violations) > 8:
      break
  ncon = [len(x) for x in batch[0].get("contacts", [])]
  return c.result(nontrivial=len(set(assign)) > 1 or len(assign) > 1, key=util.sha(scn), counts=counts, info=dict(contacts_per_world=ncon, nefc=batch[0]["count"]["nefc"].tolist()))
