"""C20 Contacts are geometrically valid.

Space: C04's pair scenes (every unordered geom-type pair x orientation case x 6 signed separations x margin x gap,
static/moving swap) plus the height-field scenes. Oracle: invariants of MJWarp's own contacts, evaluated in float64
with support functions and signed surface functions (refs/support_fn.py):
  * frame rows orthonormal (1e-5), det = +1, first row unit;
  * the first row points from geom[0] to geom[1] and dist equals the signed separation along it:
    dist = sep(n) = -h1(n) - h2(-n) for the deepest contact of the pair (a reversed or tilted normal makes sep(n)
    collapse towards -(size1+size2)); class f32 for closed-form primitive pairs, convex-solver tolerance otherwise;
  * pos -/+ dist/2 * n lie on the surfaces of geom[0] / geom[1] (the deepest contact of a primitive manifold; the
    single contact of a convex pair);
  * for constructed separated poses (d > 0) the true distance is exactly d: dist = d;
  * height field: the normal never points into the terrain (n . up >= -0.1);
  * sphere with its centre inside (5x5x5 local grid) a cylinder/box/capsule/sphere: dist = sdf_partner(centre) - r exactly
    (the signed separation of the two geoms, i.e. the nearest surface is the one reported), plus the checks above.
"""

import collections

import numpy as np

from mc import util
from mc.refs import colcheck as cc
from mc.refs import colscene as cs
from mc.refs import support_fn as sf

ID = "C20"
LEVEL = "exploration"
RULE = (
  "enumerate every unordered geom-type pair x orientation case x (margin, gap) [x which geom is static] + hfield x type; each "
  "scenario evaluates 6 signed separations as 6 worlds of one collision call and validates every reported contact; "
  "non-trivial = >=1 contact was validated (frame + distance certificate + surface points) and >=1 world had none; "
  "distinct = hash of the scenario spec"
)
BOUNDS = {
  "quick": "36 type pairs x 3 orientations x 4 (margin,gap) + swap on the generic orientation; hfield x 7 types x 2 orientations x 2 margins; sphere centre on a 5x5x5 interior grid of cylinder/box/capsule/sphere x 3 orientations",
  "thorough": "5 orientations, swap everywhere, hfield x 3 orientations x 4 (margin,gap)",
}
ASSUMPTIONS = [
  "float64 support functions / signed surface functions of sphere, capsule, ellipsoid (first order), cylinder, box, convex mesh, plane are the reference geometry",
  "closed-form primitive pairs (class P): |dist - sep(n)| <= 3e-5 and surface residuals <= 5e-5 for the deepest contact (float32 at coordinates < 1; "
  "measured maxima on the unchanged tree: 2e-6 / 5e-6); the other points of a primitive manifold follow MuJoCo's constructions and are only frame-checked",
  "convex pairs (GJK/EPA): tolerance 5e-4 + 0.05*margin + float32 cancellation term + 4x the deviation MuJoCo's float64 solver shows on the same input "
  "(inputs on which the reference solver itself fails the certificate are ill-conditioned for EPA); multi-contact convex manifolds share one dist, so "
  "only their deepest contact is certified and surface points are checked for single-contact results only",
  "MuJoCo is used only to grade ill-conditioning of convex inputs, never as expected value",
]
BUDGET = {"quick": 500, "thorough": 3000}

MG = [(0.0, 0.0), (0.05, 0.0), (0.05, 0.02), (0.0, 0.02)]
BOXY = ("box", "tet", "cube")
P_TOL = 3e-5


def scenarios(tier, seed):
  v = seed % 4
  out = []
  orients = cs.ORIENTS[:3] if tier == "quick" else cs.ORIENTS
  for ta, tb in cs.type_pairs():
    for o in orients:
      for margin, gap in MG:
        swaps = [0]
        if cs.ORDER[ta] != cs.ORDER[tb] and ta != "plane" and (tier == "thorough" or o == "generic"):
          swaps.append(1)
        for sw in swaps:
          base = dict(fam="pair", ta=ta, tb=tb, orient=o, margin=margin, gap=gap, swap=sw, variant=v, multiccd=1)
          out.append(base)
          if margin and ta in BOXY and tb in BOXY and not (ta == "box" and tb == "box"):
            out.append(dict(base, multiccd=0))
  for tb in cs.TYPES[1:]:
    for o in ("aligned", "generic") if tier == "quick" else ("aligned", "generic", "rot90"):
      for margin, gap in MG[:2] if tier == "quick" else MG:
        out.append(dict(fam="hfield", tb=tb, orient=o, margin=margin, gap=gap, variant=v))
  # a small sphere whose centre lies inside (or just outside) a closed-form partner: the distance of a sphere to X is sdf_X(centre) - r
  for ta in INSIDE_SIZE:
    for o in orients:
      out.append(dict(fam="inside", ta=ta, orient=o, variant=v))
  return out


def worker_init():
  from mc.refs import colwarm

  colwarm.warm_dispatch()


def _surface(c, con, s1, s2, tol, tag, vk):
  n = np.asarray(con["frame"], np.float64)[0]
  p1 = con["pos"] - 0.5 * float(con["dist"]) * n
  p2 = con["pos"] + 0.5 * float(con["dist"]) * n
  r1, r2 = sf.surface(s1, p1), sf.surface(s2, p2)
  c.nchecked += 2
  if abs(r1) > tol or abs(r2) > tol:
    c.fail(
      f"{vk}:pos_not_midway_between_surfaces",
      f"{tag}: pos -/+ dist/2*n is {r1:.3g} / {r2:.3g} away from the surfaces of geom[0] / geom[1] (tol {tol:.3g}); dist={float(con['dist']):.6g} "
      f"n={np.round(n, 5).tolist()} pos={np.round(con['pos'], 5).tolist()}",
    )
  return max(abs(r1), abs(r2))


def _pair(scn):
  import mujoco

  b = cs.build_pair(scn)
  if "outcome" in b:
    return dict(ok=True, nontrivial=False, key=util.sha(scn), **b)
  mjm, qs, cases, sA, ncon = b["mjm"], b["qs"], b["cases"], b["sA"], b["n"]
  margin, gap = scn["margin"], scn["gap"]
  try:
    m, d = cs.run_worlds(mjm, qs)
  except NotImplementedError as e:
    return dict(ok=True, nontrivial=False, outcome="unsupported", info=str(e)[:160], key=util.sha(scn))
  c = util.Cmp()
  stats = collections.Counter()
  t1, t2 = int(mjm.geom_type[0]), int(mjm.geom_type[1])
  cls, name = cc.pair_class(t1, t2), cc.pair_name(t1, t2)
  for w, (cname, dd) in enumerate(cases):
    got = util.mjw_contacts(d, w)
    tag = f"{cname}(d={dd:+.4g})"
    if not got:
      stats["empty"] += 1
      continue
    mjd = util.mj_data(mjm, qpos=qs[w])
    mujoco.mj_kinematics(mjm, mjd)
    shapes = {0: sA, 1: sf.from_model(mjm, mjd, 1)}
    g0 = [int(x) for x in got[0]["geom"]]
    s1, s2 = shapes[g0[0]], shapes[g0[1]]
    zone = "penetrating" if dd < 0 else "separated"
    for k in got:
      cc.frame_valid(c, k, tag, f"{cls}:{name}")
      stats["contacts"] += 1
    gd = min(got, key=lambda k: float(k["dist"]))
    n_w = np.asarray(gd["frame"], np.float64)[0]
    sep_w, dev_w = cc.certificate(s1, s2, gd)
    c.nchecked += 1
    if cls == "P":
      tol = P_TOL
      if abs(dev_w) > tol:
        c.fail(
          f"P:{name}:dist_not_separation_along_normal:{zone}",
          f"{tag}: dist={float(gd['dist']):.7g} but sep(n)={sep_w:.7g} for n={np.round(n_w, 6).tolist()} (|diff|={abs(dev_w):.3g} > {tol:.3g})",
        )
      # the deepest point of a primitive manifold lies on both true surfaces; the further points follow MuJoCo's
      # constructions (e.g. plane-capsule puts the higher end's point on the end *sphere*, which is inside the capsule)
      stats["max_surface_P"] = max(stats.get("max_surface_P", 0.0), _surface(c, gd, s1, s2, 5e-5, tag, f"P:{name}"))
      stats["max_dev_P"] = max(stats.get("max_dev_P", 0.0), abs(dev_w))
    else:
      # grade the conditioning of this input with the reference solver (same algorithm, float64)
      mujoco.mj_collision(mjm, mjd)
      ref = util.mj_contacts(mjd)
      dev_r = 0.0
      if ref:
        rd = min(ref, key=lambda k: float(k["dist"]))
        if [int(x) for x in rd["geom"]] == g0:
          dev_r = abs(cc.certificate(s1, s2, rd)[1])
      tol = cc.cert_tol(gd["dist"], gd["pos"], margin=float(gd["includemargin"])) + 4.0 * dev_r
      stats["max_dev_C"] = max(stats.get("max_dev_C", 0.0), abs(dev_w))
      if abs(dev_w) > tol:
        c.fail(
          # |dist| <= 2e-4: the normal is the normalised difference of two witness points that are closer together than 200 ccd tolerances
          f"C:{name}:dist_not_separation_along_normal:{zone}" + (":near_touch" if abs(float(gd["dist"])) <= 2e-4 else ""),
          f"{tag}: dist={float(gd['dist']):.6g} but the separation along its normal {np.round(n_w, 5).tolist()} is {sep_w:.6g} "
          f"(|diff|={abs(dev_w):.3g} > {tol:.3g}; the reference solver deviates by {dev_r:.3g} on this input)",
        )
      elif len(got) == 1:
        # witness points are interpolated on polytope faces inscribed in the true surfaces: each may be off by the
        # sagitta while dist only sees their difference -> twice the distance tolerance
        _surface(c, gd, s1, s2, 2.0 * tol, tag, f"C:{name}")
    # constructed separated pose: the true distance is exactly d (supporting planes at the two witness points)
    if dd > 0:
      tol_d = P_TOL if cls == "P" else tol
      c.nchecked += 1
      if abs(float(gd["dist"]) - dd) > tol_d:
        c.fail(f"{cls}:{name}:dist_vs_constructed_distance", f"{tag}: dist={float(gd['dist']):.7g}, constructed distance {dd:.7g} (tol {tol_d:.3g})")
    stats["validated"] += 1
  info = {k: (round(x, 8) if isinstance(x, float) else int(x)) for k, x in stats.items()}
  info.update(cls=cls, pair=name)
  return c.result(nontrivial=stats["validated"] > 0 and stats["empty"] > 0, key=util.sha(scn), info=info, counts=dict(extra_evaluations=len(cases) - 1))


def _hfield(scn):
  b = cs.build_hfield(scn)
  if "outcome" in b:
    return dict(ok=True, nontrivial=False, key=util.sha(scn), **b)
  mjm, qs, cases, up = b["mjm"], b["qs"], b["cases"], b["up"]
  try:
    m, d = cs.run_worlds(mjm, qs)
  except NotImplementedError as e:
    return dict(ok=True, nontrivial=False, outcome="unsupported", info=str(e)[:160], key=util.sha(scn))
  c = util.Cmp()
  stats = collections.Counter()
  name = cc.pair_name(int(mjm.geom_type[0]), int(mjm.geom_type[1]))
  for w, (cname, dd) in enumerate(cases):
    got = util.mjw_contacts(d, w)
    tag = f"{cname}(d={dd:+.4g})"
    if not got:
      stats["empty"] += 1
      continue
    stats["validated"] += 1
    for k in got:
      cc.frame_valid(c, k, tag, f"H:{name}")
      n = np.asarray(k["frame"], np.float64)[0]
      sgn = 1.0 if int(k["geom"][0]) == 0 else -1.0
      c.nchecked += 1
      if sgn * float(n @ up) < -0.1:
        c.fail(
          f"H:{name}:normal_points_into_terrain",
          f"{tag}: contact normal {np.round(n, 4).tolist()} (geom order {[int(x) for x in k['geom']]}) has component {sgn * float(n @ up):.3g} along the "
          f"height field's up axis; dist={float(k['dist']):.5g} pos={np.round(k['pos'], 4).tolist()}",
        )
  return c.result(
    nontrivial=stats["validated"] > 0 and stats["empty"] > 0,
    key=util.sha(scn),
    info={k: int(x) for k, x in stats.items()},
    counts=dict(extra_evaluations=len(cases) - 1),
  )


INSIDE_SIZE = {"cylinder": (0.5, 0.4), "box": (0.5, 0.4, 0.3), "capsule": (0.3, 0.4), "sphere": (0.5,)}
INSIDE_GRID = (-0.85, -0.45, 0.1, 0.5, 0.8)
INSIDE_R = 0.04


def _inside(scn):
  """5x5x5 grid of sphere centres in the partner's local frame (scaled by its half extents): deep, interior contacts."""
  import mujoco

  ta, v = scn["ta"], scn["variant"]
  qa, _, _ = cs.orientation(scn["orient"], v)
  sz = tuple(x * (1.0 + 0.1 * v) for x in INSIDE_SIZE[ta])
  r = INSIDE_R * (1.0 + 0.25 * v)
  xml = (
    f'<mujoco><worldbody><geom name="gA" type="{ta}" size="{" ".join(f"{x:.6g}" for x in sz)}" pos="0.1 -0.2 0.3" quat="{" ".join(f"{x:.9g}" for x in qa)}"/>'
    f'<body name="bB"><freejoint/><geom name="gB" type="sphere" size="{r:.6g}"/></body></worldbody></mujoco>'
  )
  mjm, err = util.try_load(xml)
  if mjm is None:
    return dict(ok=False, violations=[dict(vkey="inside:scene_rejected", what=str(err)[:200])], nontrivial=False, key=util.sha(scn))
  mjd0 = util.mj_data(mjm)
  mujoco.mj_kinematics(mjm, mjd0)
  sA = sf.from_model(mjm, mjd0, 0)
  ext = {"cylinder": lambda: (sz[0], sz[0], sz[1]), "box": lambda: sz, "capsule": lambda: (sz[0], sz[0], sz[0] + sz[1]), "sphere": lambda: (sz[0],) * 3}[ta]()
  qs, locs = [], []
  for a in INSIDE_GRID:
    for b in INSIDE_GRID:
      for cz in INSIDE_GRID:
        loc = np.array([a * ext[0], b * ext[1], cz * ext[2]])
        locs.append(loc)
        qs.append(list(sA.pos + sA.mat @ loc) + [1.0, 0.0, 0.0, 0.0])
  m, d = cs.run_worlds(mjm, qs, nconmax=4 * len(qs))
  c = util.Cmp()
  stats = collections.Counter()
  name = cc.pair_name(int(mjm.geom_type[0]), int(mjm.geom_type[1]))
  for w, q in enumerate(qs):
    want = sf.surface(sA, np.array(q[:3])) - r
    got = util.mjw_contacts(d, w)
    tag = f"centre_local={np.round(locs[w], 4).tolist()} (true distance {want:+.6g})"
    c.nchecked += 1
    if not got:
      stats["empty"] += 1
      if want < -1e-4:
        c.fail(f"P:{name}:inside:contact_missing", f"{tag}: no contact reported")
      continue
    if len(got) != 1:
      c.fail(f"P:{name}:inside:contact_count", f"{tag}: {len(got)} contacts for a sphere pair")
    k = got[0]
    cc.frame_valid(c, k, tag, f"P:{name}")
    mjd = util.mj_data(mjm, qpos=q)
    mujoco.mj_kinematics(mjm, mjd)
    shapes = {0: sA, 1: sf.from_model(mjm, mjd, 1)}
    g0 = [int(x) for x in k["geom"]]
    sep_w, dev_w = cc.certificate(shapes[g0[0]], shapes[g0[1]], k)
    c.nchecked += 2
    if abs(dev_w) > P_TOL:
      c.fail(f"P:{name}:dist_not_separation_along_normal:inside", f"{tag}: dist={float(k['dist']):.7g} but sep(n)={sep_w:.7g} (|diff|={abs(dev_w):.3g})")
    if abs(float(k["dist"]) - want) > P_TOL:
      c.fail(
        f"P:{name}:inside:dist_not_signed_distance",
        f"{tag}: dist={float(k['dist']):.7g} along n={np.round(np.asarray(k['frame'])[0], 5).tolist()} but the sphere's signed distance to the "
        f"partner is {want:.7g} (a nearer surface exists; |diff|={abs(float(k['dist']) - want):.3g} > {P_TOL:.3g})",
      )
    else:
      _surface(c, k, shapes[g0[0]], shapes[g0[1]], 5e-5, tag, f"P:{name}:inside")
    stats["validated"] += 1
    stats["interior"] += int(want + r < 0)
  return c.result(nontrivial=stats["validated"] > 0 and stats["interior"] > 0, key=util.sha(scn), info={k: int(x) for k, x in stats.items()}, counts=dict(extra_evaluations=len(qs) - 1))


def execute(scn):
  return {"pair": _pair, "hfield": _hfield, "inside": _inside}[scn["fam"]](scn)
