"""C37 Pipeline stages compose consistently.

Space: every DFS-ordered tree with <=N bodies x every joint-kind assignment, each model with a floor (contacts),
joint limits, frictionloss, damping, a filter and a motor actuator, sensors of all three stages and the ENERGY flag;
x integrators {Euler, implicitfast, implicit, RK4} x 2 grid states (one world each) with non-zero ctrl, act,
qfrc_applied, xfrc_applied and warmstart.
Oracles (all bit-exact, on twin Data objects made by make_data and given the same state):
  (a) step1;step2 == step on every Data array (Euler, implicitfast, implicit; step2 treats RK4 as Euler, so for RK4
      only (b) and (c) are checked); qacc_smooth alone is compared under f32dyn (different solve kernels, see execute),
  (b) forward leaves get_state(State.INTEGRATION) unchanged,
  (c) forward;forward == forward on every Data array.
"""

import dataclasses

import numpy as np

from mc import space, util

ID = "C37"
LEVEL = "exploration"
RULE = (
  "enumerate trees(<=N) x joint kinds; each scenario checks 4 integrators x 2 states x {step1;step2 vs step, forward keeps "
  "the integration state, forward twice} bit for bit on every Data array (constraint rows < nefc, contacts < nacon); "
  "non-trivial = nv>0, some world has active constraint rows and the step changed qvel; distinct = hash of the spec"
)
BOUNDS = {"quick": "N<=3 bodies, 5 joint kinds, 4 integrators, 2 states", "thorough": "N<=4 bodies (kinds without hinge+slide for N=4), 4 integrators, 2 states"}
ASSUMPTIONS = [
  "class exact: the same kernels run in both orders on the CPU backend (sequential task order), so results must be bit-identical",
  "arrays compared: every warp array of Data, Data.efc (rows < nefc) and Data.contact (entries < nacon); scratch arrays that "
  "the pipeline allocates with wp.empty and never fully writes are compared only on their defined prefix",
  "island / compact-solve arrays (written only with enableflags SLEEP) are excluded: make_data leaves them uninitialised",
  "qacc_smooth of step1;step2 vs step is compared under f32dyn (fused factor+solve vs factor then solve)",
  "real values from curated alphabets (VERIF_SEED mod 4), structure exhaustive",
]
BUDGET = {"quick": 600, "thorough": 3000}

KINDS = ("weld", "hinge", "ball", "free", "hingeslide")
INTEGRATORS = ("mjINT_EULER", "mjINT_IMPLICITFAST", "mjINT_IMPLICIT", "mjINT_RK4")


def scenarios(tier, seed):
  v = seed % 4
  out = []
  n = 3 if tier == "quick" else 4
  for parents in space.trees_upto(n):
    kinds = KINDS if len(parents) < 4 else KINDS[:4]
    for joints in space.joint_assignments(parents, kinds=kinds):
      out.append(dict(parents=list(parents), joints=list(joints), variant=v))
  return out


def build_xml(scn):
  v = scn["variant"]
  joints = scn["joints"]

  def jattr(i, kind):
    s = f'damping="{(0.3, 0.2, 0.5, 0.1)[v]}" armature="0.02" frictionloss="0.05"'
    if kind in ("hinge", "hingeslide"):
      s += ' limited="true" range="-0.6 0.3"'
    return s

  first = next((i for i, k in enumerate(joints, 1) if k in ("hinge", "ball", "free", "hingeslide")), None)
  kind = joints[first - 1]
  gear = {"hinge": "1.3", "hingeslide": "1.3", "ball": "1 0.5 -0.7", "free": "0.4 -0.3 0.6 0.2 0.5 -0.3"}[kind]
  sections = (
    f'<actuator><general joint="j{first}" gear="{gear}" dyntype="filter" dynprm="0.04" gainprm="1.5" biastype="affine" biasprm="0.1 -0.5 -0.2"/>'
    f'<motor joint="j{first}" gear="{gear}" ctrllimited="true" ctrlrange="-1 1"/></actuator>'
    '<sensor><framepos objtype="site" objname="s1"/><framelinvel objtype="site" objname="s1"/>'
    '<framelinacc objtype="site" objname="s1"/><subtreecom body="b1"/><actuatorfrc actuator="0"/></sensor>'
  )
  sections = sections.replace('actuator="0"', 'actuator="a0"').replace('<general joint', '<general name="a0" joint')
  # a tendon with armature: its inertia term is added to M after crb, so stage orderings of crb / tendon_armature / factor_m
  # matter (step1;step2 back-substitutes with the factor computed in step1)
  scal = [f"j{i}" + suf for i, k in enumerate(joints, 1) for suf in (("", "b") if k == "hingeslide" else ("",)) if k in ("hinge", "slide", "hingeslide")]
  if scal:
    coefs = " ".join(f'<joint joint="{j}" coef="{1.0 - 0.6 * n:.2f}"/>' for n, j in enumerate(scal[:2]))
    sections += f'<tendon><fixed name="tarm" armature="0.3" damping="0.05">{coefs}</fixed></tendon>'
    # sensors that ACCUMULATE into their sensordata slot (one contribution per actuator) instead of overwriting it: two actuators on
    # the tendon, no touch sensor in the model -- sensordata must be reset by every pipeline call
    sections = sections.replace("</actuator>", '<motor name="at1" tendon="tarm" gear="0.7"/><general name="at2" tendon="tarm" gear="-0.4" biastype="affine" biasprm="0.2 -0.3 0"/></actuator>')
    sections = sections.replace("</sensor>", f'<tendonactuatorfrc tendon="tarm"/><jointactuatorfrc joint="{scal[0]}"/></sensor>')
  floor = '<geom name="floor" type="plane" size="3 3 .1" pos="0 0 -0.12" margin="0.05"/>'
  return space.tree_xml(
    scn["parents"],
    joints,
    variant=v,
    joint_attrs=jattr,
    world_extra=floor,
    sections=sections,
    collide=True,
    option='<option timestep="0.004"><flag energy="enable"/></option>',
  )


def _arrays(obj, prefix=""):
  """(name, warp array) for every array field of a (nested) Data dataclass."""
  import warp as wp

  for f in dataclasses.fields(obj):
    val = getattr(obj, f.name)
    if isinstance(val, wp.array):
      yield prefix + f.name, val
    elif dataclasses.is_dataclass(val):
      yield from _arrays(val, prefix + f.name + ".")


# written only by the island / sleeping / compact-solve path (enableflags SLEEP), which these models do not enable: make_data
# allocates them with wp.empty and nothing in step/forward touches them, so their content is undefined by design
UNUSED = (
  "nisland nidof tree_island dof_island island_dofadr island_idofadr island_nv island_nefc island_ne island_nf island_iefcadr "
  "map_dof2idof map_idof2dof map_efc2iefc map_iefc2efc dof_islandid efc_islandid ncdof dof_cdof cdof_dof ctol cls_tol "
  "cdof_tri_row cdof_tri_col cM cqLD crhs cx cJ cMa cqfrc_smooth cqacc_smooth cqacc_warmstart cqacc cqfrc_constraint"
).split()


def snapshot(d):
  nefc = d.nefc.numpy().copy()
  nacon = int(d.nacon.numpy()[0])
  out = {}
  for name, arr in _arrays(d):
    if name in UNUSED:
      continue
    a = arr.numpy()
    if name.startswith("efc."):
      # per-world rows beyond nefc are scratch
      if a.ndim >= 2 and a.shape[1] >= d.njmax and name not in ("efc.J", "efc.J_colind"):
        a = a.copy()
        for w in range(a.shape[0]):
          a[w, min(int(nefc[w]), a.shape[1]) :] = 0
      elif name in ("efc.J", "efc.J_colind"):
        continue  # compared through util.efc_dense below
    elif name.startswith("contact."):
      a = a[: min(nacon, a.shape[0])]
    out[name] = np.array(a, copy=True)
  return out


def _compare(c, tag, A, B, vpre, skip=()):
  bad = []
  for name in A:
    if name in skip:
      continue
    a, b = A[name], B[name]
    if a.shape != b.shape or a.dtype != b.dtype or a.tobytes() != b.tobytes():
      bad.append(name)
  for name in bad[:40]:
    c.bits(f"{tag}:{name}", A[name], B[name], vkey=f"{vpre}:{name}")
  c.nchecked += len(A)
  return bad


def _fresh(mjw, mjm, inputs):
  d = mjw.make_data(mjm, nworld=len(inputs))
  for w, mjd in enumerate(inputs):
    util.copy_state(mjd, d, world=w)
  return d


def execute(scn):
  import mujoco
  import mujoco_warp as mjw
  import warp as wp

  mjm, err = util.try_load(build_xml(scn))
  key = util.sha(scn)
  if mjm is None:
    return dict(ok=True, nontrivial=False, outcome="rejected_by_compiler", key=key, info=dict(err=err))
  v = scn["variant"]
  c = util.Cmp()
  m = mjw.put_model(mjm)
  inputs = []
  for which in (1, 2):
    qpos, qvel = space.state_grid(scn["joints"], v, which)
    mjd = util.mj_data(
      mjm,
      qpos=qpos,
      qvel=qvel,
      ctrl=[(1.7, -0.6)[(which + u) % 2] for u in range(mjm.nu)],
      act=[0.3 * which] * mjm.na,
      qfrc_applied=[0.2 * ((i + which) % 3 - 1) for i in range(mjm.nv)],
      xfrc_applied=[[0.1 * ((b + k + which) % 3 - 1) for k in range(6)] for b in range(mjm.nbody)],
    )
    mjd.qacc_warmstart[:] = [0.5 * ((i + which) % 4 - 1.5) for i in range(mjm.nv)]
    inputs.append(mjd)
  size = mujoco.mj_stateSize(mjm, mujoco.mjtState.mjSTATE_INTEGRATION)
  active = moved = False
  for integ in INTEGRATORS:
    name = integ[6:].lower()
    m.opt.integrator = int(getattr(mujoco.mjtIntegrator, integ))
    # (a) step1;step2 == step
    if integ != "mjINT_RK4":
      dA, dB = _fresh(mjw, mjm, inputs), _fresh(mjw, mjm, inputs)
      v0 = dA.qvel.numpy().copy()
      mjw.step(m, dA)
      mjw.step1(m, dB)
      mjw.step2(m, dB)
      # qacc_smooth is the one array computed by different kernels in the two orders: step() solves it with the fused
      # factor_solve_i (fwd_acceleration(factorize=True)); step1 factorises in fwd_position (factor_m) and step2 back-substitutes
      # (solve_m).  Same arithmetic, different accumulation order: differs by 1-2 ulp on the unchanged tree (max 2e-6 at |x|=3),
      # so it is compared under f32dyn; everything downstream (qacc, qvel, qpos, ...) is still required to be bit-identical.
      SA, SB = snapshot(dA), snapshot(dB)
      _compare(c, f"{name}:step1;step2 vs step", SB, SA, f"step1step2_vs_step:{name}", skip=("qacc_smooth",))
      c.close(f"{name}:step1;step2 vs step:qacc_smooth", SB["qacc_smooth"], SA["qacc_smooth"], "f32dyn", vkey=f"step1step2_vs_step:{name}:qacc_smooth")
      for w in range(len(inputs)):
        _, ra = util.efc_dense(m, dA, w)
        _, rb = util.efc_dense(m, dB, w)
        c.bits(f"{name}:step1;step2 vs step:efc.J[world {w}]", rb["J"], ra["J"], vkey=f"step1step2_vs_step:{name}:efc.J")
      active = active or bool(dA.nefc.numpy().max() > 0)
      moved = moved or bool(np.abs(dA.qvel.numpy() - v0).max() > 1e-7)
    # (b) forward keeps the integration state, (c) forward twice
    dC = _fresh(mjw, mjm, inputs)
    s0 = wp.zeros((dC.nworld, size), dtype=float)
    s1 = wp.zeros((dC.nworld, size), dtype=float)
    mjw.get_state(m, dC, s0, int(mjw.State.INTEGRATION))
    mjw.forward(m, dC)
    mjw.get_state(m, dC, s1, int(mjw.State.INTEGRATION))
    c.bits(f"{name}:forward changes the integration state", s1.numpy(), s0.numpy(), vkey=f"forward_changes_state:{name}")
    P1 = snapshot(dC)
    J1 = [util.efc_dense(m, dC, w)[1]["J"] for w in range(len(inputs))]
    mjw.forward(m, dC)
    P2 = snapshot(dC)
    _compare(c, f"{name}:forward;forward vs forward", P2, P1, f"forward_twice:{name}")
    for w in range(len(inputs)):
      c.bits(f"{name}:forward twice:efc.J[world {w}]", util.efc_dense(m, dC, w)[1]["J"], J1[w], vkey=f"forward_twice:{name}:efc.J")
    mjw.get_state(m, dC, s1, int(mjw.State.INTEGRATION))
    c.bits(f"{name}:forward;forward changes the integration state", s1.numpy(), s0.numpy(), vkey=f"forward_changes_state:{name}")
    active = active or bool(dC.nefc.numpy().max() > 0)
  return c.result(
    nontrivial=mjm.nv > 0 and active and moved,
    key=key,
    outcome="ok",
    info=dict(nv=int(mjm.nv), nefc=[int(x) for x in dC.nefc.numpy()], ncon=int(dC.nacon.numpy()[0]), checked=c.nchecked),
    counts=dict(extra_evaluations=len(INTEGRATORS) * 3 - 2),
  )
