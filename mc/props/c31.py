"""C31 Host/device conversion is faithful.

Space: (a) supported models - every DFS-ordered tree with <=N bodies x every joint-kind assignment with colliding
geoms over a plane (contacts, limits), the tendon families, the constraint-graph "generic" family of C28 (equalities,
tendon limits/friction), and the kitchen-sink scene in its four pipeline variants; Jacobian mode and cone cycle with
the scenario index; 2 states each; the model-SIZE family: exact nv on both sides of / inside the windows between every nv at
which MJWarp or MuJoCo change the representation of M, qLD or efc_J (see SIZES) x jacobian auto / dense / sparse x tree
layout (many 6-dof trees / one serial chain), with contacts of every condim, limit, friction and equality rows; (b) a list of unsupported features, each alone.

Oracle:
  put_model: unsupported -> NotImplementedError / ValueError.  Supported -> every field of types.Model / Option /
    Statistic that has a same-named MjModel / MjOption / MjStatistic attribute equals it after conversion to the
    device dtype, bit for bit (only documented exception: opt.tolerance = max(tolerance, 1e-6)).
  put_data(nworld=2) of an MjData after mj_forward (contacts, rows, islands present), then get_data_into(world w)
    into a fresh MjData: every field get_data_into assigns (the list is extracted from its source) equals the
    original after float32 rounding - exactly: float32(got) == float32(orig); contacts and efc rows in MuJoCo's
    order; efc_J compared densely.  qLD is recomputed by MuJoCo from the float32 M for block layouts (class f32).
"""

import dataclasses
import inspect
import itertools
import re

import numpy as np

from mc import space, util

ID = "C31"
LEVEL = "exploration"
RULE = (
  "enumerate model specs (trees x joint kinds with contacts; tendon families; constraint families; kitchen sink; model sizes "
  "around every representation threshold x jacobian option x tree layout) x 2 states, "
  "and unsupported features one at a time; non-trivial = supported model with nv>0 whose MjData has >=1 constraint row or "
  "contact and all compared Data fields contain non-zero values, or an unsupported feature that MuJoCo itself compiles; "
  "distinct = hash of spec"
)
BOUNDS = {
  "quick": "trees N<=2 (all joint assignments), 7 tendon families x 2 joint sets, C28 generic family T=3 (no extra edge), sink A-D, 5 flex models, size family nv in {6,7,32,33,48,59,60,61,64,65} x jacobian {auto,dense,sparse} x {forest,chain} (Newton), unsupported list (11 features + 17 enum/flag values); nworld=2",
  "thorough": "trees N<=3, tendon families x 18 joint sets, C28 generic family with extra edges, sink A-D, 5 flex models, size family nv in {6,7,16,17,31..34,47..49,58..66} x jacobian x layout x {Newton,CG}, unsupported list; nworld=3",
}
ASSUMPTIONS = [
  "'MuJoCo fields' of Model = dataclass fields with a same-named attribute on MjModel/MjOption/MjStatistic",
  "the set of Data fields compared = every `result.<field>` assigned in the source of io.get_data_into",
  "values are compared after float32 rounding (exact), except qLD (recomputed with mj_factorM by get_data_into): class f32",
  "MjData reference state: mj_forward at a grid state with non-zero ctrl/act/qfrc_applied/xfrc_applied/mocap/time/warmstart",
]
BUDGET = {"quick": 400, "thorough": 3000}
# wp.empty buffers are filled with 0xC3 so that a never-written field shows up as the same garbage in every run
WORLD = {"poison": 0xC3}

UNSUPPORTED = {
  "noslip": ('<option noslip_iterations="3"/>', "", ""),
  "pgs_solver": ('<option solver="PGS"/>', "", ""),
  "dense_nv_gt_60": ('<option jacobian="dense"/>', "".join(f'<body pos="{i} 0 0"><freejoint/><geom size="0.1"/></body>' for i in range(11)), ""),
  "sleep_with_cg": ('<option solver="CG"><flag sleep="enable"/></option>', "", ""),
  "flex_quadratic_interp": ("", '<flexcomp name="f" type="grid" count="3 3 3" spacing=".1 .1 .1" pos="0 0 1" radius=".01" dim="3" dof="quadratic" mass="1"/>', ""),
  "flex_with_sdf_geom": (
    '<extension><plugin plugin="mujoco.sdf.torus"><instance name="t"><config key="radius1" value="0.35"/><config key="radius2" value="0.15"/></instance></plugin></extension>'
    '<asset><mesh name="torus"><plugin instance="t"/></mesh></asset>',
    '<geom type="sdf" mesh="torus"><plugin instance="t"/></geom><flexcomp name="f" type="grid" count="2 2 1" spacing=".1 .1 .1" pos="0 0 1" radius=".01" dim="2" mass="1"/>',
    "",
  ),
  "flex_with_hfield": (
    '<asset><hfield name="h" nrow="3" ncol="3" size="1 1 0.1 0.1" elevation="0 0 0 0 1 0 0 0 0"/></asset>',
    '<geom type="hfield" hfield="h"/><flexcomp name="f" type="grid" count="2 2 1" spacing=".1 .1 .1" pos="0 0 1" radius=".01" dim="2" mass="1"/>',
    "",
  ),
  "flex_internal_collision": ("", '<flexcomp name="f" type="grid" count="2 2 2" spacing=".1 .1 .1" pos="0 0 1" radius=".01" dim="3" mass="1"><contact internal="true"/></flexcomp>', ""),
  "sensor_plugin": ('<extension><plugin plugin="mujoco.sensor.touch_grid"/></extension>', "", '<sensor><plugin plugin="mujoco.sensor.touch_grid" objtype="site" objname="s"><config key="size" value="2 2"/><config key="fov" value="10 10"/><config key="gamma" value="0"/><config key="nchannel" value="1"/></plugin></sensor>'),
  "actuator_plugin": ('<extension><plugin plugin="mujoco.pid"><instance name="pid"><config key="kp" value="1"/></instance></plugin></extension>', "", '<actuator><plugin joint="j" plugin="mujoco.pid" instance="pid"/></actuator>'),
  "body_plugin": ('<extension><plugin plugin="mujoco.elasticity.cable"/></extension>', '<body pos="0 1 0"><joint/><geom size="0.1"/><plugin plugin="mujoco.elasticity.cable"><config key="twist" value="1"/><config key="bend" value="1"/></plugin></body>', ""),
  "sleep_with_flex_equality": ('<option><flag sleep="enable"/></option>', '<flexcomp name="f" type="grid" count="3 1 1" spacing=".1 .1 .1" pos="0 0 1" radius=".01" dim="1" mass="1"><edge equality="true"/></flexcomp>', ""),
}  # fmt: skip

# unsupported enum / flag values, poked into a compiled MjModel: feature -> (xml sections, field, index or None, value)
_ACT = '<actuator><general joint="j" dyntype="filter" gaintype="affine" biastype="affine"/></actuator>'
POKES = {
  "trntype_so3": (_ACT, "actuator_trntype", 0, "mjtTrn.mjTRN_SO3"),
  "dyntype_pid": (_ACT, "actuator_dyntype", 0, "mjtDyn.mjDYN_PID"),
  "gaintype_pid": (_ACT, "actuator_gaintype", 0, "mjtGain.mjGAIN_PID"),
  "gaintype_so3": (_ACT, "actuator_gaintype", 0, "mjtGain.mjGAIN_SO3"),
  "biastype_so3": (_ACT, "actuator_biastype", 0, "mjtBias.mjBIAS_SO3"),
  "eqtype_distance": ('<equality><joint joint1="j"/></equality>', "eq_type", 0, "mjtEq.mjEQ_DISTANCE"),
  "eqtype_flexvert": ('<equality><joint joint1="j"/></equality>', "eq_type", 0, "mjtEq.mjEQ_FLEXVERT"),
  "sleep_policy_never": ("", "tree_sleep_policy", 0, "mjtSleepPolicy.mjSLEEP_NEVER"),
  "sleep_policy_allowed": ("", "tree_sleep_policy", 0, "mjtSleepPolicy.mjSLEEP_ALLOWED"),
  "sleep_policy_init": ("", "tree_sleep_policy", 0, "mjtSleepPolicy.mjSLEEP_INIT"),
  "integrator_discrete": ("", "opt.integrator", None, "mjtIntegrator.mjINT_DISCRETE"),
  "disable_autoreset": ("", "opt.disableflags", None, "mjtDisableBit.mjDSBL_AUTORESET"),
  "disable_midphase": ("", "opt.disableflags", None, "mjtDisableBit.mjDSBL_MIDPHASE"),
  "enable_diagexact": ("", "opt.enableflags", None, "mjtEnableBit.mjENBL_DIAGEXACT"),
  "enable_fwdinv": ("", "opt.enableflags", None, "mjtEnableBit.mjENBL_FWDINV"),
  "enable_override": ("", "opt.enableflags", None, "mjtEnableBit.mjENBL_OVERRIDE"),
  "geom_type_none": ("", "geom_type", 0, "mjtGeom.mjGEOM_NONE"),
}

# Model-size thresholds of the pinned tree (io.py, types.py) and of MuJoCo:
#   M / qLD block layout (m_block_layout): tree with <= 6 dofs scalar blocks | 7..64 tile blocks | >= 65 MuJoCo's sparse LDL
#     (get_data_into: qLD copied only when no tree has a block factor, recomputed otherwise)
#   padded sizes (_get_padded_sizes): nv rounded up to 4 for nv <= 32, to 16 above (Newton: nv + 1): 16|17, 32|33, 47|48|49, 63|64|65
#   efc_J on the device (is_sparse): jacobian=auto -> sparse iff nv > 32; explicit dense / sparse as requested
#   efc_J in MjData (mj_isSparse): jacobian=auto -> sparse iff nv >= 60
#     => window 33..59 with auto: device sparse, MjData dense; below both dense; from 60 both sparse
#   jacobian=dense refused by put_model for nv > 60
# sizes = last / first value on each side of every threshold and values inside every window
SIZES = (6, 7, 16, 17, 31, 32, 33, 34, 47, 48, 49, 58, 59, 60, 61, 62, 63, 64, 65, 66)
SIZES_QUICK = (6, 7, 32, 33, 48, 59, 60, 61, 64, 65)
DENSE_NV_MAX = 60

TENDONS = ("fixed1", "fixed2", "spatial", "sphere", "cylinder", "cylinder_side", "pulley")


def scenarios(tier, seed):
  v = seed % 4
  n = 2 if tier == "quick" else 3
  nworld = 2 if tier == "quick" else 3
  out = []
  i = 0
  for parents in space.trees_upto(n):
    for joints in space.joint_assignments(parents):
      out.append(dict(fam="tree", parents=list(parents), joints=list(joints), variant=v, idx=i, nworld=nworld))
      i += 1
  jsets = [("hinge", "slide", "hingeslide"), ("slide", "ball", "hinge")]
  if tier != "quick":
    jsets = list(itertools.product(("hinge", "slide"), ("hinge", "slide", "ball"), ("hinge", "hingeslide", "free")))
  for parents in ((0, 1, 2), (0, 1, 1)) if tier == "quick" else space.trees(3):
    for joints in jsets:
      if "free" in joints and parents[joints.index("free")] != 0:
        continue
      for kind in TENDONS:
        out.append(dict(fam="tendon", parents=list(parents), joints=list(joints), variant=v, tendon=kind, idx=i, nworld=nworld))
        i += 1
  from mc.props import c28

  for s in c28.scenarios("quick", seed):
    if s["fam"] == "generic" and (tier != "quick" or s["extra"] is None):
      out.append(dict(fam="c28", c28=s, variant=v, idx=i, nworld=nworld))
      i += 1
  for var in "ABCD":
    out.append(dict(fam="sink", scene=var, variant=v, idx=i, nworld=nworld))
    i += 1
  for shape, dof, feat, col in (("1d3", "full", "edgeeq", "plane"), ("2d33", "full", "edgeeq", "plane"), ("2d33", "2d", "damping", "sphere"), ("3d222", "trilinear", "straineq", "sphere"), ("3d222", "full", "elasticity", "plane")):
    out.append(dict(fam="flex", c40=dict(shape=shape, dof=dof, feature=feat, collision=col, variant=v), variant=v, idx=i, nworld=nworld))
    i += 1
  # model SIZE: exact nv on both sides of (and inside the windows between) every nv at which MJWarp or MuJoCo change the
  # representation of M / qLD / efc_J, x Jacobian option (auto, dense, sparse) x tree layout; cone cycles
  sizes = SIZES_QUICK if tier == "quick" else SIZES
  for li, layout in enumerate(("forest", "chain")):
    for ni, nv in enumerate(sizes):
      for ji, jac in enumerate(("auto", "dense", "sparse")):
        for solver in ("Newton",) if tier == "quick" else ("Newton", "CG"):
          out.append(dict(fam="size", nv=nv, jacobian=jac, layout=layout, cone=("pyramidal", "elliptic")[(li + ni + ji) % 2], solver=solver, variant=v, idx=i, nworld=nworld))
          i += 1
  for name in UNSUPPORTED:
    out.append(dict(fam="unsupported", feature=name, variant=v))
  for name in POKES:
    out.append(dict(fam="unsupported", feature=name, variant=v, poke=True))
  return out


# ------------------------------------------------------------------------------------------------ models


def _tendon_sections(kind, joints):
  scal = []
  for i, k in enumerate(joints, 1):
    if k in ("hinge", "slide"):
      scal.append(f"j{i}")
    elif k == "hingeslide":
      scal += [f"j{i}", f"j{i}b"]
  world = ""
  if kind == "fixed1":
    t = "".join(f'<fixed name="t{a}" limited="true" range="-0.1 0.1"><joint joint="{j}" coef="{1.5 - 0.7 * a:.3g}"/></fixed>' for a, j in enumerate(scal))
  elif kind == "fixed2":
    t = "".join(
      f'<fixed name="t{a}" frictionloss="0.2"><joint joint="{j1}" coef="0.8"/><joint joint="{j2}" coef="-1.7"/></fixed>'
      for a, (j1, j2) in enumerate(itertools.combinations(scal, 2))
    )
  elif kind == "spatial":
    t = '<spatial name="t123" stiffness="3" damping="0.2"><site site="s1"/><site site="s2"/><site site="s3"/></spatial>'
  elif kind == "sphere":
    world = '<geom name="wrapg" type="sphere" size="0.12" pos="0.25 0.1 0.3" contype="0" conaffinity="0"/>'
    t = '<spatial name="tw"><site site="s1"/><geom geom="wrapg"/><site site="s3"/></spatial>'
  elif kind == "cylinder":
    world = '<geom name="wrapg" type="cylinder" size="0.1 0.4" pos="0.3 0.05 0.35" quat="0.8 0.36 -0.48 0" contype="0" conaffinity="0"/>'
    t = '<spatial name="tw"><site site="s1"/><geom geom="wrapg"/><site site="s3"/></spatial>'
  elif kind == "cylinder_side":
    world = (
      '<geom name="wrapg" type="cylinder" size="0.1 0.4" pos="0.3 0.05 0.35" quat="0.8 0.36 -0.48 0" contype="0" conaffinity="0"/>'
      '<site name="side" pos="0.3 0.3 0.5" size="0.01"/>'
    )
    t = '<spatial name="tw"><site site="s1"/><geom geom="wrapg" sidesite="side"/><site site="s3"/></spatial>'
  else:
    t = (
      '<spatial name="tp"><site site="s1"/><site site="s2"/><pulley divisor="2"/><site site="s2"/><site site="s3"/>'
      '<pulley divisor="3"/><site site="s1"/><site site="s3"/></spatial>'
    )
  return world, f"<tendon>{t}</tendon>"


def _option(idx):
  cone = ("pyramidal", "elliptic")[idx % 2]
  jac = ("dense", "sparse")[(idx // 2) % 2]
  integ = ("Euler", "implicitfast", "RK4", "implicit")[(idx // 4) % 4]
  return f'<option cone="{cone}" jacobian="{jac}" integrator="{integ}"><flag energy="enable"/></option>'


PLANE = '<geom name="floor" type="plane" size="3 3 0.1" pos="0 0 -0.05"/><body name="mc" mocap="true" pos="0.5 0.5 0.5"><geom size="0.02" contype="0" conaffinity="0"/></body>'


_CONDIM = (3, 1, 4, 6)


# rows of 8 links, 0.12 m apart, back and forth: the chain stays within ~1.3 m of its root, which (with the armature) keeps
# M well conditioned (a straight 60-link chain has cond(M) ~ 1e6: factorising the float32 M is then not float32-accurate)
_SERPENTINE = ("0.12 0 0",) * 7 + ("0 0.12 0",) + ("-0.12 0 0",) * 7 + ("0 0.12 0",)


def _hinge_chain(n, first, pos, prefix):
  """Serial chain of n hinge links (one tree, dense n x n inertia block) lying 5 mm deep in the floor (PLANE is at
  z = -0.05): every link's sphere touches it; every third joint sits outside its range (limit row), every fourth has
  friction loss."""
  s = ""
  for a in range(n):
    i = first + a
    axis = ("0 1 0", "0 0 1", "1 0 0")[a % 3]
    attrs = ""
    if a % 3 == 0:
      attrs += ' limited="true" range="0.1 0.5"'
    if a % 4 == 1:
      attrs += ' frictionloss="0.1"'
    s += (
      f'<body name="{prefix}{a}" pos="{pos if a == 0 else _SERPENTINE[(a - 1) % 16]}"><joint name="j{i}" type="hinge" axis="{axis}" damping="0.1" armature="0.05"{attrs}/>'
      f'<geom type="sphere" size="{0.05 + 0.001 * (a % 3):.3f}" condim="{_CONDIM[a % 4]}"/>'
    )
  return s + "</body>" * n


def size_xml(scn):
  """A model with exactly scn["nv"] dofs, contacts of every condim, limit / friction / equality rows.

  forest: nv // 6 free bodies (boxes and spheres, 6x6 inertia blocks) resting 5 mm deep on the floor + one arm of nv % 6
          hinges; chain: one serial tree of nv hinges (a single nv x nv inertia block)."""
  nv = scn["nv"]
  opt = f'<option cone="{scn["cone"]}" jacobian="{scn["jacobian"]}" solver="{scn["solver"]}"><flag energy="enable"/></option>'
  if scn["layout"] == "chain":
    world = _hinge_chain(nv, 0, "0 0 -0.005", "c")
    eq = '<joint joint1="j1" joint2="j2" polycoef="0.1 0.7 0 0 0"/>' if nv >= 3 else ""
    act = '<motor joint="j0" gear="1.5"/>'
  else:
    k, r = divmod(nv, 6)
    world = ""
    for b in range(k):
      x, y = 0.4 * (b % 4), 0.4 * (b // 4)
      geom = f'type="box" size="0.06 0.05 0.05" pos="0.01 0 0"' if b % 2 == 0 else 'type="sphere" size="0.05"'
      world += f'<body name="f{b}" pos="{x:.2f} {y:.2f} -0.005"><joint name="j{b}" type="free"/><geom {geom} condim="{_CONDIM[b % 4]}"/></body>'
    world += _hinge_chain(r, k, "-0.5 -0.5 -0.005", "a")
    eq = '<connect body1="f0" body2="f1" anchor="0.2 0 0.01"/>' if k >= 2 else '<connect body1="f0" anchor="0.02 0 0.01"/>'
    act = '<motor joint="j0" gear="0 0 1 0 0 0"/>'
  return f"<mujoco>{opt}<worldbody>{PLANE}{world}</worldbody><equality>{eq}</equality><actuator>{act}</actuator></mujoco>"


def build(scn):
  """(xml, joints or None)."""
  fam = scn["fam"]
  if fam == "size":
    return size_xml(scn), None
  if fam == "tree":
    acts = "".join(
      f'<motor joint="j{i}" gear="1.5"/>' if k in ("hinge", "slide", "hingeslide") else (f'<motor joint="j{i}" gear="0 0 1 0 0 0"/>' if k in ("ball", "free") else "")
      for i, k in enumerate(scn["joints"], 1)
    )
    lim = lambda i, k: 'limited="true" range="-0.2 0.2" frictionloss="0.1" damping="0.2" stiffness="1"' if k in ("hinge", "slide", "hingeslide") else ""
    return (
      space.tree_xml(
        scn["parents"], scn["joints"], variant=scn["variant"], collide=True, world_extra=PLANE, option=_option(scn["idx"]), joint_attrs=lim, sections=f"<actuator>{acts}</actuator>" if acts else ""
      ),
      scn["joints"],
    )
  if fam == "tendon":
    world, sec = _tendon_sections(scn["tendon"], scn["joints"])
    return space.tree_xml(scn["parents"], scn["joints"], variant=scn["variant"], world_extra=world + PLANE, sections=sec, option=_option(scn["idx"]), collide=True), scn["joints"]
  if fam == "c28":
    from mc.props import c28

    return c28.build(scn["c28"])[0], None
  if fam == "sink":
    from mc.refs import sink

    return sink.xml(scn["scene"]), None
  if fam == "flex":
    from mc.props import c40

    return c40.build_xml(scn["c40"]), None
  if scn.get("poke"):
    pre, world, post = "", "", POKES[scn["feature"]][0]
  else:
    pre, world, post = UNSUPPORTED[scn["feature"]]
  return (
    f'<mujoco>{pre}<worldbody>{world}<body name="b"><joint name="j"/><geom size="0.1"/><site name="s"/></body></worldbody>{post}</mujoco>',
    None,
  )


# ------------------------------------------------------------------------------------------------ model check


def check_model(c, mjm, m):
  import warp as wp
  from mujoco_warp._src import types

  n = 0
  for ow, om, cls, pre in ((m, mjm, types.Model, ""), (m.opt, mjm.opt, types.Option, "opt."), (m.stat, mjm.stat, types.Statistic, "stat.")):
    for f in dataclasses.fields(cls):
      if not hasattr(om, f.name) or f.name in ("opt", "stat"):
        continue
      name = pre + f.name
      mv, wv = getattr(om, f.name), getattr(ow, f.name)
      if isinstance(wv, wp.array):
        wv = wv.numpy()
        sh = getattr(f.type, "shape", ())
        if sh and sh[0] == "*":
          if wv.shape[0] != 1:
            c.fail(f"model_field:{name}", f"{name}: default batch dimension {wv.shape[0]} != 1")
            continue
          wv = wv[0]
      if name == "opt.tolerance":
        mv = max(float(mv), 1e-6)  # documented float32 adjustment in put_model
      wv = np.asarray(wv)
      mv = np.asarray(mv)
      n += 1
      if mv.size != wv.size:
        c.fail(f"model_field:{name}", f"{name}: size {wv.shape} vs MjModel {mv.shape}")
        continue
      try:
        mm = mv.reshape(wv.shape).astype(wv.dtype)
      except (TypeError, ValueError):
        c.fail(f"model_field:{name}", f"{name}: cannot convert MjModel value of type {mv.dtype} to {wv.dtype}")
        continue
      if mm.tobytes() != wv.tobytes():
        idx = np.nonzero(np.ravel(mm != wv))[0][:4]
        c.fail(f"model_field:{name}", f"{name}: Model {np.ravel(wv)[idx]} vs MjModel {np.ravel(mm)[idx]} at flat index {idx}")
  c.nchecked += n
  return n


# ------------------------------------------------------------------------------------------------ data check

_ASSIGNED = None


def assigned_fields():
  """Names assigned on `result` by io.get_data_into, from its source: plain fields and contact.<f>."""
  global _ASSIGNED
  if _ASSIGNED is None:
    from mujoco_warp._src import io

    src = inspect.getsource(io.get_data_into)
    names = re.findall(r"\bresult\.((?:contact\.)?[A-Za-z_][A-Za-z_0-9]*)\s*(?:\[[^\]=]*\])?\s*=[^=]", src)
    _ASSIGNED = sorted(set(names))
  return _ASSIGNED


def _dense_J(mjm, mjd):
  return util.mj_efc_dense(mjm, mjd)[1]["J"]


NEFC_SIZED = {"efc_type", "efc_id", "efc_pos", "efc_margin", "efc_D", "efc_vel", "efc_aref", "efc_frictionloss", "efc_state", "efc_force", "efc_island", "map_efc2iefc", "map_iefc2efc"}
NISLAND_SIZED = {"island_idofadr", "island_dofadr", "island_nv", "island_nefc", "island_ne", "island_nf", "island_iefcadr"}


def check_data(c, mjm, mjd, res, w, zero_fields):
  import mujoco

  pre = f"world {w}: "
  ncon, nefc, nisl = mjd.ncon, mjd.nefc, mjd.nisland
  for k in ("ncon", "nefc", "ne", "nf", "nl", "nisland", "nidof"):
    c.equal(pre + k, int(getattr(res, k)), int(getattr(mjd, k)), vkey=f"data_field:{k}")
  if res.ncon != ncon or res.nefc != nefc:
    return
  for name in assigned_fields():
    if name in ("ncon", "nefc", "ne", "nf", "nl", "nisland", "nidof"):
      continue
    if name.startswith("contact."):
      f = name.split(".")[1]
      want = np.array([getattr(mjd.contact[i], f) for i in range(ncon)])
      got = np.array([getattr(res.contact[i], f) for i in range(ncon)])
    elif name == "efc_J":
      want, got = _dense_J(mjm, mjd), _dense_J(mjm, res)
    elif name in ("efc_J_rownnz", "efc_J_rowadr", "efc_J_colind"):
      continue  # covered by the dense comparison of efc_J
    else:
      want, got = np.array(getattr(mjd, name)), np.array(getattr(res, name))
      if name in NEFC_SIZED:
        want, got = want[:nefc], got[:nefc]
      elif name in NISLAND_SIZED:
        want, got = want[:nisl], got[:nisl]
      elif name in ("tree_island", "dof_island", "map_dof2idof", "map_idof2dof") and nisl == 0:
        continue  # MuJoCo leaves them unwritten without islands
      elif name == "solver_niter":
        want, got = want[:1], got[:1]
    c.nchecked += 1
    if want.shape != got.shape:
      c.fail(f"data_field:{name}", f"{pre}{name}: shape {got.shape} vs original {want.shape}")
      continue
    if want.size == 0:
      continue
    if np.any(want != 0):
      zero_fields.discard(name)
    if name in ("qLD", "qLDiagInv"):
      # get_data_into re-factorises the float32 M with mj_factorM for block layouts: not a plain copy
      c.close(pre + name, got, want, "f32", vkey=f"data_field:{name}")
      continue
    if want.dtype.kind == "f":
      a, b = got.astype(np.float32), want.astype(np.float32)
      bad = ~((a == b) | (np.isnan(a) & np.isnan(b)))
    else:
      bad = got != want
    if np.any(bad):
      idx = np.argwhere(bad)[0]
      g = got[tuple(idx)]
      # never-written memory (poisoned device buffer or stale MjData arena) must not make the report run-dependent
      gs = "<uninitialised>" if (abs(float(g)) > 1 << 24 or float(g) != float(g)) else str(g)
      nbad = "all" if bad.all() else "some"
      c.fail(f"data_field:{name}", f"{pre}{name}: after put_data/get_data_into {gs} vs original {want[tuple(idx)]} at {tuple(int(i) for i in idx)} ({nbad} of {bad.size} entries differ)")


def _presize(mjm, res, mjd):
  """Give the receiving MjData its final contact/efc sizes and fill those arrays with sentinels, so that a field
  get_data_into forgets to write shows up as the sentinel instead of run-dependent arena garbage."""
  import mujoco

  if mjd.ncon == 0 and mjd.nefc == 0:
    return
  mujoco._functions._realloc_con_efc(res, ncon=mjd.ncon, nefc=mjd.nefc, nJ=mjd.nefc * mjm.nv)
  for f in ("dist", "pos", "frame", "includemargin", "friction", "solref", "solreffriction", "solimp", "dim", "geom", "flex", "elem", "vert", "efc_address"):
    a = getattr(res.contact, f, None)
    if a is not None and a.size:
      a[...] = 77
  for f in NEFC_SIZED - {"efc_island", "map_efc2iefc", "map_iefc2efc"}:
    a = getattr(res, f)
    if a.size:
      a[...] = 77


def reference_data(mjm, joints, variant, which):
  import mujoco

  if joints is not None:
    qpos, qvel = space.state_grid(joints, variant, which)
    # mocap bodies do not appear in qpos
    mjd = util.mj_data(mjm, qpos=qpos if len(qpos) == mjm.nq else None, qvel=qvel if len(qvel) == mjm.nv else None)
  else:
    mjd = mujoco.MjData(mjm)
    if mjm.nkey == 0 and mjm.nu == 8:
      from mc.refs import sink

      q, v, ctrl, act, mocap = sink.initial_state(mjm, variant)
      mjd.qpos[:], mjd.qvel[:] = q, v
    else:
      mjd.qvel[:] = 0.3 * np.cos(np.arange(mjm.nv) + which)
      if mjm.nflex:
        mjd.qpos[:] = mjm.qpos0 + 0.02 * np.sin(1.7 * np.arange(mjm.nq) + which)
  k = np.arange(1, 2000, dtype=np.float64)
  mjd.ctrl[:] = 0.3 * np.sin(k[: mjm.nu] + which)
  mjd.act[:] = 0.1 * np.cos(k[: mjm.na])
  mjd.qfrc_applied[:] = 0.2 * np.sin(2 * k[: mjm.nv])
  mjd.xfrc_applied[:] = 0.1 * np.cos(k[: 6 * mjm.nbody]).reshape(mjm.nbody, 6)
  mjd.qacc_warmstart[:] = 0.5 * np.sin(3 * k[: mjm.nv])
  if mjm.nmocap:
    mjd.mocap_pos[:] = mjd.mocap_pos + (0.1, -0.05, 0.02)
    mjd.mocap_quat[:] = (0.8, 0.36, -0.48, 0.0)
  if mjm.nuserdata:
    mjd.userdata[:] = k[: mjm.nuserdata]
  mjd.time = 0.125 * (which + 1)
  try:
    mujoco.mj_forward(mjm, mjd)
  except mujoco.FatalError:
    return None  # MuJoCo itself refuses (e.g. sleep + tendon equality)
  return mjd


class _Cmp(util.Cmp):
  """One report per violation class and scenario (the same field fails for every world and state), cap 60."""

  def fail(self, vkey, what, **extra):
    if len(self.violations) < 60 and all(v["vkey"] != vkey for v in self.violations):
      self.violations.append(dict(vkey=vkey, what=what, **extra))


def execute(scn):
  import mujoco
  import mujoco_warp as mjw

  xml, joints = build(scn)
  mjm, err = util.try_load(xml)
  if scn["fam"] == "unsupported":
    if mjm is None:
      return dict(ok=True, nontrivial=False, outcome="rejected_by_compiler", info=err, key=util.sha(scn))
    c = util.Cmp()
    if scn.get("poke"):
      _, field, index, val = POKES[scn["feature"]]
      enum, member = val.split(".")
      val = int(getattr(getattr(mujoco, enum), member))
      obj, name = (mjm.opt, field[4:]) if field.startswith("opt.") else (mjm, field)
      if index is None:
        setattr(obj, name, (int(getattr(obj, name)) | val) if name.endswith("flags") else val)
      else:
        getattr(obj, name)[index] = val
    try:
      mjw.put_model(mjm)
      c.fail(f"unsupported_feature_accepted:{scn['feature']}", f"put_model accepted a model using {scn['feature']}")
    except (NotImplementedError, ValueError):
      pass
    c.nchecked += 1
    return c.result(nontrivial=True, key=util.sha(scn), outcome="rejected_by_put_model" if not c.violations else "violation")
  if mjm is None:
    return dict(ok=True, nontrivial=False, outcome="rejected_by_compiler", info=err, key=util.sha(scn))
  c = _Cmp()
  if scn["fam"] == "size" and scn["jacobian"] == "dense" and mjm.nv > DENSE_NV_MAX:
    # the documented refusal (same oracle and class as UNSUPPORTED["dense_nv_gt_60"]), at the first sizes beyond the limit
    try:
      mjw.put_model(mjm)
      c.fail("unsupported_feature_accepted:dense_nv_gt_60", f"put_model accepted jacobian=dense with nv={mjm.nv}")
    except (NotImplementedError, ValueError):
      pass
    c.nchecked += 1
    return c.result(nontrivial=True, key=util.sha(scn), outcome="rejected_by_put_model" if not c.violations else "violation")
  try:
    m = mjw.put_model(mjm)
  except NotImplementedError as e:
    return dict(ok=True, nontrivial=False, outcome="unsupported", info=str(e)[:200], key=util.sha(scn))
  nfields = check_model(c, mjm, m)
  nworld = scn["nworld"]
  zero_fields = set(assigned_fields())
  rows = 0
  degenerate = 0
  for which in (1, 2):
    mjd = reference_data(mjm, joints, scn["variant"], which)
    if mjd is None or util.mj_warnings(mjd) or not np.all(np.isfinite(mjd.qacc)):
      degenerate += 1
      continue
    rows += mjd.nefc + mjd.ncon
    d = mjw.put_data(mjm, mjd, nworld=nworld)
    for w in range(nworld):
      res = mujoco.MjData(mjm)
      _presize(mjm, res, mjd)
      mjw.get_data_into(res, mjm, d, world_id=w)
      check_data(c, mjm, mjd, res, w, zero_fields)
  return c.result(
    nontrivial=mjm.nv > 0 and rows > 0,
    key=util.sha(scn),
    outcome="degenerate" if degenerate == 2 else ("ok" if not c.violations else "violation"),
    info=dict(model_fields=nfields, data_fields=len(assigned_fields()), rows=int(rows), all_zero_fields=sorted(zero_fields)),
  )


def coverage_extra(executed, tier):
  always_zero = None
  for s, r in executed:
    z = (r.get("info") or {}).get("all_zero_fields") if isinstance(r.get("info"), dict) else None
    if z is None or r.get("outcome") not in ("ok", "violation"):
      continue
    always_zero = set(z) if always_zero is None else (always_zero & set(z))
  return {"data_fields_zero_in_every_scenario": sorted(always_zero or [])}
