"""C11 Results are independent of parallel thread order (task-atomic serial schedules).

Stateless schedule enumeration on the real kernels: the Warp CPU entry point is replaced by one that reads the
task order from a control page (mc/world.py), so every launch of the step pipeline can be run under any serial
order of its tasks.  Deviation-bounded and iterated:
  bound 0: all launches ascending (baseline, run twice), all descending, all rotated by n//3
  bound 1: exactly one launch deviates and takes every member of its schedule family
  bound 2 (thorough): every pair of launches that write a common array deviates jointly (descending x descending)
Oracle: vs the ascending run after 2 steps (step 2 consumes whatever order step 1 left behind): integration state and
outputs under `reorder` (2e-3 relative), contacts / rows as multisets, counts and overflow bits equal.
"""

import itertools
import math

import numpy as np

from mc import scenes, snap, util

ID = "C11"
LEVEL = "exploration"
WORLD = {"sched": True}
RULE = (
  "for each scene, every launch index of a 2-step run x every schedule of that launch's family (quick: descending, rotate n/3, "
  "hoist last->first, hoist first->last; thorough: all n! for n<=5, else descending + rotations + all single hoists (n<=24) or "
  "<=48 strided rotations + <=256 strided adjacent swaps + <=128 strided hoists-to-front + <=48 strided hoists-from-front); a scenario is a chunk of launch "
  "indices; non-trivial = the chunk contains a launch with >=2 tasks; distinct = (scene, chunk)"
)
BOUNDS = {
  "quick": "4 scenes (rich: dense Newton, sparse Newton, elliptic Newton; small: CG), nworld=2, 2 steps, bound 0 + bound 1 with 4 schedules per launch",
  "thorough": "same scenes, bound 1 with the full family per launch, bound 2 = all pairs of launches sharing an output array (desc x desc)",
}
ASSUMPTIONS = [
  "a schedule is a serial order of whole tasks of one launch; sub-task interleavings (non-atomic RMW races, split atomics) cannot be executed on the CPU backend and are not claimed",
  "tile kernels run with block_dim=1 on CPU",
  "reorder tolerance 2e-3*(1+max|ref|) (class solver: after 2 steps every float is downstream of the iterative solver, whose float32 stopping point moves with summation order; measured max 3e-4 on the unchanged tree); integer outputs exact; contacts/rows compared as multisets",
  "each worker proves with a canary kernel that the installed permutation is the one executed",
]
BUDGET = {"quick": 500, "thorough": 7200}
SCENARIO_TIMEOUT = 3000
CHUNK = 8
MAXLAUNCH = {"dense": 400, "sparse": 400, "ell": 400, "cg": 720}
# CG is only run on the small well-conditioned scene: on the rich scene float32 CG stops 0.2-1% away from the optimum
# and which point it stops at depends on summation order (measured: all-descending vs ascending differ by up to 1e-2
# relative even with iterations=100, tolerance=1e-10), so no tolerance that would still catch index bugs exists there.
SCENES = {
  "dense": dict(builder="rich", opt='jacobian="dense"'),
  "sparse": dict(builder="rich", opt='jacobian="sparse"'),
  "ell": dict(builder="rich", opt='cone="elliptic" jacobian="dense"'),
  "cg": dict(builder="small", opt='solver="CG" iterations="30" tolerance="1e-9"'),
}
NSTEP = 2


def scenarios(tier, seed):
  out = []
  for sc in SCENES:
    out.append(dict(scene=sc, kind="global", tier=tier, variant=seed % 4))
  for sc in SCENES:
    ch = CHUNK if tier == "quick" else 2
    for lo in range(0, MAXLAUNCH[sc], ch):
      out.append(dict(scene=sc, kind="single", lo=lo, hi=lo + ch, tier=tier, variant=seed % 4))
  if tier == "thorough":
    for sc in SCENES:
      for lo in range(0, MAXLAUNCH[sc], CHUNK):
        out.append(dict(scene=sc, kind="pairs", lo=lo, hi=lo + CHUNK, tier=tier, variant=seed % 4))
  return out


# ----------------------------------------------------------------------------- schedule families


def hoist(n, j, i):
  """Order in which task j is moved to position i (everything else keeps its relative order)."""
  p = [t for t in range(n) if t != j]
  p.insert(i, j)
  return p


def family(n, tier):
  if n <= 1:
    return []
  fam = {}

  def add(name, p):
    p = tuple(p)
    if p != tuple(range(n)) and p not in fam.values():
      fam[name] = p

  add("desc", range(n - 1, -1, -1))
  if tier == "quick":
    add("rot", [(t + max(1, n // 3)) % n for t in range(n)])
    add("hoist_last_first", hoist(n, n - 1, 0))
    add("hoist_first_last", hoist(n, 0, n - 1))
    return list(fam.items())
  if n <= 5:
    for k, p in enumerate(itertools.permutations(range(n))):
      add(f"perm{k}", p)
    return list(fam.items())
  if n <= 24:
    for r in range(1, n):
      add(f"rot{r}", [(t + r) % n for t in range(n)])
    for i in range(n):
      for j in range(i + 1, n):
        add(f"hoist{j}>{i}", hoist(n, j, i))
    return list(fam.items())
  # n > 24: strided members so that a launch costs at most ~480 runs (each run = fresh Data + 2 steps)
  s = math.ceil(n / 48)
  for r in range(1, n, s):
    add(f"rot{r}", [(t + r) % n for t in range(n)])
  s2 = math.ceil((n - 1) / 256)
  for i in range(0, n - 1, s2):
    p = list(range(n))
    p[i], p[i + 1] = p[i + 1], p[i]
    add(f"swap{i}", p)
  s3 = math.ceil(n / 128)
  for j in range(1, n, s3):
    add(f"hoist{j}>0", hoist(n, j, 0))
  for j in range(1, n, s):
    add(f"hoist0>{j}", hoist(n, 0, j))
  return list(fam.items())


# ----------------------------------------------------------------------------- execution

_CACHE = {}


def _setup(sc, variant):
  import mujoco_warp as mjw

  key = (sc, variant)
  if key in _CACHE:
    return _CACHE[key]
  cfg = SCENES[sc]
  mjm = util.load(getattr(scenes, cfg["builder"])(opt=cfg["opt"]))
  m = mjw.put_model(mjm)
  states = getattr(scenes, cfg["builder"] + "_states")(mjm, 2, variant)
  ent = dict(mjm=mjm, m=m, states=states)
  base, trace = _run(ent, {}, record=True)
  base2, _ = _run(ent, {})
  c = util.Cmp()
  snap.compare_exact(c, base, base2)
  if c.violations:
    raise RuntimeError(f"baseline not reproducible: {c.violations[:2]}")
  ent.update(base=base, trace=trace)
  _CACHE[key] = ent
  return ent


SHIFTED = [0]


def _run(ent, plan, record=False, global_mode=None):
  """2 steps on a fresh Data; plan: {launch index: 'desc' | permutation}."""
  import mujoco_warp as mjw
  from mc import world

  mjm, m = ent["mjm"], ent["m"]
  d = mjw.make_data(mjm, nworld=2)
  for w, s in enumerate(ent["states"]):
    util.copy_state(s, d, world=w)
  trace = []

  class H(world.LaunchHook):
    def before(self, idx, key, n, outs):
      if record:
        ptrs = []
        for o in outs or ():
          p = getattr(o, "ptr", None)
          if p:
            ptrs.append(int(p))
        trace.append((key, n, tuple(ptrs)))
      if global_mode == "desc":
        return "desc" if n > 1 else None
      if global_mode == "rot":
        return [(t + max(1, n // 3)) % n for t in range(n)] if n > 1 else None
      ch = plan.get(idx)
      if ch is None:
        return None
      if "trace" in ent:
        k0, n0, _ = ent["trace"][idx]
        if (k0, n0) != (key, n):
          # an earlier reordered launch changed the control flow (e.g. the solver needed one iteration more or less), so launch
          # numbers after it no longer name the same kernel: this choice is left at the default order and counted; the run is
          # still a legal schedule and is compared like any other
          SHIFTED[0] += 1
          return None
      return "desc" if ch == "desc" else list(ch)

  before = world.counters()
  world.set_hook(H())
  try:
    for _ in range(NSTEP):
      mjw.step(m, d)
  finally:
    world.set_hook(None)
  after = world.counters()
  if after[1] != before[1]:
    raise RuntimeError("permutation size mismatch reported by the entry point")
  return snap.take(m, d), trace


def _outcome_class(s):
  return util.np_digest(s["state"]["qpos"], s["state"]["qvel"], s["state"]["act"], s["out"]["qacc"])


def execute(scn):
  ent = _setup(scn["scene"], scn["variant"])
  base, trace = ent["base"], ent["trace"]
  c = util.Cmp()
  tier = scn["tier"]
  nl = len(trace)
  if nl > MAXLAUNCH[scn["scene"]]:
    raise RuntimeError(f"{nl} launches exceed MAXLAUNCH; enlarge it")
  counts = dict(schedules=0, launches=0, order_sensitive_launches=0, extra_evaluations=0, choices_after_shifted_launch_sequence=0)
  SHIFTED[0] = 0
  if np.any(base["count"]["overflow"] & 0xFF):
    raise RuntimeError("baseline reports a capacity overflow; scene must not overflow")
  if scn["kind"] == "global":
    for gm in ("desc", "rot"):
      s, _ = _run(ent, {}, global_mode=gm)
      snap.compare_reorder(c, base, s, pre=f"all-{gm}:")
      counts["schedules"] += 1
    counts["launches"] = nl
    info = dict(launches=nl, multi_task=sum(1 for t in trace if t[1] > 1), nefc=base["count"]["nefc"].tolist(), nacon=base["nacon"])
    return c.result(nontrivial=True, key=util.sha(scn), counts=counts, info=info)

  if scn["kind"] == "single":
    nontrivial = False
    for L in range(scn["lo"], min(scn["hi"], nl)):
      key, n, _ = trace[L]
      fam = family(n, tier)
      if not fam:
        continue
      nontrivial = True
      counts["launches"] += 1
      classes = set()
      for name, perm in fam:
        s, _ = _run(ent, {L: perm})
        counts["schedules"] += 1
        classes.add(_outcome_class(s))
        before = len(c.violations)
        snap.compare_reorder(c, base, s, pre=f"launch {L} {key} n={n} sched={name}:")
        if len(c.violations) > before:
          for v in c.violations[before:]:
            v["vkey"] = f"{key}:{v['vkey']}"
            v["schedule"] = dict(launch=L, kernel=key, n=n, name=name, perm=list(perm) if n <= 64 else "see name")
          break  # first (simplest) failing schedule of this launch is enough
      if len(classes | {_outcome_class(base)}) > 1:
        counts["order_sensitive_launches"] += 1
    counts["extra_evaluations"] = max(0, counts["schedules"] - 1)
    counts["choices_after_shifted_launch_sequence"] = SHIFTED[0]
    return c.result(nontrivial=nontrivial, key=util.sha(scn), counts=counts, info=dict(chunk=[scn["lo"], scn["hi"]]))

  # pairs: launches L1 in chunk, L2 > L1 sharing a written array, both descending
  nontrivial = False
  for L1 in range(scn["lo"], min(scn["hi"], nl)):
    k1, n1, o1 = trace[L1]
    if n1 <= 1:
      continue
    for L2 in range(L1 + 1, nl):
      k2, n2, o2 = trace[L2]
      if n2 <= 1 or not (set(o1) & set(o2)):
        continue
      nontrivial = True
      s, _ = _run(ent, {L1: "desc", L2: "desc"})
      counts["schedules"] += 1
      before = len(c.violations)
      snap.compare_reorder(c, base, s, pre=f"launches {L1}:{k1} & {L2}:{k2} desc:")
      for v in c.violations[before:]:
        v["vkey"] = f"{k1}+{k2}:{v['vkey']}"
  counts["extra_evaluations"] = max(0, counts["schedules"] - 1)
  counts["choices_after_shifted_launch_sequence"] = SHIFTED[0]
  return c.result(nontrivial=nontrivial, key=util.sha(scn), counts=counts, info=dict(chunk=[scn["lo"], scn["hi"]]))
