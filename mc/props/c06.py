"""C06 Constrained acceleration is the convex-cost optimum; reported forces are the forces implied by qacc.

Space: constraint-bearing scenes of C05 (every 3-body tree, joint pattern, feature sets of <=k constraint features) and
dedicated contact scenes (sphere sliding / resting on a tilted plane, capsule with condim 6, stacks of 2 and 3 boxes,
limited chain with friction loss and tendon limits, mixed pile with a connect) and model-SIZE scenes (mc/refs/sizescenes.py:
a model of exactly nv dofs on each side of every nv-dependent kernel dispatch of the solver -- 32|33 one-tile vs blocked
Cholesky, 50|51 fused vs separately accumulated/reused jv and Jaref, 60|61 largest dense vs sparse-only, and the nv_pad steps
47|48|49, 65 -- as a row of k free boxes / spheres (every third triple with stiff contacts; one moving and three pressed
states, i.e. 4 worlds) and as
serial hinge arms with limits, friction loss, joint equalities and a tendon limit)
x solver {Newton, CG} x cone {pyramidal, elliptic} x jacobian {dense, sparse} x warmstart {disabled, zero, deliberately bad}
x a batch of 3 worlds holding different states (design state, second state, design state with 1% velocities).
Oracles: O1 float64 optimality certificate of MJWarp's own problem (mc/refs/cost.py), independent of any iterate;
O2 qacc vs mj_forward where both engines assembled the same rows; O3 efc.force / efc.state / qfrc_constraint equal the
float64 row law evaluated at the reported qacc.
"""

import numpy as np

from mc import space, util
from mc.refs import conscenes as cs
from mc.refs import cost
from mc.refs import sizescenes as ss

ID = "C06"
LEVEL = "exploration"
RULE = (
  "enumerate scenes (trees x joint pattern x feature sets, dedicated contact scenes, size scenes {row of boxes, hinge arms} x nv); "
  "each scenario runs 2 solvers x 2 cones x 2 jacobians (dense only where put_model accepts it, nv <= 60) x 3 warmstart modes on a "
  "3-world batch (a size scene is split into one scenario per solver x cone; its row kind holds 4 worlds); non-trivial = >=1 world has a constraint row carrying non-zero force "
  "and qacc != qacc_smooth; distinct = canonical hash of the spec"
)
BOUNDS = {
  "quick": "feature sets k<=1 (all options) on all 5 trees, k=2 (core options) on one tree each (cycling), joint pattern alternating; 7 dedicated scenes x 2 variants; size scenes: {row, arms} x nv in {50,51,60,61} and arms x nv in {32,33}, the seed's variant, warmstart modes {disabled, bad}",
  "thorough": "k<=1 on all trees x both patterns, k=2 (all options) on all trees (pattern alternating), k=3 (core) cycling trees; 7 dedicated scenes x 4 variants; size scenes: 2 kinds x nv in {32,33,47,48,49,50,51,60,61,65} x 2 variants",
}
ASSUMPTIONS = [
  "certificate O1, stage 1: r_i = max(|g_i| - 32*eps32*(sum of magnitudes of the terms added into g_i), 0) is the part of the float64 gradient that float32 rounding cannot explain; pass if ||r||/(meaninertia*nv) <= K*tol or r'M^-1 r/2/(meaninertia*nv) <= K*tol (the solver's own two stopping quantities), K=20, tol = the tolerance MJWarp uses (max(opt.tolerance,1e-6))",
  "certificate O1, stage 2 (only if stage 1 does not pass): an independent float64 damped-Newton minimisation of the same cost (mc/refs/cost.py:refine) gives q*; required cost(qacc)-cost(q*) <= K*tol/scale + max(16, 2(nv+nefc))*eps32*(sum of |cost terms|): the solver measures improvement as a difference of two float32 costs, each a sum of nv+nefc rounded terms, and cannot resolve less than the worst-case summation error 2(n-1) eps32 (measured on the unchanged tree: 8.1 eps32 in the quick tier, 18.8 eps32 for Newton at cost 3.7e6 with n=17 in the thorough tier); where this certificate fails, O2 is judged with the measured gap instead of the allowance (the suboptimality is reported once)",
  "CG only: if stage 2 fails but MuJoCo's own CG (float64, tolerance 1e-8) is at least as far from the optimum of its own problem, the world passes (CG stops on per-iteration improvement, which does not bound the remaining gap on ill-conditioned cones); counted in certificate_cg_as_converged_as_mujoco",
  "if the ITERATIONS overflow bit is set the certificate is replaced by cost(qacc) <= cost(MuJoCo's qacc, same solver and iteration limit) + the same allowance (skipped if MuJoCo assembled a different number of rows)",
  "O2 allows 2e-3*(1+max|qacc_ref|) + sqrt(2*allowance*(M^-1)_ii) per dof (what a point within the allowed suboptimality may deviate by strong convexity) and is applied only where MuJoCo's rows have the same count as MJWarp's, MuJoCo raised no warning and MuJoCo's own qacc passes the certificate on MuJoCo's own problem",
  "O3: force within 2e-4*(1+max|force|) + max(64, 2*niter)*eps32*D*(|J||qacc|+|aref|) per row (MJWarp carries J*qacc-aref in float32 through the iterations, one incremental update per iteration); states compared only for rows farther than that from a zone boundary (for an elliptic contact: farther than the coarsest of its rows allows, mixed by 1+1/mu as for its forces, because the zone is decided by all rows of the contact together)",
  "O3 qfrc_constraint = J'efc.force within 2e-4*(1+magnitudes) + 32*eps32*|J|'(D*(|J||qacc|+|aref|)): the Newton/pyramidal path recovers qfrc_constraint from the gradient (M*qacc - qfrc_smooth - grad), so it differs from J'force by |J|' times the float32 uncertainty of the forces themselves (half of what O3 grants per row); measured on the unchanged tree over the size scenes, seeds 0-3: at most 9.1*eps32 of that quantity (stiff contacts, D up to 1.6e4, where rounding qacc to float32 alone moves the true gradient by more than the observed difference); negligible next to the first term on the soft scenes",
  "opt.iterations=100 (MuJoCo default), opt.tolerance default 1e-8 (clamped to 1e-6 by put_model); CPU backend",
]
BUDGET = {"quick": 900, "thorough": 4000}

K = 20.0
QFLOOR = 32.0
EPS32 = 1.1920929e-07
DISABLE_WARMSTART = 1 << 8  # mjDSBL_WARMSTART (checked in worker_init)
OVERFLOW_ITER = None


def worker_init():
  import mujoco

  import mujoco_warp as mjw

  global DISABLE_WARMSTART, OVERFLOW_ITER
  DISABLE_WARMSTART = int(mujoco.mjtDisableBit.mjDSBL_WARMSTART)
  from mujoco_warp._src.types import OverflowType

  OVERFLOW_ITER = int(OverflowType.ITERATIONS)


def scenarios(tier, seed):
  variant = seed % 4
  trees = space.trees(3)
  out, seen = [], set()

  def add(scn):
    k = util.sha(scn)
    if k not in seen and (scn["fam"] != "tree" or cs.applicable(scn)):
      seen.add(k)
      out.append(scn)

  def tree_scn(fs, ti, pat):
    return dict(fam="tree", parents=list(trees[ti % 5]), pattern=pat, feats=fs, state=1, variant=variant)

  nvar = 2 if tier == "quick" else 4
  for name in cs.DEDICATED:
    for dv in range(nvar):
      add(dict(fam="dedicated", name=name, variant=(variant + dv) % 4))
  if tier == "quick":
    for fi, fs in enumerate(cs.feature_sets(1)):
      for ti in range(5):
        add(tree_scn(fs, ti, (ti + fi) % 2))
    for fi, fs in enumerate(cs.feature_sets(2, options=_core())):
      add(tree_scn(fs, fi, fi % 2))
  else:
    for fi, fs in enumerate(cs.feature_sets(1)):
      for ti in range(5):
        for pat in (0, 1):
          add(tree_scn(fs, ti, pat))
    for fi, fs in enumerate(cs.feature_sets(2)):
      for ti in range(5):
        add(tree_scn(fs, ti, (ti + fi) % 2))
    for fi, fs in enumerate(cs.feature_sets(3, options=_core())):
      add(tree_scn(fs, fi, fi % 2))
  out = [s for s in out if s["fam"] == "dedicated" or s["feats"]]
  out.sort(key=lambda s: (0 if s["fam"] == "tree" else 1, len(s.get("feats", []))))
  # model SIZE: one model of an exact nv on each side of every nv-dependent dispatch of the solver (mc/refs/sizescenes.py),
  # in both structural kinds; one scenario per (solver, cone) so that no single scenario dominates the wall time.
  # quick: the sizes around the kernel-dispatch thresholds (around 32|33 only the arms kind), variant of the seed, warmstart
  # {disabled, bad} (the zero warmstart starts next to the disabled one); thorough: all sizes, two variants, all three modes
  ws = ["off", "bad"] if tier == "quick" else ["off", "zero", "bad"]
  for nv, _why, quick_kinds in ss.SIZES:
    for kind in ss.KINDS if tier != "quick" else quick_kinds:
      for dv in range(1 if tier == "quick" else 2):
        for solver in (2, 1):
          for cone in (0, 1):
            add(dict(fam="size", kind=kind, nv=nv, variant=(variant + dv) % 4, solver=solver, cone=cone, ws=ws))
  # per-world force-law parameters (mc/refs/c24scenes.py): the optimum of world w must be the optimum of ITS cone/impedance
  from mc.refs import c24scenes as bs

  for s in bs.scenarios(tier, seed):
    if s["field"] in BATCHED_FIELDS:
      add(dict(s, fam="batched"))
  return out


BATCHED_FIELDS = ("opt.impratio_invsqrt", "geom_friction", "geom_solref", "geom_solimp")


def _core():
  from mc.props import c05

  return c05.CORE


# ------------------------------------------------------------------------------------------- scene -> model + states


def build(scn):
  import mujoco

  if scn["fam"] == "dedicated":
    xml, qpos, qvel, kw = cs.dedicated(scn["name"], scn["variant"])
    mjm, err = util.try_load(xml)
    if mjm is None:
      return None, err
    q2 = list(qpos)
    v2 = [-0.5 * x + 0.1 for x in qvel]
    states = [(qpos, qvel), (q2, v2), (qpos, [0.01 * x for x in qvel])]
    return mjm, dict(states=states, eq_off=[], kw=kw)
  if scn["fam"] == "size":
    xml, states, kw = ss.build(scn["kind"], scn["nv"], scn["variant"])
    mjm, err = util.try_load(xml)
    if mjm is None:
      return None, err
    assert mjm.nv == scn["nv"], (mjm.nv, scn["nv"])
    return mjm, dict(states=states, eq_off=[], kw=kw)
  mjm, info = cs.build(scn)
  if mjm is None:
    return None, info
  s2 = cs.state_of(scn["pattern"], scn.get("variant", 0), 3 - scn.get("state", 1))
  states = [(info["qpos"], info["qvel"]), s2, (info["qpos"], [0.01 * x for x in info["qvel"]])]
  return mjm, dict(states=states, eq_off=info["eq_off"], kw={})


def bad_warmstart(nv, w):
  return [(-1.0) ** (i + w) * (30.0 + 17.0 * ((3 * i + w) % 5)) for i in range(nv)]


# ------------------------------------------------------------------------------------------- checks


def check_world(c, pre, mjm, m, d, w, overflow, mjd, tagkey, mjd_any=None, mjd_raw=None):
  """O1/O3 (+O2 if mjd usable) for one world. Returns (active, info)."""
  nefc, rows = util.efc_dense(m, d, w)
  P = cost.problem_from_mjw(mjm, m, d, w, rows=rows)
  qacc = d.qacc.numpy()[w].astype(np.float64)
  if not np.all(np.isfinite(qacc)):
    c.fail(f"qacc_nonfinite:{tagkey}", f"{pre}qacc not finite: {qacc.tolist()}")
    return False, {}
  ev = P.certificate(qacc)
  tol = P.tolerance
  iter_bit = bool(overflow[w] & OVERFLOW_ITER)
  # stage 1 (cheap, rigorous): the part of the gradient that float32 rounding of the summed terms (32 eps per term,
  # component-wise) cannot explain must be below the solver's own stopping thresholds (gradient, or the strong-convexity
  # bound on the remaining improvement)
  Gx, Sx = P.certificate_excess(ev, 32 * EPS32)
  # allowed true suboptimality (unscaled): K*tol/scale plus the float32 resolution of the cost itself -- the solver measures
  # improvement as a difference of float32 costs, each a sum of nv+nefc (~20) rounded terms, i.e. uncertain by up to ~n/2 eps32
  # relative.  Measured on the unchanged tree (seeds 0-3): gap <= 8.1 eps32 * sum|cost terms| (CG stuck until the iteration cap).
  cmag = abs(ev["gauss"]) + (float(np.sum(np.abs(P.rows(ev["jar"])[2]))) if nefc else 0.0)
  # a difference of two float32 sums of n = nv + nefc terms is uncertain by up to 2(n-1) eps32 * sum|terms| (worst-case summation
  # bound); 16 is the floor calibrated on small problems
  allow = K * tol / P.scale() + max(16, 2 * (P.M.shape[0] + nefc)) * EPS32 * cmag
  gap = 0.0
  if not (Gx <= K * tol or Sx <= K * tol):
    # stage 2: independent float64 minimisation of the same problem; cost(qacc) - cost(q*) is a lower bound of the true gap
    qstar, cstar, slack = cost.refine(P, qacc)
    gap = ev["cost"] - cstar
    if gap > allow:
      if iter_bit:
        PATHS["itercap"] += 1
        if mjd_raw is not None and mjd_raw.nefc == nefc:
          cm = P.evaluate(mjd_raw.qacc)["cost"]
          c.true(
            f"{pre}cost vs MuJoCo (iteration limit hit)",
            ev["cost"] <= cm + allow,
            f"iteration limit hit (niter {int(d.solver_niter.numpy()[w])}): cost {ev['cost']:.9g} > cost at MuJoCo's qacc {cm:.9g} (same solver, same limit); optimum {cstar:.9g}",
            vkey=f"certificate_itercap:{tagkey}",
          )
      elif tagkey.startswith("cg:") and mjd_raw is not None and mjd_raw.nefc == nefc and _mj_gap(mjm, mjd_raw) >= gap:
        # CG stops on per-iteration improvement; on ill-conditioned cones that is not a bound on the remaining gap.  MuJoCo's
        # own CG (same algorithm and stopping rule, float64, stricter tolerance) is no closer to its optimum here, so the
        # property's "to within the solver tolerance" cannot mean more than this for CG.
        PATHS["cg_as_converged_as_mujoco"] += 1
      else:
        dq = qacc - qstar
        c.fail(
          f"certificate:{tagkey}",
          f"{pre}qacc is not the optimum of MJWarp's own problem: cost {ev['cost']:.9g} vs float64 optimum {cstar:.9g} (gap {gap:.3g}, allowed {allow:.3g} = "
          f"{K:g}*tol/scale + {max(16, 2 * (P.M.shape[0] + nefc))} eps32*{cmag:.3g}); scaled gradient {ev['gradient']:.3g}; max|qacc-q*| {np.max(np.abs(dq)):.3g} at dof {int(np.argmax(np.abs(dq)))}; "
          f"niter {int(d.solver_niter.numpy()[w])}, nefc {nefc}",
        )
    else:
      PATHS["stage2"] += 1
      c.nchecked += 1
  else:
    PATHS["stage1"] += 1
    c.nchecked += 1
  # O3: forces implied by qacc
  if nefc:
    jmag = np.abs(P.J) @ np.abs(qacc) + np.abs(P.aref)
    # Jaref is updated incrementally (Jaref += alpha * Jv) once per iteration, two roundings each: after n iterations it is off by up
    # to 2n eps32 of its magnitude (worst case, linear); 64 is the floor for short runs (CG at its cap of 100 iterations: 68 observed)
    ftol = 2e-4 * (1 + np.max(np.abs(ev["force"]))) + max(64, 2 * int(d.solver_niter.numpy()[w])) * EPS32 * P.D * jmag
    # elliptic cone rows mix the residuals of the whole contact
    for r_, fri, mu in P.cones:
      ftol[r_] = np.max(ftol[r_]) * (1 + 1 / max(mu, 1e-3))
    ferr = np.abs(rows["force"] - ev["force"])
    bad = np.nonzero(ferr > ftol)[0]
    c.nchecked += 1
    if bad.size:
      r = int(bad[np.argmax((ferr / ftol)[bad])])
      c.fail(
        f"force:{tagkey}:type{int(P.type[r])}",
        f"{pre}efc.force[{r}] (type {int(P.type[r])}) = {rows['force'][r]:.7g}, row law at reported qacc gives {ev['force'][r]:.7g} (allowed {ftol[r]:.3g}); jar={ev['jar'][r]:.6g} D={P.D[r]:.6g}",
      )
    bd = P.boundary_distance(ev["jar"])
    jtol = 64 * EPS32 * jmag + 1e-9
    # the zone of an elliptic contact is decided by all of its rows together (boundary_distance is one number per contact), so
    # its resolution is that of the contact's coarsest row, mixed as in ftol above -- not that of each (small) friction row
    for r_, fri, mu in P.cones:
      jtol[r_] = np.max(jtol[r_]) * (1 + 1 / max(mu, 1e-3))
    far = bd > 4 * jtol
    sbad = np.nonzero(far & (rows["state"] != ev["state"]))[0]
    c.nchecked += 1
    if sbad.size:
      r = int(sbad[0])
      c.fail(
        f"state:{tagkey}:type{int(P.type[r])}",
        f"{pre}efc.state[{r}] (type {int(P.type[r])}) = {int(rows['state'][r])}, row law gives {int(ev['state'][r])} (jar={ev['jar'][r]:.6g}, boundary distance {bd[r]:.3g})",
      )
  qfc = d.qfrc_constraint.numpy()[w].astype(np.float64)
  want = P.J.T @ rows["force"] if nefc else np.zeros(P.nv)
  # scale: the Newton/pyramidal path recovers qfrc_constraint as M*qacc - qfrc_smooth - grad, so those magnitudes count too
  mag = (np.abs(P.J.T) @ np.abs(rows["force"])) if nefc else np.zeros(P.nv)
  mag = np.maximum(mag, np.maximum(np.abs(P.M) @ np.abs(qacc), np.abs(P.M) @ np.abs(P.qacc_smooth)))
  # float32 floor: MJWarp carries Jaref = J*qacc - aref in float32, so each reported force is uncertain by at least
  # D*eps32*(|J||qacc|+|aref|) (O3 grants 64x that per row); the Newton/pyramidal path recovers qfrc_constraint from the
  # gradient, i.e. from M*qacc and qfrc_smooth, so it differs from J'force by |J|' times that uncertainty.  QFLOOR eps32 is
  # granted (calibrated on the unchanged tree over the size scenes, seeds 0-3: max observed excess 9.1 eps32); for the
  # ordinary (soft) scenes this term is far below the f32dyn term.
  qtol = 2e-4 * (1 + float(np.max(mag, initial=0.0)))
  qfloor = (np.abs(P.J.T) @ (P.D * (np.abs(P.J) @ np.abs(qacc) + np.abs(P.aref)))) * EPS32 if nefc else np.zeros(P.nv)
  qerr = np.abs(qfc - want)
  c.nchecked += 1
  worstQ = float(np.max((qerr - qtol) / np.maximum(qfloor, 1e-300), initial=0.0)) if nefc else 0.0
  if not np.all(np.isfinite(qfc)) or np.any(qerr > qtol + QFLOOR * qfloor):
    i = int(np.argmax(qerr - qtol - QFLOOR * qfloor))
    c.fail(
      f"qfrc_constraint:{tagkey}",
      f"{pre}qfrc_constraint = J'force: |got-want|={qerr[i]:.3g} > {qtol + QFLOOR * qfloor[i]:.3g} (= f32dyn {qtol:.3g} + {QFLOOR:g} eps32 |J|'D(|J||qacc|+|aref|) {QFLOOR * qfloor[i]:.3g}) at ({i},) got={qfc[i]:.6g} want={want[i]:.6g}",
    )
  # O2
  if mjd is not None:
    # class solver plus what the allowed suboptimality itself permits: a point whose cost is within `allow` of the minimum
    # lies within ||dq||_M <= sqrt(2 allow) of the optimum (strong convexity), i.e. |dq_i| <= sqrt(2 allow (M^-1)_ii)
    Minv = np.linalg.inv(P.M)
    # where the certificate has just been reported as failed (gap > allow) the distance to MuJoCo is judged with the measured gap:
    # the suboptimality is already a violation of its own, O2 then asks whether qacc is wrong beyond what that gap explains
    qallow = 2e-3 * (1 + np.max(np.abs(mjd.qacc))) + np.sqrt(2 * max(allow, gap) * np.maximum(np.diag(Minv), 0.0))
    err = np.abs(qacc - np.asarray(mjd.qacc))
    c.nchecked += 1
    if np.any(err > qallow):
      i = int(np.argmax(err / qallow))
      c.fail(f"qacc_vs_mujoco:{tagkey}", f"{pre}qacc[{i}]={qacc[i]:.7g} vs mj_forward {mjd.qacc[i]:.7g} (allowed {qallow[i]:.3g})")
  active = nefc > 0 and np.any(rows["force"] != 0) and np.max(np.abs(qacc - P.qacc_smooth)) > 1e-6
  return bool(active), dict(G=Gx, S=gap / max(allow, 1e-300), Q=worstQ)


PATHS = {"stage1": 0, "stage2": 0, "cg_as_converged_as_mujoco": 0, "itercap": 0}


def _mj_gap(mjm, mjd):
  """cost(MuJoCo's qacc) - float64 optimum, on MuJoCo's own problem."""
  Pm = cost.problem_from_mj(mjm, mjd)
  _, cstar, _ = cost.refine(Pm, mjd.qacc)
  return Pm.evaluate(mjd.qacc)["cost"] - cstar


def reference(mjm, states, eq_off):
  """MuJoCo solutions per world (None where not trustworthy)."""
  import mujoco

  out = []
  for qpos, qvel in states:
    mjd = util.mj_data(mjm, qpos=qpos, qvel=qvel)
    for e in eq_off:
      mjd.eq_active[e] = 0
    mujoco.mj_forward(mjm, mjd)
    okref = util.mj_warnings(mjd) == 0 and np.all(np.isfinite(mjd.qacc))
    if okref and mjd.nefc:
      Pm = cost.problem_from_mj(mjm, mjd)
      evm = Pm.certificate(mjd.qacc)
      okref = evm["gradient"] <= 1e-5 or evm["subopt"] <= 1e-6
    out.append((mjd, okref))
  return out


def execute_batched(scn):
  """World w holds batch entry w % b of `field` and state w // b; certificate O1/O3 per world on its own parameters."""
  import warp as wp
  import mujoco_warp as mjw
  from mc.refs import c24scenes as bs

  xml, states, kw0 = bs.scene(scn["scene"], scn["variant"])
  mjm, err = util.try_load(xml)
  if mjm is None:
    return dict(ok=True, nontrivial=False, outcome="rejected_by_compiler", info=err)
  c = util.Cmp()
  for k in PATHS:
    PATHS[k] = 0
  b = len(scn["order"])
  nworld = b * len(states)
  qpos = np.array([states[w // b][1] for w in range(nworld)], dtype=np.float32)
  qvel = np.array([states[w // b][2] for w in range(nworld)], dtype=np.float32)
  nactive = nconfig = 0
  for cone in (0, 1):
    mjm.opt.cone = cone
    for jac in (0, 1):
      mjm.opt.jacobian = jac
      mjm.opt.solver = 2
      m, labels = bs.put_batched(mjw, wp, mjm, scn["field"], scn["order"], scn["variant"])
      kw = dict(kw0)
      if jac:
        kw.setdefault("njmax", 64)
        kw["njmax_nnz"] = int(kw["njmax"]) * mjm.nv
      d = mjw.make_data(mjm, nworld=nworld, **kw)
      d.qpos.assign(qpos)
      d.qvel.assign(qvel)
      mjw.forward(m, d)
      nconfig += 1
      overflow = d.overflow.numpy()
      tagkey = f"newton:{'elliptic' if cone else 'pyramidal'}:{'sparse' if jac else 'dense'}"
      for w in range(nworld):
        pre = f"batched:{scn['field']}:{tagkey}:w{w} ({labels[w % b]}, state {states[w // b][0]}):"
        act, _ = check_world(c, pre, mjm, m, d, w, overflow, None, "batched:" + tagkey)
        nactive += act
  return c.result(
    nontrivial=nactive > 0,
    key=util.sha(scn),
    info=dict(nv=int(mjm.nv), nworld=nworld, active_worlds=nactive, configs=nconfig, checked=c.nchecked),
    counts=dict(extra_evaluations=nconfig * nworld, **{"certificate_" + k: v for k, v in PATHS.items()}),
  )


def execute(scn):
  import mujoco
  import mujoco_warp as mjw

  if scn["fam"] == "batched":
    return execute_batched(scn)
  mjm, info = build(scn)
  if mjm is None:
    return dict(ok=True, nontrivial=False, outcome="rejected_by_compiler", info=info)
  c = util.Cmp()
  states = info["states"]
  for k in PATHS:
    PATHS[k] = 0
  nactive = nconfig = nref = 0
  worstG = worstS = worstQ = 0.0
  base_flags = int(mjm.opt.disableflags)
  for cone in (0, 1) if "cone" not in scn else (scn["cone"],):
    mjm.opt.cone = cone
    for jac in (0, 1):
      if jac == 0 and mjm.nv > ss.DENSE_MAX:
        continue  # put_model refuses the dense Jacobian above nv = 60 (documented limit, not part of the property)
      mjm.opt.jacobian = jac
      for solver in (2, 1) if "solver" not in scn else (scn["solver"],):
        mjm.opt.solver = solver
        mjm.opt.disableflags = base_flags
        refs = reference(mjm, states, info["eq_off"])
        for ws in scn.get("ws", ("off", "zero", "bad")):
          mjm.opt.disableflags = base_flags | (DISABLE_WARMSTART if ws == "off" else 0)
          m = mjw.put_model(mjm)
          kw = dict(info["kw"])
          if jac:
            kw["njmax_nnz"] = int(kw.get("njmax", 64)) * mjm.nv
            kw.setdefault("njmax", 64)
          d = mjw.make_data(mjm, nworld=len(states), **kw)
          for w, (qpos, qvel) in enumerate(states):
            ref = util.mj_data(mjm, qpos=qpos, qvel=qvel)
            if ws == "bad":
              ref.qacc_warmstart[:] = bad_warmstart(mjm.nv, w)
            util.copy_state(ref, d, world=w)
          if info["eq_off"]:
            ea = d.eq_active.numpy()
            ea[:, info["eq_off"]] = False
            util.set_field(d.eq_active, ea)
          mjw.forward(m, d)
          nconfig += 1
          overflow = d.overflow.numpy()
          niter = d.solver_niter.numpy()
          tagkey = f"{'newton' if solver == 2 else 'cg'}:{'elliptic' if cone else 'pyramidal'}:{'sparse' if jac else 'dense'}"
          for w in range(len(states)):
            pre = f"{tagkey}:ws_{ws}:w{w}:"
            c.true(pre + "niter", 0 <= int(niter[w]) <= int(mjm.opt.iterations), f"solver_niter {int(niter[w])} > iterations {int(mjm.opt.iterations)}", vkey="niter")
            mjd, okref = refs[w]
            usable = okref and int(d.nefc.numpy()[w]) == mjd.nefc and not (overflow[w] & OVERFLOW_ITER)
            nref += usable
            act, inf = check_world(c, pre, mjm, m, d, w, overflow, mjd if usable else None, tagkey, mjd_any=mjd if okref else None, mjd_raw=mjd if util.mj_warnings(mjd) == 0 and np.all(np.isfinite(mjd.qacc)) else None)
            nactive += act
            worstG, worstS, worstQ = max(worstG, inf.get("G", 0.0)), max(worstS, inf.get("S", 0.0)), max(worstQ, inf.get("Q", 0.0))
  mjm.opt.disableflags = base_flags
  return c.result(
    nontrivial=nactive > 0,
    key=util.sha(scn),
    info=dict(nv=int(mjm.nv), active_worlds=nactive, configs=nconfig, worstG=float(f"{worstG:.3g}"), worstS=float(f"{worstS:.3g}"), worstQ=float(f"{worstQ:.3g}"), checked=c.nchecked),
    counts=dict(extra_evaluations=nconfig * len(states), compared_to_mujoco=nref, **{"certificate_" + k: v for k, v in PATHS.items()}),
  )
