"""C30 Delayed controls and sensors read the right past sample.

Model checking of the delay/interval history buffers on the real code: a state is (history buffer contents, time);
a transition is one `step` with one control symbol.  For every configuration (see RULE) ALL control words of length
<= L over {0, 1, -0.5} are executed: MJWarp runs the 3^L words of length L as the worlds of one batched Data (world w
applies word w; after i steps it has executed the length-i prefix of its word, so every word of length <= L is
executed and compared in every world that extends it), MuJoCo C replays the same words on the prefix tree (one
MjData per tree node, child = copy of the parent + mj_step).  After every step, in every world:
actuator_force of unit-gain motors (= the applied, delayed control), act of a delayed integrator, sensordata, time,
the whole history buffer (user slot, cursor, timestamps, values separately) and read_ctrl / read_sensor against
mj_readCtrl / mj_readSensor at query times {t, t-delay, t-0.5h, t-1.5h, t+h} under interp {-1 (model), 0, 1, 2}.

The initial buffer of make_data / reset_data (kernel io._reset_history) is validated against mj_makeData /
mj_resetData at depth 0 of every configuration, init_ctrl_history / init_sensor_history against
mj_initCtrlHistory / mj_initSensorHistory (explicit past times, times reaching into the future so that the next
inserts are exact-match / out-of-order / replace-oldest inserts, times=None, per-world values).

Extra family loop=obs (beyond the DESIGN plan): the observe-then-act loop forward(); choose ctrl; step() -- the
history and outputs are also compared after every forward() (mj_forward never writes the history).

Violation keys: <family>:start=<start>:[loop=obs:]<field>:<element class>[:interp=<model interp>] where the element
class is delay=<..>[:interval=<..>:grid=<on|off|na>] (grid=off: the ideal sample times phase - k*period are not
multiples of the timestep).  nsample / sensor type / timestep are in the message, not in the key.
"""

import copy
import os

import numpy as np

from mc import util

ID = "C30"
LEVEL = "model_checking"
RULE = (
  "configurations: actuator family {nsample} x {start} with 14 actuators (delay in {h,2.5h,3h,(nsample+1.5)h > buffer span} x "
  "interp {zoh,linear,cubic} motors, a history-only motor, a delayed integrator, a plain motor); sensor family {sensor type} x "
  "{nsample} x {start} with 76 sensors (delay in {0,h,2.5h,3h,>span} x interval in {none, 2h, 2h phase -0.5h, 2.5h, 2.5h phase "
  "-0.75h} x interp {zoh,linear,cubic} + an undelayed twin); per configuration all words of length <= L over {0,1,-0.5}: "
  "state = (history buffer, time) at a prefix-tree node (hashed from MuJoCo's buffer), transition = one step; every word is "
  "replayed on MuJoCo C and compared after every step; starts: make_data, put_data(fresh MjData), put_data(MjData after 3 steps), "
  "reset_data after 5 dirty steps, init_*_history (past times / future times / times=None); plus the observe-then-act loop "
  "(forward between steps) from make_data; non-trivial = some delayed output is non-zero and differs from the "
  "undelayed twin; distinct = hash of the configuration"
)
BOUNDS = {
  "quick": "L=6 (729 worlds, 1093 words per configuration), nsample in {1,2,3,4}, 7 starts, 4 sensor types: 28 actuator + 112 sensor "
  "configurations + 20 observe-then-act configurations",
  "thorough": "L=7 (2187 worlds, 3280 words per configuration), nsample in {1,2,3,4,5}, 7 starts, 4 sensor types",
}
ASSUMPTIONS = [
  "MuJoCo C 3.13 is the reference (mj_step, mj_makeData, mj_resetData, mj_readCtrl, mj_readSensor, mj_initCtrlHistory, mj_initSensorHistory)",
  "VERIF_SEED mod 4 selects the timestep 1/128, 1/256, 1/64 (powers of two; delays/intervals/phases are dyadic multiples, so every timestamp and "
  "every time comparison is exact in float32 and float64 alike: a deviation is a logic error, not round-off) or 0.002 (a realistic non-dyadic "
  "step: float32 time round-off is in play; calibrated silent on the on-grid configurations for L<=7)",
  "worlds of one batched Data are independent (that is property C09); the batch is only a way to run all words",
  "values compared under class f32 (2e-5*(1+max|ref|)); timestamps/user slot under absolute 2e-5*(1+|t|); cursor exactly",
  "actuator k receives ALPH[(symbol+k) mod 3] so that neighbouring buffers never hold the same sequence (a bijection of the word set per actuator)",
]
BUDGET = {"quick": 600, "thorough": 3400}

ALPH = (0.0, 1.0, -0.5)
TIMESTEPS = (1.0 / 128, 1.0 / 256, 1.0 / 64, 0.002)
INTERPS = ("zoh", "linear", "cubic")
STARTS = ("make", "put0", "put", "reset", "init_t", "init_ahead", "init_none")
SENSOR_TYPES = ("actuatorfrc", "jointpos", "jointvel", "framepos")
INTERVALS = (None, (2.0, 0.0), (2.0, -0.5), (2.5, 0.0), (2.5, -0.75))  # (period, phase) in units of h
DIRTY = (0.7, -0.3, 0.4, -0.9, 0.2)
HIST_FIELDS = (("history.user", "abs"), ("history.cursor", "exact"), ("history.times", "abs"), ("history.values", "f32"))


# ------------------------------------------------------------------------------------- scenarios


def scenarios(tier, seed):
  L = 6 if tier == "quick" else 7
  ns = (1, 2, 3, 4) if tier == "quick" else (1, 2, 3, 4, 5)
  v = seed % 4
  out = []
  for n in ns:
    for start in STARTS:
      out.append(dict(fam="act", n=n, start=start, L=L, variant=v))
  for typ in SENSOR_TYPES:
    for n in ns:
      for start in STARTS:
        out.append(dict(fam="sens", typ=typ, n=n, start=start, L=L, variant=v))
  # observe-then-act loop (forward between steps), from make_data
  for n in ns:
    out.append(dict(fam="act", n=n, start="make", L=L, variant=v, loop="obs"))
    for typ in SENSOR_TYPES:
      out.append(dict(fam="sens", typ=typ, n=n, start="make", L=L, variant=v, loop="obs"))
  return out


# ------------------------------------------------------------------------------------- models


def _f(x):
  return repr(float(x))


def act_configs(n):
  cfgs = []
  for du in (1.0, 2.5, 3.0, n + 1.5):
    for ip in INTERPS:
      cfgs.append(dict(kind="motor", delay=du, interp=ip, n=n, cls=f"delay={'gtspan' if du > 3 else f'{du}h'}"))
  cfgs.append(dict(kind="motor", delay=0.0, interp="linear", n=n, cls="historyonly"))
  cfgs.append(dict(kind="integrator", delay=2.0, interp="linear", n=n, cls="integrator:delay=2.0h"))
  cfgs.append(dict(kind="motor", delay=0.0, interp="zoh", n=0, cls="plain"))
  return cfgs


def sens_configs(n):
  cfgs = []
  for du in (0.0, 1.0, 2.5, 3.0, n + 1.5):
    for iv in INTERVALS:
      for ip in INTERPS:
        ivs = "none" if iv is None else f"{iv[0]}h" + ("" if iv[1] == 0 else f"_phase{iv[1]}h")
        # grid=off: the ideal sample times phase - k*period do not fall on multiples of the timestep
        grid = "na" if iv is None else ("on" if float(iv[0]).is_integer() and float(iv[1]).is_integer() else "off")
        cfgs.append(dict(delay=du, interval=iv, interp=ip, n=n, cls=f"delay={'gtspan' if du > 3 else f'{du}h'}:interval={ivs}:grid={grid}"))
  cfgs.append(dict(delay=0.0, interval=None, interp="zoh", n=0, cls="plain"))
  return cfgs


def build_xml(scn):
  h = TIMESTEPS[scn["variant"]]
  n = scn["n"]
  if scn["fam"] == "act":
    cfgs = act_configs(n)
    acts = ""
    for k, c in enumerate(cfgs):
      hist = f' nsample="{c["n"]}" interp="{c["interp"]}"' if c["n"] else ""
      dl = f' delay="{_f(c["delay"] * h)}"' if c["delay"] else ""
      if c["kind"] == "motor":
        acts += f'<motor name="a{k}" joint="j"{dl}{hist}/>'
      else:
        acts += f'<general name="a{k}" joint="j" dyntype="integrator" gainprm="1"{dl}{hist}/>'
    sens = ""
    mass = 1.0
  else:
    cfgs = sens_configs(n)
    acts = '<motor name="m0" joint="j"/>'
    el = {
      "actuatorfrc": 'actuatorfrc actuator="m0"',
      "jointpos": 'jointpos joint="j"',
      "jointvel": 'jointvel joint="j"',
      "framepos": 'framepos objtype="site" objname="s0"',
    }[scn["typ"]]
    sens = ""
    for k, c in enumerate(cfgs):
      a = f' nsample="{c["n"]}" interp="{c["interp"]}"' if c["n"] else ""
      if c["delay"]:
        a += f' delay="{_f(c["delay"] * h)}"'
      if c["interval"]:
        a += f' interval="{_f(c["interval"][0] * h)} {_f(c["interval"][1] * h)}"'
      sens += f'<{el} name="s{k}"{a}/>'
    # light body: position (resp. velocity) sensors reach O(0.1..1) within L steps of unit force
    mass = 8.0 * h if scn["typ"] == "jointvel" else 64.0 * h * h
  xml = (
    f'<mujoco><option timestep="{_f(h)}" gravity="0 0 0"/><worldbody><body pos="0.25 -0.5 0.75">'
    f'<joint name="j" type="slide" axis="1 0 0"/><geom size="0.1" mass="{_f(mass)}"/><site name="s0" pos="0.5 0.25 -0.125"/></body></worldbody>'
    f"<actuator>{acts}</actuator><sensor>{sens}</sensor></mujoco>"
  )
  return xml, cfgs


class Elem:
  """One history buffer: [user, cursor, times(n), values(n*dim)] at adr."""

  def __init__(self, idx, cfg, adr, n, dim, delay, interp):
    self.idx, self.cfg, self.adr, self.n, self.dim, self.delay, self.interp = idx, cfg, adr, n, dim, delay, interp
    self.cls = cfg["cls"]


def elements(mjm, scn, cfgs):
  out = []
  if scn["fam"] == "act":
    for k, c in enumerate(cfgs):
      n = int(mjm.actuator_history[k, 0])
      assert n == c["n"], (k, n, c)
      out.append(Elem(k, c, int(mjm.actuator_historyadr[k]), n, 1, float(mjm.actuator_delay[k]), int(mjm.actuator_history[k, 1])))
  else:
    for k, c in enumerate(cfgs):
      n = int(mjm.sensor_history[k, 0])
      assert n == c["n"], (k, n, c)
      out.append(Elem(k, c, int(mjm.sensor_historyadr[k]), n, int(mjm.sensor_dim[k]), float(mjm.sensor_delay[k]), int(mjm.sensor_history[k, 1])))
  return out


def slot_maps(mjm, elems):
  """Per history slot: owning element and slot kind (0 user, 1 cursor, 2 time, 3 value)."""
  owner = np.full(mjm.nhistory, -1)
  kind = np.full(mjm.nhistory, -1)
  for e in elems:
    if e.n == 0:
      continue
    a = e.adr
    owner[a : a + 2 + e.n + e.n * e.dim] = e.idx
    kind[a] = 0
    kind[a + 1] = 1
    kind[a + 2 : a + 2 + e.n] = 2
    kind[a + 2 + e.n : a + 2 + e.n + e.n * e.dim] = 3
  assert (owner >= 0).all()
  return owner, kind


# ------------------------------------------------------------------------------------- control words


def word_digits(L):
  """digits[w, i] = i-th symbol (0..2) of word w, most significant first; W = 3^L."""
  W = 3**L
  w = np.arange(W)
  return np.stack([(w // 3 ** (L - 1 - i)) % 3 for i in range(L)], axis=1) if L else np.zeros((1, 0), int)


def ctrl_of(sym, nu):
  """Control vector(s) for symbol(s): actuator k gets ALPH[(sym + k) % 3]."""
  a = np.asarray(ALPH)
  return a[(np.asarray(sym)[..., None] + np.arange(nu)) % 3]


def word_str(digits_row, i):
  return "[" + ",".join(str(ALPH[int(s)]) for s in digits_row[:i]) + "]"


# ------------------------------------------------------------------------------------- queries


def queries(fam, e, h):
  """(time offset from current time, interp) pairs for read_ctrl / read_sensor of one element."""
  offs = [0.0, -e.delay, -0.5 * h, -1.5 * h, h]
  if fam == "act":
    return [(o, ip) for o in dict.fromkeys(offs) for ip in (-1, 0, 1, 2)]
  q = [(o, -1) for o in dict.fromkeys(offs)]
  q += [(-0.5 * h, ip) for ip in (0, 1, 2)] + [(-1.5 * h, 2), (-e.delay - 0.5 * h, 1)]
  return list(dict.fromkeys(q))


def mj_reads(mujoco, fam, mjm, mjd, elems, qs, buf):
  out = []
  t = mjd.time
  if fam == "act":
    for e, q in zip(elems, qs):
      for off, ip in q:
        out.append(mujoco.mj_readCtrl(mjm, mjd, e.idx, t + off, ip))
  else:
    for e, q in zip(elems, qs):
      b = buf[e.dim]
      for off, ip in q:
        p = mujoco.mj_readSensor(mjm, mjd, e.idx, t + off, b, ip)
        out.extend((b if p is None else p).reshape(-1)[: e.dim].tolist())
  return out


def mjw_reads(wp, mjw, fam, m, d, elems, qs, tnow):
  """Same layout as mj_reads, stacked over worlds: [W, nreads]."""
  cols = []
  W = d.nworld
  for e, q in zip(elems, qs):
    for off, ip in q:
      tq = wp.array((tnow + np.float32(off)).astype(np.float32), dtype=float)
      if fam == "act":
        res = wp.zeros(W, dtype=float)
        mjw.read_ctrl(m, d, e.idx, tq, ip, res)
        cols.append(res.numpy().reshape(W, 1))
      else:
        res = wp.zeros((W, e.dim), dtype=float)
        mjw.read_sensor(m, d, e.idx, tq, ip, res)
        cols.append(res.numpy().reshape(W, e.dim))
  return np.concatenate(cols, axis=1)


def read_labels(fam, elems, qs, h):
  lab = []
  for e, q in zip(elems, qs):
    for off, ip in q:
      o = "t" if off == 0 else ("t-delay" if off == -e.delay and e.delay else f"t{off / h:+g}h")
      lab += [(e.idx, f"query={o}:interp={ip}")] * (1 if fam == "act" else e.dim)
  return lab


# ------------------------------------------------------------------------------------- starts


def _init_args(e, t0, h, mode):
  """Custom buffer contents for init_*_history (same on both sides).

  init_t: past samples 1.5h apart, newest at t0-0.25h.  init_ahead: the buffer reaches into the future, so that the
  next inserts are not appends: even elements get samples 1.5h apart with the newest at t0+h (insert at t0 falls between
  two samples: out-of-order insert, or replace-oldest for nsample=1), odd elements samples h apart with the newest at
  t0+h (inserts at t0 and t0+h hit existing timestamps exactly).  init_none: times=None.
  """
  n = e.n
  if mode == "init_t":
    times = np.array([t0 - 0.25 * h - (n - 1 - i) * 1.5 * h for i in range(n)])
  elif mode == "init_ahead":
    times = np.array([t0 + h - (n - 1 - i) * (1.5 * h if e.idx % 2 == 0 else h) for i in range(n)])
  else:
    times = None
  vals = np.array([[0.25 * (i + 1) + 0.125 * j - 0.0625 * e.idx for j in range(e.dim)] for i in range(n)])
  phase = t0 - 0.75 * h
  return times, vals, phase


def mj_start(mujoco, scn, mjm, elems, h):
  mjd = mujoco.MjData(mjm)
  st = scn["start"]
  if st == "put":
    for k in range(3):
      mjd.ctrl[:] = DIRTY[k]
      mujoco.mj_step(mjm, mjd)
  elif st == "reset":
    for k in range(5):
      mjd.ctrl[:] = DIRTY[k]
      mujoco.mj_step(mjm, mjd)
    mujoco.mj_resetData(mjm, mjd)
  elif st.startswith("init"):
    if st != "init_none":
      for k in range(2):
        mjd.ctrl[:] = DIRTY[k]
        mujoco.mj_step(mjm, mjd)
    for e in elems:
      if e.n == 0:
        continue
      times, vals, phase = _init_args(e, mjd.time, h, st)
      if scn["fam"] == "act":
        mujoco.mj_initCtrlHistory(mjm, mjd, e.idx, times, vals[:, 0].copy())
      else:
        mujoco.mj_initSensorHistory(mjm, mjd, e.idx, times, np.ascontiguousarray(vals), phase)
  return mjd


def mjw_start(wp, mjw, scn, mjm, m, mjd0, elems, h, W):
  st = scn["start"]
  if st == "put0":
    return mjw.put_data(mjm, mujoco_fresh(mjm), nworld=W)
  if st == "put":
    return mjw.put_data(mjm, mjd0, nworld=W)
  d = mjw.make_data(mjm, nworld=W)
  if st == "reset":
    nu = mjm.nu
    for k in range(5):
      # dirty every world differently, then reset
      util.set_field(d.ctrl, (np.full((W, nu), DIRTY[k]) + 0.01 * (np.arange(W) % 7)[:, None]).astype(np.float32))
      mjw.step(m, d)
    mjw.reset_data(m, d)
  elif st.startswith("init"):
    if st != "init_none":
      for k in range(2):
        util.set_field(d.ctrl, np.full((W, mjm.nu), DIRTY[k], np.float32))
        mjw.step(m, d)
    t0 = float(mjd0.time)
    for e in elems:
      if e.n == 0:
        continue
      times, vals, phase = _init_args(e, t0, h, st)
      tw = None if times is None else wp.array(times.astype(np.float32), dtype=float)
      vw = wp.array(np.tile(vals.reshape(1, -1), (W, 1)).astype(np.float32), dtype=float)
      if scn["fam"] == "act":
        mjw.init_ctrl_history(m, d, e.idx, tw, vw)
      else:
        mjw.init_sensor_history(m, d, e.idx, tw, vw, wp.array(np.full(W, phase, np.float32), dtype=float))
  return d


def mujoco_fresh(mjm):
  import mujoco

  return mujoco.MjData(mjm)


# ------------------------------------------------------------------------------------- comparison


class Collector:
  """Violations keyed by class; one representative (simplest word first) per vkey."""

  def __init__(self, pre, digits, tag=""):
    self.pre, self.digits, self.tag, self.v, self.nchecked, self.maxerr = pre, digits, tag, {}, 0, 0.0

  def block(self, depth, field, got, want, labels, elems, tol_rel, scale_mode):
    """got/want: [W, K]; labels: per column (element idx, sublabel)."""
    got = np.asarray(got, np.float64)
    want = np.asarray(want, np.float64)
    self.nchecked += 1
    if got.shape != want.shape:
      self._add(f"{field}:shape", f"depth {depth} {field}: shape {got.shape} vs reference {want.shape}")
      return
    if want.size == 0:
      return
    bad_nf = ~np.isfinite(got) & np.isfinite(want)
    if scale_mode == "abs":  # timestamps: absolute, relative only to the entry itself
      bound = tol_rel * (1.0 + np.abs(want))
    elif scale_mode == "exact":
      bound = np.zeros_like(want)
    else:  # f32 class: relative to 1 + max|ref| of the block
      bound = np.full_like(want, tol_rel * (1.0 + np.max(np.abs(want[np.isfinite(want)]), initial=0.0)))
    with np.errstate(invalid="ignore"):
      err = np.abs(got - want)
    err[~np.isfinite(want)] = 0.0
    err[bad_nf] = np.inf
    bad = err > bound
    fin = err[np.isfinite(err)]
    if fin.size:
      self.maxerr = max(self.maxerr, float(fin.max()))
    if not bad.any():
      return
    cols = np.nonzero(bad.any(axis=0))[0]
    seen = set()
    for cidx in cols:
      ei, sub = labels[cidx]
      cls = elems[ei].cls
      # interpolation order is part of the class only where it can matter (values read back), not for buffer bookkeeping
      key = f"{field}:{cls}" + ("" if "history" in field or field == "time" else f":interp={elems[ei].cfg['interp']}")
      if key in seen:
        continue
      seen.add(key)
      w = int(np.nonzero(bad[:, cidx])[0][0])
      self._add(
        key,
        f"depth {depth} word {word_str(self.digits[w], depth)} {field}[{sub}] element {ei} ({cls}, interp={elems[ei].cfg['interp']}): got {got[w, cidx]:.7g} want {want[w, cidx]:.7g} "
        f"({int(bad[:, cidx].sum())} of {bad.shape[0]} worlds)",
      )

  def _add(self, key, what):
    k = self.pre + key
    if k not in self.v:
      self.v[k] = dict(vkey=k, what=self.tag + what)

  def violations(self, cap=None):
    cap = cap or int(os.environ.get("C30_VKEY_CAP", "60"))
    return list(self.v.values())[:cap]


# ------------------------------------------------------------------------------------- execute


def execute(scn):
  import mujoco
  import warp as wp

  import mujoco_warp as mjw

  h = TIMESTEPS[scn["variant"]]
  L = scn["L"]
  fam = scn["fam"]
  xml, cfgs = build_xml(scn)
  mjm, err = util.try_load(xml)
  if mjm is None:
    return dict(ok=True, nontrivial=False, outcome="rejected_by_compiler", info=err, key=util.sha(scn))
  elems = elements(mjm, scn, cfgs)
  owner, kind = slot_maps(mjm, elems)
  hist_labels = [[(int(owner[s]), f"slot{s - elems[owner[s]].adr}") for s in np.nonzero(kind == kk)[0]] for kk in range(4)]
  hist_cols = [np.nonzero(kind == kk)[0] for kk in range(4)]
  qs = [queries(fam, e, h) if e.n else [] for e in elems]
  rlab = read_labels(fam, elems, qs, h)
  nu = mjm.nu
  digits = word_digits(L)
  W = digits.shape[0]
  pre = f"{fam}:start={scn['start']}:" + ("loop=obs:" if scn.get("loop") == "obs" else "")
  col = Collector(pre, digits, tag=(f"{scn['typ']} sensors " if fam == "sens" else "") + f"nsample={scn['n']} h={h}: ")

  # ---- reference: MuJoCo C on the prefix tree
  mjd0 = mj_start(mujoco, scn, mjm, elems, h)
  bufs = {k: np.zeros((k, 1)) for k in (1, 3)}
  level = [mjd0]
  recs = []
  states = set()
  obs = scn.get("loop") == "obs"

  def record(level):
    r = dict(
      time=np.array([x.time for x in level]),
      history=np.array([x.history for x in level]),
      actuator_force=np.array([x.actuator_force for x in level]),
      act=np.array([x.act for x in level]),
      sensordata=np.array([x.sensordata for x in level]),
      ctrl=np.array([x.ctrl for x in level]),
      reads=np.array([mj_reads(mujoco, fam, mjm, x, elems, qs, bufs) for x in level]),
      warn=np.array([util.mj_warnings(x) for x in level]),
    )
    for x in level:
      states.add(util.np_digest(x.history, np.array([x.time])))
    if obs:
      # observe-then-act loop: forward() with the control of the step just taken, before the next control is chosen
      for x in level:
        mujoco.mj_forward(mjm, x)
      r["fwd_history"] = np.array([x.history for x in level])
      r["fwd_sensordata"] = np.array([x.sensordata for x in level])
      r["fwd_actuator_force"] = np.array([x.actuator_force for x in level])
    return r

  recs.append(record(level))
  for i in range(L):
    nxt = []
    for p in level:
      for s in range(3):
        c = copy.copy(p)
        c.ctrl[:] = ctrl_of(s, nu)
        mujoco.mj_step(mjm, c)
        nxt.append(c)
    level = nxt
    recs.append(record(level))
  transitions = sum(3**i for i in range(1, L + 1))
  if any(r["warn"].any() for r in recs):
    return dict(ok=True, nontrivial=False, outcome="degenerate", key=util.sha(scn))

  # ---- MJWarp: all words of length L as worlds
  m = mjw.put_model(mjm)
  d = mjw_start(wp, mjw, scn, mjm, m, mjd0, elems, h, W)
  active = False
  for i in range(L + 1):
    if i > 0:
      util.set_field(d.ctrl, ctrl_of(digits[:, i - 1], nu).astype(np.float32))
      mjw.step(m, d)
    node = np.arange(W) // 3 ** (L - i)
    r = recs[i]
    tnow = d.time.numpy().copy()
    col.block(i, "time", tnow.reshape(W, 1), r["time"][node].reshape(W, 1), [(0, "")], elems, 2e-5, "abs")
    H = d.history.numpy()
    Hw = r["history"][node]
    for kk, (fname, mode) in enumerate(HIST_FIELDS):
      cc = hist_cols[kk]
      col.block(i, fname, H[:, cc], Hw[:, cc], hist_labels[kk], elems, 2e-5, mode)
    if i > 0:
      if fam == "act":
        col.block(i, "actuator_force", d.actuator_force.numpy(), r["actuator_force"][node], [(k, "") for k in range(nu)], elems, 2e-5, "f32")
        col.block(i, "act", d.act.numpy(), r["act"][node], [(nu - 2, "")] * mjm.na, elems, 2e-5, "f32")
      else:
        lab = [(e.idx, f"dim{j}") for e in elems for j in range(e.dim)]
        col.block(i, "sensordata", d.sensordata.numpy(), r["sensordata"][node], lab, elems, 2e-5, "f32")
    col.block(i, "read_ctrl" if fam == "act" else "read_sensor", mjw_reads(wp, mjw, fam, m, d, elems, qs, tnow), r["reads"][node], rlab, elems, 2e-5, "f32")
    if obs:
      mjw.forward(m, d)
      Hf, Hfw = d.history.numpy(), r["fwd_history"][node]
      for kk, (fname, mode) in enumerate(HIST_FIELDS):
        cc = hist_cols[kk]
        col.block(i, "after_forward." + fname, Hf[:, cc], Hfw[:, cc], hist_labels[kk], elems, 2e-5, mode)
      if fam == "act":
        col.block(i, "after_forward.actuator_force", d.actuator_force.numpy(), r["fwd_actuator_force"][node], [(k, "") for k in range(nu)], elems, 2e-5, "f32")
      else:
        lab = [(e.idx, f"dim{j}") for e in elems for j in range(e.dim)]
        col.block(i, "after_forward.sensordata", d.sensordata.numpy(), r["fwd_sensordata"][node], lab, elems, 2e-5, "f32")
    # feature active on MuJoCo's own testimony: a delayed output is non-zero and differs from the undelayed twin
    if i > 0:
      if fam == "act":
        f = r["actuator_force"]
        active = active or bool(np.any((np.abs(f[:, :12]) > 1e-3) & (np.abs(f[:, :12] - r["ctrl"][:, :12]) > 1e-3)))
      else:
        sd = r["sensordata"]
        dim = elems[0].dim
        plain = sd[:, -dim:]
        dl = sd[:, : -dim].reshape(sd.shape[0], -1, dim)
        active = active or bool(np.any((np.abs(dl) > 1e-3) & (np.abs(dl - plain[:, None, :]) > 1e-3)))

  # ---- init_*_history with per-world values (depth 0 only)
  if scn["start"] == "init_t":
    _init_per_world(mujoco, wp, mjw, scn, mjm, m, elems, h, col, hist_cols, hist_labels)

  nodes = sum(3**i for i in range(L + 1))
  counts = dict(
    states=len(states),
    transitions=transitions,
    traces_validated_against_impl=nodes,  # every word of length <= L, compared in every world that extends it
    history_buffers=sum(1 for e in elems if e.n),
    reference_read_queries=len(rlab) * nodes,
  )
  viol = col.violations()
  return dict(
    ok=not viol,
    violations=viol,
    nontrivial=active,
    key=util.sha(scn),
    counts=counts,
    info=dict(nhistory=int(mjm.nhistory), nelem=len(elems), nreads=len(rlab), checked=col.nchecked, maxerr=col.maxerr),
  )


def _init_per_world(mujoco, wp, mjw, scn, mjm, m, elems, h, col, hist_cols, hist_labels):
  """init_*_history called with different values / phase in each of 3 worlds, on a Data whose cursors have moved."""
  NW = 3
  d = mjw.make_data(mjm, nworld=NW)
  mjds = [mujoco.MjData(mjm) for _ in range(NW)]
  for k in range(2):
    util.set_field(d.ctrl, np.full((NW, mjm.nu), DIRTY[k], np.float32))
    mjw.step(m, d)
    for x in mjds:
      x.ctrl[:] = DIRTY[k]
      mujoco.mj_step(mjm, x)
  t0 = float(mjds[0].time)
  for e in elems:
    if e.n == 0:
      continue
    times, vals, phase = _init_args(e, t0, h, "init_t")
    vs = [vals * (1.0 + 0.5 * w) - 0.125 * w for w in range(NW)]
    ph = [phase - 0.25 * h * w for w in range(NW)]
    tw = wp.array(times.astype(np.float32), dtype=float)
    vw = wp.array(np.stack([v.reshape(-1) for v in vs]).astype(np.float32), dtype=float)
    if scn["fam"] == "act":
      mjw.init_ctrl_history(m, d, e.idx, tw, vw)
      for w in range(NW):
        mujoco.mj_initCtrlHistory(mjm, mjds[w], e.idx, times, vs[w][:, 0].copy())
    else:
      mjw.init_sensor_history(m, d, e.idx, tw, vw, wp.array(np.array(ph, np.float32), dtype=float))
      for w in range(NW):
        mujoco.mj_initSensorHistory(mjm, mjds[w], e.idx, times, np.ascontiguousarray(vs[w]), ph[w])
  H = d.history.numpy()
  Hw = np.array([x.history for x in mjds])
  sub = Collector(col.pre + "perworld:", np.zeros((NW, 0), int), tag=col.tag)
  for kk, (fname, mode) in enumerate((("history.user", "abs"), ("history.cursor", "exact"), ("history.times", "abs"), ("history.values", "f32"))):
    cc = hist_cols[kk]
    sub.block(0, fname, H[:, cc], Hw[:, cc], hist_labels[kk], elems, 2e-5, mode)
  col.v.update(sub.v)
  col.nchecked += sub.nchecked
