"""C03 Actuation agrees with MuJoCo C.

Space: the full product  transmission x dyntype x gaintype x biastype x model-level force limits, and inside
every scenario one actuator per flag assignment (ctrllimited, forcelimited, actlimited, actearly) that MuJoCo's
compiler accepts (each assignment is compiled on its own first; rejected ones are counted).  The accepted
actuators of a scenario live in ONE model, between stateless / multi-activation decoys, so that actuator id,
ctrl index and activation address all differ (index mix-ups are visible) and so that several actuators share
one (force-limited) joint / tendon, which is what the two clamp kernels need.  Every model is evaluated in 9
worlds = ctrl {-2, 0.3, 2} x act {0, 0.6, 1.7} (outside ctrlrange / actrange on purpose; every actuator sees
all 9 pairs), two kinematic states, with CLAMPCTRL enabled and disabled.
Extra families: MuJoCo 3.13 <dcmotor> shortcut configurations; 3.13 actuator-level damping/armature.
Oracle: mj_forward (actuator_length, velocity, moment (densified), force, act_dot, qfrc_actuator) and act after one
mj_step; class f32 per actuator.
"""

import itertools

import numpy as np

from mc import util

ID = "C03"
LEVEL = "exploration"
RULE = (
  "enumerate transmission x dyntype x gaintype x biastype x limit-set; per scenario all 16 flag assignments "
  "(ctrllimited, forcelimited, actlimited, actearly) accepted by the MuJoCo compiler become actuators of one model; "
  "9 (ctrl, act) worlds x CLAMPCTRL on/off; non-trivial = a tested actuator has non-zero reference force and "
  "non-zero moment and (if stateful) non-zero act_dot or changed act; distinct = hash of the scenario spec"
)
BOUNDS = {
  "quick": "12 transmissions x 6 dyntypes x 4 gaintypes x 4 biastypes x 2 limit sets x 16 flag assignments; "
  "(tendon transmissions with limits are split by forcelimited); dcmotor shortcut family (11 configs x 4 transmissions x 2) + "
  "<dcmotor input=none>; actuator-level damping/armature family (4 configs x 2 transmissions); 9 input worlds x 2 CLAMPCTRL",
  "thorough": "quick + all ordered pairs of the 45 non-user (dyn,gain,bias) classes sharing a force-limited joint and a force-limited tendon",
}
ASSUMPTIONS = [
  "MuJoCo C 3.13 is the reference (float64 vs float32, class f32 = 2e-5*(1+max|ref| of that actuator's field over the worlds))",
  "real parameters from curated alphabets (VERIF_SEED mod 4): gear, gain/bias/dyn parameters, ranges, states; odd variants "
  "mirror the sign of ctrl/act/ranges so the lower clamps are exercised",
  "gaintype/biastype/dyntype 'user' are evaluated without callbacks (MuJoCo's defaults: gain 1, bias 0, act_dot 0)",
  "pid / so3 actuator types of MuJoCo 3.13 are rejected by put_model (NotImplementedError) and not enumerated",
  "worlds of a batch are used to carry the 9 inputs (batch independence is C09's subject)",
  "a world is excluded only if MuJoCo itself raises a warning (bad qacc etc.) for it",
]
BUDGET = {"quick": 600, "thorough": 3000}

TRNS = (
  "joint_hinge",
  "joint_slide",
  "joint_ball",
  "joint_free",
  "jip_ball",
  "jip_free",
  "tendon_fixed",
  "tendon_spatial",
  "site",
  "site_ref",
  "slidercrank",
  "body",
)
DYNS = ("none", "integrator", "filter", "filterexact", "muscle", "user")
GAINS = ("fixed", "affine", "muscle", "user")
BIASES = ("none", "affine", "muscle", "user")
FLAGS = list(itertools.product((0, 1), repeat=4))  # ctrllimited, forcelimited, actlimited, actearly

DCMOTORS = (
  "",
  'thermal="10 5 0 0.004 25 25"',
  'inductance="0.01 0"',
  'inductance="0.01 0" saturation="0 0 100"',
  'saturation="1 2 100"',
  'saturation="0.3 0.4 0"',
  'damping="0.01" lugre="100 1 0.5 0.7 10"',
  'cogging="0.1 6 0.2"',
  'inductance="0.01 0" thermal="10 5 0 0.004 25 25"',
  'inductance="0.02 0" thermal="10 5 0 0.004 25 25" lugre="100 1 0.5 0.7 10" cogging="0.1 6 0.2"',
  'nominal="1 2 3"',
)
DC_TRNS = ("joint_hinge", "joint_slide", "tendon_fixed", "site_ref")

# ------------------------------------------------------------------------------------------------ alphabets

_G = (1.0, -1.5, 0.7, 2.0)
_SC = ((0.0, -0.7, 0.4), (0.0, 0.55, -0.3), (0.0, -0.45, 0.8), (0.0, 0.25, -0.9))
_QU = (
  ((1, 0, 0, 0), (0.78, 1.04, 0.0, 0.0), (0.5, -0.3, 0.7, 0.4)),
  ((1, 0, 0, 0), (0.0, 0.9, 1.2, 0.0), (0.6, 0.2, -0.5, 0.58)),
  ((1, 0, 0, 0), (1.2, 0.0, 0.0, 1.6), (-0.4, 0.55, 0.3, 0.66)),
  ((1, 0, 0, 0), (0.3, 0.3, -0.3, 0.3), (0.7, -0.1, 0.1, 0.7)),
)
_VS = ((0.0, 0.9, -1.3), (0.0, -0.6, 1.1), (0.0, 1.4, -0.5), (0.0, -1.0, 0.7))
_AX = ("0.6 0 0.8", "0 0.8 -0.6", "0.36 0.48 0.8", "0 0.6 0.8")
CTRL = (-2.0, 0.3, 2.0)
ACT = (0.0, 0.6, 1.7)
NWORLD = 9


def _sgn(v):
  return -1.0 if v % 2 else 1.0


def _rng(lo, hi, v):
  """Range mirrored for odd variants."""
  return f"{lo:g} {hi:g}" if v % 2 == 0 else f"{-hi:g} {-lo:g}"


def scenarios(tier, seed):
  v = seed % 4
  out = []
  for lim in (0, 1):
    for trn in TRNS:
      for dyn, gain, bias in itertools.product(DYNS, GAINS, BIASES):
        if lim and trn.startswith("tendon"):
          # the tendon total-force clamp alone (no actuator force range) and together with actuator force ranges
          for fl in (0, 1):
            out.append(dict(fam="single", trn=trn, dyn=dyn, gain=gain, bias=bias, lim=lim, fl=fl, variant=v))
        else:
          out.append(dict(fam="single", trn=trn, dyn=dyn, gain=gain, bias=bias, lim=lim, variant=v))
  for lim in (0, 1):
    for trn in DC_TRNS:
      for k in range(len(DCMOTORS)):
        out.append(dict(fam="dcmotor", trn=trn, dc=k, lim=lim, variant=v))
  for trn in ("joint_hinge", "tendon_fixed"):
    for k in range(4):
      out.append(dict(fam="actpassive", trn=trn, k=k, variant=v))
  out.append(dict(fam="dcnone", trn="joint_hinge", variant=v))
  if tier == "thorough":
    # 'user' types add nothing to the shared clamps (and deviate on their own, see candidates/C03.md): pairs over the other classes
    classes = list(itertools.product(DYNS[:-1], GAINS[:-1], BIASES[:-1]))
    for trn in ("joint_hinge", "tendon_fixed"):
      for a, b in itertools.product(classes, classes):
        if a != b:
          out.append(dict(fam="pair", trn=trn, a=list(a), b=list(b), lim=1, variant=v))
  return out


# ------------------------------------------------------------------------------------------------ MJCF


def _trn_attr(trn, v):
  g = _G[v]
  g3 = f"{g:g} {0.6 * g:g} {-0.8 * g:g}"
  g6 = f"0.5 {-0.3 * g:g} 0.8 {g3}"
  return {
    "joint_hinge": f'joint="j1" gear="{g:g}"',
    "joint_slide": f'joint="j3" gear="{g:g}"',
    "joint_ball": f'joint="j2" gear="{g3}"',
    "joint_free": f'joint="j4" gear="{g6}"',
    "jip_ball": f'jointinparent="j2" gear="{g3}"',
    "jip_free": f'jointinparent="j4" gear="{g6}"',
    "tendon_fixed": f'tendon="tf" gear="{g:g}"',
    "tendon_spatial": f'tendon="ts" gear="{g:g}"',
    "site": f'site="s2" gear="{g6}"',
    "site_ref": f'site="s2" refsite="s3" gear="{g6}"',
    "slidercrank": f'cranksite="s2" slidersite="s3" cranklength="0.6" gear="{g:g}"',
    "body": f'body="b4" gear="{g:g}"',
  }[trn]


def _muscle_prm(v, kind, trn=""):
  # range0 range1 force scale lmin lmax vmax fpmax fvmax ; force<0 -> scale/acc0 (odd variants)
  force = (4.0, -1.0, 2.5, -1.0)[v]
  if trn == "body":
    force = abs(force) + 2.0  # acc0 of an adhesion actuator is 0 (no contacts at compile time): scale/acc0 would be unbounded
  scale = (200.0, 30.0, 200.0, 12.0)[v]
  return f"0.75 1.05 {force:g} {scale:g} 0.5 1.6 1.5 {1.3 if kind == 'gain' else 0.9:g} 1.2"


def _general(trn, dyn, gain, bias, flags, v, name):
  cl, fl, al, ae = flags
  a = f'<general name="{name}" {_trn_attr(trn, v)} dyntype="{dyn}" gaintype="{gain}" biastype="{bias}"'
  if dyn in ("filter", "filterexact"):
    a += f' dynprm="{(0.05, 0.02, 0.11, 0.008)[v]:g}"'
  elif dyn == "muscle":
    a += f' dynprm="{("0.01 0.04 0", "0.02 0.03 0.3", "0.015 0.05 0", "0.01 0.04 0.6")[v]}"'
  if gain == "fixed":
    a += f' gainprm="{(1.2, -0.9, 2.1, 0.6)[v]:g}"'
  elif gain == "affine":
    a += f' gainprm="{("1.2 0.8 -0.5", "-0.9 0.4 0.7", "2.1 -0.6 0.3", "0.6 1.1 -0.9")[v]}"'
  elif gain == "muscle":
    a += f' gainprm="{_muscle_prm(v, "gain", trn)}"'
  elif gain == "user":
    a += f' gainprm="{(1.2, -0.9, 2.1, 0.6)[v]:g}"'
  if bias == "affine":
    a += f' biasprm="{("0.3 -0.9 0.4", "-0.2 0.7 -0.6", "0.5 0.4 0.8", "-0.4 -1.2 0.3")[v]}"'
  elif bias == "muscle":
    a += f' biasprm="{_muscle_prm(v, "bias", trn)}"'
  elif bias == "user":
    a += ' biasprm="0.3 -0.9 0.4"'
  if gain == "muscle" or bias == "muscle":
    a += ' lengthrange="-1.5 2.5"'
  tf = ("false", "true")
  a += f' ctrlrange="{_rng(-1, 0.8, v)}" ctrllimited="{tf[cl]}"'
  a += f' forcerange="{_rng(-0.8, 0.5, v)}" forcelimited="{tf[fl]}"'
  a += f' actrange="{_rng(-0.4, 1.2, v)}" actlimited="{tf[al]}"'
  a += f' actearly="{tf[ae]}"/>'
  return a


DECOY_HEAD = (
  '<motor name="d0" joint="j3" gear="0.5"/><general name="d1" joint="j3" dyntype="user" actdim="3" gainprm="0.3"/>'
)
DECOY_TAIL = '<general name="d2" joint="j1" dyntype="filter" dynprm="0.1" gainprm="0.2"/>'


def model_xml(actuators, v, lim, option=""):
  jl = tl = b1 = ""
  if lim:
    jl = f' actuatorfrcrange="{_rng(-0.6, 0.9, v)}" actuatorfrclimited="true"'
    tl = f' actuatorfrcrange="{_rng(-0.7, 1.1, v)}" actuatorfrclimited="true"'
    b1 = ' gravcomp="0.7"'
  ag = ' actuatorgravcomp="true"' if lim else ""
  return f"""<mujoco><compiler angle="radian"/><option timestep="0.004"{option}/>
<worldbody>
 <geom name="floor" type="plane" size="3 3 .1"/>
 <body name="b1" pos="0.31 -0.12 1.23" quat="0.9238795 0.2209424 0.2209424 0.2209424"{b1}>
  <joint name="j1" type="hinge" axis="{_AX[v]}" pos="0.1 0.05 -0.08"{jl}{ag}/>
  <geom name="g1" type="capsule" size="0.04 0.09" mass="0.9" contype="0" conaffinity="0"/>
  <site name="s1" pos="0.12 -0.05 0.07" size="0.01"/>
  <body name="b2" pos="-0.17 0.29 0.14" quat="0.8660254 -0.2886751 0.2886751 0.2886751">
   <joint name="j2" type="ball" pos="0.03 -0.02 0.05"/>
   <geom name="g2" type="box" size="0.05 0.07 0.04" mass="1.3" contype="0" conaffinity="0"/>
   <site name="s2" pos="0.09 0.11 -0.06" quat="0.8 0.36 -0.48 0" size="0.01"/>
  </body>
 </body>
 <body name="b3" pos="0.21 0.78 1.06" quat="0.9659258 0 0.1830127 -0.1830127">
  <joint name="j3" type="slide" axis="{_AX[(v + 1) % 4]}"{jl}/>
  <geom name="g3" type="sphere" size="0.07" mass="0.7" contype="0" conaffinity="0"/>
  <site name="s3" pos="-0.05 0.1 0.04" quat="0.7071068 0.5 -0.5 0" size="0.01"/>
 </body>
 <body name="b4" pos="-0.6 -0.5 0.09">
  <joint name="j4" type="free"/>
  <geom name="g4" type="sphere" size="0.1" mass="0.5"/>
 </body>
</worldbody>
<tendon>
 <fixed name="tf"{tl}><joint joint="j1" coef="0.8"/><joint joint="j3" coef="-1.7"/></fixed>
 <spatial name="ts"{tl}><site site="s1"/><site site="s2"/><site site="s3"/></spatial>
</tendon>
<actuator>{"".join(actuators)}</actuator></mujoco>"""


def state(v, s):
  """State #s (1 or 2) of the base model: qpos (13), qvel (11)."""
  sc, qu, vs = _SC[v], _QU[v], _VS[v]
  qpos = [sc[s]] + list(qu[s]) + [sc[(s + 1) % 3]] + [0.1 * s, -0.2 * s, 0.088 + 0.004 * s] + list(qu[(s + 1) % 3])
  qvel = [vs[(s + t) % 3] if (s + t) % 3 else 0.35 for t in range(11)]
  qvel[5:8] = [0.05, -0.03, -0.02]
  qvel[8:11] = [0.2, -0.1, 0.15]
  return qpos, qvel


# ------------------------------------------------------------------------------------------------ execution


def _dense_moment_mj(mjm, mjd, nact):
  import mujoco

  out = np.zeros((nact, mjm.nv))
  mujoco.mju_sparse2dense(out, mjd.actuator_moment, mjd.moment_rownnz, mjd.moment_rowadr, mjd.moment_colind)
  return out


def _dense_moment_mjw(d, w, nact, nv):
  mom = d.actuator_moment.numpy()[w].astype(np.float64)
  nnz, adr, col = d.moment_rownnz.numpy()[w], d.moment_rowadr.numpy()[w], d.moment_colind.numpy()[w]
  out = np.zeros((nact, nv))
  for u in range(nact):
    a, k = int(adr[u]), int(nnz[u])
    np.add.at(out[u], col[a : a + k], mom[a : a + k])
  return out


def _build(scn):
  """-> (list of (label, xml_of_single_actuator_model | None), assembler)"""
  v, fam = scn["variant"], scn["fam"]
  tested = []  # (label, actuator xml)
  if fam == "single":
    for i, f in enumerate(FLAGS):
      if scn.get("fl") is not None and f[1] != scn["fl"]:
        continue
      lab = f"trn={scn['trn']}:dyn={scn['dyn']}:gain={scn['gain']}:bias={scn['bias']}:flags={''.join(map(str, f))}"
      tested.append((lab, _general(scn["trn"], scn["dyn"], scn["gain"], scn["bias"], f, v, f"t{i}")))
  elif fam == "pair":
    # two different classes on one shared (limited) joint/tendon, each with the 4 (forcelimited, actearly) assignments
    i = 0
    for who in ("a", "b"):
      dyn, gain, bias = scn[who]
      for x, ae in itertools.product((0, 1), repeat=2):
        # joint: (ctrllimited, forcelimited=x); tendon: (ctrllimited=x, no force range: see the fl split above)
        f = (x, 0, 0, ae) if scn["trn"].startswith("tendon") else (1, x, 0, ae)
        lab = f"trn={scn['trn']}:dyn={dyn}:gain={gain}:bias={bias}:flags={''.join(map(str, f))}:pair"
        tested.append((lab, _general(scn["trn"], dyn, gain, bias, f, v, f"t{i}")))
        i += 1
  elif fam == "dcmotor":
    cfg = DCMOTORS[scn["dc"]]
    K, R = ((0.05, 2.0), (0.3, 1.2), (0.08, 0.6), (1.1, 3.0))[v]
    for i, cl in enumerate((0, 1)):
      lab = f"trn={scn['trn']}:dcmotor={scn['dc']}:ctrllimited={cl}"
      tested.append(
        (
          lab,
          f'<dcmotor name="t{i}" {_trn_attr(scn["trn"], v)} motorconst="{K:g}" resistance="{R:g}" {cfg} '
          f'ctrlrange="{_rng(-1, 0.8, v)}" ctrllimited="{("false", "true")[cl]}"/>',
        )
      )
  elif fam == "actpassive":
    k = scn["k"]
    extra = ('damping="0.5"', 'armature="0.3"', 'damping="0.4" armature="0.2"', 'damping="0.5"')[k]
    el = "position" if k == 3 else "motor"
    kp = ' kp="3"' if k == 3 else ""
    tested.append((f"trn={scn['trn']}:actpassive={k}", f'<{el} name="t0" {_trn_attr(scn["trn"], v)}{kp} {extra}/>'))
  return tested


class _Cmp(util.Cmp):
  """One scenario holds up to 19 actuators x 7 fields: keep every failing (actuator, field) class, not just 12."""

  def fail(self, vkey, what, **extra):
    if len(self.violations) < 300:
      self.violations.append(dict(vkey=f"{self.prefix}{vkey}", what=what, **extra))


def _dcnone(scn):
  """MuJoCo 3.13 <dcmotor input="none">: an actuator without a control (nu=0, one actuator)."""
  import mujoco
  import mujoco_warp as mjw

  v = scn["variant"]
  xml = model_xml([f'<dcmotor name="t0" {_trn_attr(scn["trn"], v)} motorconst="0.3" resistance="1.2" input="none"/>'], v, 0)
  mjm, err = util.try_load(xml)
  key = util.sha(scn)
  if mjm is None:
    return dict(ok=True, nontrivial=False, outcome="rejected_by_compiler", key=key, info=dict(err=err))
  c = _Cmp()
  try:
    m = mjw.put_model(mjm)
    d = mjw.make_data(mjm)
  except NotImplementedError as e:
    return dict(ok=True, nontrivial=False, outcome="unsupported", key=key, info=dict(err=str(e)[:120]))
  except Exception as e:  # any other exception on a model MuJoCo accepts is a defect of put_model, not of the harness
    c.fail("put_model_exception:dcmotor_input_none", f"put_model/make_data raised {type(e).__name__}: {str(e)[:160]}")
    return c.result(nontrivial=True, key=key, outcome="ok")
  qpos, qvel = state(v, 1)
  mjd = util.mj_data(mjm, qpos=qpos, qvel=qvel)
  mujoco.mj_forward(mjm, mjd)
  util.copy_state(mjd, d)
  mjw.forward(m, d)
  c.close("actuator_force", d.actuator_force.numpy()[0], mjd.actuator_force, "f32", vkey="actuator_force:dcmotor_input_none")
  c.close("qfrc_actuator", d.qfrc_actuator.numpy()[0], mjd.qfrc_actuator, "f32", vkey="qfrc_actuator:dcmotor_input_none")
  return c.result(nontrivial=bool(np.abs(mjd.actuator_force).max() > 1e-9), key=key, outcome="ok")


def execute(scn):
  import mujoco
  import mujoco_warp as mjw

  if scn["fam"] == "dcnone":
    return _dcnone(scn)
  v, lim = scn["variant"], scn.get("lim", 0)
  tested = _build(scn)
  accepted, nrej, rej_msgs = [], 0, set()
  for lab, ax in tested:
    mj1, err = util.try_load(model_xml([ax], v, lim))
    if mj1 is None:
      nrej += 1
      rej_msgs.add(err.split("\n")[0][:80])
    else:
      accepted.append((lab, ax))
  counts = dict(actuators_rejected_by_compiler=nrej, actuators_accepted=len(accepted))
  if not accepted:
    return dict(ok=True, nontrivial=False, outcome="rejected_by_compiler", key=util.sha(scn), info=dict(err=sorted(rej_msgs)), counts=counts)

  xml = model_xml([DECOY_HEAD] + [a for _, a in accepted] + [DECOY_TAIL], v, lim)
  mjm = util.load(xml)  # every part compiled on its own: a failure here is a harness error
  c = _Cmp()
  key = util.sha(scn)
  try:
    m = mjw.put_model(mjm)
  except NotImplementedError as e:
    return dict(ok=True, nontrivial=False, outcome="unsupported", key=key, info=dict(err=str(e)[:120]), counts=counts)

  nact = mjm.nu
  if int(np.sum(mjm.actuator_ctrlnum)) != nact or nact != len(accepted) + 3:
    raise RuntimeError("driver assumes one control per actuator")
  nv, na = mjm.nv, mjm.na
  labels = ["decoy"] * 2 + [lab for lab, _ in accepted] + ["decoy"]
  first, last = 2, 2 + len(accepted)

  # inputs per world
  sg = _sgn(v)
  qpos = np.zeros((NWORLD, mjm.nq))
  qvel = np.zeros((NWORLD, nv))
  ctrl = np.zeros((NWORLD, nact))
  act = np.zeros((NWORLD, na))
  for w in range(NWORLD):
    qpos[w], qvel[w] = state(v, 1 + (w % 2))
    for u in range(nact):
      ctrl[w, u] = sg * CTRL[(w + u) % 3] * (1.0 + 0.02 * u)
    for a in range(na):
      act[w, a] = sg * ACT[(w // 3 + a) % 3] * (1.0 + 0.01 * a)

  nontrivial = False
  base_flags = int(mjm.opt.disableflags)
  for clamp_off in (0, 1):
    flags = base_flags | (int(mujoco.mjtDisableBit.mjDSBL_CLAMPCTRL) if clamp_off else 0)
    mjm.opt.disableflags = flags
    m.opt.disableflags = flags
    # ---- reference
    ref = {k: [] for k in ("actuator_length", "actuator_velocity", "actuator_force", "act_dot", "qfrc_actuator", "moment", "act_next", "qacc", "gravcomp")}
    good = np.ones(NWORLD, bool)
    for w in range(NWORLD):
      mjd = util.mj_data(mjm, qpos=qpos[w], qvel=qvel[w], ctrl=ctrl[w], act=act[w] if na else None)
      mujoco.mj_forward(mjm, mjd)
      for k in ("actuator_length", "actuator_velocity", "actuator_force", "act_dot", "qfrc_actuator", "qacc"):
        ref[k].append(np.array(getattr(mjd, k)))
      ref["moment"].append(_dense_moment_mj(mjm, mjd, nact))
      ref["gravcomp"].append(np.array(mjd.qfrc_gravcomp))
      warn_fwd = util.mj_warnings(mjd)
      mujoco.mj_step(mjm, mjd)
      ref["act_next"].append(np.array(mjd.act))
      if warn_fwd or util.mj_warnings(mjd) or not all(np.all(np.isfinite(ref[k][-1])) for k in ref):
        good[w] = False
    ref = {k: np.array(x) for k, x in ref.items()}
    if not good.any():
      continue
    # ---- MJWarp
    d = mjw.make_data(mjm, nworld=NWORLD)  # (reset_data re-builds a kernel on every call: ~20 ms)
    util.set_field(d.qpos, qpos)
    util.set_field(d.qvel, qvel)
    util.set_field(d.ctrl, ctrl)
    if na:
      util.set_field(d.act, act)
    mjw.forward(m, d)
    got = dict(
      actuator_length=d.actuator_length.numpy(),
      actuator_velocity=d.actuator_velocity.numpy(),
      actuator_force=d.actuator_force.numpy(),
      act_dot=d.act_dot.numpy(),
      qfrc_actuator=d.qfrc_actuator.numpy(),
      moment=np.array([_dense_moment_mjw(d, w, nact, nv) for w in range(NWORLD)]),
    )
    qacc_fwd = d.qacc.numpy().copy()
    mjw.step(m, d)
    got["act_next"] = d.act.numpy()
    g = good
    inter = ""
    if scn.get("fl") == 1:
      inter = ":tenfrc*forcerange"  # tendon total-force limit together with actuator force ranges
    elif scn["fam"] == "dcmotor" and lim and scn["trn"].startswith("tendon"):
      cfg = DCMOTORS[scn["dc"]]
      if "lugre" in cfg or "cogging" in cfg:
        inter = ":tenfrc*dcmotor_mech"  # ... together with the DC motor's mechanical (cogging / LuGre) forces
      elif "saturation" in cfg:
        inter = ":tenfrc*forcerange"  # saturation = an actuator force range
    tag = f":lim={lim}{inter}:clampoff={clamp_off}"
    for u in range(nact):
      lab = labels[u]
      for f in ("actuator_length", "actuator_velocity", "actuator_force"):
        c.close(f"{f}[{u}]{tag}", got[f][g, u], ref[f][g, u], "f32", vkey=f"{f}:{lab}{tag}")
      c.close(f"actuator_moment[{u}]{tag}", got["moment"][g, u], ref["moment"][g, u], "f32", vkey=f"actuator_moment:{lab}{tag}")
      a0, an = int(mjm.actuator_actadr[u]), int(mjm.actuator_actnum[u])
      if a0 >= 0 and an:
        c.close(f"act_dot[{u}]{tag}", got["act_dot"][g, a0 : a0 + an], ref["act_dot"][g, a0 : a0 + an], "f32", vkey=f"act_dot:{lab}{tag}")
        c.close(f"act_next[{u}]{tag}", got["act_next"][g, a0 : a0 + an], ref["act_next"][g, a0 : a0 + an], "f32", vkey=f"act_next:{lab}{tag}")
    what = labels[first].rsplit(":flags=", 1)[0]
    if scn["fam"] == "pair":
      what = f"trn={scn['trn']}:pair:" + "|".join("/".join(scn[k]) for k in ("a", "b"))
    c.close(f"qfrc_actuator{tag}", got["qfrc_actuator"][g], ref["qfrc_actuator"][g], "f32", vkey=f"qfrc_actuator:{what}{tag}")
    # qfrc_actuator must also be the transmission of MJWarp's own forces (keeps its teeth when a force is known-wrong):
    # clamp(moment^T force + actuator-level gravity compensation) with MuJoCo's gravcomp and ranges
    own = np.einsum("wuv,wu->wv", got["moment"], got["actuator_force"].astype(np.float64))
    for j in range(mjm.njnt):
      dofs = np.nonzero(mjm.dof_jntid == j)[0]
      if mjm.jnt_actgravcomp[j]:
        own[:, dofs] += ref["gravcomp"][:, dofs]
      if mjm.jnt_actfrclimited[j]:
        own[:, dofs] = np.clip(own[:, dofs], mjm.jnt_actfrcrange[j, 0], mjm.jnt_actfrcrange[j, 1])
    c.close(f"qfrc_actuator_vs_own_forces{tag}", got["qfrc_actuator"][g], own[g], "f32", vkey=f"qfrc_actuator_vs_own_forces:{what}{tag}")
    if scn["fam"] == "actpassive":
      # actuator-level damping/armature act through the passive force and the inertia: visible in qacc only
      c.close(f"qacc{tag}", qacc_fwd[g], ref["qacc"][g], "f32dyn", vkey=f"qacc:{what}{tag}")
    # non-triviality: the feature under test is active in the reference
    tf = ref["actuator_force"][g, first:last]
    tm = ref["moment"][g, first:last]
    active = np.abs(tf).max() > 1e-6 and np.abs(tm).max() > 1e-9
    a0 = int(mjm.actuator_actadr[first])
    if active and a0 >= 0 and scn.get("dyn") != "user":
      alla = [int(mjm.actuator_actadr[u]) + int(mjm.actuator_actnum[u]) - 1 for u in range(first, last)]
      active = np.abs(ref["act_dot"][g][:, alla]).max() > 1e-6 and np.abs(ref["act_next"][g][:, alla] - act[g][:, alla]).max() > 1e-9
    nontrivial = nontrivial or bool(active)
    counts["worlds_degenerate"] = counts.get("worlds_degenerate", 0) + int((~good).sum())
    counts["extra_evaluations"] = counts.get("extra_evaluations", 0) + int(good.sum()) * len(accepted)
  mjm.opt.disableflags = base_flags
  return c.result(
    nontrivial=nontrivial,
    key=key,
    outcome="ok",
    info=dict(nact=int(nact), na=int(na), accepted=len(accepted), rejected=nrej, rej=sorted(rej_msgs), checked=c.nchecked, maxrel=float(f"{c.maxrel:.3g}")),
    counts=counts,
  )
