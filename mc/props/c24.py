"""C24 Constraint forces are physically admissible.

Space: C06's scenes (every 3-body tree x joint pattern x feature sets; dedicated contact scenes), which include adhesive
contacts (penetrating, inside the margin, inside the gap), friction-loss rows on dofs and tendons in both linear zones and the
quadratic zone (full-speed and 1%-speed worlds) x cone x solver x jacobian; batch of 3 worlds.
Oracle (MJWarp outputs only): unilateral rows (limits, frictionless and elliptic normal rows, pyramidal edges) carry force
>= -eps; elliptic contact forces lie in the friction cone; |friction-loss force| <= frictionloss; SATISFIED rows carry exactly
zero force (and non-zero force implies a non-SATISFIED state); qfrc_constraint = J' force; contact_force() agrees with the
rows it decodes (normal = sum of pyramid edges / normal row, minus adhesion).
"""

import numpy as np

from mc import space, util
from mc.refs import conscenes as cs
from mc.refs import cost
from mc.props import c06

ID = "C24"
LEVEL = "exploration"
RULE = (
  "enumerate C06's scenes; each scenario runs 2 cones x 2 solvers x 2 jacobians on a 3-world batch; non-trivial = at least one "
  "unilateral or friction-loss row with non-zero force was checked; distinct = canonical hash of the spec"
)
BOUNDS = {
  "quick": "feature sets k<=1 (all options) on all 5 trees, k=2 (core options) on one tree each (cycling), joint pattern alternating; 7 dedicated scenes x 2 variants",
  "thorough": "k<=1 on all trees x both patterns, k=2 (all options) on all trees (pattern alternating), k=3 (core) cycling trees; 7 dedicated scenes x 4 variants",
}
ASSUMPTIONS = [
  "eps = 1e-5*(1+max|force| of the world): sign/zero conditions are exact in the kernels (force is either 0, +-frictionloss or -D*jar with jar<0), the slack only absorbs float32 products in the cone test",
  "elliptic cone test: sqrt(sum_j (f_j/friction_j)^2) <= f_0*(1+1e-4)+eps, impratio=1",
  "adhesion: the admissibility conditions are on efc.force (the solver's cone force); contact_force() reports normal - adhesion and may be negative",
  "qfrc_constraint = J'force under class f32dyn relative to the magnitudes summed (incl. M*qacc and qfrc_smooth: the Newton path recovers it from the gradient)",
  "CPU backend, default warmstart (zero), opt.iterations=100",
]
BUDGET = {"quick": 600, "thorough": 3000}


def scenarios(tier, seed):
  return c06.scenarios(tier, seed)


def worker_init():
  c06.worker_init()


def check_world(c, pre, mjw, mjm, m, d, w, cone, tagkey):
  nefc, rows = util.efc_dense(m, d, w)
  if nefc == 0:
    # no rows: J'force = 0.  The Newton/pyramidal path recovers qfrc_constraint as M*qacc - qfrc_smooth - grad, which leaves
    # float32 cancellation noise (~1e-6 observed); judged by the same class as the loaded case, not bit-exactly.
    qf = d.qfrc_constraint.numpy()[w].astype(np.float64)
    M = util.full_m(mjm, d, w)
    mag = np.abs(M) @ np.abs(d.qacc.numpy()[w].astype(np.float64))
    c.close(pre + "qfrc_constraint without rows", qf, np.zeros_like(qf), "f32dyn", scale=1 + float(np.max(mag, initial=0.0)), vkey=f"qfrc_constraint_without_rows:{tagkey}")
    return 0
  t, f, st = rows["type"], rows["force"], rows["state"]
  if not np.all(np.isfinite(f)):
    c.fail(f"force_nonfinite:{tagkey}", f"{pre}efc.force not finite")
    return 0
  eps = 1e-5 * (1 + float(np.max(np.abs(f))))
  nchk = 0
  cons = util.mjw_contacts(d, w)
  in_cone = np.zeros(nefc, bool)
  normal = np.zeros(nefc, bool)
  for con in cons:
    adr = np.asarray(con["efc_address"]).reshape(-1)
    dim = int(con["dim"])
    if adr[0] < 0:
      continue
    if cone == 1 and dim > 1:
      r = adr[:dim].astype(int)
      in_cone[r[1:]] = True
      normal[r[0]] = True
      fr = np.asarray(con["friction"], np.float64)[: dim - 1]
      ft = float(np.sqrt(np.sum((f[r[1:]] / fr) ** 2)))
      c.true(
        pre + "elliptic cone",
        ft <= f[r[0]] * (1 + 1e-4) + eps,
        f"contact {con['index']} dim {dim}: |f_t/mu|={ft:.7g} > f_n={f[r[0]]:.7g} (forces {f[r].tolist()}, friction {fr.tolist()})",
        vkey=f"cone:{tagkey}:dim{dim}",
      )
      nchk += f[r[0]] != 0
  # unilateral rows
  uni = ((t == 3) | (t == 4) | (t == 5) | (t == 6) | normal) & ~in_cone
  bad = np.nonzero(uni & (f < -eps))[0]
  c.nchecked += 1
  if bad.size:
    r = int(bad[0])
    c.fail(f"negative_force:{tagkey}:type{int(t[r])}", f"{pre}row {r} type {int(t[r])}: force {f[r]:.7g} < 0")
  nchk += int(np.sum(uni & (f != 0)))
  # friction loss
  fl = (t == 1) | (t == 2)
  bad = np.nonzero(fl & (np.abs(f) > rows["frictionloss"] * (1 + 1e-6) + 1e-9))[0]
  c.nchecked += 1
  if bad.size:
    r = int(bad[0])
    c.fail(f"frictionloss_exceeded:{tagkey}:type{int(t[r])}", f"{pre}row {r} type {int(t[r])}: |force| {abs(f[r]):.7g} > frictionloss {rows['frictionloss'][r]:.7g}")
  nchk += int(np.sum(fl & (f != 0)))
  # satisfied <=> zero force (unilateral rows and cones)
  sat = st == cost.SATISFIED
  bad = np.nonzero(sat & (f != 0))[0]
  c.nchecked += 1
  if bad.size:
    r = int(bad[0])
    c.fail(f"satisfied_nonzero:{tagkey}:type{int(t[r])}", f"{pre}row {r} type {int(t[r])} state SATISFIED but force {f[r]:.7g}")
  bad = np.nonzero((t == 0) & (st != cost.QUADRATIC))[0]
  if bad.size:
    c.fail(f"equality_state:{tagkey}", f"{pre}equality row {int(bad[0])} in state {int(st[bad[0]])}")
  lin = fl & ((st == cost.LINEARNEG) | (st == cost.LINEARPOS))
  want = np.where(st == cost.LINEARNEG, rows["frictionloss"], -rows["frictionloss"])
  bad = np.nonzero(lin & (np.abs(f - want) > 1e-6 * (1 + np.abs(want))))[0]
  c.nchecked += 1
  if bad.size:
    r = int(bad[0])
    c.fail(f"linear_zone_force:{tagkey}", f"{pre}friction row {r} state {int(st[r])}: force {f[r]:.7g} != {want[r]:.7g}")
  # generalized force
  qfc = d.qfrc_constraint.numpy()[w].astype(np.float64)
  M = util.full_m(mjm, d, w)
  qacc = d.qacc.numpy()[w].astype(np.float64)
  mag = np.abs(rows["J"].T) @ np.abs(f)
  mag = np.maximum(mag, np.maximum(np.abs(M) @ np.abs(qacc), np.abs(M) @ np.abs(d.qacc_smooth.numpy()[w].astype(np.float64))))
  c.close(f"{pre}qfrc_constraint = J'force", qfc, rows["J"].T @ f, "f32dyn", scale=1 + float(np.max(mag)), vkey=f"qfrc_constraint:{tagkey}")
  return nchk


def check_contact_force(c, pre, mjw, m, d, cone, tagkey):
  """contact_force() must be consistent with the rows (all worlds at once)."""
  import warp as wp

  nacon = min(int(d.nacon.numpy()[0]), d.naconmax)
  if nacon == 0:
    return 0
  ids = wp.array(np.arange(nacon, dtype=np.int32), dtype=int)
  out = wp.zeros(nacon, dtype=wp.spatial_vector)
  mjw.contact_force(m, d, ids, False, out)
  got = out.numpy().astype(np.float64)
  F = d.efc.force.numpy().astype(np.float64)
  wid = d.contact.worldid.numpy()[:nacon]
  dim = d.contact.dim.numpy()[:nacon]
  adr = d.contact.efc_address.numpy()[:nacon]
  fri = d.contact.friction.numpy()[:nacon].astype(np.float64)
  adh = d.contact.adhesion.numpy()[:nacon].astype(np.float64)
  n = 0
  for i in range(nacon):
    want = np.zeros(6)
    if adr[i, 0] >= 0:
      f = F[wid[i]]
      if dim[i] == 1:
        want[0] = f[adr[i, 0]]
      elif cone == 1:
        want[: dim[i]] = f[adr[i, : dim[i]]]
      else:
        for k in range(dim[i] - 1):
          a, b = f[adr[i, 2 * k]], f[adr[i, 2 * k + 1]]
          want[0] += a + b
          want[k + 1] = (a - b) * fri[i, k]
      want[0] -= adh[i]
      n += 1
    c.close(f"{pre}contact_force[{i}]", got[i], want, "f32", vkey=f"contact_force_vs_rows:{tagkey}")
  return n


def execute(scn):
  import mujoco
  import mujoco_warp as mjw

  mjm, info = c06.build(scn)
  if mjm is None:
    return dict(ok=True, nontrivial=False, outcome="rejected_by_compiler", info=info)
  c = util.Cmp()
  states = info["states"]
  nchk = nconfig = ncf = 0
  for cone in (0, 1):
    mjm.opt.cone = cone
    for jac in (0, 1):
      mjm.opt.jacobian = jac
      for solver in (2, 1):
        mjm.opt.solver = solver
        m = mjw.put_model(mjm)
        kw = dict(info["kw"])
        if jac:
          kw.setdefault("njmax", 64)
          kw["njmax_nnz"] = int(kw["njmax"]) * mjm.nv
        d = mjw.make_data(mjm, nworld=3, **kw)
        for w, (qpos, qvel) in enumerate(states):
          util.copy_state(util.mj_data(mjm, qpos=qpos, qvel=qvel), d, world=w)
        if info["eq_off"]:
          ea = d.eq_active.numpy()
          ea[:, info["eq_off"]] = False
          util.set_field(d.eq_active, ea)
        mjw.forward(m, d)
        nconfig += 1
        tagkey = f"{'newton' if solver == 2 else 'cg'}:{'elliptic' if cone else 'pyramidal'}:{'sparse' if jac else 'dense'}"
        for w in range(3):
          nchk += check_world(c, f"{tagkey}:w{w}:", mjw, mjm, m, d, w, cone, tagkey)
        ncf += check_contact_force(c, f"{tagkey}:", mjw, m, d, cone, tagkey)
  return c.result(
    nontrivial=nchk > 0,
    key=util.sha(scn),
    info=dict(nv=int(mjm.nv), loaded_rows_checked=int(nchk), contact_forces_checked=int(ncf), configs=nconfig, checked=c.nchecked),
    counts=dict(extra_evaluations=nconfig * 3),
  )
