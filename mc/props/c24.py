"""C24 Constraint forces are physically admissible.

Space: C06's scenes (every 3-body tree x joint pattern x feature sets; dedicated contact scenes), which include adhesive
contacts (penetrating, inside the margin, inside the gap), friction-loss rows on dofs and tendons in both linear zones and the
quadratic zone (full-speed and 1%-speed worlds) x cone x solver x jacobian; batch of 3 worlds.
Plus (mc/refs/c24scenes.py) per-world force-law parameters: every batched Model/Option field that enters the row force law
(impratio, friction, solref, solimp, frictionloss of contacts, explicit pairs, dofs, joint limits, tendons) holding 3
distinct values along its batch dimension x a geometric sweep of 20 speeds (+ rest, reversed, separating/design) that
carries contacts from sticking through the stick/slip boundary to full sliding and friction-loss rows from the quadratic
zone into saturation; world w = (value w % 3, state w // 3), so values x states are crossed exhaustively in one batch.
Oracle (MJWarp outputs only): unilateral rows (limits, frictionless and elliptic normal rows, pyramidal edges) carry force
>= -eps; elliptic contact forces lie in the friction cone; |friction-loss force| <= frictionloss; SATISFIED rows carry exactly
zero force (and non-zero force implies a non-SATISFIED state); qfrc_constraint = J' force; contact_force() agrees with the
rows it decodes (normal = sum of pyramid edges / normal row, minus adhesion).
"""

import numpy as np

from mc import space, util
from mc.refs import c24scenes as bs
from mc.refs import conscenes as cs
from mc.refs import cost
from mc.props import c06

ID = "C24"
LEVEL = "exploration"
RULE = (
  "enumerate C06's scenes; each scenario runs 2 cones x 2 solvers x 2 jacobians on a 3-world batch; non-trivial = at least one "
  "unilateral or friction-loss row with non-zero force was checked; distinct = canonical hash of the spec. Batched family: "
  "every force-law field x value assignment x scene variant, each run under the same 8 configs on a batch of 3 values x 23 "
  "states; non-trivial additionally requires that worlds in the same state but with different values report different forces"
)
BOUNDS = {
  "quick": "feature sets k<=1 (all options) on all 5 trees, k=2 (core options) on one tree each (cycling), joint pattern alternating; 7 dedicated scenes x 2 variants; 18 batched fields x 1 value assignment (world 0 = middle value) x 1 variant x 69 worlds",
  "thorough": "k<=1 on all trees x both patterns, k=2 (all options) on all trees (pattern alternating), k=3 (core) cycling trees; 7 dedicated scenes x 4 variants; 18 batched fields x 3 value assignments (rotations) x 2 variants x 69 worlds",
}
ASSUMPTIONS = [
  "eps = 1e-5*(1+max|force| of the world): sign/zero conditions are exact in the kernels (force is either 0, +-frictionloss or -D*jar with jar<0), the slack only absorbs float32 products in the cone test",
  "elliptic cone test: sqrt(sum_j (f_j/friction_j)^2) <= f_0*(1+1e-4)+eps with the contact's own friction coefficients; impratio only regularises the primal cone (mu = friction_0/sqrt(impratio)) and the middle-zone force lies on this cone for every impratio, so the same test applies to every world of an impratio batch",
  "batched family: speeds form a geometric grid of ratio 2^(1/3) between 0.01 and 0.8 (m/s resp. fraction of the design velocity); a zone narrower than that ratio can be stepped over",
  "adhesion: the admissibility conditions are on efc.force (the solver's cone force); contact_force() reports normal - adhesion and may be negative",
  "qfrc_constraint = J'force under class f32dyn relative to the magnitudes summed (incl. M*qacc and qfrc_smooth: the Newton path recovers it from the gradient) plus 2 eps32 * max_dof |J|'D(|J||qacc|+|aref|): one float32 rounding of each of the two sums that cancel inside the row law (matters only for stiff rows, e.g. pyramid edges at impratio >= 8)",
  "CPU backend, default warmstart (zero), opt.iterations=100",
]
BUDGET = {"quick": 600, "thorough": 3000}
EPS32 = 1.1920929e-07


def scenarios(tier, seed):
  # C06's scene families this driver is written for (C06 may enumerate further families for its own oracles)
  return [s for s in c06.scenarios(tier, seed) if s["fam"] in ("tree", "dedicated")] + bs.scenarios(tier, seed)


def worker_init():
  c06.worker_init()


class Snap:
  """Host copy of everything the checks read, taken once per forward(): rows(w) / contacts(w) return exactly what
  util.efc_dense(m, d, w) / util.mjw_contacts(d, w) return (those copy every array again for every world)."""

  def __init__(self, m, d):
    e = d.efc
    self.nv, self.sparse, self.njmax = m.nv, bool(m.is_sparse), d.njmax
    self.nefc = d.nefc.numpy()
    self.J = e.J.numpy()
    if self.sparse:
      self.rownnz, self.rowadr, self.colind = e.J_rownnz.numpy(), e.J_rowadr.numpy(), e.J_colind.numpy()
    self.f = {k: getattr(e, k).numpy() for k in ("type", "id", "pos", "margin", "D", "vel", "aref", "frictionloss", "force", "state")}
    n = min(int(d.nacon.numpy()[0]), d.naconmax)
    self.nacon = n
    c = d.contact
    names = ("dist", "pos", "frame", "includemargin", "friction", "solref", "solreffriction", "solimp", "dim", "geom", "efc_address", "worldid", "adhesion")
    self.c = {k: getattr(c, k).numpy()[:n] for k in names}
    self.qfrc_constraint = d.qfrc_constraint.numpy()
    self.qacc = d.qacc.numpy()
    self.qacc_smooth = d.qacc_smooth.numpy()
    self.M = d.M.numpy()

  def rows(self, w):
    nefc = min(int(self.nefc[w]), self.njmax)
    nv = self.nv
    J = np.zeros((nefc, nv))
    if self.sparse:
      rownnz, rowadr, colind, Jv = self.rownnz[w], self.rowadr[w], self.colind[w, 0], self.J[w, 0]
      for r in range(nefc):
        a, k = int(rowadr[r]), int(rownnz[r])
        J[r, colind[a : a + k]] = Jv[a : a + k]
    else:
      J[:] = self.J[w, :nefc, :nv]
    rows = dict(J=J)
    for k, v in self.f.items():
      rows[k] = v[w, :nefc].copy() if k in ("type", "id", "state") else v[w, :nefc].astype(np.float64)
    return nefc, rows

  def contacts(self, w):
    out = []
    for i in np.nonzero(self.c["worldid"] == w)[0]:
      out.append({k: np.array(v[i], dtype=np.float64 if v.dtype.kind == "f" else v.dtype) for k, v in self.c.items()} | {"index": int(i)})
    return out

  def full_m(self, mjm, w):
    import mujoco

    out = np.zeros((mjm.nv, mjm.nv))
    mujoco.mju_sym2dense(out, self.M[w].astype(np.float64), mjm.M_rownnz, mjm.M_rowadr, mjm.M_colind)
    return out


def check_world(c, pre, mjm, S, w, cone, tagkey):
  nefc, rows = S.rows(w)
  if nefc == 0:
    # no rows: J'force = 0.  The Newton/pyramidal path recovers qfrc_constraint as M*qacc - qfrc_smooth - grad, which leaves
    # float32 cancellation noise (~1e-6 observed); judged by the same class as the loaded case, not bit-exactly.
    qf = S.qfrc_constraint[w].astype(np.float64)
    M = S.full_m(mjm, w)
    mag = np.abs(M) @ np.abs(S.qacc[w].astype(np.float64))
    c.close(pre + "qfrc_constraint without rows", qf, np.zeros_like(qf), "f32dyn", scale=1 + float(np.max(mag, initial=0.0)), vkey=f"qfrc_constraint_without_rows:{tagkey}")
    return 0
  t, f, st = rows["type"], rows["force"], rows["state"]
  if not np.all(np.isfinite(f)):
    c.fail(f"force_nonfinite:{tagkey}", f"{pre}efc.force not finite")
    return 0
  eps = 1e-5 * (1 + float(np.max(np.abs(f))))
  nchk = 0
  cons = S.contacts(w)
  in_cone = np.zeros(nefc, bool)
  normal = np.zeros(nefc, bool)
  for con in cons:
    adr = np.asarray(con["efc_address"]).reshape(-1)
    dim = int(con["dim"])
    if adr[0] < 0:
      continue
    if cone == 1 and dim > 1:
      r = adr[:dim].astype(int)
      in_cone[r[1:]] = True
      normal[r[0]] = True
      fr = np.asarray(con["friction"], np.float64)[: dim - 1]
      ft = float(np.sqrt(np.sum((f[r[1:]] / fr) ** 2)))
      c.true(
        pre + "elliptic cone",
        ft <= f[r[0]] * (1 + 1e-4) + eps,
        f"contact {con['index']} dim {dim}: |f_t/mu|={ft:.7g} > f_n={f[r[0]]:.7g} (forces {f[r].tolist()}, friction {fr.tolist()})",
        vkey=f"cone:{tagkey}:dim{dim}",
      )
      nchk += f[r[0]] != 0
  # unilateral rows
  uni = ((t == 3) | (t == 4) | (t == 5) | (t == 6) | normal) & ~in_cone
  bad = np.nonzero(uni & (f < -eps))[0]
  c.nchecked += 1
  if bad.size:
    r = int(bad[0])
    c.fail(f"negative_force:{tagkey}:type{int(t[r])}", f"{pre}row {r} type {int(t[r])}: force {f[r]:.7g} < 0")
  nchk += int(np.sum(uni & (f != 0)))
  # friction loss
  fl = (t == 1) | (t == 2)
  bad = np.nonzero(fl & (np.abs(f) > rows["frictionloss"] * (1 + 1e-6) + 1e-9))[0]
  c.nchecked += 1
  if bad.size:
    r = int(bad[0])
    c.fail(f"frictionloss_exceeded:{tagkey}:type{int(t[r])}", f"{pre}row {r} type {int(t[r])}: |force| {abs(f[r]):.7g} > frictionloss {rows['frictionloss'][r]:.7g}")
  nchk += int(np.sum(fl & (f != 0)))
  # satisfied <=> zero force (unilateral rows and cones)
  sat = st == cost.SATISFIED
  bad = np.nonzero(sat & (f != 0))[0]
  c.nchecked += 1
  if bad.size:
    r = int(bad[0])
    c.fail(f"satisfied_nonzero:{tagkey}:type{int(t[r])}", f"{pre}row {r} type {int(t[r])} state SATISFIED but force {f[r]:.7g}")
  bad = np.nonzero((t == 0) & (st != cost.QUADRATIC))[0]
  if bad.size:
    c.fail(f"equality_state:{tagkey}", f"{pre}equality row {int(bad[0])} in state {int(st[bad[0]])}")
  lin = fl & ((st == cost.LINEARNEG) | (st == cost.LINEARPOS))
  want = np.where(st == cost.LINEARNEG, rows["frictionloss"], -rows["frictionloss"])
  bad = np.nonzero(lin & (np.abs(f - want) > 1e-6 * (1 + np.abs(want))))[0]
  c.nchecked += 1
  if bad.size:
    r = int(bad[0])
    c.fail(f"linear_zone_force:{tagkey}", f"{pre}friction row {r} state {int(st[r])}: force {f[r]:.7g} != {want[r]:.7g}")
  # generalized force
  qfc = S.qfrc_constraint[w].astype(np.float64)
  M = S.full_m(mjm, w)
  qacc = S.qacc[w].astype(np.float64)
  mag = np.abs(rows["J"].T) @ np.abs(f)
  mag = np.maximum(mag, np.maximum(np.abs(M) @ np.abs(qacc), np.abs(M) @ np.abs(S.qacc_smooth[w].astype(np.float64))))
  # stiff rows: force = -D*(J*qacc - aref) cancels |J||qacc| against |aref| (factor ~1e3 for pyramid edges with impratio >= 8,
  # D ~ 600), so no float32 evaluation of J'force is defined more finely than one rounding of each of the two cancelling sums
  # |J|'D|J||qacc| and |J|'D|aref|.  The Newton/pyramidal fast path (qfrc_constraint = M*qacc - qfrc_smooth - grad_scale*grad,
  # grad extrapolated along the Newton ray) leaves the residual of its float32 Cholesky solve there: measured <= 0.91 eps32 of
  # that magnitude over all batched scenes, seeds 0-3 (every other path: <= 0.02); efc.force itself is that far from the
  # float64 row law.  In the non-stiff scenes eps32*stiff is 4-12 % of the f32dyn term, i.e. the allowance adds 8-24 % there.
  stiff = np.abs(rows["J"].T) @ (rows["D"] * (np.abs(rows["J"]) @ np.abs(qacc) + np.abs(rows["aref"])))
  c.close(
    f"{pre}qfrc_constraint = J'force", qfc, rows["J"].T @ f, "f32dyn", scale=1 + float(np.max(mag)), vkey=f"qfrc_constraint:{tagkey}", atol=2 * EPS32 * float(np.max(stiff))
  )
  return nchk


def check_contact_force(c, pre, mjw, m, d, cone, tagkey):
  """contact_force() must be consistent with the rows (all worlds at once)."""
  import warp as wp

  nacon = min(int(d.nacon.numpy()[0]), d.naconmax)
  if nacon == 0:
    return 0
  ids = wp.array(np.arange(nacon, dtype=np.int32), dtype=int)
  out = wp.zeros(nacon, dtype=wp.spatial_vector)
  mjw.contact_force(m, d, ids, False, out)
  got = out.numpy().astype(np.float64)
  F = d.efc.force.numpy().astype(np.float64)
  wid = d.contact.worldid.numpy()[:nacon]
  dim = d.contact.dim.numpy()[:nacon]
  adr = d.contact.efc_address.numpy()[:nacon]
  fri = d.contact.friction.numpy()[:nacon].astype(np.float64)
  adh = d.contact.adhesion.numpy()[:nacon].astype(np.float64)
  n = 0
  for i in range(nacon):
    want = np.zeros(6)
    if adr[i, 0] >= 0:
      f = F[wid[i]]
      if dim[i] == 1:
        want[0] = f[adr[i, 0]]
      elif cone == 1:
        want[: dim[i]] = f[adr[i, : dim[i]]]
      else:
        for k in range(dim[i] - 1):
          a, b = f[adr[i, 2 * k]], f[adr[i, 2 * k + 1]]
          want[0] += a + b
          want[k + 1] = (a - b) * fri[i, k]
      want[0] -= adh[i]
      n += 1
    c.close(f"{pre}contact_force[{i}]", got[i], want, "f32", vkey=f"contact_force_vs_rows:{tagkey}")
  return n


def _configs(mjm):
  for cone in (0, 1):
    mjm.opt.cone = cone
    for jac in (0, 1):
      mjm.opt.jacobian = jac
      for solver in (2, 1):
        mjm.opt.solver = solver
        yield cone, jac, solver, f"{'newton' if solver == 2 else 'cg'}:{'elliptic' if cone else 'pyramidal'}:{'sparse' if jac else 'dense'}"


def execute(scn):
  import mujoco
  import mujoco_warp as mjw

  if scn["fam"] == "batched":
    return execute_batched(scn)
  mjm, info = c06.build(scn)
  if mjm is None:
    return dict(ok=True, nontrivial=False, outcome="rejected_by_compiler", info=info)
  c = util.Cmp()
  states = info["states"]
  nchk = nconfig = ncf = 0
  for cone, jac, solver, tagkey in _configs(mjm):
    m = mjw.put_model(mjm)
    kw = dict(info["kw"])
    if jac:
      kw.setdefault("njmax", 64)
      kw["njmax_nnz"] = int(kw["njmax"]) * mjm.nv
    d = mjw.make_data(mjm, nworld=3, **kw)
    for w, (qpos, qvel) in enumerate(states):
      util.copy_state(util.mj_data(mjm, qpos=qpos, qvel=qvel), d, world=w)
    if info["eq_off"]:
      ea = d.eq_active.numpy()
      ea[:, info["eq_off"]] = False
      util.set_field(d.eq_active, ea)
    mjw.forward(m, d)
    nconfig += 1
    S = Snap(m, d)
    for w in range(3):
      nchk += check_world(c, f"{tagkey}:w{w}:", mjm, S, w, cone, tagkey)
    ncf += check_contact_force(c, f"{tagkey}:", mjw, m, d, cone, tagkey)
  return c.result(
    nontrivial=nchk > 0,
    key=util.sha(scn),
    info=dict(nv=int(mjm.nv), loaded_rows_checked=int(nchk), contact_forces_checked=int(ncf), configs=nconfig, checked=c.nchecked),
    counts=dict(extra_evaluations=nconfig * 3),
  )


def execute_batched(scn):
  """Per-world force-law parameters (mc/refs/c24scenes.py): world w holds batch entry w % b and state w // b."""
  import warp as wp
  import mujoco_warp as mjw

  xml, states, kw0 = bs.scene(scn["scene"], scn["variant"])
  mjm, err = util.try_load(xml)
  if mjm is None:
    return dict(ok=True, nontrivial=False, outcome="rejected_by_compiler", info=err)
  c = util.Cmp()
  field, order = scn["field"], scn["order"]
  b = len(order)
  nworld = b * len(states)
  qpos = np.array([states[w // b][1] for w in range(nworld)], dtype=np.float32)
  qvel = np.array([states[w // b][2] for w in range(nworld)], dtype=np.float32)
  nchk = nconfig = ncf = neffect = 0
  for cone, jac, solver, tag in _configs(mjm):
    m, labels = bs.put_batched(mjw, wp, mjm, field, order, scn["variant"])
    kw = dict(kw0)
    if jac:
      kw.setdefault("njmax", 64)
      kw["njmax_nnz"] = int(kw["njmax"]) * mjm.nv
    d = mjw.make_data(mjm, nworld=nworld, **kw)
    d.qpos.assign(qpos)
    d.qvel.assign(qvel)
    mjw.forward(m, d)
    nconfig += 1
    tagkey = f"batched:{field}:{tag}"
    c.true(f"{tagkey}:overflow", not np.any(d.overflow.numpy() & ~c06.OVERFLOW_ITER), "row/contact buffers of the scene overflowed (harness sizing)", vkey="harness_overflow")
    S = Snap(m, d)
    for w in range(nworld):
      nchk += check_world(c, f"{tagkey}:w{w} ({field}[{w % b}] {labels[w % b]}, state {states[w // b][0]}):", mjm, S, w, cone, tagkey)
    ncf += check_contact_force(c, f"{tagkey}:", mjw, m, d, cone, tagkey)
    # the batch dimension is not vacuous: same state, different value => different forces
    F, ne = S.f["force"], S.nefc
    for si in range(len(states)):
      ws = range(si * b, si * b + b)
      if any(ne[w] != ne[si * b] or not np.array_equal(F[w, : ne[w]], F[si * b, : ne[w]]) for w in ws):
        neffect += 1
  return c.result(
    nontrivial=nchk > 0 and neffect > 0,
    key=util.sha(scn),
    info=dict(nv=int(mjm.nv), nworld=nworld, loaded_rows_checked=int(nchk), contact_forces_checked=int(ncf), configs=nconfig, states_where_values_differ=neffect, checked=c.nchecked),
    counts=dict(extra_evaluations=nconfig * nworld),
  )
