"""C32 Disable and enable flags act exactly as in MuJoCo.

Space: 17 supported disable flags + 2 enable flags (ENERGY, INVDISCRETE); on each of 3 rich models: every flag
subset of size <=2 (191), the full power set of the constraint cluster {constraint, equality, frictionloss,
limit, contact} (32) and of the passive cluster {spring, damper, gravity, eulerdamp, actuation, clampctrl} (64);
thorough: every subset of size <=3.  The flags are set on the MjModel before put_model / make_data; every
subset of size 1..2 is additionally switched on at run time, after one flag-free step on the same Data (parity only).
Oracles: (1) parity: one mjw.step vs mj_step with the same flags: next qpos/qvel/act/time, sensordata, energy,
row counts ne/nf/nl/ncon/nefc, the per-term force arrays of the forward pass; (2) differential inside MJWarp
against the flag-free run of the same model: a flag's own term is exactly zero and every per-term array that
no flag of the subset may touch is bit-identical to the flag-free run.
"""

import itertools

import numpy as np

from mc import space, util

ID = "C32"
LEVEL = "exploration"
RULE = (
  "enumerate flag subsets (size<=2 of 19 flags; power sets of the constraint and passive clusters) x 3 models; each scenario = "
  "one step on both engines + differential against the flag-free MJWarp run; non-trivial = the subset changes the MuJoCo "
  "result of the model (next state, sensordata, energy or row counts) w.r.t. the flag-free run; distinct = (model, subset)"
)
BOUNDS = {
  "quick": "3 models x (191 subsets of size<=2 + 32 + 64 cluster subsets, deduplicated)",
  "thorough": "3 models x (1160 subsets of size<=3 + cluster power sets, deduplicated)",
}
ASSUMPTIONS = [
  "MuJoCo C 3.13 mj_step is the reference; class f32dyn for force terms and for the next state when no constraint row is "
  "active, class solver (2e-3) for quantities downstream of the constraint solver",
  "NATIVECCD is documented as ignored by MJWarp and SLEEP changes the pipeline (C29): both outside this property's alphabet; "
  "MIDPHASE/AUTORESET/OVERRIDE/FWDINV are rejected by put_model",
  "models use primitive collision pairs only (plane/sphere/capsule), so MULTICCD has nothing to act on (parity of the flag "
  "being harmless is still checked); CCD pairs are excluded because MJWarp's and MuJoCo's CCD normals differ at flat optima (C04)",
  "WARMSTART only changes the solver's starting point: at convergence it is observable only within the solver class, so a "
  "wrongly ignored WARMSTART flag is not detectable here (a one-iteration budget was tried: the engines' intermediate iterates "
  "are not comparable); INVDISCRETE only acts in inverse dynamics, which step() does not call",
  "real values from curated alphabets (VERIF_SEED mod 4)",
]
BUDGET = {"quick": 600, "thorough": 3000}

DISABLE = (
  "CONSTRAINT EQUALITY FRICTIONLOSS LIMIT CONTACT SPRING DAMPER GRAVITY CLAMPCTRL WARMSTART FILTERPARENT ACTUATION REFSAFE "
  "SENSOR EULERDAMP ISLAND MULTICCD"
).split()
ENABLE = ("ENERGY", "INVDISCRETE")
FLAGS = tuple(DISABLE) + ENABLE
CLUSTER_C = ("CONSTRAINT", "EQUALITY", "FRICTIONLOSS", "LIMIT", "CONTACT")
CLUSTER_P = ("SPRING", "DAMPER", "GRAVITY", "EULERDAMP", "ACTUATION", "CLAMPCTRL")
MODELS = ("arm", "free", "tree")

# per-term arrays of the forward pass and which flags may change them (everything else must stay bit-identical to the flag-free run)
TERMS = {
  "qfrc_spring": {"SPRING"},
  "qfrc_damper": {"DAMPER"},
  "qfrc_gravcomp": {"GRAVITY"},
  "qfrc_passive": {"SPRING", "DAMPER", "GRAVITY"},
  "qfrc_bias": {"GRAVITY"},
  "actuator_force": {"ACTUATION", "CLAMPCTRL"},
  "qfrc_actuator": {"ACTUATION", "CLAMPCTRL", "GRAVITY"},
  "act_dot": {"ACTUATION", "CLAMPCTRL"},
  "ne": {"CONSTRAINT", "EQUALITY"},
  "nf": {"CONSTRAINT", "FRICTIONLOSS"},
  "nl": {"CONSTRAINT", "LIMIT"},
  "ncon": {"CONSTRAINT", "CONTACT", "FILTERPARENT", "MULTICCD"},
  "sensor_posvel": {"SENSOR", "GRAVITY", "SPRING"},  # the e_potential sensor of the "free" model depends on gravity and springs
  "energy": {"ENERGY", "GRAVITY", "SPRING"},
}
# flag -> terms that must be exactly zero when the flag is set
ZERO = {
  "CONSTRAINT": ("ne", "nf", "nl", "nefc", "qfrc_constraint"),
  "EQUALITY": ("ne",),
  "FRICTIONLOSS": ("nf",),
  "LIMIT": ("nl",),
  "CONTACT": ("ncon",),
  "SPRING": ("qfrc_spring",),
  "DAMPER": ("qfrc_damper",),
  "GRAVITY": ("qfrc_gravcomp",),
  "ACTUATION": ("actuator_force", "qfrc_actuator", "act_dot"),
  "SENSOR": ("sensordata",),
}


def scenarios(tier, seed):
  v = seed % 4
  subsets = []
  kmax = 2 if tier == "quick" else 3
  for k in range(kmax + 1):
    subsets += [tuple(c) for c in itertools.combinations(FLAGS, k)]
  for cluster in (CLUSTER_C, CLUSTER_P):
    for k in range(len(cluster) + 1):
      subsets += [tuple(c) for c in itertools.combinations(cluster, k)]
  seen, uniq = set(), []
  for s in subsets:
    key = tuple(sorted(s, key=FLAGS.index))
    if key not in seen:
      seen.add(key)
      uniq.append(key)
  uniq.sort(key=lambda s: (len(s), [FLAGS.index(f) for f in s]))
  out = [dict(model=mdl, flags=list(s), variant=v) for s in uniq for mdl in MODELS]
  # flags switched at RUN TIME: one flag-free step on both engines, then the flags are set on the live Model / MjModel and a second
  # step is taken on the same Data (every per-term array holds the values of the flag-free step when the flagged step starts)
  toggles = [s for s in uniq if 1 <= len(s) <= 2 and not set(s) & {"FILTERPARENT", "ISLAND", "MULTICCD", "SENSOR"}]
  out += [dict(model=mdl, flags=list(s), variant=v, toggle=1) for s in toggles for mdl in MODELS]
  return out


# ------------------------------------------------------------------------------------------------ models


def model_xml(name, v):
  k = (1.0, 0.8, 1.3, 0.6)[v]
  if name == "arm":
    # Euler; limit violated, frictionloss, springs/dampers, gravcomp (+ actuator-level), joint equality, tendon limit,
    # clamped ctrl, overlapping parent/child capsules (FILTERPARENT), a stiff contact (REFSAFE), sensors of all stages
    return f"""<mujoco><compiler angle="radian"/><option timestep="0.004"/>
<worldbody>
 <geom name="floor" type="plane" size="3 3 .1" solref="0.004 1"/>
 <body name="a1" pos="0 0 0.6" gravcomp="0.5">
  <joint name="ja1" type="hinge" axis="0 1 0" limited="true" range="-0.3 0.3" stiffness="{2 * k:g}" springref="0.1" damping="0.3" frictionloss="0.1" armature="0.02" actuatorgravcomp="true" solreflimit="0.005 1"/>
  <geom name="ga1" type="capsule" fromto="0 0 0 0.3 0 0" size="0.05" mass="0.8"/>
  <site name="sa1" pos="0.15 0 0.02"/>
  <body name="a2" pos="0.3 0 0" gravcomp="0.3">
   <joint name="ja2" type="hinge" axis="0 1 0" limited="true" range="-1 1" stiffness="{k:g}" damping="0.2" frictionloss="0.05"/>
   <geom name="ga2" type="capsule" fromto="0.02 0 0.04 0.3 0 0.04" size="0.06" mass="0.6"/>
   <site name="sa2" pos="0.3 0 0"/>
   <body name="a3" pos="0.3 0 0">
    <joint name="ja3" type="ball" damping="0.1" stiffness="0.5"/>
    <geom name="ga3" type="sphere" size="0.07" pos="0.12 0 0" mass="0.4"/>
   </body>
  </body>
 </body>
 <body name="f1" pos="0.6 0.5 0.07"><freejoint name="jf1"/><geom name="gf1" type="sphere" size="0.08" mass="0.5" solref="0.004 1"/><site name="sf1"/></body>
</worldbody>
<equality><joint joint1="ja1" joint2="ja2" polycoef="0.05 {0.5 * k:g} 0 0 0"/></equality>
<tendon><fixed name="t1" limited="true" range="-0.25 0.25" stiffness="1" damping="0.1" frictionloss="0.05"><joint joint="ja1" coef="1"/><joint joint="ja2" coef="-0.5"/></fixed></tendon>
<actuator>
 <motor name="m1" joint="ja1" gear="2" ctrllimited="true" ctrlrange="-1 1"/>
 <general name="m2" joint="ja2" dyntype="filter" dynprm="0.05" gainprm="1.5" biastype="affine" biasprm="0 -1 -0.1" ctrllimited="true" ctrlrange="-0.5 0.5"/>
</actuator>
<sensor>
 <jointpos joint="ja1"/><framepos objtype="site" objname="sa2"/><tendonpos tendon="t1"/>
 <jointvel joint="ja2"/><framelinvel objtype="site" objname="sa2"/>
 <actuatorfrc actuator="m1"/><accelerometer site="sa1"/><jointactuatorfrc joint="ja1"/>
</sensor>
</mujoco>"""
  if name == "free":
    # Euler (integrator differences are C08's subject; with RK4 the post-step force arrays belong to the last stage); free bodies on the floor, sphere-capsule contact, weld + connect equality, spatial tendon with limit,
    # spring, damper and frictionloss, tendon actuator, slide joint with spring
    return f"""<mujoco><compiler angle="radian"/><option timestep="0.004"/>
<worldbody>
 <geom name="floor" type="plane" size="3 3 .1"/>
 <body name="p1" pos="0 0 0.095" gravcomp="0.4"><freejoint name="jp1"/><geom name="gp1" type="sphere" size="0.1" mass="0.7"/><site name="sp1" pos="0 0 0.1"/></body>
 <body name="p2" pos="0.22 0 0.07"><freejoint name="jp2"/><geom name="gp2" type="capsule" size="0.06 0.1" quat="0.7071068 0 0.7071068 0" mass="0.9"/><site name="sp2" pos="0.05 0 0.06"/></body>
 <body name="p3" pos="-0.4 0.3 0.3"><joint name="js" type="slide" axis="0 0 1" stiffness="{30 * k:g}" springref="0.05" damping="0.5" frictionloss="0.2" limited="true" range="-0.02 0.2"/>
  <geom name="gp3" type="sphere" size="0.07" mass="0.5"/><site name="sp3"/></body>
 <body name="p4" pos="0.1 0.5 0.4"><freejoint name="jp4"/><geom name="gp4" type="sphere" size="0.06" mass="0.3"/><site name="sp4"/></body>
</worldbody>
<equality><connect body1="p4" body2="p3" anchor="0 0 0.1"/><weld body1="p1" body2="world" solref="0.03 1"/></equality>
<tendon><spatial name="ts" limited="true" range="0 1.0" stiffness="{5 * k:g}" springlength="0.2" damping="0.3" frictionloss="0.1"><site site="sp1"/><site site="sp2"/><site site="sp3"/></spatial></tendon>
<actuator>
 <motor name="mt" tendon="ts" gear="1.5" ctrllimited="true" ctrlrange="-1 1"/>
 <position name="ms" joint="js" kp="20" kv="1" ctrllimited="true" ctrlrange="-0.1 0.1"/>
</actuator>
<sensor>
 <framepos objtype="site" objname="sp2"/><tendonpos tendon="ts"/><jointpos joint="js"/>
 <framelinvel objtype="site" objname="sp4"/><tendonvel tendon="ts"/>
 <actuatorfrc actuator="mt"/><framelinacc objtype="site" objname="sp4"/><tendonlimitfrc tendon="ts"/>
 <e_potential/><e_kinetic/>
</sensor>
</mujoco>"""
  # "tree": generated 3-body tree (hinge, ball, hinge+slide) with limits/frictionloss/springs, floor contacts, Euler
  def jattr(i, kind):
    s = f'damping="{0.3 * k:g}" armature="0.02" frictionloss="0.05" stiffness="{1.5 * k:g}"'
    if kind in ("hinge", "hingeslide"):
      s += ' limited="true" range="-0.5 0.2" springref="0.3"'
    return s

  sections = (
    '<actuator><motor name="m1" joint="j1" gear="1.3" ctrllimited="true" ctrlrange="-1 1"/>'
    '<general name="m2" joint="j3" dyntype="integrator" gainprm="1.2" biastype="affine" biasprm="0 -1.2 -0.3" actlimited="true" '
    'actrange="-0.5 0.5" ctrllimited="true" ctrlrange="-2 2"/></actuator>'
    '<equality><joint joint1="j1" joint2="j3" polycoef="0.02 0.8 0 0 0"/></equality>'
    '<sensor><framepos objtype="site" objname="s2"/><jointpos joint="j1"/><framelinvel objtype="site" objname="s3"/>'
    '<jointvel joint="j3"/><actuatorfrc actuator="m1"/><framelinacc objtype="site" objname="s2"/></sensor>'
  )
  # floor 6 mm above the lowest sphere of the state used (one shallow contact per variant)
  floor = f'<geom name="floor" type="plane" size="3 3 .1" pos="0 0 {(0.102, -0.4767, -0.2759, -0.2873)[v]}"/>'
  return space.tree_xml(
    [0, 1, 1],
    ["hinge", "ball", "hingeslide"],
    variant=v,
    geom="sphere",
    joint_attrs=jattr,
    world_extra=floor,
    sections=sections,
    collide=True,
    body_extra=lambda i: "",
    option='<option timestep="0.004"/>',
  ).replace('<body name="b1"', '<body name="b1" gravcomp="0.6"', 1)


def model_state(name, v, mjm):
  sc = (0.0, -0.7, 0.4, 0.55)
  if name == "arm":
    qpos = [0.42, 0.2, 0.9, 0.2, -0.3, 0.25, 0.6, 0.5, 0.072, 1, 0, 0, 0]
    qvel = [0.5, -0.8, 0.3, -0.2, 0.4, 0.1, -0.1, -0.3, 0.2, -0.4, 0.3]
    ctrl, act = [1.8, -0.9], [0.3]
  elif name == "free":
    qpos = [0, 0, 0.095, 1, 0, 0, 0, 0.255, 0.01, 0.058, 1, 0, 0, 0, 0.05, 0.1, 0.5, 0.41, 0.99, 0.05, -0.1, 0.08]
    qvel = [0.1, -0.2, -0.3, 0.5, -0.4, 0.2, -0.2, 0.1, -0.2, 0.3, 0.6, -0.5, -0.6, 0.3, -0.1, 0.2, 0.4, -0.3, 0.5]
    ctrl, act = [1.6, -0.4], []
  else:
    qpos, qvel = space.state_grid(["hinge", "ball", "hingeslide"], v, 1)
    qpos[0] = 0.35  # beyond the hinge limit
    ctrl, act = [-1.7, 2.4], [0.45]
  assert len(qpos) == mjm.nq and len(qvel) == mjm.nv, (name, mjm.nq, mjm.nv)
  s = (1.0, -1.0, 1.0, -1.0)[v]
  return qpos, [s * x for x in qvel], ctrl, act


# ------------------------------------------------------------------------------------------------ execution

_CACHE = {}


def _flagbits(flags):
  import mujoco

  dis = en = 0
  for f in flags:
    if f in DISABLE:
      dis |= int(getattr(mujoco.mjtDisableBit, "mjDSBL_" + f))
    else:
      en |= int(getattr(mujoco.mjtEnableBit, "mjENBL_" + f))
  return dis, en


FORCE_TERMS = ("qfrc_spring", "qfrc_damper", "qfrc_gravcomp", "qfrc_passive", "qfrc_bias", "actuator_force", "qfrc_actuator", "act_dot")


def _posvel_mask(mjm):
  import mujoco

  mask = np.zeros(mjm.nsensordata, bool)
  for i in range(mjm.nsensor):
    if mjm.sensor_needstage[i] != mujoco.mjtStage.mjSTAGE_ACC:
      mask[mjm.sensor_adr[i] : mjm.sensor_adr[i] + mjm.sensor_dim[i]] = True
  return mask


def _run(name, v, flags, toggle=False):
  """One step on both engines with the given flags -> (reference dict | None, MJWarp dict)."""
  import mujoco
  import mujoco_warp as mjw

  mjm = util.load(model_xml(name, v))
  dis, en = _flagbits(flags)
  if not toggle:
    mjm.opt.disableflags = int(mjm.opt.disableflags) | dis
    mjm.opt.enableflags = int(mjm.opt.enableflags) | en
  qpos, qvel, ctrl, act = model_state(name, v, mjm)
  mjd = util.mj_data(mjm, qpos=qpos, qvel=qvel, ctrl=ctrl, act=act if mjm.na else None)
  mjd.qacc_warmstart[:] = [0.7 * ((i % 3) - 1) for i in range(mjm.nv)]
  m = mjw.put_model(mjm)
  d = mjw.make_data(mjm)
  util.copy_state(mjd, d)
  if toggle:
    mujoco.mj_step(mjm, mjd)
    mjw.step(m, d)
    mjm.opt.disableflags = int(mjm.opt.disableflags) | dis
    mjm.opt.enableflags = int(mjm.opt.enableflags) | en
    m.opt.disableflags = int(m.opt.disableflags) | dis
    m.opt.enableflags = int(m.opt.enableflags) | en
  mujoco.mj_step(mjm, mjd)
  mjw.step(m, d)
  mask = _posvel_mask(mjm)
  ref = dict(
    qpos=mjd.qpos.copy(), qvel=mjd.qvel.copy(), act=mjd.act.copy(), time=np.array([mjd.time]), qacc=mjd.qacc.copy(),
    qfrc_constraint=mjd.qfrc_constraint.copy(), sensordata=mjd.sensordata.copy(), sensor_posvel=mjd.sensordata[mask].copy(),
    energy=mjd.energy.copy(), ne=int(mjd.ne), nf=int(mjd.nf), nl=int(mjd.nl), ncon=int(mjd.ncon), nefc=int(mjd.nefc),
    warn=util.mj_warnings(mjd),
  )  # fmt: skip
  got = dict(
    qpos=d.qpos.numpy()[0], qvel=d.qvel.numpy()[0], act=d.act.numpy()[0], time=d.time.numpy()[:1], qacc=d.qacc.numpy()[0],
    qfrc_constraint=d.qfrc_constraint.numpy()[0], sensordata=d.sensordata.numpy()[0], sensor_posvel=d.sensordata.numpy()[0][mask],
    energy=d.energy.numpy()[0], ne=int(d.ne.numpy()[0]), nf=int(d.nf.numpy()[0]), nl=int(d.nl.numpy()[0]),
    ncon=int(d.nacon.numpy()[0]), nefc=int(d.nefc.numpy()[0]),
  )  # fmt: skip
  for t in FORCE_TERMS:
    ref[t] = np.array(getattr(mjd, t))
    got[t] = getattr(d, t).numpy()[0].copy()
  return ref, got


def execute(scn):
  name, v, flags = scn["model"], scn["variant"], list(scn["flags"])
  key = util.sha(scn)
  c = util.Cmp()
  ck = (name, v)
  if ck not in _CACHE:
    _CACHE[ck] = _run(name, v, [])
  ref0, got0 = _CACHE[ck]
  toggle = bool(scn.get("toggle"))
  ref, got = _run(name, v, flags, toggle=toggle)
  fl = "+".join(flags) if flags else "none"
  tag = f"{name}:{fl}" + (":set_at_run_time" if toggle else "")

  # ---- (1) parity with MuJoCo under the same flags
  if not ref["warn"]:
    dyn = "solver" if ref["nefc"] else "f32dyn"
    for f in ("ne", "nf", "nl", "ncon", "nefc"):
      c.equal(f"{tag}:{f}", got[f], ref[f], vkey=f"parity:{f}:{fl}")
    for f in FORCE_TERMS:
      if toggle and f == "act_dot" and "ACTUATION" in flags:
        continue  # mj_fwdActuation returns before touching act_dot: MuJoCo keeps the previous step's value (never integrated), MJWarp writes 0
      c.close(f"{tag}:{f}", got[f], ref[f], "f32dyn", vkey=f"parity:{f}:{fl}")
    for f in ("qpos", "qvel", "act", "qacc", "qfrc_constraint", "sensordata"):
      c.close(f"{tag}:{f}", got[f], ref[f], dyn, vkey=f"parity:{f}:{fl}")
    # Data.energy is specified only while the ENERGY flag is on (with the flag off MuJoCo's content depends on which energy
    # sensors happened to run; the sensors themselves are compared through sensordata above)
    if "ENERGY" in flags:
      c.close(f"{tag}:energy", got["energy"], ref["energy"], "f32dyn", vkey=f"parity:energy:{fl}")
    c.close(f"{tag}:time", got["time"], ref["time"], "f32", vkey=f"parity:time:{fl}")

  if toggle:
    # only parity: the flag-free reference of (2) belongs to another state
    for v_ in c.violations:
      v_["vkey"] = "toggle:" + v_["vkey"]
    return c.result(nontrivial=not ref["warn"], key=key, outcome="ok" if not ref["warn"] else "degenerate", info=dict(nefc=ref["nefc"], checked=c.nchecked))

  # ---- (2) differential inside MJWarp against the flag-free run
  fs = set(flags)
  for term, owners in TERMS.items():
    if fs & owners:
      continue
    if {"SPRING", "DAMPER"} <= fs and term in ("qfrc_gravcomp", "qfrc_passive", "qfrc_actuator"):
      continue  # MuJoCo's mj_passive returns before gravity compensation / fluid forces when springs and dampers are both disabled
    c.bits(f"{tag}:{term} changed although no flag of the subset owns it", np.asarray(got[term]), np.asarray(got0[term]), vkey=f"untouched:{term}:{fl}")
  for f in flags:
    for term in ZERO.get(f, ()):
      z = np.asarray(got[term], dtype=np.float64)
      if term == "qfrc_constraint":
        # the solver recovers qfrc_constraint as Ma - qfrc_smooth - grad (solver.py:_qfrc_constraint_from_grad): with no rows it
        # is float32 round-off of that difference (2e-6 on the unchanged tree), not a force -> zero under class f32
        c.close(f"{tag}:qfrc_constraint ~ 0 with CONSTRAINT disabled", z, np.zeros_like(z), "f32", scale=1.0 + float(np.abs(got0["qfrc_constraint"]).max()), vkey=f"zero:{term}:{f}")
        continue
      c.true(f"{tag}:{term} must be zero with {f} disabled", not np.any(z), f"max|{term}|={np.abs(z).max() if z.size else 0:.3g}", vkey=f"zero:{term}:{f}")
  if "ENERGY" in fs:
    c.true(f"{tag}:energy computed", bool(np.any(got["energy"])), "energy is all zero with ENERGY enabled", vkey="nonzero:energy:ENERGY")
  else:
    c.true(f"{tag}:energy zero", not np.any(got["energy"]), "energy non-zero without ENERGY", vkey=f"zero:energy:{fl}")

  # non-trivial: the subset changes MuJoCo's own result on this model
  changed = any(
    np.asarray(ref[f]).shape != np.asarray(ref0[f]).shape or not np.array_equal(np.asarray(ref[f]), np.asarray(ref0[f]))
    for f in ("qpos", "qvel", "act", "sensordata", "energy", "ne", "nf", "nl", "ncon", "nefc")
  )
  return c.result(
    nontrivial=bool(changed or not flags) and not ref["warn"],
    key=key,
    outcome="ok" if not ref["warn"] else "degenerate",
    info=dict(ne=ref["ne"], nf=ref["nf"], nl=ref["nl"], ncon=ref["ncon"], nefc=ref["nefc"], checked=c.nchecked, maxrel=float(f"{c.maxrel:.3g}")),
  )
