"""C16 Capacity overflow is never silent.

Fault enumeration over capacities: for each scene the need of every capacity knob is measured with ample capacity,
then EVERY value 0..need+1 of each knob (others ample) and the 3x3 boundary square of each knob pair is executed on
the real step().  For each world: either a capacity overflow bit is set, or the step result equals the ample-capacity
result (state, outputs, contacts and rows as multisets).  Where the rule is per-world (row and non-zero capacities) a
world whose own need exceeds the capacity must have its bit set.
"""

import itertools

import numpy as np

from mc import scenes, snap, util

ID = "C16"
LEVEL = "fault_enumeration"
RULE = (
  "scenes x knobs {naconmax, njmax, njmax_nnz(sparse), naccdmax} x every capacity value 0..need+1 (others ample) + 3x3 boundary squares of knob pairs; "
  "non-trivial = capacity below the measured need of at least one world (a fault is actually injected); distinct = (scene, capacities)"
)
BOUNDS = {
  "quick": "11 single-builder scenes (one constraint kind each, sparse): full sweeps of njmax and njmax_nnz; small_dense full sweeps; other scenes window per knob (0, stride 8 (48 for nnz>200), and every value need-4..need+1 around each world's need); boxes naccdmax full sweep; 3x3 boundary squares; nworld=2 with unequal needs",
  "thorough": "all scenes full sweeps of every knob incl. njmax_nnz, plus boxes (CCD) scene naccdmax sweep",
}
ASSUMPTIONS = [
  "need measured on the unchanged code with ample capacities (njmax=need*2+8 etc.)",
  "no-bit results compared with the ample run under f32dyn (solver class for solver outputs); row order and padding-dependent summation may differ with capacity",
  "capacity bits = NEFC|NJMAX_NNZ|BROADPHASE|NARROWPHASE|CCD|HFIELD|CONTACT_MATCH|NVMAX|EPA_HORIZON",
]
BUDGET = {"quick": 500, "thorough": 3400}
CAP_BITS = 0x1FF
NEFC, NNZ, BROAD, NARROW, CCD = 1, 2, 4, 8, 16

BOXES = """<mujoco><option timestep="0.004" {opt}/><worldbody><geom type="plane" size="3 3 .1"/>
  <body pos="0 0 0.099"><freejoint/><geom type="box" size=".1 .1 .1"/></body>
  <body pos="0.05 0.02 0.297"><freejoint/><geom type="box" size=".1 .1 .1"/></body>
  <body pos="0.6 0 0.2"><freejoint/><geom type="ellipsoid" size=".1 .15 .2"/></body></worldbody></mujoco>"""

ONE_KINDS = ("connect", "weld", "jointeq", "tendoneq", "doffriction", "tenfriction", "hingelimit", "balllimit", "tendonlimit", "contact_pyr", "contact_ell")


def one_xml(kind, opt):
  """A scene in which exactly ONE constraint-row builder is active, so that its rows are the last (and only)
  allocation of rows / Jacobian non-zeros: exact-fit boundaries of every builder are reached one at a time."""
  cone = 'cone="elliptic"' if kind == "contact_ell" else ""
  ball = 'limited="true" range="0 0.2"' if kind == "balllimit" else ""
  hinge = 'limited="true" range="-0.2 0.2"' if kind == "hingelimit" else ""
  fl = 'frictionloss="0.3"' if kind == "doffriction" else ""
  plane = '<geom name="floor" type="plane" size="3 3 .1"/>' if kind.startswith("contact") else ""
  ecol = "" if kind.startswith("contact") else 'contype="0" conaffinity="0"'
  epos = "0.5 0.3 0.045" if kind.startswith("contact") else "0.5 0.3 1"
  eq = {
    "connect": '<connect body1="b" body2="e" anchor="0.25 0 0" solref="0.1 1"/>',
    "weld": '<weld body1="b" body2="e" solref="0.1 1"/>',
    "jointeq": '<joint joint1="hb" joint2="se" polycoef="0 1 0 0 0"/>',
    "tendoneq": '<tendon tendon1="t1" polycoef="0.1 0 0 0 0"/>',
  }.get(kind, "")
  ten = {
    "tendoneq": '<fixed name="t1"><joint joint="hb" coef="1"/><joint joint="se" coef="-2"/></fixed>',
    "tenfriction": '<fixed name="t1" frictionloss="0.2"><joint joint="hb" coef="1"/><joint joint="se" coef="-2"/></fixed>',
    "tendonlimit": '<spatial name="t1" limited="true" range="0 0.3"><site site="sa"/><site site="se"/></spatial>',
  }.get(kind, "")
  return f"""<mujoco><option timestep="0.004" {opt} {cone}/><worldbody>{plane}
  <body name="a" pos="0 0 1"><joint name="ba" type="ball" {ball}/><geom type="capsule" fromto="0 0 0 .3 0 0" size=".03" contype="0" conaffinity="0"/><site name="sa" pos=".3 0 0"/>
    <body name="b" pos=".3 0 0"><joint name="hb" type="hinge" axis="0 1 0" {hinge} {fl}/><geom type="capsule" fromto="0 0 0 .25 0 0" size=".03" contype="0" conaffinity="0"/></body></body>
  <body name="e" pos="{epos}"><joint name="se" type="slide" axis="0 0 1"/><geom size=".05" {ecol}/><site name="se"/></body>
  </worldbody><equality>{eq}</equality><tendon>{ten}</tendon></mujoco>"""


# contacts produced ONLY by the convex (GJK/EPA) narrowphase: no plane or other primitive pair that would add to nacon later
CONVEX_ONLY = """<mujoco><option timestep="0.004" gravity="0 0 0" {opt}/><worldbody>
  <body pos="0 0 1.000"><freejoint/><geom type="box" size=".1 .1 .1"/></body>
  <body pos="0.03 0.02 1.197"><freejoint/><geom type="box" size=".1 .1 .1"/></body>
  <body pos="-0.02 0.03 1.394"><freejoint/><geom type="box" size=".1 .1 .1"/></body>
  <body pos="0.6 0 1.0"><freejoint/><geom type="ellipsoid" size=".1 .15 .2"/></body>
  <body pos="0.6 0.02 1.36"><freejoint/><geom type="cylinder" size=".1 .17"/></body></worldbody></mujoco>"""

SCENES = {
  "small_dense": ("small", 'jacobian="dense"'),
  "small_sparse": ("small", 'jacobian="sparse"'),
  "small_cg": ("small", 'jacobian="sparse" solver="CG"'),
  "rich_dense": ("rich", 'jacobian="dense"'),
  "rich_sparse": ("rich", 'jacobian="sparse"'),
  "boxes": ("boxes", 'jacobian="sparse"'),
  "convex_only": ("convex_only", 'jacobian="dense"'),
}
for _k in ONE_KINDS:
  SCENES[f"one_{_k}"] = ("one:" + _k, 'jacobian="sparse"')

_M = {}


def _model(sc):
  import mujoco_warp as mjw

  if sc not in _M:
    b, opt = SCENES[sc]
    if b.startswith("one:"):
      xml = one_xml(b[4:], opt)
    elif b == "convex_only":
      xml = CONVEX_ONLY.format(opt=opt)
    else:
      xml = BOXES.format(opt=opt) if b == "boxes" else getattr(scenes, b)(opt=opt)
    mjm = util.load(xml)
    m = mjw.put_model(mjm)
    m.opt.warn_overflow = False
    if b.startswith("one:"):
      import mujoco

      sts = []
      for w in range(2):
        d = mujoco.MjData(mjm)
        d.qpos[0:4] = [0.9689, 0.0, 0.2474, 0.0]  # ball rotated 0.5 rad about y (beyond its limit when limited)
        d.qpos[4] = 0.35 + 0.05 * w  # hinge beyond +0.2
        d.qpos[5] = 0.02 * w
        d.qvel[:] = 0.3 * np.cos(np.arange(mjm.nv) + w)
        sts.append(d)
    elif b in ("boxes", "convex_only"):
      import mujoco

      sts = []
      for w in range(2):
        d = mujoco.MjData(mjm)
        d.qpos[7 + 0] += 0.03 * w
        sts.append(d)
    else:
      sts = getattr(scenes, b + "_states")(mjm, 2, 0)
      if b == "small":
        sts[1].qpos[2] += 1.0  # world 1: box lifted -> fewer contacts/rows than world 0 (unequal needs)
    _M[sc] = (mjm, m, sts)
  return _M[sc]


def _step(sc, **caps):
  import mujoco_warp as mjw

  mjm, m, sts = _model(sc)
  d = mjw.make_data(mjm, nworld=2, **caps)
  for w, s in enumerate(sts):
    util.copy_state(s, d, world=w)
  mjw.step(m, d)
  return d, snap.take(m, d)


_NEED = {}


def need(sc):
  """Measured needs with ample capacities (per world where the capacity is per world)."""
  if sc in _NEED:
    return _NEED[sc]
  mjm, m, _ = _model(sc)
  d, s = _step(sc, naconmax=200, njmax=300, njmax_nnz=300 * mjm.nv if m.is_sparse else None)
  assert not np.any(s["count"]["overflow"] & CAP_BITS), "ample run overflows"
  nefc = s["count"]["nefc"].tolist()
  n = dict(njmax=nefc, naconmax=int(s["nacon"]), ncollision=int(d.ncollision.numpy()[0]))
  if m.is_sparse:
    rn = d.efc.J_rownnz.numpy()
    n["njmax_nnz"] = [int(rn[w, : nefc[w]].sum()) for w in range(2)]
  n["ample"] = s
  _NEED[sc] = n
  return n


def scenarios(tier, seed):
  # the parent cannot measure needs (no warp): enumerate generously; workers classify values above need+1 as skipped
  out = []
  full = tier == "thorough"
  W = "window"  # 0, stride 8 below the need, and every value need-4..need+1 around each world's need
  sweeps = {
    "small_dense": dict(njmax=range(0, 30), naconmax=range(0, 12)),
    "small_sparse": dict(njmax=range(0, 30) if full else W, naconmax=range(0, 12) if full else W, njmax_nnz=range(0, 120) if full else W),
    "small_cg": dict(njmax=range(0, 30) if full else W, njmax_nnz=range(0, 120) if full else W),
    "rich_dense": dict(njmax=range(0, 70) if full else W, naconmax=range(0, 20) if full else W),
    "rich_sparse": dict(njmax=range(0, 70) if full else W, naconmax=range(0, 20) if full else W, njmax_nnz=range(0, 900) if full else W),
    "boxes": dict(naccdmax=range(0, 14), naconmax=range(0, 24)),
    "convex_only": dict(naconmax=range(0, 14), naccdmax=range(0, 14)),
  }
  for k in ONE_KINDS:
    sweeps[f"one_{k}"] = dict(njmax=range(0, 14), njmax_nnz=range(0, 66))
  for sc, knobs in sweeps.items():
    if sc == "boxes" and tier == "quick":
      knobs = dict(naccdmax=range(0, 14))
    for knob, vals in knobs.items():
      if vals == W:
        for part in range(3):
          out.append(dict(scene=sc, kind="window", knob=knob, part=part))
        continue
      vals = list(vals)
      for i in range(0, len(vals), 6):
        out.append(dict(scene=sc, kind="sweep", knob=knob, values=vals[i : i + 6]))
  for sc in ("small_sparse", "rich_sparse"):
    out.append(dict(scene=sc, kind="square", knobs=["njmax", "njmax_nnz"]))
    out.append(dict(scene=sc, kind="square", knobs=["naconmax", "njmax"]))
  return out


def _ample_caps(sc):
  mjm, m, _ = _model(sc)
  caps = dict(naconmax=200, njmax=300)
  if m.is_sparse:
    caps["njmax_nnz"] = 300 * mjm.nv
  return caps


def _check(c, sc, caps, counts):
  """Runs one capacity assignment and applies the oracle. Returns True if a fault was injected."""
  n = need(sc)
  mjm, m, _ = _model(sc)
  full = dict(_ample_caps(sc), **caps)
  if "naccdmax" in full and full["naccdmax"] > full["naconmax"]:
    full["naccdmax"] = full["naconmax"]
  d, s = _step(sc, **full)
  ov = s["count"]["overflow"]
  tag = f"{sc} {caps}: "
  injected = False
  for w in range(2):
    bits = int(ov[w]) & CAP_BITS
    # per-world predictions
    contacts_cut = "naconmax" in caps and n["naconmax"] > caps["naconmax"]  # fewer contacts -> fewer rows: row needs unknown
    if "njmax" in caps and n["njmax"][w] > caps["njmax"] and not contacts_cut:
      injected = True
      c.true(tag + f"world {w} NEFC bit", bits & NEFC, f"needs {n['njmax'][w]} rows, njmax={caps['njmax']}, overflow={bits:#x}", vkey="silent:njmax")
    if "njmax_nnz" in caps and n["njmax_nnz"][w] > caps["njmax_nnz"] and not contacts_cut:
      injected = True
      c.true(tag + f"world {w} NJMAX_NNZ bit", bits & (NNZ | NEFC), f"needs {n['njmax_nnz'][w]} non-zeros, njmax_nnz={caps['njmax_nnz']}, overflow={bits:#x}", vkey="silent:njmax_nnz")
    if "naconmax" in caps and n["naconmax"] > caps["naconmax"]:
      injected = True
    if "naccdmax" in caps:
      injected = True
    if bits == 0:
      cc = util.Cmp()
      snap.compare_reorder(cc, snap.world_slice(n["ample"], w), snap.world_slice(s, w), pre=tag + f"world {w} has no overflow bit but differs from ample run: ", skip=("solver_niter",))
      for v in cc.violations[:3]:
        knob = "+".join(sorted(caps))
        if caps.get("naconmax") == 0:
          knob = "naconmax=0(collision skipped)"
        v["vkey"] = f"silent:{knob}:{v['vkey']}"
        c.violations.append(v)
  counts["extra_evaluations"] += 1
  if injected:
    counts["faults_injected"] += 1
  return injected


def execute(scn):
  sc = scn["scene"]
  n = need(sc)
  c = util.Cmp()
  counts = dict(extra_evaluations=-1, faults_injected=0, skipped_above_need=0)
  injected_any = False

  def knob_need(k):
    v = n.get(k, n["naconmax"] if k == "naccdmax" else None)
    return max(v) if isinstance(v, list) else v

  if scn["kind"] == "sweep":
    k = scn["knob"]
    for v in scn["values"]:
      if v > knob_need(k) + 1:
        counts["skipped_above_need"] += 1
        continue
      injected_any |= _check(c, sc, {k: v}, counts)
  elif scn["kind"] == "window":
    k = scn["knob"]
    nd = knob_need(k)
    per_world = n[k] if isinstance(n.get(k), list) else [nd]
    vals = sorted(set(list(range(0, nd, 8 if nd < 200 else 48)) + [x for w in per_world for x in range(max(0, w - 4), w + 2)]))
    for v in vals[scn.get("part", 0) :: 3]:
      injected_any |= _check(c, sc, {k: v}, counts)
  else:
    k1, k2 = scn["knobs"]
    for a in (-1, 0, 1):
      for b in (-1, 0, 1):
        injected_any |= _check(c, sc, {k1: max(0, knob_need(k1) + a), k2: max(0, knob_need(k2) + b)}, counts)
  counts["extra_evaluations"] = max(0, counts["extra_evaluations"])
  info = dict(need={k: v for k, v in n.items() if k != "ample"})
  return c.result(nontrivial=injected_any, key=util.sha(scn), counts=counts, info=info)
