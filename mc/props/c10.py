"""C10 Per-world model parameters take effect only in their world.

Space: every batchable field of types.Model / types.Option / types.Statistic (computed from the annotations:
leading dim "*") x batch size b in {1, 2, 4} (nworld = 4, so b = 2 exercises the `worldid % shape[0]` wrap) x
pipeline variants of one kitchen-sink scene (mc/refs/sink.py) in which the field has an effect.
World w of the batched Model holds value v[w % b] (v[k] = deterministic perturbation #k of the compiled value).

Oracle (`exact`): the same ops (2 x step, forward) on an unbatched Model holding v[w % b] and a Data of the same nworld
(all worlds identical) give bit-identical Data for world w (state, kinematics, dynamics, sensors, contacts, constraint rows).
A field whose perturbation changes nothing (solo runs for v[0] and v[1] bit-identical) is `unexercised`.
"""

import dataclasses

import numpy as np

from mc import util
from mc.refs import sink

ID = "C10"
LEVEL = "exploration"
RULE = (
  "enumerate every Model/Option/Statistic field annotated with leading dim '*' x batch size x scene variant; non-trivial = "
  "the field is non-empty in the scene and the solo runs with perturbation #0 and #1 differ in >=1 compared output (the "
  "field has an effect); distinct = (field, batch size, variant, perturbation direction)"
)
BOUNDS = {
  "quick": "120 fields x {variant A: b=1,2,4; variant B: b=2,4; variant C (sleep): b=2}; nworld=4; 2 steps + forward",
  "thorough": "120 fields x variants A,B,C,D x b in {1,2,4} x 2 perturbation directions; nworld=4; 3 steps + forward",
}
ASSUMPTIONS = [
  "fields are perturbed independently of fields MuJoCo would derive from them (the oracle is MJWarp itself with an unbatched Model)",
  "render-only fields (rgba, materials, light colours, fovy/intrinsic, ...) have no effect on the simulated Data and are reported unexercised here (rendering: C35)",
  "the reference run uses the same nworld with an unbatched Model (the dependence of sparse Newton results on the batch size itself is a C09/C25 finding, not part of this property)",
  "batch sizes are divisors of nworld as in the property text",
]
BUDGET = {"quick": 400, "thorough": 3000}
NWORLD = 4

# fields that only the renderer reads: no simulated output can depend on them
RENDER_ONLY = {
  "geom_matid", "geom_rgba", "cam_fovy", "cam_intrinsic", "light_type", "light_castshadow", "light_active", "light_attenuation",
  "light_cutoff", "light_exponent", "light_ambient", "light_diffuse", "light_specular", "mat_texid", "mat_texrepeat", "mat_emission",
  "mat_specular", "mat_shininess", "mat_rgba",
}  # fmt: skip

DATA_FIELDS = (
  "solver_niter ne nf nl nefc time energy qpos qvel act history qacc_warmstart qacc act_dot sensordata xpos xquat xmat xipos ximat "
  "xanchor xaxis geom_xpos geom_xmat site_xpos site_xmat cam_xpos cam_xmat light_xpos light_xdir subtree_com cdof cinert "
  "ten_wrapadr ten_wrapnum ten_J ten_length wrap_obj wrap_xpos actuator_length actuator_moment crb M qLD qLDiagInv "
  "ten_velocity actuator_velocity cvel cdof_dot qfrc_bias qfrc_spring qfrc_damper qfrc_gravcomp qfrc_fluid qfrc_passive "
  "subtree_linvel subtree_angmom actuator_force qfrc_actuator qfrc_smooth qacc_smooth qfrc_constraint cacc cfrc_int cfrc_ext "
  "tree_asleep tree_awake body_awake overflow"
).split()


def batch_fields():
  """[(owner, name)] with owner in {'', 'opt', 'stat'}; computed from the dataclass annotations."""
  from mujoco_warp._src import types, warp_util

  out = []
  for cls, owner in ((types.Model, ""), (types.Option, "opt"), (types.Statistic, "stat")):
    for f in dataclasses.fields(cls):
      if warp_util.is_array_spec(f.type):
        sh = getattr(f.type, "shape", ())
        if sh and sh[0] == "*":
          out.append((owner, f.name))
  return out


# the list below is only used to enumerate scenarios in the parent (which must not import warp); the worker
# recomputes it from the annotations and fails if they differ (a newly added field must be picked up).
FIELD_LIST = """qpos0 qpos_spring body_pos body_quat body_ipos body_iquat body_mass body_subtreemass body_inertia body_invweight0
body_gravcomp jnt_solref jnt_solimp jnt_pos jnt_axis jnt_stiffness jnt_stiffnesspoly jnt_range jnt_actfrcrange jnt_margin dof_solref
dof_solimp dof_frictionloss dof_armature dof_damping dof_dampingpoly dof_invweight0 geom_dataid geom_matid geom_solmix geom_solref
geom_solimp geom_size geom_aabb geom_rbound geom_pos geom_quat geom_friction geom_margin geom_gap geom_surfacevel geom_adhesion
geom_rgba site_pos site_quat cam_pos cam_quat cam_poscom0 cam_pos0 cam_mat0 cam_fovy cam_intrinsic light_type light_castshadow
light_active light_pos light_dir light_poscom0 light_pos0 light_dir0 light_attenuation light_cutoff light_exponent light_ambient
light_diffuse light_specular mat_texid mat_texrepeat mat_emission mat_specular mat_shininess mat_rgba pair_solref
pair_solreffriction pair_solimp pair_margin pair_gap pair_adhesion pair_friction eq_solref eq_solimp eq_data tendon_solref_lim
tendon_solimp_lim tendon_solref_fri tendon_solimp_fri tendon_range tendon_actfrcrange tendon_margin tendon_stiffness
tendon_stiffnesspoly tendon_damping tendon_dampingpoly tendon_armature tendon_frictionloss tendon_lengthspring tendon_length0
tendon_invweight0 actuator_cranklength actuator_dynprm actuator_gainprm actuator_biasprm actuator_actrange actuator_forcerange
actuator_ctrlrange actuator_gear actuator_acc0 actuator_lengthrange opt.timestep opt.tolerance opt.ls_tolerance opt.ccd_tolerance
opt.sleep_tolerance opt.gravity opt.wind opt.magnetic opt.density opt.viscosity opt.impratio_invsqrt stat.meaninertia""".split()


def scenarios(tier, seed):
  v = seed % 4
  out = [dict(fam="fieldlist", variant=v)]
  if tier == "quick":
    plan = [("A", 2), ("A", 4), ("B", 2), ("B", 4), ("C", 2), ("A", 1)]
    dirs = [v % 2]
    nstep = 2
  else:
    plan = [(var, b) for var in "ABCD" for b in (2, 4, 1)]
    dirs = [0, 1]
    nstep = 3
  for var, b in plan:
    for fld in FIELD_LIST:
      for dr in dirs:
        out.append(dict(fam="field", field=fld, b=b, scene=var, dir=dr, nstep=nstep, alt=v))
  return out


# ------------------------------------------------------------------------------------------------ perturbation


def perturb(field, base, k, direction, mjm):
  """Perturbation #k of the compiled value `base` (numpy, shape = field shape without the batch dim)."""
  if k == 0:
    return base.copy()
  s = 1.0 if direction == 0 else -1.0
  name = field.split(".")[-1]
  if base.dtype == np.bool_:
    return base ^ bool(k % 2)
  if base.dtype.kind in "iu":
    out = base.copy()
    if name == "geom_dataid" and mjm.nmesh > 1:
      sel = base >= 0
      out[sel] = (base[sel] + k) % mjm.nmesh
    elif name == "light_type":
      out = (base + k) % 2
    elif name in ("geom_matid", "mat_texid"):
      out = base  # no legal alternative in the scene
    return out
  b64 = base.astype(np.float64)
  if name.endswith("quat"):
    # rotate: add a component orthogonal to q, renormalise
    q = b64.reshape(-1, 4)
    o = np.stack([-q[:, 1], q[:, 0], q[:, 3], -q[:, 2]], axis=1)
    r = q + s * 0.12 * k * o
    r /= np.linalg.norm(r, axis=1, keepdims=True)
    return r.reshape(base.shape).astype(base.dtype)
  if "solimp" in name:
    out = b64.copy()
    out[..., :3] *= 1.0 - 0.04 * k
    return out.astype(base.dtype)
  if name == "ccd_tolerance":
    return (b64 * 100.0**k).astype(base.dtype)  # smaller changes do not alter a single bit of the scene's CCD contact
  if name in ("geom_rbound", "geom_aabb"):
    return (b64 * (1.0 - 0.3 * k)).astype(base.dtype)  # shrink until the broad phase drops pairs
  if name == "sleep_tolerance":
    return (b64 * 100.0**k).astype(base.dtype)  # 1e-4 -> 1e-2, 1, 100: decides which trees may start to fall asleep
  if "tolerance" in name or name == "meaninertia":
    # termination thresholds: only an order-of-magnitude change moves an iteration count
    return (b64 * (10.0 ** (k if direction == 0 else -k))).astype(base.dtype)
  if name in ("jnt_axis", "light_dir", "light_dir0"):
    return (b64 + s * 0.1 * k * np.array([0.3, -0.2, 0.1])).astype(base.dtype)
  if name in ("qpos0", "qpos_spring"):
    return (b64 + s * 0.01 * k * np.cos(np.arange(b64.size)).reshape(b64.shape)).astype(base.dtype)
  return (b64 * (1.0 + s * 0.07 * k)).astype(base.dtype)


# ------------------------------------------------------------------------------------------------ running

_MODELS = {}


def _mjm(scene):
  if scene not in _MODELS:
    import mujoco

    _MODELS[scene] = mujoco.MjModel.from_xml_string(sink.xml(scene))
  return _MODELS[scene]


def _owner_and_name(field):
  if "." in field:
    o, n = field.split(".")
    return o, n
  return "", field


def _get(m, field):
  o, n = _owner_and_name(field)
  return getattr(getattr(m, o) if o else m, n)


def run(mjm, field, vals, nworld, nstep, alt):
  """Model with `field` batched as vals (list of arrays), nworld worlds; returns per-world snapshots."""
  import warp as wp
  import mujoco_warp as mjw

  o, n = _owner_and_name(field)
  b = len(vals)
  if o == "":
    m = mjw.put_model(mjm, batch_sizes={n: b} if b > 1 else None)
    arr = getattr(m, n)
    assert arr.shape[0] == b, (field, arr.shape, b)
    arr.assign(np.stack(vals).astype(arr.numpy().dtype))
  else:
    m = mjw.put_model(mjm)
    owner = getattr(m, o)
    arr = getattr(owner, n)
    setattr(owner, n, wp.array(np.stack(vals), dtype=arr.dtype))
  d = mjw.make_data(mjm, nworld=nworld)
  q, v, ctrl, act, mocap = sink.initial_state(mjm, alt)
  d.qpos.assign(np.tile(q, (nworld, 1)).astype(np.float32))
  d.qvel.assign(np.tile(v, (nworld, 1)).astype(np.float32))
  d.ctrl.assign(np.tile(ctrl, (nworld, 1)).astype(np.float32))
  d.act.assign(np.tile(act, (nworld, 1)).astype(np.float32))
  mp = d.mocap_pos.numpy()
  mp[:, 0] = mocap
  d.mocap_pos.assign(mp)
  for _ in range(nstep):
    mjw.step(m, d)
  mjw.forward(m, d)
  return [snapshot(m, d, w) for w in range(nworld)]


def snapshot(m, d, w):
  out = {}
  for f in DATA_FIELDS:
    a = getattr(d, f, None)
    if a is None:
      continue
    a = a.numpy()
    out[f] = a[w].copy() if a.shape[0] == d.nworld else a.copy()
  nefc, rows = util.efc_dense(m, d, w)
  cons = util.mjw_contacts(d, w)
  # efc.id of a contact row is an index into the contact array shared by all worlds: make it world-local
  local = {c["index"]: i for i, c in enumerate(cons)}
  ids = rows["id"].copy()
  for r in range(nefc):
    if rows["type"][r] >= 5:
      ids[r] = local.get(int(ids[r]), -1000 - int(ids[r]))
  rows["id"] = ids
  for k, val in rows.items():
    out["efc." + k] = val
  out["ncon"] = np.array(len(cons))
  for k in ("dist", "pos", "frame", "includemargin", "friction", "solref", "solreffriction", "solimp", "dim", "geom", "efc_address"):
    out["contact." + k] = np.array([c[k] for c in cons])
  return out


def same(a, b):
  """First differing output name, or None."""
  for k in a:
    x, y = np.ascontiguousarray(a[k]), np.ascontiguousarray(b[k])
    if x.shape != y.shape or x.tobytes() != y.tobytes():
      return k
  return None


def execute(scn):
  if scn["fam"] == "fieldlist":
    got = [(o + "." if o else "") + n for o, n in batch_fields()]
    c = util.Cmp()
    c.true("driver field list == annotations", got == FIELD_LIST, f"annotation-derived list differs: missing {sorted(set(got) - set(FIELD_LIST))} extra {sorted(set(FIELD_LIST) - set(got))}", vkey="harness_field_list_outdated")
    if got != FIELD_LIST:
      raise RuntimeError(f"FIELD_LIST outdated: missing {sorted(set(got) - set(FIELD_LIST))} extra {sorted(set(FIELD_LIST) - set(got))}")
    return c.result(nontrivial=False, key=util.sha(scn), outcome="fieldlist_ok")
  import mujoco_warp as mjw

  field, b, nstep, alt = scn["field"], scn["b"], scn["nstep"], scn["alt"]
  mjm = _mjm(scn["scene"])
  m0 = mjw.put_model(mjm)
  base = _get(m0, field).numpy()[0]
  if base.size == 0:
    return dict(ok=True, nontrivial=False, outcome="empty_in_scene", key=util.sha(scn))
  nvals = max(b, 2)
  vals = [perturb(field, base, k + (1 if b == 1 else 0), scn["dir"], mjm) for k in range(nvals)]
  if b == 1:
    # batch holds perturbation #1 alone; effect is measured against #2
    pass
  c = util.Cmp()
  # reference: an UNBATCHED Model holding value k, simulated with the same number of worlds (all identical); world w is compared with
  # world w of that run, so neither the batch size nor the position in the batch (separate property C09) enters the comparison
  solos_all = [run(mjm, field, [v], NWORLD, nstep, alt) for v in vals]
  solos = [x[0] for x in solos_all]
  effect = same(solos[0], solos[1])
  batch = run(mjm, field, vals[:b], NWORLD, nstep, alt)
  for w in range(NWORLD):
    diff = same(solos_all[w % b][w], batch[w])
    c.nchecked += 1
    if diff is not None:
      x, y = np.asarray(batch[w][diff], dtype=np.float64), np.asarray(solos_all[w % b][w][diff], dtype=np.float64)
      detail = f"max|diff|={np.abs(x - y).max():.3g}" if x.shape == y.shape and x.size else f"shape {x.shape} vs {y.shape}"
      # which solo does it look like instead?
      alias = [k for k in range(len(solos)) if same(solos_all[k][w], batch[w]) is None]
      c.fail(
        f"batched:{field}",
        f"field {field} batch size {b} scene {scn['scene']}: world {w} (value #{w % b}) differs from the unbatched run in '{diff}' ({detail})"
        + (f"; it equals the unbatched run for value #{alias[0]}" if alias else ""),
      )
  render = field in RENDER_ONLY
  outcome = "ok" if effect is not None else ("unexercised_render_only" if render else "unexercised")
  return c.result(
    nontrivial=effect is not None,
    key=util.sha(scn),
    outcome=outcome if c.violations == [] else "violation",
    info=dict(field=field, b=b, scene=scn["scene"], effect=effect),
  )


def coverage_extra(executed, tier):
  fields = {}
  for s, r in executed:
    if s.get("fam") != "field":
      continue
    e = fields.setdefault(s["field"], False)
    fields[s["field"]] = e or bool(r.get("nontrivial"))
  un = sorted(f for f, e in fields.items() if not e)
  return {
    "fields_enumerated": len(fields),
    "fields_with_effect": sum(1 for e in fields.values() if e),
    "fields_unexercised": [f for f in un if f not in RENDER_ONLY],
    "fields_render_only_unexercised": [f for f in un if f in RENDER_ONLY],
  }
