"""C21 Inertia factorisation solves the inertia system.

Space
  fam "tree":  shape in {chain, star} x dof count n (block-layout boundaries of io.m_block_layout: compact /
               scalar (<=6, triangular) / tile (<=64 or non-triangular) / sparse (>64)) x joint mixture
               {hinge, mixed hinge/slide/ball/hinge+slide, free root, ball root} x armature on/off.
  fam "mixed": models holding compact + scalar + tile + sparse blocks at once (3 arrangements, one with
               several equal-size blocks sharing a tile set) x armature on/off.
Every model runs as a 2-world batch with different qpos/qvel per world.
Right-hand sides: every unit vector e_i and two dense vectors (solve_m, mul_m); two dense + three unit vectors
for the fused factor_solve_i / factor_solve_lu paths.
Oracle (self-consistency, float64 NumPy on MJWarp's own float32 matrices):
  * M (dense from MJWarp's CSR) has min eigenvalue > 0 and equals MuJoCo's M (f32);
  * factor_m + solve_m:   backward error |Mx-b| <= 2e-5 (|M||x|+|b|)   and forward error vs numpy solve (cond-scaled);
  * mul_m(v) == M v (f32), also with M= given explicitly;
  * factor_solve_i on M + diag(s) (the Euler-damping matrix shape) and on M - h qDeriv from deriv_smooth_vel
    (implicitfast), and factor_solve_lu on the D-structure matrix assembled as forward.implicit does (implicit);
  * factor_solve_i(M) leaves factors that a later solve_m can use (forward() relies on that).
"""

import numpy as np

from mc import space, util
from mc.props import c02 as _c02

ID = "C21"
LEVEL = "exploration"
RULE = (
  "enumerate shape x dof-count x joint-mixture x armature (and the mixed-layout models); each scenario factors/solves in a "
  "2-world batch for every unit right-hand side plus two dense ones through solve_m, mul_m, factor_solve_i (3 matrices) and "
  "factor_solve_lu; non-trivial = nv>0, M not diagonal unless the block is compact by construction, and all solves ran with "
  "finite reference solutions; distinct = canonical hash of the spec"
)
BOUNDS = {
  "quick": "n in {1..8, 31..33, 63..65}; shapes chain/star; 4 joint mixtures; armature on/off; 3 mixed-layout models",
  "thorough": "every n in 1..70; shapes chain/star; 4 joint mixtures; armature on/off; 3 mixed-layout models",
}
ASSUMPTIONS = [
  "reference solves are float64 NumPy on the float32 matrices MJWarp itself produced (no MuJoCo tolerance involved), M itself is "
  "additionally compared with MuJoCo's M under f32",
  "backward-error bound 2e-5*(|M||x|+|b|) (inf-norms); forward-error bound max(2e-5, 2e-7*cond(M))*(1+|x*|) -- both calibrated on the unchanged tree",
  "real values from curated alphabets (VERIF_SEED mod 4), structure exhaustive within the bounds",
  "fused paths (factor_solve_i / factor_solve_lu): 2 dense + 3 unit right-hand sides instead of all unit vectors",
  "CPU backend only",
]
BUDGET = {"quick": 400, "thorough": 3000}

KINDS = ("hinge", "mixed", "free", "ball")
_DECOS_ARM = ("armature", "dampingpoly", "springpoly", "fluidbox", "tendon", "tenarm")
_DECOS_NOARM = ("dampingpoly", "springpoly", "fluidbox", "tendon")


def scenarios(tier, seed):
  v = seed % 4
  sizes = (list(range(1, 9)) + [31, 32, 33, 63, 64, 65]) if tier == "quick" else list(range(1, 71))
  out = []
  for n in sizes:
    for shape in ("chain", "star"):
      for kind in KINDS:
        if (kind == "free" and n < 6) or (kind == "ball" and n < 3):
          continue  # that root joint alone has more dofs than n
        for arm in (0, 1):
          out.append(dict(fam="tree", shape=shape, n=n, kind=kind, arm=arm, variant=v))
  for which in (0, 1, 2):
    for arm in (0, 1):
      out.append(dict(fam="mixed", which=which, arm=arm, variant=v))
  return out


# ------------------------------------------------------------------------------- models


def _joints_for(n, kind):
  """Joint kinds (per body) with exactly n dofs; root kind decided by `kind`."""
  if kind == "free":
    if n < 6:
      return None
    return ["free"] + ["hinge"] * (n - 6)
  if kind == "ball":
    if n < 3:
      return None
    return ["ball"] + _c02.chain_joints(n - 3, "mixed")
  return _c02.chain_joints(n, kind)


def tree_xml(shape, n, kind, arm, v):
  joints = _joints_for(n, kind)
  if joints is None:
    return None, None
  decos = _DECOS_ARM if arm else _DECOS_NOARM
  ja = _c02._joint_attrs(decos, v)
  nb = len(joints)
  s = ""
  for i, k in enumerate(joints, 1):
    pos = space._POS[(i + v) % 6]
    if i > 1:
      pos = tuple(0.35 * x for x in pos)
    quat = space._QUAT[(i * 5 + 1 + v) % 6]
    s += f'<body name="b{i}" pos="{space.fmt(pos)}" quat="{space.fmt(quat)}">'
    s += space.joint_xml(k, i, v, ja(i, k))
    s += (
      f'<geom type="capsule" size="0.03 0.05" pos="0.02 0.01 -0.03" quat="{space.fmt(space._QUAT[(i + 2) % 6])}" '
      f'mass="{0.5 + 0.1 * (i % 4):.3g}" contype="0" conaffinity="0"/>'
    )
    if i in (1, nb):
      s += f'<site name="s{i}" pos="0.03 -0.02 0.04" size="0.01"/>'
    if shape == "star" and i > 1:
      s += "</body>"
  s += "</body>" * (nb if shape == "chain" else 1)
  attrs = f' damping="{_c02._DPOLY[(v + 2) % 4]}"'
  if arm:
    attrs += f' armature="{_c02._ARM[(v + 1) % 4]}"'
  ten = "".join(f'<spatial name="t{e}"{attrs}><site site="sw"/><site site="s{e}"/></spatial>' for e in sorted({1, nb}))
  xml = (
    f'<mujoco><compiler angle="radian"/><option timestep="0.01" {_c02._FLUID[v]}/><worldbody>'
    f'<site name="sw" pos="0.05 -0.4 0.6" size="0.01"/>{s}</worldbody><tendon>{ten}</tendon></mujoco>'
  )
  return xml, joints


def mixed_xml(which, arm, v):
  if which < 2:
    xml, joints = _c02.mixed_model_xml(which, v)
  else:
    xml, joints = _mixed_equal_sizes(v)
  if not arm:
    import re

    xml = re.sub(r' armature="[^"]*"', "", xml)
  return xml.replace("<option ", '<option timestep="0.01" ', 1), joints


def _mixed_equal_sizes(v):
  """Several blocks of equal size (they share one tile set / one launch), interleaved with other layouts."""
  sizes = [("s", 5), ("c", 0), ("s", 5), ("t", 9), ("h", 1), ("t", 9), ("b", 3), ("c", 0), ("b", 3), ("h", 1), ("s", 5)]
  body, tens, joints = "", "", []
  for bi, (kind, n) in enumerate(sizes):
    p = f"m{bi}"
    pos0 = (0.6 * bi - 1.5, 0.2 * (bi % 3), 0.5)
    if kind == "c":
      body += f'<body name="{p}b" pos="{space.fmt(pos0)}"><joint name="{p}j" type="free"/><geom type="sphere" size="0.08" mass="{1.3 + 0.2 * bi:.3g}" contype="0" conaffinity="0"/></body>'
      joints.append("free")
    elif kind == "b":
      body += (
        f'<body name="{p}b" pos="{space.fmt(pos0)}"><joint name="{p}j0" type="hinge" axis="0.6 0 0.8" armature="0.05"/>'
        f'<geom type="box" size="0.05 0.07 0.04" pos="0.03 0.01 0.02" mass="{0.9 + 0.1 * bi:.3g}" contype="0" conaffinity="0"/>'
        f'<body pos="0.2 0.1 0"><joint name="{p}j1" type="slide" axis="0 0.8 -0.6" damping="0.4"/><geom type="sphere" size="0.05" pos="0.05 0 0.03" mass="0.6" contype="0" conaffinity="0"/></body>'
        f'<body pos="-0.1 0.2 0.1"><joint name="{p}j2" type="hinge" axis="0.36 0.48 0.8" damping="0.3"/><geom type="capsule" size="0.03 0.06" pos="0 0.04 0.03" mass="0.7" contype="0" conaffinity="0"/></body>'
        "</body>"
      )
      joints += ["hinge", "slide", "hinge"]
    else:
      decos = ("armature", "dampingpoly", "tendon", "tenarm") if kind == "t" else ("armature", "damping")
      b, t, js = _c02.chain_xml(n, "hinge" if kind == "h" else "mixed", (v + bi) % 4, decos=decos, prefix=p, pos0=pos0)
      body += b
      if t:
        body = f'<site name="{p}sw" pos="{space.fmt((pos0[0], pos0[1] - 0.4, pos0[2] + 0.2))}" size="0.01"/>' + body
      tens += t
      joints += js
  return f'<mujoco><compiler angle="radian"/><option {_c02._FLUID[v]}/><worldbody>{body}</worldbody><tendon>{tens}</tendon></mujoco>', joints


def build(scn):
  if scn["fam"] == "tree":
    return tree_xml(scn["shape"], scn["n"], scn["kind"], scn["arm"], scn["variant"])
  return mixed_xml(scn["which"], scn["arm"], scn["variant"])


# ------------------------------------------------------------------------------- helpers


def _sym_dense(mjm, csr):
  import mujoco

  out = np.zeros((mjm.nv, mjm.nv))
  mujoco.mju_sym2dense(out, np.ascontiguousarray(csr, dtype=np.float64), mjm.M_rownnz, mjm.M_rowadr, mjm.M_colind)
  return out


def _rhs_set(nv, v, all_units=True, nunits=3):
  """List of (name, vector)."""
  vs = space.QVEL_SCALAR[v]
  dense1 = np.array([vs[(j + 1) % 3] + 0.25 * ((j * 7) % 5) - 0.4 for j in range(nv)])
  dense2 = np.array([(-1.0) ** j * (0.3 + 0.1 * ((j * 3) % 7)) for j in range(nv)])
  out = [("dense1", dense1), ("dense2", dense2)]
  idx = range(nv) if all_units else sorted({0, nv // 2, nv - 1})
  for i in idx:
    e = np.zeros(nv)
    e[i] = 1.0
    out.append((f"e{i}", e))
  return out


def _wp_rows(rows):
  import warp as wp

  return wp.array(np.ascontiguousarray(rows, dtype=np.float32), dtype=float)


class _Solve:
  """Checks x against (A, b) per world: backward error and cond-scaled forward error."""

  def __init__(self, c, A_list, tag):
    self.c, self.A, self.tag = c, A_list, tag
    self.inv = []
    self.cond = []
    self.normA = []
    for A in A_list:
      self.cond.append(float(np.linalg.cond(A)))
      self.normA.append(float(np.abs(A).sum(axis=1).max()))
    self.maxback = 0.0
    self.maxfwd = 0.0
    self.ok_ref = True

  def check(self, name, x, b, w):
    A = self.A[w]
    x = np.asarray(x, np.float64)
    if not np.all(np.isfinite(x)):
      self.c.fail(f"{self.tag}:nonfinite", f"{self.tag}:{name}:w{w}: non-finite solution")
      return
    try:
      xs = np.linalg.solve(A, b)
    except np.linalg.LinAlgError:
      self.ok_ref = False
      return
    self.c.nchecked += 1
    res = float(np.abs(A @ x - b).max())
    den = self.normA[w] * float(np.abs(x).max()) + float(np.abs(b).max())
    back = res / den
    self.maxback = max(self.maxback, back)
    if back > 2e-5:
      self.c.fail(f"{self.tag}:residual", f"{self.tag}:{name}:w{w}: |Ax-b|={res:.3g} backward error {back:.3g} > 2e-5 (cond {self.cond[w]:.3g})")
    tol = max(2e-5, 2e-7 * self.cond[w])
    fwd = float(np.abs(x - xs).max()) / (1.0 + float(np.abs(xs).max()))
    self.maxfwd = max(self.maxfwd, fwd / tol)
    if fwd > tol:
      self.c.fail(f"{self.tag}:solution", f"{self.tag}:{name}:w{w}: |x-x*|/(1+|x*|)={fwd:.3g} > {tol:.3g} (cond {self.cond[w]:.3g})")


def execute(scn):
  import mujoco
  import mujoco_warp as mjw
  import warp as wp
  from mujoco_warp._src import derivative, forward, smooth

  xml, joints = build(scn)
  if xml is None:
    return dict(ok=True, nontrivial=False, outcome="not_applicable", key=util.sha(scn))
  mjm, err = util.try_load(xml)
  if mjm is None:
    return dict(ok=True, nontrivial=False, outcome="rejected_by_compiler", info=err, key=util.sha(scn))
  v = scn["variant"]
  nv, NW = mjm.nv, 2
  if scn["fam"] == "tree":
    assert nv == scn["n"], (nv, scn)
  c = util.Cmp()
  m = mjw.put_model(mjm)
  d = mjw.make_data(mjm, nworld=NW)
  refs = []
  for w, which in enumerate((1, 2)):
    qpos, qvel, _, _ = _c02._state(mjm, joints, v, which)
    mjd = util.mj_data(mjm, qpos=qpos, qvel=qvel)
    mujoco.mj_forward(mjm, mjd)
    refs.append(mjd)
    util.copy_state(mjd, d, world=w)
  degenerate = any(util.mj_warnings(r) for r in refs)

  d.qLD.fill_(np.nan)
  d.qLDiagInv.fill_(np.nan)
  mjw.fwd_position(m, d)  # kinematics, crb, tendon_armature, factor_m
  mjw.fwd_velocity(m, d)

  Mcsr = d.M.numpy().copy()
  Mw = [_sym_dense(mjm, Mcsr[w]) for w in range(NW)]
  offdiag = False
  for w in range(NW):
    c.close(f"M:w{w}", Mw[w], _c02._mj_full_m(mjm, refs[w]), "f32", vkey="M_parity")
    ev = np.linalg.eigvalsh(Mw[w])
    c.true(f"spd:w{w}", ev[0] > 0, f"min eigenvalue {ev[0]:.3g} (max {ev[-1]:.3g})", vkey="M_spd")
    offdiag = offdiag or bool(np.any(np.abs(Mw[w] - np.diag(np.diag(Mw[w]))) > 1e-9))

  # ---- factor_m + solve_m, mul_m : all unit vectors + 2 dense
  S = _Solve(c, Mw, "solve_m")
  x = wp.zeros((NW, nv), dtype=float)
  r = wp.zeros((NW, nv), dtype=float)
  r2 = wp.zeros((NW, nv), dtype=float)
  Mexplicit = wp.clone(d.M)
  for name, b in _rhs_set(nv, v):
    y = _wp_rows(np.tile(b, (NW, 1)))
    x.fill_(np.nan)
    mjw.solve_m(m, d, x, y)
    r.fill_(np.nan)
    mjw.mul_m(m, d, r, y)
    r2.fill_(np.nan)
    mjw.mul_m(m, d, r2, y, M=Mexplicit)
    xn, rn, r2n = x.numpy(), r.numpy(), r2.numpy()
    for w in range(NW):
      S.check(name, xn[w], b, w)
      c.close(f"mul_m:{name}:w{w}", rn[w], Mw[w] @ b, "f32", vkey="mul_m")
      c.close(f"mul_m(M=):{name}:w{w}", r2n[w], Mw[w] @ b, "f32", vkey="mul_m_explicit")

  diag_adr = (mjm.M_rowadr + mjm.M_rownnz - 1).astype(int)
  few = _rhs_set(nv, v, all_units=False)

  def fused(tag, csr_np):
    """factor_solve_i on an M-structure matrix given per world (numpy [NW, nC])."""
    A = [_sym_dense(mjm, csr_np[w]) for w in range(NW)]
    Sf = _Solve(c, A, tag)
    Mi = _wp_rows(csr_np)
    L = wp.empty_like(d.qLD)
    D = wp.empty((NW, nv), dtype=float)
    for name, b in few:
      L.fill_(np.nan)
      D.fill_(np.nan)
      x.fill_(np.nan)
      smooth.factor_solve_i(m, d, Mi, L, D, x, _wp_rows(np.tile(b, (NW, 1))))
      xn = x.numpy()
      for w in range(NW):
        Sf.check(name, xn[w], b, w)
    # the factor left behind must serve a later back-substitution (forward(): factor_solve_i then solver uses solve_m)
    name, b = few[1]
    x.fill_(np.nan)
    smooth.solve_LD(m, d, L, D, x, _wp_rows(np.tile(b, (NW, 1))))
    xn = x.numpy()
    for w in range(NW):
      Sf.check("reuse:" + name, xn[w], b, w)
    return Sf

  # (a) Euler-damping shape: M + diag(s)
  Me = Mcsr.copy()
  for w in range(NW):
    Me[w, diag_adr] += np.array([0.05 * (1 + (i + w) % 3) for i in range(nv)], dtype=np.float32)
  Sa = fused("factor_solve_i:euler", Me)
  # (b) plain M (forward() path)
  Sb = fused("factor_solve_i:M", Mcsr)
  # (c) implicitfast: M - h*qDeriv in M-structure
  qH = wp.zeros((NW, m.nC), dtype=float)
  mjw.deriv_smooth_vel(m, d, qH)
  qHn = qH.numpy().copy()
  Sc = fused("factor_solve_i:implicitfast", qHn)
  differs = bool(np.any(np.abs(qHn - Mcsr) > 1e-7))

  # (d) implicit: D-structure LU
  wp.launch(forward._map_m2d, dim=(NW, m.nD), inputs=[m.mapM2D, qH], outputs=[d.qLU])
  derivative.deriv_rne_vel(m, d, d.qLU, flg_subtract=True)
  qLUn = d.qLU.numpy().reshape(NW, -1).copy()
  A = []
  for w in range(NW):
    a = np.zeros((nv, nv))
    mujoco.mju_sparse2dense(a, qLUn[w].astype(np.float64), mjm.D_rownnz, mjm.D_rowadr, mjm.D_colind)
    A.append(a)
  Sd = _Solve(c, A, "factor_solve_lu")
  nonsym = any(bool(np.any(np.abs(a - a.T) > 1e-7)) for a in A)
  for name, b in few:
    wp.copy(d.qLU, wp.array(qLUn.reshape(d.qLU.shape), dtype=float))
    x.fill_(np.nan)
    smooth.factor_solve_lu(m, d, d.qLU, x, _wp_rows(np.tile(b, (NW, 1))))
    xn = x.numpy()
    for w in range(NW):
      Sd.check(name, xn[w], b, w)

  layout = _c02._layout_name(mjm)
  info = dict(
    nv=int(nv),
    layout=layout,
    cond=float(f"{max(S.cond):.3g}"),
    back=float(f"{max(s.maxback for s in (S, Sa, Sb, Sc, Sd)):.3g}"),
    fwd_over_tol=float(f"{max(s.maxfwd for s in (S, Sa, Sb, Sc, Sd)):.3g}"),
    nonsym_lu=nonsym,
    qH_differs=differs,
    checked=c.nchecked,
  )
  refs_ok = all(s.ok_ref for s in (S, Sa, Sb, Sc, Sd))
  nontrivial = nv > 0 and refs_ok and not degenerate and (offdiag or layout == "compact") and differs
  return c.result(nontrivial=nontrivial, key=util.sha(scn), outcome="degenerate" if degenerate else "ok", info=info)


def coverage_extra(executed, tier):
  lay = {}
  for scn, res in executed:
    info = res.get("info")
    if isinstance(info, dict) and info.get("layout"):
      lay[info["layout"]] = lay.get(info["layout"], 0) + 1
  return {"block_layouts_seen": lay}
