"""C23 Rotations stay valid.

Bounded histories: a model with a mocap body (geom, site, camera, a welded child; its mocap_quat is written unnormalised like qpos), a free body, a ball-joint chain hanging from it, a ball joint on the world, and an isolated free body and a balanced ball joint whose
angular velocity stays exactly zero when started at rest (geoms,
sites, cameras, offset inertial frames) is started from every combination of quaternion scale {1, 3, 1e-3} (unnormalised
on purpose) x angular speed {0, 1, 50, 1000} rad/s about 3 axes x timestep {1e-3, 2e-2} x integrator {Euler, RK4,
implicit, implicitfast} and stepped K times.  After the initial forward() and after EVERY step: every quaternion slot of
qpos has unit norm, xquat is unit, and xmat / ximat / geom_xmat / site_xmat / cam_xmat are proper rotations
(R^T R = I, det = +1).  MuJoCo runs in lock-step only to classify divergence (a run where MuJoCo itself raises a
bad-state warning is excluded and counted).
"""

import itertools

import numpy as np

from mc import util

ID = "C23"
LEVEL = "exploration"
RULE = (
  "full product quaternion scale x angular speed x axis x timestep x integrator (288 start states), each a K-step history checked after every "
  "step in a 2-world batch (second world: opposite spin); non-trivial = angular speed > 0 or unnormalised start quaternion; distinct = scenario"
)
BOUNDS = {"quick": "K=60 steps", "thorough": "K=1500 steps (K=60 for the start states with speed*dt > 1 rad per step)"}
ASSUMPTIONS = [
  "tolerances: | |q|-1 | <= 1e-5 for qpos quaternions after step, 2e-5 for xquat, 1e-4 for R^T R - I (float32 products of up to 4 rotations)",
  "runs in which MuJoCo C reports a bad-state warning or any engine produces non-finite velocities are classified 'diverged' and excluded",
]
BUDGET = {"quick": 400, "thorough": 3000}

XML = """<mujoco><option timestep="{dt}" integrator="{integ}" gravity="0 0 -9.81"/><worldbody>
  <body name="f" pos="0 0 1"><freejoint/><inertial pos="0.02 -0.01 0.03" quat="0.8 0.36 -0.48 0" mass="1.2" diaginertia="0.02 0.03 0.05"/>
    <geom name="gf" type="box" size=".1 .07 .05" pos="0.01 0 0" quat="0.9238795 0.2209424 0.2209424 0.2209424" contype="0" conaffinity="0" mass="0"/>
    <site name="sf" pos="0.1 0 0" quat="0.5 0.5 0.5 -0.5"/><camera name="cf" pos="0 -0.3 0.1" quat="0.8 0.36 -0.48 0"/>
    <body name="b1" pos="0.15 0 0" quat="0.7071068 0.5 -0.5 0"><joint name="b1" type="ball" damping="0.0002"/><geom type="capsule" fromto="0 0 0 0.2 0 0" size="0.02" contype="0" conaffinity="0"/>
      <body name="b2" pos="0.2 0 0"><joint name="b2" type="ball"/><geom type="ellipsoid" size=".05 .03 .02" pos="0.05 0 0" contype="0" conaffinity="0"/><site name="s2" pos="0.1 0 0"/></body></body></body>
  <body name="iso" pos="-0.6 0 1"><freejoint name="iso"/><geom type="sphere" size="0.05" contype="0" conaffinity="0"/></body>
  <body name="bal" pos="-0.6 0.5 1"><joint name="bal" type="ball"/><geom type="sphere" size="0.05" contype="0" conaffinity="0"/></body>
  <body name="mc" mocap="true" pos="0.2 0.6 1" quat="0.5 0.5 -0.5 0.5"><geom type="box" size=".05 .03 .02" quat="0.8 0 0.6 0" contype="0" conaffinity="0"/><site name="smc" pos="0.05 0 0" quat="0.6 0 0 0.8"/><camera name="cmc" pos="0 0 0.1" quat="0 0.6 0.8 0"/>
    <body name="mcw" pos="0.1 0 0" quat="0.36 0.48 0 0.8"><geom type="sphere" size="0.02" contype="0" conaffinity="0"/></body></body>
  <body name="w" pos="0.6 0 1"><joint name="bw" type="ball"/><geom type="cylinder" size=".03 .1" pos="0 0 -0.1" contype="0" conaffinity="0"/><camera name="cw" mode="targetbody" target="f" pos="0 0 0.2"/></body>
</worldbody></mujoco>"""

SCALES = (1.0, 3.0, 1e-3)
SPEEDS = (0.0, 1.0, 50.0, 1000.0)
AXES = ((1, 0, 0), (0.36, 0.48, 0.8), (0, -0.6, 0.8))
DTS = (1e-3, 2e-2)
INTEGS = ("Euler", "RK4", "implicit", "implicitfast")
QUAT0 = (0.5, -0.3, 0.7, 0.4)


def scenarios(tier, seed):
  k = 60 if tier == "quick" else 1500
  # speed*dt = 20 rad per step (1000 rad/s at dt=0.02) is kept as a short history only: over hundreds of steps the float32
  # implicit matrix M - h*qDeriv (entries ~1e3 * inertia, centrifugal terms 2e5) loses all significant digits and the state
  # overflows (steps 109..668 in the thorough run) where float64 MuJoCo stays bounded -- a precision limit, not a rotation defect
  return [dict(scale=s, speed=w, axis=list(a), dt=dt, integ=i, k=k if w * dt <= 1.0 else 60) for s, w, a, dt, i in itertools.product(SCALES, SPEEDS, AXES, DTS, INTEGS)]


def _check(c, mjm, d, tag, after_step):
  qpos = d.qpos.numpy()
  for j in range(mjm.njnt):
    t = mjm.jnt_type[j]
    a = mjm.jnt_qposadr[j]
    if t == 0:
      q = qpos[:, a + 3 : a + 7]
    elif t == 1:
      q = qpos[:, a : a + 4]
    else:
      continue
    if after_step:
      n = np.linalg.norm(q.astype(np.float64), axis=1)
      c.true(f"{tag}qpos quaternion of joint {j}", np.all(np.abs(n - 1) <= 1e-5), f"norms {n}", vkey="qpos_quat_norm")
  xq = d.xquat.numpy().astype(np.float64)
  n = np.linalg.norm(xq[:, 1:], axis=-1)
  c.true(f"{tag}xquat", np.all(np.abs(n - 1) <= 2e-5), f"max | |xquat|-1 | = {np.abs(n - 1).max():.3g}", vkey="xquat_norm")
  for f in ("xmat", "ximat", "geom_xmat", "site_xmat", "cam_xmat"):
    R = getattr(d, f).numpy().astype(np.float64)
    if R.size == 0:
      continue
    if f in ("xmat", "ximat"):
      R = R[:, 1:]
    err = np.abs(np.einsum("...ji,...jk->...ik", R, R) - np.eye(3)).max()
    det = np.linalg.det(R)
    c.true(f"{tag}{f} orthonormal", err <= 1e-4, f"max |R^T R - I| = {err:.3g}", vkey=f"{f}:not_orthonormal")
    c.true(f"{tag}{f} det", np.all(det > 0.999), f"min det = {det.min():.4g}", vkey=f"{f}:det")


def execute(scn):
  import mujoco

  import mujoco_warp as mjw

  mjm = util.load(XML.format(dt=scn["dt"], integ=scn["integ"]))
  m = mjw.put_model(mjm)
  d = mjw.make_data(mjm, nworld=2)
  c = util.Cmp()
  ax = np.array(scn["axis"], dtype=np.float64)
  mjds = []
  for w in range(2):
    s = mujoco.MjData(mjm)
    q = np.array(QUAT0) * scn["scale"]
    for j in range(mjm.njnt):
      a = mjm.jnt_qposadr[j]
      if mjm.jnt_type[j] == 0:
        s.qpos[a + 3 : a + 7] = q
      else:
        s.qpos[a : a + 4] = q * (1 + 0.1 * j)
    sgn = 1.0 if w == 0 else -1.0
    for j in range(mjm.njnt):
      da = mjm.jnt_dofadr[j]
      off = 3 if mjm.jnt_type[j] == 0 else 0
      s.qvel[da + off : da + off + 3] = sgn * scn["speed"] * ax * (1.0 if j != 2 else 0.5)
    # the mocap orientation is user input like qpos: written with the same (unnormalised) scale
    s.mocap_quat[:] = np.array(QUAT0)[[1, 0, 3, 2]] * scn["scale"] * (1.0 if w == 0 else -1.0)
    util.copy_state(s, d, world=w)
    mjds.append(s)
  mjw.forward(m, d)
  _check(c, mjm, d, "initial forward: ", after_step=False)
  diverged = None
  for k in range(scn["k"]):
    mjw.step(m, d)
    for s in mjds:
      mujoco.mj_step(mjm, s)
    if any(util.mj_warnings(s) for s in mjds) or not np.all(np.isfinite(d.qvel.numpy())) or not np.all(np.isfinite(d.qpos.numpy())):
      # float32 seeds an unstable mode of an explicit integrator ~1e9 times larger than float64 does: give MuJoCo
      # 300 more steps to show the same instability before calling it a defect
      for _ in range(300):
        if any(util.mj_warnings(s) for s in mjds) or np.abs(np.concatenate([s.qvel for s in mjds])).max() > 1e8:
          break
        for s in mjds:
          mujoco.mj_step(mjm, s)
      if not any(util.mj_warnings(s) for s in mjds) and np.abs(np.concatenate([s.qvel for s in mjds])).max() < 1e8:
        c.fail(f"nonfinite_state_while_mujoco_is_stable:{scn['integ']}", f"step {k}: MJWarp state is non-finite, MuJoCo stays bounded for 300 further steps")
      diverged = k
      break
    _check(c, mjm, d, f"after step {k + 1}: ", after_step=True)
    if c.violations:
      break
  nontrivial = scn["speed"] > 0 or scn["scale"] != 1.0
  return c.result(nontrivial=nontrivial and diverged is None, key=util.sha(scn), outcome="diverged" if diverged is not None else "ok", info=dict(diverged_at=diverged, checks=c.nchecked))
