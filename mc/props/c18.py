"""C18 Broad-phase choice does not change contacts.

Space: {NXN, SAP_TILE, SAP_SEGMENTED} x all 16 broadphase_filter masks (48 configurations) on
 (a) C04's pair scenes (every geom-type pair x 2 orientations x (margin, gap); 6 separations + 2 poses with B's bounding
     sphere wholly behind A's supporting plane = 8 worlds), and the same type pairs with the static geom A declared AFTER
     B's body (on a mocap body / static child body), so that the static geom (e.g. a plane) has the HIGHER geom id,
 (b) 5-geom scenes (plane + 4 mixed geoms) in three layouts: a row along the fixed SAP sweep axis, a row orthogonal
     to it (coincident SAP projections), a cluster with coincident centres; nworld in {1,4} with different poses per world
     (the 4th world has all geoms deep below the plane); plane first (world geom) or last (mocap body after the free bodies),
 (c) rows of N spheres (N = 2,3,6: SAP range/clamp logic, several ngeom values),
 (d) an explicit <pair> whose margin exceeds the geoms' margins,
 (e) rows of N spheres (N = 3,4) with PER-GEOM margins: every assignment of {0, 4 r} to the N geoms x {straight row along
     the sweep axis, zigzag row} x 10 worlds (5 spacings x {geom ids ascending, descending along the sweep axis}); the spacings put
     adjacent / next-but-one / next-but-two pairs inside the zone that one margin covers or that only the SUM of the two
     margins covers, so that a pair in contact has other geoms sorted between its two members.
Oracle: differential - the contact multiset of every configuration equals that of (NXN, filter 0), which sends every
candidate pair to the narrow phase; geom pairs exact, values bit-identical (same narrow-phase code on the same inputs).
No MuJoCo involved; C04 ties one configuration to MuJoCo.
"""

import collections
import itertools

import numpy as np

from mc import space, util
from mc.refs import colcheck as cc
from mc.refs import colscene as cs

ID = "C18"
LEVEL = "exploration"
RULE = (
  "enumerate scenes (pair scenes: all type pairs x orientations x margins x {static geom has the lower id, the higher id}, separations from "
  "outside the margin to wholly behind the other geom; 5-geom layouts x type rotations x margins x nworld x {plane first, plane last}; "
  "sphere rows; explicit pair with large margin; sphere rows with every {0, large} per-geom margin assignment at spacings inside the "
  "margin zone of one margin / of the sum only); every scene runs ALL 48 (broadphase, filter) configurations and compares each "
  "contact multiset with the unfiltered all-pairs run. non-trivial = the reference run has >=1 contact and >=1 candidate pair "
  "without contact (so filters both keep and reject something); distinct = hash of the scene spec"
)
BOUNDS = {
  "quick": "35 type pairs x 2 orientations x 4 (margin,gap) x 8 worlds, static geom first; 35 type pairs x 1 orientation x 1 (margin,gap) x 8 worlds, "
  "static geom last (mocap body for even seeds, static child body for odd seeds); 7 type rotations x 3 layouts x 2 margins x nworld {1,4}, plane first; "
  "7 type rotations x 3 layouts x 1 margin x nworld 4, plane last; rows N in {2,3,6}; 4 pair-margin scenes; "
  "mixed-margin rows N in {3,4} x 2^N margin assignments x {line, zigzag} x 10 worlds; x 48 configs",
  "thorough": "as quick with 5 orientations and static/moving swap; static geom last on {mocap, static child} x 2 orientations x 4 (margin,gap); "
  "plane last for all multi scenes; rows N in {2,3,6,9,17,33}; mixed-margin rows N in {3,4,5}",
}
ASSUMPTIONS = [
  "differential oracle: (NXN, filter=0) is the reference configuration; contacts keyed by (world, geom pair), sorted by value",
  "values compared bit for bit (identical narrow-phase code and inputs)",
  "NaN-free poses; sleeping disabled; nconmax ample",
]
BUDGET = {"quick": 500, "thorough": 3000}

MG = [(0.0, 0.0), (0.05, 0.0), (0.05, 0.02), (0.0, 0.02)]
BOXY = ("box", "tet", "cube")
MOV = ("sphere", "capsule", "ellipsoid", "cylinder", "box", "tet", "cube")
SWEEP = np.array([0.5935, 0.7790, 0.1235]) / np.linalg.norm([0.5935, 0.7790, 0.1235])


def scenarios(tier, seed):
  v = seed % 4
  out = []
  for sep in (0.5, 0.25):
    for pm in (1.0, 0.4):
      out.append(dict(fam="pairmargin", sep=sep, pair_margin=pm, variant=v))
  orients = ("generic", "aligned") if tier == "quick" else cs.ORIENTS
  for ta, tb in cs.type_pairs():
    for o in orients:
      for margin, gap in MG:
        swaps = [0, 1] if (tier == "thorough" and cs.ORDER[ta] != cs.ORDER[tb] and ta != "plane") else [0]
        for sw in swaps:
          mc = 0 if (margin and ta in BOXY and tb in BOXY) else 1
          out.append(dict(fam="pair", ta=ta, tb=tb, orient=o, margin=margin, gap=gap, swap=sw, variant=v, multiccd=mc))
  # geom-id order: the static geom A declared after B's body, so that A (a plane, ...) has the higher geom id
  a_bodies = (("mocap", "static")[v % 2],) if tier == "quick" else ("mocap", "static")
  for ta, tb in cs.type_pairs():
    for a_body in a_bodies:
      for o in ("generic",) if tier == "quick" else ("generic", "aligned"):
        for margin, gap in MG[2:3] if tier == "quick" else MG:
          mc = 0 if (margin and ta in BOXY and tb in BOXY) else 1
          out.append(dict(fam="pair", ta=ta, tb=tb, orient=o, margin=margin, gap=gap, swap=0, variant=v, multiccd=mc, a_body=a_body))
  for rot in range(len(MOV)):
    for layout in ("sweep", "ortho", "cluster"):
      for margin in (0.0, 0.03):
        for nworld in (1, 4):
          out.append(dict(fam="multi", rot=rot, layout=layout, margin=margin, nworld=nworld, variant=v))
          if nworld == 4 and (margin or tier != "quick"):
            out.append(dict(fam="multi", rot=rot, layout=layout, margin=margin, nworld=nworld, variant=v, plane="last"))
  for n in (2, 3, 6) if tier == "quick" else (2, 3, 6, 9, 17, 33):
    for layout in ("sweep", "ortho"):
      for nworld in (1, 3):
        out.append(dict(fam="row", n=n, layout=layout, nworld=nworld, variant=v))
  # per-geom margins: every assignment of {0, large} to the N spheres of a row
  for n in (3, 4) if tier == "quick" else (3, 4, 5):
    for layout in ("line", "zigzag"):
      for bits in itertools.product((0, 1), repeat=n):
        out.append(dict(fam="mixmargin", n=n, layout=layout, margins=list(bits), variant=v))
  return out


def worker_init():
  from mc.refs import colwarm

  colwarm.warm_dispatch()


# ------------------------------------------------------------------------------------------ scenes


def _basis():
  a = np.cross(SWEEP, [0.0, 0.0, 1.0])
  a /= np.linalg.norm(a)
  b = np.cross(SWEEP, a)
  return a, b


def _multi(scn):
  """plane + 4 geoms on free bodies. Returns (xml, list of qpos per world)."""
  v, rot, margin = scn["variant"], scn["rot"], scn["margin"]
  types = [MOV[(rot + k) % len(MOV)] for k in range(4)]
  mg = f' margin="{margin}"' if margin else ""
  assets, bodies = "", ""
  sc = cs._SCALE[v % 4]
  for k, t in enumerate(types):
    if t in ("tet", "cube"):
      vv = (cs._TET if t == "tet" else cs._CUBE) * sc * 0.6
      assets += f'<mesh name="m{k}" vertex="{" ".join(f"{x:.6g}" for x in vv.ravel())}"/>'
      ga = f'type="mesh" mesh="m{k}"'
    else:
      ga = f'type="{t}" size="{space.fmt(tuple(float(sc * x) for x in cs._SIZE[t][1]))}"'
    bodies += f'<body name="b{k}"><freejoint/><geom name="g{k}" {ga}{mg}/></body>'
  opt = '<option><flag multiccd="disable"/></option>' if margin else ""
  plane = f'<geom name="pl" type="plane" size="2 2 0.1" pos="0 0 -0.02" quat="0.9914449 0.0922959 -0.0922959 0"{mg}/>'
  if scn.get("plane", "first") == "last":
    # the plane gets the highest geom id: it hangs on a mocap body declared after the free bodies
    world = f'{bodies}<body name="bpl" mocap="true">{plane}</body>'
  else:
    world = plane + bodies
  xml = f"<mujoco>{opt}<asset>{assets}</asset><worldbody>{world}</worldbody></mujoco>"
  a, b = _basis()
  quats = [cs._GEN_Q[(v + k) % 4][k % 3] for k in range(4)]
  worlds = []
  for w in range(scn["nworld"]):
    spacing = (0.11, 0.2, 0.9, 0.2)[w]  # touching/overlapping, partly separated, all far apart, partly separated
    # worlds 0-2 rest on / hover above the plane; in world 3 every geom's bounding sphere is wholly below the plane surface
    # (>= 0.3 deep, rbound + margin < 0.26): the plane is a half space, so these are contacts too
    base = np.array([0.1, -0.05, 0.07 + 0.02 * w if w < 3 else -0.35])
    q = []
    for k in range(4):
      if scn["layout"] == "sweep":
        p = base + SWEEP * spacing * k
      elif scn["layout"] == "ortho":
        # identical projection on the sweep axis for all four
        p = base + a * spacing * k
      else:
        # coincident centres for the first two, neighbours for the rest
        p = base + (0 if k < 2 else 1) * (a * spacing * (k - 1) + b * 0.03)
      p = p - SWEEP * (SWEEP @ (p - base)) * (1.0 if scn["layout"] != "sweep" else 0.0)
      q += list(p) + list(quats[k])
    worlds.append(np.array(q))
  return xml, worlds


def _row(scn):
  n, v = scn["n"], scn["variant"]
  r = 0.05 * cs._SCALE[v % 4]
  bodies = "".join(f'<body name="b{k}"><freejoint/><geom name="g{k}" type="sphere" size="{r:.6g}"/></body>' for k in range(n))
  xml = f"<mujoco><worldbody>{bodies}</worldbody></mujoco>"
  a, _ = _basis()
  axis = SWEEP if scn["layout"] == "sweep" else a
  worlds = []
  for w in range(scn["nworld"]):
    spacing = (1.9 * r, 2.0 * r + 1e-3, 2.5 * r)[w]  # chain of contacts, just separated, separated
    q = []
    for k in range(n):
      # alternate the order along the axis so that geom index order != sorted order
      kk = (k * 5) % n if n % 5 else k
      p = np.array([0.2, 0.1, 0.3]) + axis * spacing * kk
      q += list(p) + [1.0, 0.0, 0.0, 0.0]
    worlds.append(np.array(q))
  return xml, worlds


def _mixmargin(scn):
  """row of n equal spheres (radius r) on free bodies, geom k with margin 0 or M = 4 r (scn["margins"][k]).

  Centres: base + SWEEP * step * k (+ lateral offset +-1.2 r alternating for "zigzag", where step is halved, so that
  next-but-one neighbours are as far apart as the neighbours of the straight row while other geoms project between them).
  Worlds: 5 spacings x {geom ids ascending, descending along the sweep axis}. With D = 2 r + x M the centre distance at which a
  pair is x M apart surface to surface (contact iff x M <= margin_i + margin_j):
    D(0.5)      neighbours inside one margin           D(1.5)      neighbours inside the sum of two margins only
    D(0.5) / 2  next-but-one inside one margin         D(1.5) / 2  next-but-one inside the sum only
    D(1.5) / 3  next-but-two inside the sum only (all >= 2 r: no penetration in the straight row)
  """
  n, v = scn["n"], scn["variant"]
  r = 0.05 * cs._SCALE[v % 4]
  big = 4.0 * r
  bodies = "".join(
    f'<body name="b{k}"><freejoint/><geom name="g{k}" type="sphere" size="{r:.6g}" margin="{big * scn["margins"][k]:.6g}"/></body>'
    for k in range(n)
  )
  xml = f"<mujoco><worldbody>{bodies}</worldbody></mujoco>"
  a, _ = _basis()
  zig = scn["layout"] == "zigzag"
  worlds = []
  for step in (2 * r + 0.5 * big, 2 * r + 1.5 * big, r + 0.25 * big, r + 0.75 * big, (2 * r + 1.5 * big) / 3):
    for rev in (0, 1):
      q = []
      for k in range(n):
        kk = n - 1 - k if rev else k
        p = np.array([0.2, 0.1, 0.3]) + SWEEP * step * kk * (0.5 if zig else 1.0)
        if zig:
          p = p + a * 1.2 * r * (1 if kk % 2 else -1)
        q += list(p) + [1.0, 0.0, 0.0, 0.0]
      worlds.append(np.array(q))
  return xml, worlds


def _pair(scn):
  """C04's pair scene (A static, B on a free body) -> dict(mjm, qs) or dict(outcome=...), with two dimensions added here:

  * a_body: "world" = A is a world geom (geom id 0, B id 1: cs.build_pair); "mocap" / "static" = A hangs on a mocap body /
    jointless child body declared AFTER B's body, so A has the higher geom id (id 1, B id 0);
  * two more separations after C04's six: B's support point lies 2*rbound_B + margin + gap + 0.02 (resp. twice that) behind
    A's supporting plane, i.e. B's whole bounding sphere inflated by the margin is behind it (for a plane A: B's centre is
    deeper than rbound + margin below the surface - still a contact, a plane is a half space).
  """
  a_body = scn.get("a_body", "world")
  ta, tb = (scn["tb"], scn["ta"]) if scn.get("swap") else (scn["ta"], scn["tb"])
  v, margin, gap = scn["variant"], scn["margin"], scn["gap"]
  qa, qb, n = cs.orientation(scn["orient"], v)
  if ta == "plane":
    n = cs.quat2mat(qa)[:, 2]
  if a_body == "world":
    b = cs.build_pair(scn)
    if "outcome" in b:
      return b
    mjm, qs, gA, gB = b["mjm"], list(b["qs"]), 0, 1
  else:
    xml = cs.scene_xml(ta, tb, qa, margin, gap, v, option=cs.option_xml(scn))
    a0 = xml.index('<geom name="gA"')
    a1 = xml.index("/>", a0) + 2
    attr = ' mocap="true"' if a_body == "mocap" else ""
    xml = xml[:a0] + xml[a1:].replace("</worldbody>", f'<body name="bA"{attr}>{xml[a0:a1]}</body></worldbody>')
    mjm, err = util.try_load(xml)
    if mjm is None:
      return dict(outcome="rejected_by_compiler", info=err)
    gA, gB = 1, 0
    if mjm.geom_bodyid[gA] != 2 or mjm.geom_bodyid[gB] != 1 or mjm.body_jntnum[2] != 0:
      raise RuntimeError("harness: static geom A is not the last geom")
    qs = list(cs.place(mjm, qb, n, [d for _, d in cs.d_cases(margin, gap)], gA=gA, gB=gB)[0])
  behind = 2.0 * float(mjm.geom_rbound[gB]) + margin + gap + 0.02
  qs += list(cs.place(mjm, qb, n, [-behind, -2.0 * behind], gA=gA, gB=gB)[0])
  return dict(mjm=mjm, qs=qs)


def _pairmargin(scn):
  sep, pm = scn["sep"], scn["pair_margin"]
  xml = (
    f'<mujoco><worldbody><body name="b1"><freejoint/><geom name="g0" type="sphere" size="0.1"/></body>'
    f'<body name="b2"><freejoint/><geom name="g1" type="sphere" size="0.1"/></body></worldbody>'
    f'<contact><pair geom1="g0" geom2="g1" margin="{pm}" condim="4"/></contact></mujoco>'
  )
  return xml, [np.array([0, 0, 0, 1.0, 0, 0, 0, sep, 0, 0, 1.0, 0, 0, 0])]


# ------------------------------------------------------------------------------------------ execution


def _canon(d, nworld, geom_type):
  """(rows, nacon, swapped): contacts as a sorted list of tuples in raw float32.

  Row = (world, g_lo, g_hi, dist, pos[3], normal[3] oriented from g_lo to g_hi, includemargin, dim, friction[5]).
  `swapped` lists contacts reported with geom[0] > geom[1] for two geoms of the same type (a different record of the same
  physical contact: ids exchanged, normal negated).
  """
  n = min(int(d.nacon.numpy()[0]), d.naconmax)
  if n == 0:
    return [], 0, []
  c = d.contact
  wid = c.worldid.numpy()[:n]
  geom = c.geom.numpy()[:n]
  dist = c.dist.numpy()[:n]
  pos = c.pos.numpy()[:n]
  frame = c.frame.numpy()[:n].reshape(n, 9)
  inc = c.includemargin.numpy()[:n]
  dim = c.dim.numpy()[:n]
  fr = c.friction.numpy()[:n]
  rows, swapped = [], []
  for i in range(n):
    g1, g2 = int(geom[i][0]), int(geom[i][1])
    nrm = frame[i][:3]
    if geom_type[g1] == geom_type[g2] and g1 > g2:
      swapped.append((int(wid[i]), g2, g1))
      g1, g2, nrm = g2, g1, -nrm
    rows.append(
      (int(wid[i]), g1, g2, float(dist[i]))
      + tuple(float(x) for x in pos[i])
      + tuple(float(x) + 0.0 for x in nrm)
      + (float(inc[i]), int(dim[i]))
      + tuple(float(x) for x in fr[i])
    )
  rows.sort()
  return rows, int(d.nacon.numpy()[0]), swapped


def execute(scn):
  import mujoco
  import mujoco_warp as mjw
  from mujoco_warp._src.types import BroadphaseFilter, BroadphaseType

  fam = scn["fam"]
  if fam == "pair":
    b = _pair(scn)
    if "outcome" in b:
      return dict(ok=True, nontrivial=False, key=util.sha(scn), **b)
    mjm, worlds = b["mjm"], b["qs"]
  else:
    xml, worlds = {"multi": _multi, "row": _row, "pairmargin": _pairmargin, "mixmargin": _mixmargin}[fam](scn)
    mjm, err = util.try_load(xml)
    if mjm is None:
      return dict(ok=True, nontrivial=False, outcome="rejected_by_compiler", info=err, key=util.sha(scn))
  try:
    m = mjw.put_model(mjm)
  except NotImplementedError as e:
    return dict(ok=True, nontrivial=False, outcome="unsupported", info=str(e)[:160], key=util.sha(scn))
  nworld = len(worlds)
  # the unfiltered reference run sends every candidate pair to the narrow phase: the pair buffer (naconmax) must hold them all
  d = mjw.make_data(mjm, nworld=nworld, nconmax=max(128, mjm.ngeom * (mjm.ngeom - 1) // 2 + 16))
  util.set_field(d.qpos, np.array(worlds, dtype=np.float32))
  mjw.kinematics(m, d)
  c = util.Cmp()
  gtype = [int(t) for t in mjm.geom_type]

  class _Names:
    def __getitem__(self, k):
      return cc.pair_name(mjm.geom_type[k[0]], mjm.geom_type[k[1]]) + ("(self)" if k[0] == k[1] else "")

  names = _Names()

  def run(bp, flt):
    m.opt.broadphase = bp
    m.opt.broadphase_filter = flt
    mjw.collision(m, d)
    return _canon(d, nworld, gtype)

  ref, nref, ref_sw = run(BroadphaseType.NXN, BroadphaseFilter(0))
  if nref > d.naconmax or int(d.ncollision.numpy()[0]) > d.naconmax:
    raise RuntimeError("harness: naconmax too small for the reference run")
  ref_count = collections.Counter(r[:3] for r in ref)
  npairs_candidate = int(m.nxn_geom_pair_filtered.shape[0]) * nworld
  nconfig = 0
  found = collections.OrderedDict()  # vkey -> [first message, list of filter masks]

  def note(vkey, msg, f):
    found.setdefault(vkey, [msg, []])[1].append(f)

  for bp in BroadphaseType:
    for f in range(16):
      flt = BroadphaseFilter(f)
      if bp == BroadphaseType.NXN and f == 0:
        continue
      got, ngot, got_sw = run(bp, flt)
      nconfig += 1
      c.nchecked += 1
      if got_sw != ref_sw:
        k = (got_sw or ref_sw)[0]
        pn = names[(k[1], k[2])]
        note(
          f"{bp.name}:geom_order_swapped:{pn}",
          f"world {k[0]}: contact of geoms ({k[1]}, {k[2]}) ({pn}) is reported as geom=({k[2]}, {k[1]}) with the normal negated "
          f"(all-pairs broad phase: {'same' if k in ref_sw else 'geom[0] < geom[1]'})",
          f,
        )
      if got == ref:
        continue
      got_count = collections.Counter(r[:3] for r in got)
      reported = False
      for key in sorted(set(ref_count) | set(got_count)):
        a_, b_ = ref_count.get(key, 0), got_count.get(key, 0)
        if a_ != b_:
          side = "missing" if b_ < a_ else "extra"
          pn = names[(key[1], key[2])]
          vkey = "pair_margin_gt_geom_margin:missing_contact" if (fam == "pairmargin" and side == "missing") else f"{bp.name}:{side}:{pn}"
          note(vkey, f"{bp.name}: world {key[0]} pair {key[1:]} ({pn}): {a_} contact(s) with (NXN, no filter), {b_} with this configuration", f)
          reported = True
          break
      if not reported:
        # same pairs: values must be bit-identical, except for contacts whose geom order was exchanged (the narrow phase
        # then runs with its two arguments swapped; already reported above) which are compared under class f32
        swset = set(got_sw) ^ set(ref_sw)
        bad = None
        for ra, rb in zip(ref, got):
          if ra == rb:
            continue
          va, vb = np.array(ra[3:], np.float64), np.array(rb[3:], np.float64)
          if ra[:3] == rb[:3] and ra[:3] in swset and np.max(np.abs(va - vb)) <= 2e-5 * (1 + np.max(np.abs(va))):
            continue
          bad = (ra, rb)
          break
        if bad:
          note(
            f"{bp.name}:values_differ:{names[(bad[0][1], bad[0][2])]}",
            f"{bp.name}: same pairs but contact values differ from the (NXN, no filter) run: {bad[0][:7]} vs {bad[1][:7]}",
            f,
          )
  for vkey, (msg, fl) in found.items():
    c.fail(vkey, f"{msg}; filter masks {fl}")
  nontrivial = len(ref) > 0 and npairs_candidate > len(ref_count)
  return c.result(
    nontrivial=nontrivial,
    key=util.sha(scn),
    info=dict(ncontact_ref=len(ref), candidate_pairs=npairs_candidate, configs=nconfig + 1, ngeom=int(mjm.ngeom), nworld=nworld),
    counts=dict(extra_evaluations=nconfig),
  )
