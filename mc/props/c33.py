"""C33 set_const recomputes derived model fields correctly.

Space (enumerated): every DFS-ordered 3-body tree x a cyclic choice of joint-kind assignments (incl. bodies without a joint, on a moving body and on the world), decorated with a tendon set
(fixed tendons on every size-1 and size-2 subset of the scalar joints, listed forward and again reversed around a 3-site
spatial tendon, plus two 2-site spatial tendons: 5..23 tendons, every pair of distinct dof supports in both id orders),
connect / weld / joint equalities, position actuators with dampratio on a joint and a tendon, a motor, and a
camera + light per body (all tracking modes); nworld=2 with every set_const-safe input field batched per world.
Changes: every field of {body_mass, body_inertia, body_ipos, body_iquat, body_pos, body_quat, qpos0, qpos_spring,
dof_armature, eq_data(connect anchor), eq_data(weld, relpose cleared), tendon_lengthspring(-1,-1 on alternate tendons), actuator kp, actuator dampratio}
singly and in all pairs, with a different value in each world.
Entry points: set_const(restore=True/False) on one model; set_const_fixed -> set_const_0 -> set_const_spring on a second model
(must equal set_const bit for bit).
Oracle: mujoco.mj_setConst on a copy of the MjModel carrying world w's values; Data restored (qpos bitwise; position-dependent
fields identical to recomputing them at d.qpos).
"""

import itertools

import numpy as np

from mc import space, util

ID = "C33"
LEVEL = "exploration"
RULE = (
  "enumerate trees(3) x joint assignments x {single changes, all pairs of changes} with per-world values; each scenario runs "
  "set_const and the three sub-functions; non-trivial = the changed fields move at least one compared derived field of the "
  "reference by >1e-6 relative in both worlds; distinct = hash of the spec"
)
BOUNDS = {
  "quick": "5 trees x 3 joint assignments; 14 single changes + all 91 pairs; nworld=2; per model all fixed-tendon supports of size<=2 over <=4 scalar joints in both id orders + 3 spatial tendons",
  "thorough": "5 trees x 5 joint assignments; 14 single changes + all 91 pairs; nworld=2; per model all fixed-tendon supports of size<=2 over <=4 scalar joints in both id orders + 3 spatial tendons",
}
ASSUMPTIONS = [
  "MuJoCo C 3.13 mj_setConst is the reference; class f32dyn (2e-4 relative to the field scale): every derived field is behind a factor/solve",
  "every changed input field and every derived output field is batched to nworld=2 via put_model(batch_sizes=...); an unbatched derived field can only hold world 0's value by construction",
  "hfield_size and flex are out of scope (C40); CPU backend only; real values from curated alphabets (VERIF_SEED mod 4)",
]
BUDGET = {"quick": 600, "thorough": 3000}

JOINTS = (
  ("free", "hinge", "ball"),
  ("hinge", "slide", "hinge"),
  ("ball", "hingeslide", "slide"),
  ("slide", "ball", "hinge"),
  ("hinge", "hinge", "hingeslide"),
  # bodies without a joint of their own (rigidly attached to a moving or to the world body): their derived constants are
  # evaluated through the dofs of an ancestor, at their own centre of mass
  ("hinge", "weld", "slide"),
  ("ball", "hinge", "weld"),
  ("weld", "hinge", "weld"),
)
CAM_MODES = ("fixed", "track", "trackcom", "targetbody", "targetbodycom")
CHANGES = (
  "body_mass", "body_inertia", "body_ipos", "body_iquat", "body_pos", "body_quat", "qpos0", "qpos_spring", "dof_armature",
  "eq_connect", "eq_weld", "tendon_lengthspring", "act_kp", "act_dampratio",
)  # fmt: skip

TEN_COEF = (0.8, -1.3, 1.7, -0.6)

DERIVED = (
  "body_subtreemass", "dof_invweight0", "body_invweight0", "tendon_invweight0", "tendon_length0", "tendon_lengthspring",
  "actuator_acc0", "eq_data", "cam_pos0", "cam_poscom0", "cam_mat0", "light_pos0", "light_poscom0", "light_dir0", "actuator_biasprm",
)  # fmt: skip
INPUTS = (
  "body_mass", "body_inertia", "body_ipos", "body_iquat", "body_pos", "body_quat", "qpos0", "qpos_spring", "dof_armature",
  "eq_data", "tendon_lengthspring", "actuator_gainprm", "actuator_biasprm",
)  # fmt: skip


def scenarios(tier, seed):
  variant = seed % 4
  out = []
  trees = space.trees(3)
  nj = 3 if tier == "quick" else 5
  sets = [(c,) for c in CHANGES] + list(itertools.combinations(CHANGES, 2))
  for ti, parents in enumerate(trees):
    for k in range(nj):
      joints = JOINTS[(ti + k * 2 + variant) % len(JOINTS)]
      for si, cs in enumerate(sets):
        out.append(dict(parents=list(parents), joints=list(joints), variant=variant, changes=list(cs), restore=(si + ti + k) % 2, off=ti))
  return out


def build_xml(scn):
  parents, joints, v = scn["parents"], scn["joints"], scn["variant"]
  n = len(parents)
  off = scn.get("off", 0)

  def body_extra(i):
    mode = CAM_MODES[(i + off) % 5]
    tgt = f' target="b{(i % n) + 1}"' if mode.startswith("target") else ""
    lm = CAM_MODES[(i + off + 2) % 5]
    ltgt = f' target="b{((i + 1) % n) + 1}"' if lm.startswith("target") else ""
    return (
      f'<camera name="c{i}" mode="{mode}"{tgt} pos="0.1 -0.2 0.15" quat="0.8 0.36 -0.48 0"/>'
      f'<light name="l{i}" mode="{lm}"{ltgt} pos="-0.1 0.05 0.3" dir="0.36 0.48 -0.8"/>'
    )

  scal = []
  for i, k in enumerate(joints, 1):
    if k in ("hinge", "slide"):
      scal.append(f"j{i}")
    elif k == "hingeslide":
      scal += [f"j{i}", f"j{i}b"]
  s0, s1 = scal[0], scal[-1]
  # Tendon set (ids in this order): a family of fixed tendons with every dof support of size 1 or 2 over the scalar joints,
  # listed forward, then the 3-site spatial tendon t1, then the same family reversed - so for every two distinct supports A, B
  # the model holds a tendon on A before one on B and one on B before one on A (neither nested in the other for |A|=|B|), and
  # the all-dof spatial tendon sits both before and after narrower ones. Two 2-site spatial tendons open and close the list.
  # t0 (stiffness, springlength, actuator a3) is the family member on (first, last) scalar joint.
  supports = [(j,) for j in scal] + list(itertools.combinations(scal, 2))

  def fixed(name, sup, k):
    if sup == ((s0, s1) if s1 != s0 else (s0,)) and name.startswith("f"):
      name, attrs, coefs = "t0", ' stiffness="3" springlength="0.1"', (0.8, -1.3)
    else:
      attrs = ("", ' stiffness="1.5"', "")[k % 3]
      coefs = [TEN_COEF[(scal.index(j) + k) % 4] for j in sup]
    return f'<fixed name="{name}"{attrs}>' + "".join(f'<joint joint="{j}" coef="{cf}"/>' for j, cf in zip(sup, coefs)) + "</fixed>"

  sections = (
    "<tendon>"
    '<spatial name="u0"><site site="s2"/><site site="s3"/></spatial>'
    + "".join(fixed(f"f{k}", sup, k) for k, sup in enumerate(supports))
    + '<spatial name="t1" stiffness="5"><site site="s1"/><site site="s2"/><site site="s3"/></spatial>'
    + "".join(fixed(f"r{k}", sup, k + 1) for k, sup in reversed(list(enumerate(supports))))
    + '<spatial name="u1" stiffness="2"><site site="s2"/><site site="s1"/></spatial>'
    "</tendon>"
    "<equality>"
    '<connect name="e0" body1="b1" body2="b3" anchor="0.1 -0.05 0.2"/>'
    '<weld name="e1" body1="b2" body2="b3" anchor="0.05 0.1 -0.1"/>'
    f'<joint name="e2" joint1="{s0}" polycoef="0.1 0.5 0 0 0"/>'
    "</equality>"
    "<actuator>"
    f'<position name="a0" joint="{s0}" kp="30" dampratio="0.8"/>'
    '<position name="a1" tendon="t1" kp="12" dampratio="1.2"/>'
    f'<motor name="a2" joint="{s1}" gear="1.7"/>'
    '<position name="a3" tendon="t0" kp="9" kv="0.4"/>'
    "</actuator>"
  )
  return space.tree_xml(
    parents, joints, variant=v, body_extra=body_extra, joint_attrs='armature="0.05"', sections=sections,
    option='<option gravity="0.3 -0.4 -9.5"/>',
  )  # fmt: skip


def _rotq(q, axis, ang):
  import mujoco

  dq = np.zeros(4)
  mujoco.mju_axisAngle2Quat(dq, np.array(axis, float) / np.linalg.norm(axis), ang)
  out = np.zeros(4)
  mujoco.mju_mulQuat(out, np.array(q, float), dq)
  return out


def apply_changes(mjm, changes, w, variant):
  """Mutates a host MjModel copy with world w's values of every change in `changes`."""
  import mujoco

  s = ((1.7, 0.6), (0.55, 1.9), (2.3, 0.8), (0.7, 1.4))[variant][w]
  sg = 1.0 if w == 0 else -1.0
  for c in changes:
    if c == "body_mass":
      for b in range(1, mjm.nbody):
        mjm.body_mass[b] *= s * (1 + 0.2 * b)
    elif c == "body_inertia":
      for b in range(1, mjm.nbody):
        mjm.body_inertia[b] *= np.array([s, 1.0 / s + 0.5, 0.9 + 0.1 * b])
        # keep the triangle inequality: rescale to a valid inertia if needed
        i = mjm.body_inertia[b]
        i[:] = np.maximum(i, 0.55 * (i.sum() - i))
    elif c == "body_ipos":
      for b in range(1, mjm.nbody):
        mjm.body_ipos[b] += sg * np.array([0.04, -0.03 * b, 0.02]) * s
    elif c == "body_iquat":
      for b in range(1, mjm.nbody):
        mjm.body_iquat[b] = _rotq(mjm.body_iquat[b], (1, 2 - b, 0.5), 0.4 * s * sg)
    elif c == "body_pos":
      for b in range(1, mjm.nbody):
        if mjm.body_weldid[b] != 0 or True:
          mjm.body_pos[b] += sg * np.array([0.05 * b, 0.04, -0.03]) * s
    elif c == "body_quat":
      for b in range(1, mjm.nbody):
        mjm.body_quat[b] = _rotq(mjm.body_quat[b], (0.3, 1, b), 0.35 * s * sg)
    elif c in ("qpos0", "qpos_spring"):
      arr = mjm.qpos0 if c == "qpos0" else mjm.qpos_spring
      for j in range(mjm.njnt):
        a, t = mjm.jnt_qposadr[j], mjm.jnt_type[j]
        if t == mujoco.mjtJoint.mjJNT_FREE:
          arr[a : a + 3] += sg * np.array([0.1, -0.05, 0.08]) * s
          arr[a + 3 : a + 7] = _rotq(arr[a + 3 : a + 7], (1, 1, 0.2), 0.5 * s)
        elif t == mujoco.mjtJoint.mjJNT_BALL:
          arr[a : a + 4] = _rotq(arr[a : a + 4], (0.2, -1, 0.6), 0.6 * s * sg)
        else:
          arr[a] += sg * 0.3 * s * (1 + 0.3 * j)
    elif c == "dof_armature":
      mjm.dof_armature[:] = mjm.dof_armature * s + 0.02 * (1 + np.arange(mjm.nv) % 3)
    elif c == "eq_connect":
      mjm.eq_data[0, 0:3] = np.array([0.15, 0.05, -0.1]) * s * sg
    elif c == "eq_weld":
      mjm.eq_data[1, 0:3] = np.array([-0.05, 0.12, 0.07]) * s
      mjm.eq_data[1, 6:10] = 0.0 if w == 0 else np.array([0.5, -0.3, 0.7, 0.4])  # cleared (recompute) / user-set unnormalised (keep, normalise)
    elif c == "tendon_lengthspring":
      for t in range(mjm.ntendon):  # alternating by tendon id, opposite in the two worlds
        mjm.tendon_lengthspring[t] = (-1.0, -1.0) if (t + w) % 2 == 0 else (0.2 * s, 0.3 * s)
    elif c == "act_kp":
      for a in (0, 1):
        kp = mjm.actuator_gainprm[a, 0] * s
        mjm.actuator_gainprm[a, 0] = kp
        mjm.actuator_biasprm[a, 1] = -kp
    elif c == "act_dampratio":
      mjm.actuator_biasprm[0, 2] = 0.5 * s  # positive: a damping ratio to be resolved
      mjm.actuator_biasprm[1, 2] = 1.5 * s if w == 0 else -0.3  # world 1: already a damping coefficient (negative), must be kept
    else:
      raise ValueError(c)


def _host(mjm, name):
  if name == "actuator_gainprm":
    return np.array(mjm.actuator_gainprm)[:, :10]
  if name == "actuator_biasprm":
    return np.array(mjm.actuator_biasprm)[:, :10]
  if name in ("cam_mat0",):
    return np.array(mjm.cam_mat0).reshape(-1, 3, 3)
  if name == "tendon_lengthspring":
    return np.array(mjm.tendon_lengthspring).reshape(-1, 2)
  if name == "eq_data":
    return np.array(mjm.eq_data)[:, :11]
  if name == "body_invweight0":
    return np.array(mjm.body_invweight0).reshape(-1, 2)
  return np.array(getattr(mjm, name))


def _put(m, name, per_world):
  """Replaces a (nworld, ...) model array by per-world host values."""
  import warp as wp

  arr = getattr(m, name)
  a = arr.numpy()
  for w, val in enumerate(per_world):
    a[w] = np.asarray(val, dtype=a.dtype).reshape(a[w].shape)
  wp.copy(arr, wp.array(a, dtype=arr.dtype, shape=arr.shape))


CAMLIGHT = ("cam_pos0", "cam_poscom0", "cam_mat0", "light_pos0", "light_poscom0", "light_dir0")
MODE_NAMES = ("fixed", "track", "trackcom", "targetbody", "targetbodycom")
POS_FIELDS = "xpos xquat xmat xipos ximat xanchor xaxis geom_xpos site_xpos cam_xpos cam_xmat light_xpos light_xdir subtree_com cinert cdof ten_length M qLD actuator_length actuator_moment".split()


def execute(scn):
  import copy

  import mujoco
  import warp as wp
  import mujoco_warp as mjw
  from mujoco_warp._src import smooth

  xml = build_xml(scn)
  mjm0, err = util.try_load(xml)
  if mjm0 is None:
    return dict(ok=True, nontrivial=False, outcome="rejected_by_compiler", info=err)
  v = scn["variant"]
  nworld = 2
  c = util.Cmp()
  # reference: one changed MjModel per world, mj_setConst applied
  before = {f: _host(mjm0, f).copy() for f in DERIVED}
  changed, refs, refs_pert, near_zero_moment = [], [], [], []
  stats = dict(illcond=0)
  for w in range(nworld):
    mw = copy.deepcopy(mjm0)
    apply_changes(mw, scn["changes"], w, v)
    changed.append(copy.deepcopy(mw))
    mujoco.mj_setConst(mw, mujoco.MjData(mw))
    refs.append(mw)
    md0 = mujoco.MjData(changed[w])
    md0.qpos[:] = changed[w].qpos0
    mujoco.mj_fwdPosition(changed[w], md0)
    nzf = np.zeros(mjm0.nu, bool)
    for a in range(mjm0.nu):
      row = np.array(md0.actuator_moment[md0.moment_rowadr[a] : md0.moment_rowadr[a] + md0.moment_rownnz[a]])
      nzf[a] = row.size > 0 and bool(np.any(np.abs(row) < 1e-9 * np.max(np.abs(row))))
    near_zero_moment.append(nzf)
    mp = copy.deepcopy(changed[w])
    dq = 1e-5 * np.array([(1.0, -0.7, 0.45, -0.85, 0.6)[k % 5] for k in range(mp.nv)])
    mujoco.mj_integratePos(mp, mp.qpos0, dq, 1.0)
    mujoco.mj_setConst(mp, mujoco.MjData(mp))
    refs_pert.append(mp)
  moved = [any(np.max(np.abs(_host(refs[w], f) - before[f])) > 1e-6 * (1 + np.max(np.abs(before[f]))) for f in DERIVED if before[f].size) for w in range(nworld)]

  batch = {f: nworld for f in set(INPUTS + DERIVED)}
  qpos, qvel = space.state_grid(scn["joints"], v, 1)

  def fresh():
    try:
      m = mjw.put_model(mjm0, batch_sizes=batch)
    except NotImplementedError as e:
      return None, None, str(e)
    m.stat.meaninertia = wp.array(np.full(nworld, mjm0.stat.meaninertia), dtype=float)
    for f in INPUTS:
      _put(m, f, [_host(changed[w], f) for w in range(nworld)])
    d = mjw.make_data(mjm0, nworld=nworld)
    mjd = util.mj_data(mjm0, qpos=qpos, qvel=qvel)
    mujoco.mj_normalizeQuat(mjm0, mjd.qpos)
    util.copy_state(mjd, d)
    mjw.forward(m, d)
    return m, d, None

  def compare(m, tag, fields):
    for f in fields:
      got = getattr(m, f).numpy().astype(np.float64)
      for w in range(nworld):
        want = _host(refs[w], f)
        if want.size == 0:
          continue
        g = got[w % got.shape[0]]
        if f == "eq_data":
          # relpose quaternions are equal up to sign
          g, want = g.copy().reshape(want.shape), want.copy()
          for e in range(want.shape[0]):
            if np.dot(g[e, 6:10], want[e, 6:10]) < 0:
              g[e, 6:10] *= -1
        vk = f"{tag}:{f}"
        if f == "actuator_biasprm":
          # dampratio -> damping divides by moment^2: where MuJoCo's own value moves by >1% under a 1e-5 change of qpos0 the
          # reflected mass is singular (moment ~ 0) and the entry is not determined
          ill = np.abs(_host(refs_pert[w], f) - want) > 1e-2 * (1 + np.abs(want))
          if np.any(ill):
            stats["illcond"] += int(ill.sum())
            g = np.where(ill, want, g.reshape(want.shape))
          # actuators whose transmission row contains a structurally zero moment (|moment| < 1e-9 max|moment|, e.g. a tendon w.r.t.
          # an ancestor joint that moves the whole tendon rigidly): compared under their own key
          nz = near_zero_moment[w]
          if np.any(nz):
            c.close(f"{tag}:world{w}:{f}[actuators with a zero moment entry]", g.reshape(want.shape)[nz], want[nz], "f32dyn", vkey=vk + ":zero_moment_entry")
            g, want = g.reshape(want.shape)[~nz], want[~nz]
        if f == "body_invweight0":
          z = (want == 0).sum(axis=1) == 1
          if np.any(z) and not util.Cmp().close("x", g.reshape(want.shape)[~z], want[~z], "f32dyn"):
            pass
          elif np.any(z):
            c.close(f"{tag}:world{w}:{f}[bodies with one zero component]", g.reshape(want.shape)[z], want[z], "f32dyn", vkey=vk + ":one_zero_component")
            g, want = g.reshape(want.shape)[~z], want[~z]
        if f in CAMLIGHT:
          # split by tracking mode: the class of the failing object is part of the key
          modes = refs[w].cam_mode if f.startswith("cam") else refs[w].light_mode
          for md in sorted(set(int(x) for x in modes)):
            sel = np.array(modes) == md
            c.close(f"{tag}:world{w}:{f}[mode {md}]", g.reshape(want.shape)[sel], want[sel], "f32dyn", vkey=vk + f":mode={MODE_NAMES[md]}")
          continue
        # dampratio -> damping goes through the float32 inverse inertia (dof_invweight0) and a square root: measured up to 4e-4
        # relative on well-conditioned entries (seed 3), so class `solver` (2e-3) instead of f32dyn for this one field
        c.close(f"{tag}:world{w}:{f}", g, want, "solver" if f == "actuator_biasprm" else "f32dyn", vkey=vk)
    if tag != "set_const_fixed":
      got = m.stat.meaninertia.numpy()
      for w in range(nworld):
        c.close(f"{tag}:world{w}:stat.meaninertia", got[w % len(got)], refs[w].stat.meaninertia, "f32dyn", vkey=f"{tag}:stat.meaninertia")

  # ---- A: set_const
  m, d, err = fresh()
  if m is None:
    return dict(ok=True, nontrivial=False, outcome="unsupported", info=err[:200])
  qpos_before = d.qpos.numpy().copy()
  qvel_before = d.qvel.numpy().copy()
  restore = bool(scn["restore"])
  mjw.set_const(m, d, restore=restore)
  compare(m, "set_const", DERIVED)
  c.bits("set_const:qpos_restored", d.qpos.numpy(), qpos_before, vkey="restore:qpos")
  c.bits("set_const:qvel_untouched", d.qvel.numpy(), qvel_before, vkey="restore:qvel")
  if restore:
    snap = {f: getattr(d, f).numpy().copy() for f in POS_FIELDS}
    for fn in (smooth.kinematics, smooth.com_pos, smooth.camlight, smooth.flex, smooth.tendon, smooth.crb, smooth.tendon_armature, smooth.factor_m, smooth.transmission):
      fn(m, d)
    for f in POS_FIELDS:
      c.bits(f"set_const:restore:{f}", snap[f], getattr(d, f).numpy(), vkey=f"restore:{f}")
    # and those fields are the changed model's kinematics at d.qpos (world w's model)
    for w in range(nworld):
      mw = refs[w]
      mjd = util.mj_data(mw, qpos=qpos_before[w].astype(np.float64))
      mujoco.mj_kinematics(mw, mjd)
      mujoco.mj_comPos(mw, mjd)
      mujoco.mj_tendon(mw, mjd)
      c.close(f"set_const:restore:world{w}:xpos_vs_mujoco", snap["xpos"][w], mjd.xpos, "f32", vkey="restore:xpos_vs_mujoco")
      c.close(f"set_const:restore:world{w}:ten_length_vs_mujoco", snap["ten_length"][w], mjd.ten_length, "f32", vkey="restore:ten_length_vs_mujoco")
  resA = {f: getattr(m, f).numpy().copy() for f in DERIVED}

  # ---- B: the sub-functions, in set_const's order
  m2, d2, _ = fresh()
  mjw.set_const_fixed(m2, d2)
  compare(m2, "set_const_fixed", ["body_subtreemass"])
  mjw.set_const_0(m2, d2, restore=restore)
  c.bits("set_const_0:qpos_restored", d2.qpos.numpy(), qpos_before, vkey="restore:qpos")
  mjw.set_const_spring(m2, d2, restore=restore)
  c.bits("set_const_spring:qpos_restored", d2.qpos.numpy(), qpos_before, vkey="restore:qpos")
  compare(m2, "fixed+0+spring", DERIVED)
  for f in DERIVED:
    c.bits(f"subfunctions_vs_set_const:{f}", getattr(m2, f).numpy(), resA[f], vkey=f"subfunctions_vs_set_const:{f}")
  info = dict(nv=int(mjm0.nv), moved=moved, illcond=stats['illcond'], checked=c.nchecked, maxrel=float(f"{c.maxrel:.3g}"))
  return c.result(nontrivial=all(moved), key=util.sha(scn), info=info)
