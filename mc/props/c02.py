"""C02 Smooth dynamics agree with MuJoCo C.

Space
  fam "tree":  every DFS-ordered tree with <=N bodies x every joint-kind assignment x a set of dynamics
               decorations (each present/absent): armature, damping (linear), dampingpoly, spring
               (stiffness+springref), stiffnesspoly, gravcomp, fluid (inertia-box model), fluid (ellipsoid
               model), spatial tendon spring/damper (polynomial), tendon armature.
  fam "chain": one serial chain per dof count n (block-layout boundaries of io.m_block_layout: compact n=1 /
               scalar n<=6 / tile n<=64 / sparse n>64), hinge or mixed joint kinds, all decorations that
               apply to scalar joints switched on.
  fam "mixed": one model holding a compact (diagonal free body), a scalar (<=6 triangular), a tile
               (branching tree / 7..64 dofs) and a sparse (>64 dofs) block at once.
  fam "flex":  small flexcomp grids: dim=2 shell, dim=3 solid (elasticity + Rayleigh damping), dim=2 with edge damping,
               dim=1 cable with edge stiffness + damping.
Each model is evaluated in a 2-world batch (world 0 / world 1 hold two different grid states with
non-zero qvel, qfrc_applied, xfrc_applied); both worlds are compared with their own MuJoCo run.
Oracle: mj_forward (constraints/contacts disabled => qacc == qacc_smooth), class f32dyn (f32 for cvel/M).
"""

import itertools

import numpy as np

from mc import space, util

ID = "C02"
LEVEL = "exploration"
RULE = (
  "enumerate all DFS-ordered trees with <=N bodies x all joint-kind assignments x decoration subsets (none, every single, every "
  "pair, all-on; see BOUNDS for which subsets at which N), plus chains over every block-layout boundary size, mixed-layout "
  "models and four flex models; each scenario = one model, two states in a 2-world batch, through mjw.forward and through the stage "
  "functions; non-trivial = nv>0, every requested decoration produces a non-zero reference output (its force component / "
  "its change of M) and qacc_smooth is non-zero; distinct = canonical hash of the spec"
)
BOUNDS = {
  "quick": "trees N<=2 x {none, 10 singles, 45 pairs, all-on}; trees N=3 x {none, all-on} for all joint assignments and x 10 "
  "singles for joint kinds {hinge,slide,ball,free,weld}; chains n in {1..8,31..33,63..65} x {hinge, mixed}; 2 mixed-layout "
  "models; 4 flex models",
  "thorough": "trees N<=3 x {none, singles, pairs, all-on}; trees N=4 x {all-on} for all joint assignments and x 10 singles for joint "
  "kinds {hinge,slide,ball,free,weld}; chains n in 1..70 x {hinge, mixed}; "
  "mixed-layout and flex models",
}
ASSUMPTIONS = [
  "MuJoCo C 3.13 (python bindings) is the reference; float32 vs float64 under f32dyn (2e-4*(1+max|ref|)); M, cvel, cdof_dot under f32",
  "real values from curated alphabets (VERIF_SEED mod 4), structure exhaustive",
  "constraints are disabled (contype=0, no limits/equalities) so MuJoCo's qacc equals qacc_smooth; qacc_smooth itself is compared too",
  "flex passive forces: four small flexcomp grids only (dim 1/2/3, elasticity, Rayleigh damping, edge stiffness/damping); flex is C40's subject",
  "triples of decorations (DESIGN thorough) are replaced by the all-on set; N=4 only with all-on and singles (cost)",
  "CPU backend only",
]
BUDGET = {"quick": 400, "thorough": 3000}

DECOS = ("armature", "damping", "dampingpoly", "spring", "springpoly", "gravcomp", "fluidbox", "fluidell", "tendon", "tenarm")

# per-variant curated values (O(1), well conditioned)
_ARM = (0.13, 0.21, 0.08, 0.17)
_DAMP = (0.7, 0.45, 0.9, 0.6)
_DPOLY = ("0.7 0.3 0.2", "0.45 0.25 0.1", "0.9 0.2 0.3", "0.6 0.35 0.15")
_STIFF = (3.0, 2.2, 4.1, 2.7)
_SPOLY = ("3 1.5 2", "2.2 1.1 0.8", "4.1 0.7 1.3", "2.7 1.9 0.6")
_SREF = (0.2, -0.15, 0.25, -0.1)
_GCOMP = ((0.7, 1.0, 1.6), (0.4, 1.2, 0.9), (1.0, 0.5, 2.0), (0.3, 0.8, 1.3))
_FLUID = (
  'density="1.3" viscosity="0.4" wind="0.5 -0.3 0.2"',
  'density="2.1" viscosity="0.2" wind="-0.4 0.2 0.6"',
  'density="0.9" viscosity="0.7" wind="0.3 0.6 -0.5"',
  'density="1.7" viscosity="0.3" wind="-0.2 -0.5 0.4"',
)


def _tree_specs(nmax, decosets, kinds=space.JOINT_KINDS, nmin=1):
  out = []
  for n in range(nmin, nmax + 1):
    for parents in space.trees(n):
      for joints in space.joint_assignments(parents, kinds=kinds):
        for ds in decosets:
          out.append((tuple(parents), tuple(joints), tuple(ds)))
  return out


def scenarios(tier, seed):
  v = seed % 4
  none = [()]
  singles = [(d,) for d in DECOS]
  pairs = [c for c in itertools.combinations(DECOS, 2)]
  allon = [tuple(DECOS)]
  specs = []
  if tier == "quick":
    specs += _tree_specs(2, none + singles + pairs + allon)
    specs += _tree_specs(3, none + allon, nmin=3)
    specs += _tree_specs(3, singles, kinds=("weld", "hinge", "slide", "ball", "free"), nmin=3)
    chain_n = list(range(1, 9)) + [31, 32, 33, 63, 64, 65]
  else:
    specs += _tree_specs(3, none + singles + pairs + allon)
    specs += _tree_specs(4, allon, nmin=4)
    specs += _tree_specs(4, singles, kinds=("weld", "hinge", "slide", "ball", "free"), nmin=4)
    chain_n = list(range(1, 71))
  seen, out = set(), []
  for parents, joints, ds in specs:
    k = (parents, joints, ds)
    if k in seen:
      continue
    seen.add(k)
    out.append(dict(fam="tree", parents=list(parents), joints=list(joints), decos=list(ds), variant=v))
  for n in chain_n:
    for kind in ("hinge", "mixed"):
      out.append(dict(fam="chain", n=n, kind=kind, variant=v))
  for which in (0, 1):
    out.append(dict(fam="mixed", which=which, variant=v))
  for kind in FLEX_KINDS:
    out.append(dict(fam="flex", kind=kind, variant=v))
  return out


# ------------------------------------------------------------------------------- model building


def _sparse(poly, k):
  """Coefficient pattern k % 3 of a polynomial 'a b c': 0 -> only the cubic term ('0 0 c'), 1 -> all, 2 -> only the quadratic term.
  The kernels gate whole force terms on 'any coefficient non-zero', so each coefficient has to be the only non-zero one somewhere."""
  a, b, c = poly.split()
  return (f"0 0 {c}", poly, f"0 {b} 0")[k % 3]


def _joint_attrs(decos, v):
  def f(i, kind):
    a = ""
    if "armature" in decos:
      a += f' armature="{_ARM[v] + 0.03 * i:.3g}"'
    if "dampingpoly" in decos:
      a += f' damping="{_sparse(_DPOLY[v], i + v)}"'
    elif "damping" in decos:
      a += f' damping="{_DAMP[v] + 0.1 * i:.3g}"'
    if "springpoly" in decos:
      a += f' stiffness="{_sparse(_SPOLY[v], i + v + 1)}"'
    elif "spring" in decos:
      a += f' stiffness="{_STIFF[v] + 0.2 * i:.3g}"'
    if ("spring" in decos or "springpoly" in decos) and kind in ("hinge", "slide", "hingeslide"):
      a += f' springref="{_SREF[v]}"'
    return a

  return f


def _tendon_section(n, decos, v):
  """Spatial tendons (work with every joint kind): world site -> s1 (-> sN), and s1 -> sN for n>1."""
  if "tendon" not in decos and "tenarm" not in decos:
    return "", ""
  def at(k):
    a = ""
    if "tendon" in decos:
      a += f' stiffness="{_sparse(_SPOLY[(v + 1) % 4], k)}" damping="{_sparse(_DPOLY[(v + 2) % 4], k + 1)}" springlength="0.3"'
    if "tenarm" in decos:
      a += f' armature="{_ARM[(v + 1) % 4]}"'
    return a

  attrs = at(1)
  world = '<site name="sw" pos="0.05 -0.4 0.6" size="0.01"/>'
  t = f'<spatial name="t0"{attrs}><site site="sw"/><site site="s1"/></spatial>'
  if n > 1:
    t += f'<spatial name="t1"{at(2 + v)}><site site="sw"/><site site="s{n}"/></spatial>'
  return world, f"<tendon>{t}</tendon>"


def _decorate(xml, n, decos, v):
  if "gravcomp" in decos:
    for i in range(1, n + 1):
      xml = xml.replace(f'<body name="b{i}" ', f'<body name="b{i}" gravcomp="{_GCOMP[v][(i - 1) % 3]}" ', 1)
  return xml


def tree_model_xml(parents, joints, decos, v):
  n = len(parents)
  world, sec = _tendon_section(n, decos, v)
  opt = ""
  geom_attrs = ""
  if "fluidbox" in decos or "fluidell" in decos:
    opt = f"<option {_FLUID[v]}/>"
  if "fluidell" in decos:
    geom_attrs = 'fluidshape="ellipsoid" fluidcoef="0.6 0.3 1.4 1.1 0.9"'
  xml = space.tree_xml(
    parents, joints, variant=v, joint_attrs=_joint_attrs(decos, v), world_extra=world, sections=sec, option=opt, geom_attrs=geom_attrs
  )
  return _decorate(xml, n, decos, v)


_MIX_KINDS = ("hinge", "slide", "hinge", "ball", "hinge", "hingeslide")


def chain_joints(n, kind):
  """Joint kinds of a serial chain with exactly n dofs."""
  if kind == "hinge":
    return ["hinge"] * n
  joints, nv = [], 0
  k = 0
  while nv < n:
    j = _MIX_KINDS[k % len(_MIX_KINDS)]
    dn = {"hinge": 1, "slide": 1, "ball": 3, "hingeslide": 2}[j]
    if nv + dn > n:
      j, dn = "hinge", 1
    joints.append(j)
    nv += dn
    k += 1
  return joints


_CHAIN_DECOS = ("armature", "dampingpoly", "springpoly", "gravcomp", "fluidbox", "tendon", "tenarm")


def chain_xml(n, kind, v, decos=_CHAIN_DECOS, prefix="", pos0=None):
  """Serial chain with short links so that long chains stay well conditioned."""
  joints = chain_joints(n, kind)
  nb = len(joints)
  ja = _joint_attrs(decos, v)
  s = ""
  for i, k in enumerate(joints, 1):
    pos = space._POS[(i + v) % 6]
    pos = tuple(0.35 * x for x in pos) if i > 1 else (pos0 or pos)
    quat = space._QUAT[(i * 5 + 1 + v) % 6]
    gc = f' gravcomp="{_GCOMP[v][i % 3]}"' if "gravcomp" in decos and i % 2 else ""
    s += f'<body name="{prefix}b{i}" pos="{space.fmt(pos)}" quat="{space.fmt(quat)}"{gc}>'
    s += space.joint_xml(k, i, v, ja(i, k)).replace('name="j', f'name="{prefix}j')
    s += f'<geom type="capsule" size="0.03 0.05" pos="0.02 0.01 -0.03" quat="{space.fmt(space._QUAT[(i + 2) % 6])}" mass="{0.5 + 0.1 * (i % 4):.3g}" contype="0" conaffinity="0"/>'
    if i in (1, (nb + 1) // 2, nb):
      s += f'<site name="{prefix}s{i}" pos="0.03 -0.02 0.04" size="0.01"/>'
  s += "</body>" * nb
  ten = ""
  if "tendon" in decos or "tenarm" in decos:
    attrs = ""
    if "tendon" in decos:
      attrs += f' stiffness="{_SPOLY[(v + 1) % 4]}" damping="{_DPOLY[(v + 2) % 4]}" springlength="0.3"'
    if "tenarm" in decos:
      attrs += f' armature="{_ARM[(v + 1) % 4]}"'
    ends = sorted({1, (nb + 1) // 2, nb})
    ten = "".join(f'<spatial name="{prefix}t{e}"{attrs}><site site="{prefix}sw"/><site site="{prefix}s{e}"/></spatial>' for e in ends)
  return s, ten, joints


def chain_model_xml(n, kind, v):
  body, ten, joints = chain_xml(n, kind, v)
  world = '<site name="sw" pos="0.05 -0.4 0.6" size="0.01"/>'
  xml = (
    f'<mujoco><compiler angle="radian"/><option {_FLUID[v]}/><worldbody>{world}{body}</worldbody>'
    f"<tendon>{ten}</tendon></mujoco>"
  )
  return xml, joints


def mixed_model_xml(which, v):
  """compact (free body with diagonal inertia; single hinge) + scalar (chain 4 / 6) + tile (branching 3 / chain 7 / chain 40)
  + sparse (chain 66 / 70) blocks in one model; `which` changes the order and sizes."""
  sizes = [("c", 0), ("s", 4), ("t", 7), ("b", 3), ("p", 66), ("s", 6), ("h", 1)] if which == 0 else [("p", 70), ("h", 1), ("t", 40), ("c", 0), ("s", 5), ("b", 3), ("s", 2)]
  body, tens, joints = "", "", []
  for bi, (kind, n) in enumerate(sizes):
    p = f"m{bi}"
    pos0 = (0.6 * bi - 1.5, 0.2 * (bi % 3), 0.5)
    if kind == "c":
      body += f'<body name="{p}b" pos="{space.fmt(pos0)}"><joint name="{p}j" type="free"/><geom type="sphere" size="0.08" mass="1.3" contype="0" conaffinity="0"/></body>'
      joints.append("free")
    elif kind == "b":
      # branching: one parent, two children -> not triangular -> tile path although only 3 dofs
      body += (
        f'<body name="{p}b" pos="{space.fmt(pos0)}"><joint name="{p}j0" type="hinge" axis="0.6 0 0.8" armature="0.05"/>'
        f'<geom type="box" size="0.05 0.07 0.04" pos="0.03 0.01 0.02" mass="0.9" contype="0" conaffinity="0"/>'
        f'<body pos="0.2 0.1 0"><joint name="{p}j1" type="slide" axis="0 0.8 -0.6" damping="0.4"/><geom type="sphere" size="0.05" pos="0.05 0 0.03" mass="0.6" contype="0" conaffinity="0"/></body>'
        f'<body pos="-0.1 0.2 0.1"><joint name="{p}j2" type="hinge" axis="0.36 0.48 0.8" stiffness="2" springref="0.3"/><geom type="capsule" size="0.03 0.06" pos="0 0.04 0.03" mass="0.7" contype="0" conaffinity="0"/></body>'
        "</body>"
      )
      joints += ["hinge", "slide", "hinge"]
    else:
      decos = _CHAIN_DECOS if kind in ("t", "p") else ("armature", "damping", "spring", "gravcomp")
      jk = "hinge" if kind in ("h", "p") else "mixed"
      b, t, js = chain_xml(n, jk, v, decos=decos, prefix=p, pos0=pos0)
      body += b
      if t:
        body = f'<site name="{p}sw" pos="{space.fmt((pos0[0], pos0[1] - 0.4, pos0[2] + 0.2))}" size="0.01"/>' + body
      tens += t
      joints += js
  xml = f'<mujoco><compiler angle="radian"/><option {_FLUID[v]}/><worldbody>{body}</worldbody><tendon>{tens}</tendon></mujoco>'
  return xml, joints


FLEX_KINDS = ("shell", "solid", "shell_edgedamp", "cable_edge")


def flex_model_xml(kind, v):
  """shell: 3x3 dim=2 elasticity (stretch+bend) + Rayleigh damping; solid: 2x2x2 dim=3; shell_edgedamp: dim=2 with
  <edge damping>; cable_edge: dim=1 with <edge stiffness damping> (the only dim where MuJoCo allows edge stiffness)."""
  young, damp = 3000 + 1000 * v, 0.02 + 0.01 * v
  if kind == "shell":
    cnt, dim, inner = "3 3 1", 2, f'<elasticity young="{young}" poisson="0.2" thickness="0.02" elastic2d="both" damping="{damp:.3g}"/>'
  elif kind == "solid":
    cnt, dim, inner = "2 2 2", 3, f'<elasticity young="{young}" poisson="0.2" damping="{damp:.3g}"/>'
  elif kind == "shell_edgedamp":
    cnt, dim = "2 3 1", 2
    inner = f'<edge damping="{_DAMP[v]}"/><elasticity young="{young}" poisson="0.2" thickness="0.02" elastic2d="both" damping="{damp:.3g}"/>'
  else:
    cnt, dim, inner = "4 1 1", 1, f'<edge stiffness="{10 * _STIFF[v]:.3g}" damping="{_DAMP[v]}"/>'
  return (
    '<mujoco><compiler angle="radian"/><worldbody>'
    f'<flexcomp name="f" type="grid" count="{cnt}" spacing="0.12 0.12 0.12" pos="0.1 -0.05 0.6" quat="{space.fmt(space._QUAT[v])}" '
    f'radius="0.01" mass="0.45" dim="{dim}">{inner}'
    '<contact selfcollide="none" internal="false" contype="0" conaffinity="0"/>'
    "</flexcomp></worldbody></mujoco>"
  )


def build(scn):
  """-> (xml, joints list for the state grid or None)"""
  v = scn["variant"]
  if scn["fam"] == "tree":
    return tree_model_xml(scn["parents"], scn["joints"], scn["decos"], v), list(scn["joints"])
  if scn["fam"] == "chain":
    return chain_model_xml(scn["n"], scn["kind"], v)
  if scn["fam"] == "mixed":
    return mixed_model_xml(scn["which"], v)
  return flex_model_xml(scn["kind"], v), None


# ------------------------------------------------------------------------------- states


def _state(mjm, joints, v, which):
  """(qpos, qvel, qfrc_applied, xfrc_applied) #which (1 or 2), deterministic."""
  import mujoco

  if joints is not None:
    qpos, qvel = space.state_grid(joints, v, which)
    qpos, qvel = np.array(qpos, float), np.array(qvel, float)
    assert qpos.size == mjm.nq and qvel.size == mjm.nv, (qpos.size, mjm.nq, qvel.size, mjm.nv)
    if mjm.nv > 12:
      # long chains: keep the state bounded (unit-size velocities on 70 links make centrifugal terms O(1e3))
      qvel = qvel * (3.0 / np.sqrt(mjm.nv))
  else:
    # flex: perturb the vertex (slide) dofs on a 3-value alphabet
    sc, vs = space.QPOS_SCALAR[v], space.QVEL_SCALAR[v]
    qpos = np.array(mjm.qpos0)
    qvel = np.zeros(mjm.nv)
    for j in range(mjm.nv):
      qvel[j] = 0.3 * vs[(which + j + j // 3) % 3]  # not a rigid translation
    for j in range(mjm.nq):
      qpos[j] += 0.03 * sc[(which + j + j // 3) % 3]
  qa = np.array([0.5 * space.QVEL_SCALAR[(v + 1) % 4][(which + 2 * j) % 3] + 0.1 for j in range(mjm.nv)])
  xf = np.zeros((mjm.nbody, 6))
  for b in range(1, mjm.nbody):
    if (b + which) % 2 == 0 or mjm.nbody <= 3:
      p = space._POS[(b + which + v) % 6]
      q = space._POS[(b + 2 * which + v + 3) % 6]
      xf[b] = [2 * p[0], 2 * p[1], 2 * p[2], q[0], q[1], q[2]]
  return qpos, qvel, qa, xf


# ------------------------------------------------------------------------------- comparison

def _mj_full_m(mjm, mjd):
  """Dense M from MuJoCo's CSR (MuJoCo 3.13 has no mjd.qM any more)."""
  import mujoco

  out = np.zeros((mjm.nv, mjm.nv))
  mujoco.mju_sym2dense(out, mjd.M, mjm.M_rownnz, mjm.M_rowadr, mjm.M_colind)
  return out


PASSIVE = ("qfrc_spring", "qfrc_damper", "qfrc_gravcomp", "qfrc_fluid", "qfrc_passive")


def _ref_active(mjm, mjd, mjd_plain_M, deco):
  """Is decoration `deco` visible in the reference outputs?"""
  nz = lambda a: bool(np.any(np.abs(a) > 1e-9))
  if deco in ("armature", "tenarm"):
    return mjd_plain_M is not None and nz(_mj_full_m(mjm, mjd) - mjd_plain_M)
  if deco in ("damping", "dampingpoly"):
    return nz(mjd.qfrc_damper)
  if deco in ("spring", "springpoly"):
    return nz(mjd.qfrc_spring)
  if deco == "gravcomp":
    return nz(mjd.qfrc_gravcomp)
  if deco in ("fluidbox", "fluidell"):
    return nz(mjd.qfrc_fluid)
  if deco == "tendon":
    return nz(mjd.qfrc_spring) and nz(mjd.qfrc_damper)
  return True


def execute(scn):
  import mujoco
  import mujoco_warp as mjw

  xml, joints = build(scn)
  mjm, err = util.try_load(xml)
  if mjm is None:
    return dict(ok=True, nontrivial=False, outcome="rejected_by_compiler", info=err, key=util.sha(scn))
  if mjm.nv == 0:
    return dict(ok=True, nontrivial=False, outcome="degenerate", key=util.sha(scn))
  v = scn["variant"]
  nv = mjm.nv
  # vkey prefix names the feature family so that a finding is matched per feature, not per property
  c = util.Cmp(prefix="flexedge:" if scn["fam"] == "flex" and "edge" in scn["kind"] else ("flex:" if scn["fam"] == "flex" else ""))
  try:
    m = mjw.put_model(mjm)
  except NotImplementedError as e:
    return dict(ok=True, nontrivial=False, outcome="unsupported", info=str(e)[:200], key=util.sha(scn))
  d = mjw.make_data(mjm, nworld=2)

  # reference M without the M-changing decorations (to tell whether armature is visible)
  decos = list(scn.get("decos", _CHAIN_DECOS if scn["fam"] in ("chain", "mixed") else ()))
  plainM = [None, None]
  if scn["fam"] == "tree" and ("armature" in decos or "tenarm" in decos):
    pm, _ = util.try_load(tree_model_xml(scn["parents"], scn["joints"], [x for x in decos if x not in ("armature", "tenarm")], v))
  else:
    pm = None

  refs = []
  for w, which in enumerate((1, 2)):
    qpos, qvel, qa, xf = _state(mjm, joints, v, which)
    mjd = util.mj_data(mjm, qpos=qpos, qvel=qvel, qfrc_applied=qa, xfrc_applied=xf)
    mujoco.mj_forward(mjm, mjd)
    if pm is not None:
      pd = util.mj_data(pm, qpos=qpos, qvel=qvel)
      mujoco.mj_forward(pm, pd)
      plainM[w] = _mj_full_m(pm, pd)
    refs.append(mjd)
    util.copy_state(mjd, d, world=w)

  degenerate = [bool(util.mj_warnings(r)) or not np.all(np.isfinite(r.qacc)) for r in refs]

  def compare(tag):
    for w, mjd in enumerate(refs):
      if degenerate[w]:
        continue
      pre = f"{tag}:w{w}:"
      c.close(pre + "M", util.full_m(mjm, d, w), _mj_full_m(mjm, mjd), "f32", vkey=f"{tag}:M")
      c.close(pre + "cvel", d.cvel.numpy()[w], mjd.cvel, "f32", vkey=f"{tag}:cvel")
      c.close(pre + "cdof_dot", d.cdof_dot.numpy()[w], mjd.cdof_dot, "f32", vkey=f"{tag}:cdof_dot")
      c.close(pre + "qfrc_bias", d.qfrc_bias.numpy()[w], mjd.qfrc_bias, "f32dyn", vkey=f"{tag}:qfrc_bias")
      for f in PASSIVE:
        c.close(pre + f, getattr(d, f).numpy()[w], getattr(mjd, f), "f32dyn", vkey=f"{tag}:{f}")
      c.close(pre + "qfrc_smooth", d.qfrc_smooth.numpy()[w], mjd.qfrc_smooth, "f32dyn", vkey=f"{tag}:qfrc_smooth")
      # qacc_smooth = M^-1 qfrc_smooth: error amplification by cond(M) is legitimate; scale by it (capped)
      Mref = _mj_full_m(mjm, mjd)
      cond = float(np.linalg.cond(Mref))
      tol = util.TOL["f32dyn"] * min(max(1.0, cond / 100.0), 50.0)
      c.close(pre + "qacc_smooth", d.qacc_smooth.numpy()[w], mjd.qacc_smooth, tol, vkey=f"{tag}:qacc_smooth")

  # entry point 1: the whole pipeline
  mjw.forward(m, d)
  compare("forward")
  # entry point 2: the public stage functions, from a poisoned output state
  for name in ("M", "cvel", "cdof_dot", "qfrc_bias", "qfrc_smooth", "qacc_smooth") + PASSIVE:
    if name == "qfrc_fluid" and not m.has_fluid:
      continue  # never written for a model without fluid (stays at make_data's zero)
    getattr(d, name).fill_(np.nan)
  mjw.fwd_position(m, d)
  mjw.fwd_velocity(m, d)
  mjw.fwd_actuation(m, d)
  mjw.fwd_acceleration(m, d)
  compare("stages")

  ok_states = [r for r, g in zip(refs, degenerate) if not g]
  active = bool(ok_states) and any(np.any(np.abs(r.qacc_smooth) > 1e-6) for r in ok_states)
  for deco in decos if scn["fam"] == "tree" else ():
    active = active and any(_ref_active(mjm, r, plainM[w], deco) for w, r in enumerate(refs) if not degenerate[w])
  if scn["fam"] == "flex":
    need = ("qfrc_spring", "qfrc_damper") if scn["kind"] != "solid" else ("qfrc_spring",)
    active = active and any(all(np.any(np.abs(getattr(r, f)) > 1e-6) for f in need) for r in ok_states)
  outcome = "degenerate" if all(degenerate) else "ok"
  info = dict(nv=int(nv), nbody=int(mjm.nbody), checked=c.nchecked, maxrel=float(f"{c.maxrel:.3g}"))
  if scn["fam"] in ("chain", "mixed"):
    info["layout"] = _layout_name(mjm)
  return c.result(nontrivial=active, key=util.sha(scn), outcome=outcome, info=info)


def _layout_name(mjm):
  from mujoco_warp._src import io

  lay = io.m_block_layout(mjm)
  kinds = set()
  for size, starts in lay["scalar_tiles"].items():
    for s in starts:
      kinds.add("compact" if lay["dof_adr"][s] == -2 else "scalar")
  if lay["gather_tiles"]:
    kinds.add("tile")
  if lay["has_sparse"]:
    kinds.add("sparse")
  return "+".join(sorted(kinds))


def coverage_extra(executed, tier):
  lay = {}
  for scn, res in executed:
    l = (res.get("info") or {}).get("layout") if isinstance(res.get("info"), dict) else None
    if l:
      lay[l] = lay.get(l, 0) + 1
  return {"block_layouts_seen": lay}
