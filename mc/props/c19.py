"""C19 Contact pair filtering follows MuJoCo's rules.

Space: kinematic trees with <=3 bodies (every DFS-ordered tree, every body either jointed or welded to its
parent, optional world-attached geom), one sphere per body, all spheres overlapping (geometry always in
contact, so the reported pair set is exactly the filter's output) x contype/conaffinity bitmasks x
<exclude> on each body pair x explicit <pair> on each geom pair x FILTERPARENT on/off.
Families A and C are repeated with a collision sensor (distance / normal / fromto) on every geom pair: filtered pairs then stay in
the contact array as sensor-only contacts and must not carry ContactType.CONSTRAINT.
Oracles: (1) a short Python predicate written from the property statement, (2) mj_collision's pair set and
contact parameters.
"""

import itertools

import numpy as np

from mc import space, util

ID = "C19"
LEVEL = "exploration"
RULE = (
  "families: (A) every 2-geom topology x FILTERPARENT x exclude x explicit pair, each with ALL 256 contype/conaffinity "
  "assignments from {0,1,2,3}^4; (B) one 3-geom topology with ALL 4096 assignments from {0,1,2,3}^6; (C) every tree with "
  "3 bodies x jointed/welded^3 x world geom x FILTERPARENT x (no exclude | exclude on each body pair) x (no pair | explicit "
  "pair on each geom pair) x 2 mask assignments; (D) explicit pair whose margin exceeds the geoms' margins at separations "
  "inside that margin. Every evaluation = compile + put_model + kinematics + collision on both engines. non-trivial = the "
  "scenario reports >=1 pair and filters >=1 pair (or carries an explicit pair); distinct = hash of the scenario spec"
)
BOUNDS = {
  "quick": "<=3 bodies (+world geom), masks {0,1,2,3}: 256 per 2-geom config (80 configs), 4096 on one 3-geom topology, family C (single exclude / single pair / both on one pair) with 2 mask assignments",
  "thorough": "as quick + family B on 4 topologies, family C with the full exclude x pair product, 4 mask assignments and reversed exclude/pair attribute order",
}
ASSUMPTIONS = [
  "MuJoCo C 3.13 mj_collision is the reference for the reported pair set and for explicit-pair parameters",
  "all geoms are overlapping spheres (closed-form narrow phase), so presence/absence of a pair is decided by the filter alone",
  "bitmask alphabet {0,1,2,3} per contype/conaffinity (two bits); mocap bodies and flex are outside the alphabet",
  "nworld=2 (identical states); both worlds must report the same pair set",
  "reported pair set of MJWarp = contacts carrying ContactType.CONSTRAINT; scenarios with collision sensors on every geom pair additionally keep filtered pairs in the contact array as sensor-only contacts",
]
BUDGET = {"quick": 400, "thorough": 3000}

R = 0.1  # sphere radius; centres are < 0.05 apart -> always penetrating

MASKS_C = [
  # per-geom (contype, conaffinity), cycled over geoms; [0] all collide, others mixed
  [(1, 1)],
  [(1, 2), (2, 1), (3, 0), (0, 3)],
  [(2, 2), (1, 3), (2, 1), (3, 3)],
  [(0, 1), (1, 0), (1, 1), (2, 3)],
]


def _topologies(nbody):
  out = []
  for parents in space.trees(nbody):
    for jointed in itertools.product((1, 0), repeat=nbody):
      for wg in (0, 1):
        out.append(dict(parents=list(parents), jointed=list(jointed), wg=wg))
  return out


def scenarios(tier, seed):
  variant = seed % 4
  out = []
  # family D first: smallest reproducer of the known pair-margin behaviour
  for sep in (0.5, 0.25):
    for pm in (1.0, 0.4):
      for gm in (0.0, 0.05):
        out.append(dict(fam="D", sep=sep, pair_margin=pm, geom_margin=gm, variant=variant))
  # family A: 2 geoms, all 256 masks
  topo2 = [t for t in _topologies(2) if not t["wg"]] + [t for t in _topologies(1) if t["wg"]]
  for t in topo2:
    for fp in (1, 0):
      for ex in (0, 1):
        for pr in (0, 1):
          out.append(dict(fam="A", **t, filterparent=fp, exclude=[[0, 1]] if ex else [], pair=[[0, 1]] if pr else [], variant=variant))
          if not pr:
            # the same with a collision sensor (distance / normal / fromto) on the pair: the sensor keeps filtered pairs in the
            # contact array, where they must not carry the CONSTRAINT bit
            out.append(dict(fam="A", **t, filterparent=fp, exclude=[[0, 1]] if ex else [], pair=[], variant=variant, sens=1))
  # family B: 3 geoms, all 4096 masks in 16 chunks (contype of geom 0 and 1 fixed per chunk)
  topoB = [dict(parents=[0, 1, 0], jointed=[1, 1, 1], wg=0)]
  if tier == "thorough":
    topoB += [
      dict(parents=[0, 1, 2], jointed=[1, 0, 1], wg=0),
      dict(parents=[0, 0], jointed=[1, 1], wg=1),
      dict(parents=[0, 1, 1], jointed=[1, 1, 0], wg=0),
    ]
  for t in topoB:
    for c0 in range(4):
      for c1 in range(4):
        out.append(dict(fam="B", **t, filterparent=1, exclude=[], pair=[], chunk=[c0, c1], variant=variant))
  # family C: all 3-body topologies x flags x exclude x pair x mask assignments
  nmask = 2 if tier == "quick" else 4
  for t in _topologies(3):
    ng = 3 + t["wg"]
    nb = 3
    gpairs = list(itertools.combinations(range(ng), 2))
    # body indices for exclude: 0 = world (only when a world geom exists), 1..3 bodies
    bodies = ([0] if t["wg"] else []) + list(range(1, nb + 1))
    bpairs = list(itertools.combinations(bodies, 2))
    body_of = ([0] if t["wg"] else []) + list(range(1, nb + 1))  # geom -> body
    if tier == "thorough":
      combos = [(ex, pr) for ex in [None] + bpairs for pr in [None] + gpairs]
    else:
      # quick: every single exclude, every single explicit pair, and the two on the same body/geom pair (pair overrides exclude)
      combos = [(None, None)] + [(ex, None) for ex in bpairs] + [(None, pr) for pr in gpairs]
      combos += [(tuple(sorted((body_of[pr[0]], body_of[pr[1]]))), pr) for pr in gpairs]
    for fp in (1, 0):
      for ex, pr in combos:
        orders = (0, 1) if (tier == "thorough" and (ex or pr)) else (0,)
        for rev in orders:
          out.append(
            dict(
              fam="C",
              **t,
              filterparent=fp,
              exclude_bodies=[list(ex)] if ex else [],
              pair=[list(pr)] if pr else [],
              rev=rev,
              nmask=nmask,
              variant=variant,
            )
          )
          if rev == 0:
            out.append(dict(out[-1], nmask=max(1, nmask // 2), sens=1))
  return out


# ------------------------------------------------------------------------------------------- model


def _geom_xml(i, ct, ca, variant, margin=None):
  # distinct, non-axis-aligned small offsets -> well-defined normals, always penetrating
  off = [(0.011, 0.004, -0.006), (-0.007, 0.013, 0.005), (0.009, -0.012, 0.008), (-0.013, -0.005, -0.011)][(i + variant) % 4]
  pos = tuple((1 + 0.3 * i) * x for x in off)
  fr = 0.5 + 0.2 * i
  mg = f' margin="{margin}"' if margin is not None else ""
  return (
    f'<geom name="g{i}" type="sphere" size="{R}" pos="{space.fmt(pos)}" contype="{ct}" conaffinity="{ca}" '
    f'friction="{fr:.3g} 0.01 0.002" condim="{(1, 3, 4, 6)[i % 4]}" solref="{0.02 + 0.005 * i:.4g} 1" solmix="{1 + i}"{mg}/>'
  )


def build_xml(t, masks, exclude_bodies, pairs, filterparent, variant, rev=0):
  """masks: list of (contype, conaffinity) per geom, geom order = [world geom?] + body geoms in body order."""
  parents, jointed, wg = t["parents"], t["jointed"], t["wg"]
  n = len(parents)
  children = {i: [] for i in range(n + 1)}
  for i, p in enumerate(parents):
    children[p].append(i + 1)
  gi = {0: 0} if wg else {}
  for b in range(1, n + 1):
    gi[b] = (b - 1) + (1 if wg else 0)

  def body(b):
    s = f'<body name="b{b}">'
    if jointed[b - 1]:
      s += f'<joint name="j{b}" type="hinge" axis="{space.fmt(space.axis_of(b, variant))}"/>'
    g = gi[b]
    s += _geom_xml(g, masks[g][0], masks[g][1], variant)
    for c in children[b]:
      s += body(c)
    return s + "</body>"

  w = (_geom_xml(0, masks[0][0], masks[0][1], variant) if wg else "") + "".join(body(c) for c in children[0])
  con = ""
  for a, b in exclude_bodies:
    na, nb_ = ("world" if a == 0 else f"b{a}"), ("world" if b == 0 else f"b{b}")
    if rev:
      na, nb_ = nb_, na
    con += f'<exclude body1="{na}" body2="{nb_}"/>'
  for k, (a, b) in enumerate(pairs):
    if rev:
      a, b = b, a
    con += (
      f'<pair name="p{k}" geom1="g{a}" geom2="g{b}" condim="{(4, 1, 6, 3)[k % 4]}" friction="0.9 0.8 0.03 0.004 0.005" '
      f'solref="0.031 0.7" solreffriction="0.04 0.9" solimp="0.8 0.9 0.002 0.4 3" margin="0.3" gap="0.02"/>'
    )
  opt = "" if filterparent else '<option><flag filterparent="disable"/></option>'
  return f'<mujoco>{opt}<worldbody>{w}</worldbody><contact>{con}</contact></mujoco>', gi


# ------------------------------------------------------------------------------------------- predicate


def predicate(t, masks, exclude_bodies, pairs, filterparent):
  """The property statement, literally. Returns dict {(g1,g2): reason-or-'' } for every geom pair.

  reported iff explicit pair, or (contype/conaffinity test AND different weld bodies AND not parent/child
  (unless parent filtering disabled) AND not excluded).
  """
  parents, jointed, wg = t["parents"], t["jointed"], t["wg"]
  n = len(parents)
  body_of = ([0] if wg else []) + list(range(1, n + 1))  # geom -> body
  par = {b: parents[b - 1] for b in range(1, n + 1)}

  def weld(b):  # nearest ancestor-or-self that moves relative to its parent (world: 0)
    while b != 0 and not jointed[b - 1]:
      b = par[b]
    return b

  excl = {tuple(sorted(e)) for e in exclude_bodies}
  expl = {tuple(sorted(p)) for p in pairs}
  out = {}
  for g1, g2 in itertools.combinations(range(len(body_of)), 2):
    if (g1, g2) in expl:
      out[(g1, g2)] = (True, "explicit")
      continue
    b1, b2 = body_of[g1], body_of[g2]
    w1, w2 = weld(b1), weld(b2)
    (c1, a1), (c2, a2) = masks[g1], masks[g2]
    if not ((c1 & a2) or (c2 & a1)):
      out[(g1, g2)] = (False, "mask")
    elif w1 == w2:
      out[(g1, g2)] = (False, "same_weld")
    elif filterparent and w1 != 0 and w2 != 0 and (weld(par[w1]) == w2 or weld(par[w2]) == w1):
      out[(g1, g2)] = (False, "parent_child")
    elif tuple(sorted((b1, b2))) in excl:
      out[(g1, g2)] = (False, "excluded")
    else:
      out[(g1, g2)] = (True, "dynamic")
  return out


# ------------------------------------------------------------------------------------------- execution

PARAMS = ("friction", "solref", "solreffriction", "solimp", "includemargin")


def _eval(c, xml, pred, stats, tag):
  """One evaluation: both engines on one model; compares pair sets and parameters."""
  import mujoco
  import mujoco_warp as mjw

  mjm, err = util.try_load(xml)
  if mjm is None:
    stats["rejected"] += 1
    return
  mjd = mujoco.MjData(mjm)
  mujoco.mj_kinematics(mjm, mjd)
  mujoco.mj_collision(mjm, mjd)
  ref = {tuple(sorted(int(x) for x in k["geom"])): k for k in util.mj_contacts(mjd)}
  stats["evals"] += 1
  if pred is not None:
    want = {p for p, (rep, _) in pred.items() if rep}
    if set(ref) != want:
      # the statement as transcribed and MuJoCo disagree: reported, never silently resolved
      c.fail("oracle:predicate_vs_mujoco", f"{tag}: predicate {sorted(want)} vs mj_collision {sorted(ref)}")
      return
  m = mjw.put_model(mjm)
  d = mjw.make_data(mjm, nworld=2, nconmax=32)
  mjw.kinematics(m, d)
  mjw.collision(m, d)
  # contacts kept only for collision sensors (ContactType.SENSOR without CONSTRAINT) are not part of the reported pair set
  got0 = [k for k in util.mjw_contacts(d, 0) if int(k.get("type", 1)) & 1]
  got1 = [k for k in util.mjw_contacts(d, 1) if int(k.get("type", 1)) & 1]
  stats["sensor_only_contacts"] += sum(1 for k in util.mjw_contacts(d, 0) if not int(k.get("type", 1)) & 1)
  keys0 = sorted(tuple(sorted(int(x) for x in k["geom"])) for k in got0)
  keys1 = sorted(tuple(sorted(int(x) for x in k["geom"])) for k in got1)
  if keys0 != keys1:
    c.fail("pairset:worlds_differ", f"{tag}: world0 {keys0} world1 {keys1}")
  if len(set(keys0)) != len(keys0):
    c.fail("pairset:duplicate", f"{tag}: duplicate pairs {keys0}")
  got = {tuple(sorted(int(x) for x in k["geom"])): k for k in got0}
  stats["reported"] += len(ref)
  stats["nt_evals"] += 1 if ref else 0
  for p in sorted(set(ref) | set(got) | set(pred or {})):
    reason = pred[p][1] if pred is not None and p in pred else ("reported" if p in ref else "filtered")
    if pred is not None and not pred[p][0]:
      stats["filtered"] += 1
      stats["r_" + reason] += 1
    if p in ref and p not in got:
      c.fail(f"pairset:missing:{reason}", f"{tag}: pair {p} ({reason}) reported by MuJoCo, absent in MJWarp; mjw={keys0}")
    elif p in got and p not in ref:
      c.fail(f"pairset:extra:{reason}", f"{tag}: pair {p} ({reason}) absent in MuJoCo, reported by MJWarp; mj={sorted(ref)}")
    elif p in ref:
      a, b = got[p], ref[p]
      kind = "explicit" if reason == "explicit" else "dynamic"
      stats["r_" + kind] += 1
      c.equal(f"{tag}:{p}:geom", a["geom"], b["geom"], vkey=f"param:geom_order:{kind}")
      c.equal(f"{tag}:{p}:dim", int(a["dim"]), int(b["dim"]), vkey=f"param:dim:{kind}")
      for f in PARAMS:
        c.close(f"{tag}:{p}:{f}", a[f], b[f], "f32", vkey=f"param:{f}:{kind}")
      c.close(f"{tag}:{p}:dist", a["dist"], b["dist"], "f32", vkey="geometry:dist")
      c.close(f"{tag}:{p}:normal", a["frame"][0], b["frame"][0], "f32", vkey="geometry:normal")


def _family_D(scn):
  """Explicit pair whose margin exceeds the geoms' margins; separation inside the pair margin."""
  import collections

  c = util.Cmp()
  stats = collections.Counter()
  sep, pm, gm = scn["sep"], scn["pair_margin"], scn["geom_margin"]
  gap = sep - 2 * R  # surface distance
  xml = (
    f'<mujoco><worldbody><body name="b1"><joint type="slide"/><geom name="g0" type="sphere" size="{R}" margin="{gm}"/></body>'
    f'<body name="b2" pos="{sep} 0 0"><joint type="slide"/><geom name="g1" type="sphere" size="{R}" margin="{gm}"/></body></worldbody>'
    f'<contact><pair geom1="g0" geom2="g1" margin="{pm}" condim="4"/></contact></mujoco>'
  )
  cd = util.Cmp()
  _eval(cd, xml, None, stats, "D")
  for v in cd.violations:
    # the known class: only the pair's own margin puts the geoms in range
    if v["vkey"].startswith("pairset:missing") and gap < pm and gap >= 2 * gm:
      c.fail("pair_margin_gt_geom_margin:missing_contact", v["what"] + f" [surface distance {gap:.3g}, pair margin {pm}, geom margins {gm}]")
    else:
      c.fail(v["vkey"], v["what"])
  return c.result(nontrivial=stats["reported"] > 0 and gap > 0, key=util.sha(scn), info=dict(stats), counts=dict(extra_evaluations=0))


def execute(scn):
  import collections

  if scn["fam"] == "D":
    return _family_D(scn)
  c = util.Cmp()
  stats = collections.Counter()
  t = dict(parents=scn["parents"], jointed=scn["jointed"], wg=scn["wg"])
  ng = len(t["parents"]) + t["wg"]
  v = scn["variant"]
  fp = scn["filterparent"]
  pairs = scn.get("pair", [])
  if scn["fam"] == "A":
    # geoms 0,1 ; bodies depend on topology: exclude is between the two bodies that carry the geoms
    bodies = ([0] if t["wg"] else []) + list(range(1, len(t["parents"]) + 1))
    exb = [[bodies[0], bodies[1]]] if scn["exclude"] else []
    combos = [((c0, a0), (c1, a1)) for c0 in range(4) for a0 in range(4) for c1 in range(4) for a1 in range(4)]
    if scn.get("sens"):
      combos = combos[3::5]  # 51 of the 256 assignments (stride coprime to 4: every value of every mask occurs)
  elif scn["fam"] == "B":
    exb = []
    c0, c1 = scn["chunk"]
    combos = [((c0, a0), (c1, a1), (c2, a2)) for a0 in range(4) for a1 in range(4) for c2 in range(4) for a2 in range(4)]
  else:
    exb = scn["exclude_bodies"]
    combos = []
    for k in range(scn["nmask"]):
      base = MASKS_C[k]
      combos.append(tuple(base[(g + v) % len(base)] for g in range(ng)))
  for masks in combos:
    xml, _ = build_xml(t, masks, exb, pairs, fp, v, scn.get("rev", 0))
    if scn.get("sens"):
      kinds = ("distance", "normal", "fromto")
      sens = "".join(
        f'<{kinds[(a + b + v) % 3]} name="s{a}{b}" geom1="g{a if (a + b) % 2 else b}" geom2="g{b if (a + b) % 2 else a}" cutoff="1"/>' for a, b in itertools.combinations(range(ng), 2)
      )
      xml = xml.replace("</mujoco>", f"<sensor>{sens}</sensor></mujoco>")
    pred = predicate(t, masks, exb, pairs, fp)
    _eval(c, xml, pred, stats, "m" + "".join(f"{a}{b}" for a, b in masks))
    if len(c.violations) >= 12:
      break
  if stats["rejected"] and not stats["evals"]:
    return dict(ok=True, nontrivial=False, outcome="rejected_by_compiler", key=util.sha(scn))
  nontrivial = stats["reported"] > 0 and (stats["filtered"] > 0 or bool(pairs))
  return c.result(
    nontrivial=nontrivial,
    key=util.sha(scn),
    info={k: int(x) for k, x in stats.items()},
    counts=dict(extra_evaluations=max(0, stats["evals"] - 1), extra_distinct=max(0, stats["nt_evals"] - 1) if nontrivial else 0),
  )
