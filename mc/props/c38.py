"""C38 Compacted active-DOF solve is equivalent.

Fault enumeration over the DOF capacity and the awake-tree set.  Scenes with T=3 kinematic trees (free box on the
floor: 6 dofs, limited/frictional 2-hinge arm: 2 dofs, limited slide + ball: 4 dofs; nv=12), `apart` (no coupling
between trees) and `coupled` (connect equality arm<->slider, box touching the slider's capsule), dense and sparse
Jacobian, pyramidal and elliptic cones.  For EVERY nvmax in 0..nv and EVERY awake subset of the three trees (two worlds
carry two different subsets and states) the compacted solve is executed through three entries

  forward   sleep-enabled model: tree_asleep forced (self cycles, as sleep_test does) + update_sleep, then mjw.forward
  resolve   sleep-enabled model: all-awake forward, then tree_asleep forced, mjw.fwd_acceleration + mjw.solve
  api       sleep-disabled model with make_data(nvmax=k): forward (full path), then island.update_active_dofs +
            solver.smooth_solve_compact + solver.solve_compact on a forced tree_awake (as solver_test does)

and checked against the full (sleep-disabled, default nvmax) solve of the same state:
  * needed active dofs > nvmax  <=>  OverflowType.NVMAX is set for that world; ncdof == min(needed, nvmax); maps consistent
  * no overflow: dofs of asleep trees have qacc (and qacc_smooth, qfrc_constraint) exactly 0, even if the output
    buffers held garbage before
  * no overflow, all awake: qacc, qacc_smooth, qfrc_constraint, nefc and efc.force (rows matched by type and Jacobian,
    their order may differ when trees were woken during the forward pass) equal the full solve (`solver`; qacc in the
    solver's own energy norm, see _qacc_close; qacc_smooth `f32dyn`)
  * no overflow, `apart` scene: awake trees' qacc / qacc_smooth / qfrc_constraint equal the full solve restricted to
    them (the inertia and the constraints are block diagonal over trees)
  * no overflow: qfrc_constraint of awake dofs equals J^T efc.force restricted to them (f32dyn)
  * sleep-disabled model: make_data(nvmax=k) forward equals make_data() forward bit for bit (full path), no NVMAX bit
  * sleep-enabled model: make_data(nvmax=nv) equals make_data() bit for bit

Worlds WITHOUT constraint rows (`free` scenes, nefc == 0).  The scenes above put every tree of every world under
constraints.  A second model (free box, free sphere, frictionless unlimited 2-hinge arm hanging in the air: T=3, nv=14,
no joint carries a limit or friction loss) has two world states: `A` airborne (MuJoCo: nefc == 0, no tree has a
constraint) and `C` contact (box, and for even alphabets the sphere, resting on the floor; the arm never has a row).
Every call sequence of length 1 and 2 over the per-world alphabet {A,C}^2 is executed on ONE sleep-enabled Data whose
`wp.empty` buffers are filled with a poison byte (every byte of world.POISON_ALPHABET):
  AA              `airborne`  (no world has a row)               AC, CA   `mixed` batch
  CC              `contact`   (control)                          x -> y   `history` (forward at x, same Data moved to y, forward)
length-1 sequences also run every awake subset (forced as above, outputs pre-filled with garbage) and two mjw.step
calls (all awake).  Oracle as above: the sleep-disabled full solve of the same state on a fresh Data (qacc, qacc_smooth,
qfrc_constraint, nefc; frozen dofs exactly 0); additionally in an `A` world qfrc_constraint must be 0 (relative to the
smooth force) and qacc must equal MuJoCo's gravity-only acceleration.

Capacity histories on ONE Data with more dofs than the padded compact width (`hist` scenarios).  The compacted buffers are
nvmax_pad = 16*floor((max(nvmax,1)+16)/16) wide; in the scenes above nv <= 14 < 16 <= nvmax_pad, and every awake subset runs on a
fresh Data.  A third model (`apart3`: two free boxes resting on the floor and a limited / frictional 6-hinge chain, T=3 mutually
decoupled trees of 6 dofs, nv=18) is run with capacities whose padded width is below nv (nvmax <= 15 -> 16) and above it
(nvmax >= 16 -> 32).  For every capacity and EVERY sequence of awake subsets of length 2 (thorough: 3; world 1 carries the bijective
image of world 0's subset) ONE Data is made and the subsets are applied one after the other: only qpos/qvel (sleepers have zero
velocity), the forced tree_asleep / tree_awake and the sticky overflow word are replaced between the calls, the outputs are
pre-filled with garbage.  After every call the oracle of the capacity grid is applied unchanged (overflow bit iff needed > nvmax,
ncdof and both maps, frozen dofs exactly 0, awake trees equal to the full solve restricted to them, qfrc_constraint = J^T force).
Entry `forward` (thorough: also `api`, histories of length 2).
"""

import numpy as np

from mc import util

ID = "C38"
LEVEL = "fault_enumeration"
RULE = (
  "scenes {apart, coupled} x jacobian {dense, sparse} x cone {pyramidal, elliptic} x every nvmax 0..nv x every awake subset of the "
  "T=3 trees (world 0; world 1 carries a second subset) x entries {forward, resolve, api}; a fault is injected when the awake dofs "
  "exceed nvmax; non-trivial = every tree of the all-awake reference carries non-zero constraint forces and at least one subset froze "
  "a tree (zero-acceleration oracle exercised on garbage-filled outputs) or overflowed (fault injected); distinct = (scene, jacobian, cone, nvmax, world-1 map). "
  "free scenes (worlds without constraint rows): every call sequence of length 1..2 over per-world states {A airborne, C contact}^2 "
  "x jacobian x cone x every poison byte of the wp.empty buffers; length 1 additionally x every awake subset and a 2-step run; "
  "non-trivial = MuJoCo reports nefc == 0 in every A world and nefc > 0 in every C world of every call; distinct = (sequence, jacobian, cone, poison, alphabet). "
  "capacity histories: scene apart3 (nv=18 > padded compact width 16 of every nvmax <= 15, T=3 decoupled 6-dof trees) x jacobian x cone x nvmax in a set with "
  "padded width both below and above nv x every sequence of awake subsets of the stated length applied to ONE Data (a scenario fixes the first subset and runs "
  "all continuations, each on its own fresh Data) x entry; non-trivial = every tree of the all-awake reference carries non-zero constraint forces, at least one "
  "call ran on a reused Data and at least one call froze a tree or overflowed; distinct = (entry, jacobian, cone, nvmax, first subset, length, alphabet)"
)
BOUNDS = {
  "quick": "nv=12, T=3, nvmax 0..12 all, 8 subsets for world 0 with world 1 = bijective image (3s+5 mod 8), 2 worlds, 1 state alphabet per seed; "
  "free scenes: nv=14, T=3, 4+16 call sequences, 4 poison bytes, 8 subsets (length-1 sequences), default nvmax, 1 state alphabet; "
  "capacity histories: nv=18, T=3, nvmax in {6, 15 (padded 16 < nv), 18 (padded 32)}, all 64 subset sequences of length 2 (world 1 = bijective image), "
  "entry forward, 1 state alphabet",
  "thorough": "same plus all 64 (world 0, world 1) subset pairs and a second state alphabet (also for the free scenes and the histories); "
  "capacity histories: nvmax in {0, 6, 11, 12, 15, 16, 18}, all 512 sequences of length 3 through forward and all 64 of length 2 through the api entry",
}
ASSUMPTIONS = [
  "awake sets are forced through Data.tree_asleep self-cycles + sleep.update_sleep (the mechanism of sleep_test.py); sleeping trees carry zero velocity",
  "full solve = same state on the same model without mjENBL_SLEEP and default nvmax; class `solver` (2e-3 of 1+max|ref|) for forces, f32dyn for qacc_smooth",
  "qacc is compared in the energy norm 0.5 e^T M e/(meaninertia*nv) <= 10*tolerance, the quantity the Newton solver's stopping rule bounds (a light dof, "
  "e.g. the spin of a thin capsule with inertia 7e-4, may legitimately differ by 3e-2 between two converged solves while forces agree to 1e-5)",
  "rows of sleeping trees (limits, friction loss) stay in MJWarp's constraint list with a zero compacted Jacobian; their efc.force is not compared",
  "when NVMAX overflows the numerical result is unspecified; only the bit, ncdof clamp and absence of a crash are checked",
  "the `api` entry calls island.update_active_dofs / solver.smooth_solve_compact / solver.solve_compact directly, like solver_test.CompactSolverTest",
  "free scenes: uninitialised (wp.empty) buffers are modelled by the four poison bytes of mc.world (set while the sleep-enabled Data is made and used; the "
  "reference runs unpoisoned); a world without rows has qacc = qacc_smooth and qfrc_constraint = 0 exactly in the full solve, the compacted solve may differ by f32dyn",
  "free scenes, second call of a history: only qpos and qvel are replaced (as a user would), nothing else of the Data is touched between the two forward() calls",
  "capacity histories: between two calls on the same Data only qpos/qvel, the forced awake set (tree_asleep + update_sleep, or tree_awake for the api entry) "
  "and the overflow word (sticky by design, zeroed as a user would after reading it) are replaced, qacc / qacc_smooth / qfrc_constraint are pre-filled with garbage "
  "(forward entry); qpos is the same in every call (a sleeping tree's cached kinematics stay valid), the reference is the full solve of the call's own state on a fresh Data",
  "capacity histories: the scene runs with iterations=16 (every Newton iteration is launched on the CPU backend; full and compacted solves converge within 6)",
  "CPU backend only",
]
BUDGET = {"quick": 600, "thorough": 3600}
NVMAX_BIT = 1 << 7
NW = 2
GARBAGE = 7.625

XML = """<mujoco>
  <compiler angle="radian"/>
  <option timestep="0.004" jacobian="{jac}" cone="{cone}" sleep_tolerance="0.01" iterations="40">{flag}</option>
  <default><geom friction="0.8 0.02 0.01"/></default>
  <worldbody>
    <geom name="floor" type="plane" size="5 5 .1"/>
    <body name="a" pos="0 0 0.098"><freejoint name="fa"/><geom name="abox" type="box" size=".1 .12 .1" mass="1.1"/></body>
    <body name="c" pos="-0.6 0 0.62">
      <joint name="h1" type="hinge" axis="0 1 0" limited="true" range="-0.3 0.3" frictionloss="0.2" damping="0.05"/>
      <geom name="c1" type="capsule" fromto="0 0 0 0 0 -0.3" size=".04" mass="0.5"/>
      <body name="c2b" pos="0 0 -0.3">
        <joint name="h2" type="hinge" axis="0 1 0" frictionloss="0.1"/>
        <geom name="c2" type="capsule" fromto="0 0 0 0 0 -0.28" size=".04" mass="0.4"/>
      </body>
    </body>
    <body name="e" pos="{epos}"><joint name="s1" type="slide" axis="0 0 1" limited="true" range="-0.1 0.1" frictionloss="0.3"/>
      <joint name="b1" type="ball" damping="0.1"/><geom name="ecap" type="capsule" size=".05 .1" mass="0.6"/></body>
  </worldbody>
  {eq}
</mujoco>"""
SCENES = {
  "apart": dict(epos="0.8 0 0.3", eq=""),
  "coupled": dict(epos="0.14 0 0.3", eq='<equality><connect body1="c2b" body2="e" anchor="0 0 -0.28" solref="0.05 1"/></equality>'),
}
# no limit, no friction loss, no equality: a tree has constraint rows only while it touches the floor; the arm never does
FREE_XML = """<mujoco>
  <compiler angle="radian"/>
  <option timestep="0.004" jacobian="{jac}" cone="{cone}" sleep_tolerance="0.01" iterations="40">{flag}</option>
  <default><geom friction="0.8 0.02 0.01"/></default>
  <worldbody>
    <geom name="floor" type="plane" size="5 5 .1"/>
    <body name="a" pos="0 0 1"><freejoint name="fa"/><geom name="abox" type="box" size=".1 .12 .1" mass="1.1"/></body>
    <body name="b" pos="1 0 1"><freejoint name="fb"/><geom name="bsph" type="sphere" size=".1" mass="0.7"/></body>
    <body name="c" pos="-1 0 1.5">
      <joint name="h1" type="hinge" axis="0 1 0" damping="0.05"/>
      <geom name="c1" type="capsule" fromto="0 0 0 0 0 -0.3" size=".04" mass="0.5"/>
      <body name="c2b" pos="0 0 -0.3">
        <joint name="h2" type="hinge" axis="0 1 0"/>
        <geom name="c2" type="capsule" fromto="0 0 0 0 0 -0.28" size=".04" mass="0.4"/>
      </body>
    </body>
  </worldbody>
</mujoco>"""
# capacity histories: three mutually decoupled 6-dof trees (nv=18 > 16 = the padded compact width of every nvmax <= 15), every tree
# with its own rows: two free boxes resting on the floor, a limited / frictional 6-hinge chain hanging in the air (owns dofs 12..17)
def _chain6():
  s, close = "", ""
  for j in range(6):
    s += '<body name="c%d" pos="%s">' % (j, "-1.5 0 2" if j == 0 else "0 0 -0.2")
    close += "</body>"
    s += '<joint name="g%d" type="hinge" axis="%s" limited="true" range="-0.3 0.3" frictionloss="%g" damping="0.05"/>' % (j, "0 1 0" if j % 2 == 0 else "1 0 0", 0.1 + 0.02 * j)
    s += '<geom type="capsule" fromto="0 0 0 0 0 -0.2" size=".04" mass="%g" contype="0" conaffinity="0"/>' % (0.3 + 0.05 * j)
  return s + close


# iterations=16: on the CPU backend every Newton iteration is launched whether or not the worlds have converged (the cost of a call is
# proportional to it); the full and the compacted solves of this scene converge (tolerance 1e-8) within 6 iterations for all four alphabets
BIG_XML = (
  """<mujoco>
  <compiler angle="radian"/>
  <option timestep="0.004" jacobian="{jac}" cone="{cone}" sleep_tolerance="0.01" iterations="16">{flag}</option>
  <default><geom friction="0.8 0.02 0.01"/></default>
  <worldbody>
    <geom name="floor" type="plane" size="8 8 .1"/>
    <body name="a" pos="0 0 0.098"><freejoint name="fa"/><geom name="abox" type="box" size=".1 .12 .1" mass="1.1"/></body>
    <body name="b" pos="1.5 0 0.078"><freejoint name="fb"/><geom name="bbox" type="box" size=".15 .09 .08" mass="0.8"/></body>
    """
  + _chain6()
  + """
  </worldbody>
</mujoco>"""
)
BIG = "apart3"
DECOUPLED = ("apart", BIG)  # scenes whose inertia and constraints are block diagonal over trees
# capacities: 6 / 12 / 18 fit exactly one / two / three trees, 15 fits two with slack; padded width 16 < nv for every nvmax <= 15, 32 above
HIST_NVMAX = {"quick": (6, 15, 18), "thorough": (0, 6, 11, 12, 15, 16, 18)}
HIST_ENTRIES = {"quick": (("forward", 2),), "thorough": (("forward", 3), ("api", 2))}  # (entry, calls per history)


# call sequences over the per-world state alphabet {A airborne, C contact}: all of length 1 and 2 (letter i = world i)
FREE_CALLS = ("AA", "AC", "CA", "CC")
FREE_SEQS = tuple((a,) for a in FREE_CALLS) + tuple((a, b) for a in FREE_CALLS for b in FREE_CALLS)
FREE_POISON = (0x00, 0xFF, 0x7F, 0xC3)  # = mc.world.POISON_ALPHABET (no warp import in the parent)
SLEEP_FLAG = '<flag sleep="enable"/>'
QUATS = ((1, 0, 0, 0), (0.9238795, 0.2209424, 0.2209424, 0.2209424), (0.9659258, 0.0, 0.1830127, -0.1830127), (0.8660254, -0.2886751, 0.2886751, 0.2886751))


def scenarios(tier, seed):
  out = []
  variants = [seed % 4] if tier == "quick" else [seed % 4, (seed + 1) % 4]
  for variant in variants:
    for scene in SCENES:
      for jac in ("dense", "sparse"):
        for cone in ("pyramidal", "elliptic"):
          for k in range(0, 13):
            if tier == "quick":
              out.append(dict(scene=scene, jac=jac, cone=cone, nvmax=k, variant=variant, w1="map"))
            else:
              for s1 in range(8):
                out.append(dict(scene=scene, jac=jac, cone=cone, nvmax=k, variant=variant, w1=s1))
  # simplest first: large capacities (no fault) before small ones
  out.sort(key=lambda s: (s["variant"] != seed % 4, -s["nvmax"]))
  # worlds without constraint rows: the smaller model, before the capacity grid
  free = []
  for variant in variants:
    for seq in FREE_SEQS:
      for jac in ("dense", "sparse"):
        for cone in ("pyramidal", "elliptic"):
          for poison in FREE_POISON:
            free.append(dict(kind="free", seq=list(seq), jac=jac, cone=cone, poison=poison, variant=variant))
  free.sort(key=lambda s: (s["variant"] != seed % 4, len(s["seq"])))
  # capacity histories on ONE Data (nv=18): the first awake subset is the scenario, the remaining calls are enumerated inside
  hist = []
  for variant in variants:
    for entry, length in HIST_ENTRIES[tier]:
      for jac in ("dense", "sparse"):
        for cone in ("pyramidal", "elliptic"):
          for k in HIST_NVMAX[tier]:
            for first in range(8):
              hist.append(dict(kind="hist", entry=entry, jac=jac, cone=cone, nvmax=k, first=first, length=length, variant=variant))
  hist.sort(key=lambda s: (s["variant"] != seed % 4, s["entry"] != "forward", -s["nvmax"]))
  return free + hist + out


_M = {}


def _models(scene, jac, cone):
  import mujoco_warp as mjw

  key = (scene, jac, cone)
  if key not in _M:
    xml, extra = (FREE_XML, {}) if scene == "free" else (BIG_XML, {}) if scene == BIG else (XML, SCENES[scene])
    mjm_s = util.load(xml.format(jac=jac, cone=cone, flag=SLEEP_FLAG, **extra))
    mjm_n = util.load(xml.format(jac=jac, cone=cone, flag="", **extra))
    m_s, m_n = mjw.put_model(mjm_s), mjw.put_model(mjm_n)
    m_s.opt.warn_overflow = False
    m_n.opt.warn_overflow = False
    _M[key] = (mjm_s, m_s, mjm_n, m_n)
  return _M[key]


def _tree_dofs(mjm, t):
  a, n = int(mjm.tree_dofadr[t]), int(mjm.tree_dofnum[t])
  return list(range(a, a + n))


def _state(mjm, w, variant, subset):
  """MuJoCo data with the state of world w; trees outside `subset` get zero velocity (they are going to sleep)."""
  import mujoco

  d = mujoco.MjData(mjm)
  k = w + variant
  jadr = lambda n: int(mjm.jnt_qposadr[mujoco.mj_name2id(mjm, mujoco.mjtObj.mjOBJ_JOINT, n)])
  d.qpos[jadr("h1")] = 0.32 if k % 2 == 0 else -0.315
  d.qpos[jadr("h2")] = 0.3 - 0.2 * k
  d.qpos[jadr("s1")] = 0.103 if k % 3 != 1 else -0.102
  d.qpos[jadr("b1") : jadr("b1") + 4] = QUATS[k % 4]
  d.qpos[jadr("fa") + 0] += 0.004 * k
  d.qvel[:] = 0.05 * np.cos(np.arange(mjm.nv) + k)
  for t in range(mjm.ntree):
    if not (subset >> t) & 1:
      d.qvel[_tree_dofs(mjm, t)] = 0.0
  return d


def _state3(mjm, w, variant, subset):
  """State of world w of the nv=18 scene: both boxes 2 mm inside the floor, four or five of the six hinges beyond their limit."""
  import mujoco

  d = mujoco.MjData(mjm)
  k = w + variant
  jadr = lambda n: int(mjm.jnt_qposadr[mujoco.mj_name2id(mjm, mujoco.mjtObj.mjOBJ_JOINT, n)])
  fa, fb = jadr("fa"), jadr("fb")
  d.qpos[fa + 0] += 0.004 * k
  d.qpos[fb + 1] -= 0.003 * k
  yaw = 0.2 + 0.3 * k  # box b stays flat on the floor
  d.qpos[fb + 3 : fb + 7] = (np.cos(yaw / 2), 0.0, 0.0, np.sin(yaw / 2))
  for j in range(6):
    sign = 1.0 if (j + k) % 2 == 0 else -1.0
    d.qpos[jadr(f"g{j}")] = sign * (0.25 if (j + k) % 5 == 0 else 0.31 + 0.004 * j)
  d.qvel[:] = 0.05 * np.cos(np.arange(mjm.nv) + k)
  for t in range(mjm.ntree):
    if not (subset >> t) & 1:
      d.qvel[_tree_dofs(mjm, t)] = 0.0
  return d


def _state_of(mjm):
  return _state3 if mjm.nv == 18 else _state


OUT = ("qacc", "qacc_smooth", "qfrc_constraint")


def _grab(m, d):
  r = {f: getattr(d, f).numpy().copy() for f in OUT}
  r["nefc"] = d.nefc.numpy().copy()
  r["force"] = d.efc.force.numpy().copy()
  r["overflow"] = d.overflow.numpy().copy()
  return r


def _force_awake(m, d, subsets):
  from mujoco_warp._src import sleep

  ta = d.tree_asleep.numpy()
  for w, s in enumerate(subsets):
    for t in range(m.ntree):
      ta[w, t] = sleep.K_AWAKE_VAL if (s >> t) & 1 else t
  util.set_field(d.tree_asleep, ta)
  sleep.update_sleep(m, d)


def _garbage(d):
  for f in OUT:
    a = getattr(d, f).numpy()
    a[...] = GARBAGE
    util.set_field(getattr(d, f), a)


_REF = {}


def _reference(key, subsets, variant):
  """Full solve (sleep disabled, default nvmax) of the states belonging to `subsets`."""
  import mujoco_warp as mjw

  rk = (key, tuple(subsets), variant)
  if rk not in _REF:
    if len(_REF) > 200:
      _REF.clear()
    _, _, mjm_n, m_n = _models(*key)
    import mujoco

    d = mjw.make_data(mjm_n, nworld=NW)
    inertia = []
    for w, s in enumerate(subsets):
      st = _state_of(mjm_n)(mjm_n, w, variant, s)
      util.copy_state(st, d, world=w)
      mujoco.mj_forward(mjm_n, st)
      inertia.append(util.mj_full_m(mjm_n, st))
    mjw.forward(m_n, d)
    r = _grab(m_n, d)
    r["M"] = inertia
    r["rows"] = [util.efc_dense(m_n, d, w)[1] for w in range(NW)]
    _REF[rk] = r
  return _REF[rk]


def _J(m, d, w):
  return util.efc_dense(m, d, w)[1]["J"]


def _match_rows(rg, rr):
  """For every reference row the index of the closest not yet used row of the same type (by Jacobian row and pos)."""
  used, order = set(), []
  for i in range(len(rr["type"])):
    best, bj = None, -1
    for j in range(len(rg["type"])):
      if j in used or int(rg["type"][j]) != int(rr["type"][i]):
        continue
      dist = float(np.abs(rg["J"][j] - rr["J"][i]).sum()) + abs(float(rg["pos"][j] - rr["pos"][i]))
      if best is None or dist < best:
        best, bj = dist, j
    if bj < 0:
      return None
    used.add(bj)
    order.append(bj)
  return order


def _oracle(c, tag, entry, scene, mjm, m, d, k, want_awake, ref, counts, check_forced=True):
  """Applies the C38 oracles to every world of a finished compacted solve."""
  got = _grab(m, d)
  awake = d.tree_awake.numpy()
  ncdof = d.ncdof.numpy()
  dof_cdof, cdof_dof = d.dof_cdof.numpy(), d.cdof_dof.numpy()
  stats = dict(frozen=False, fault=False, solved=False)
  for w in range(NW):
    pre = f"{tag} world {w}: "
    aw = [t for t in range(mjm.ntree) if awake[w, t] == 1]
    if check_forced and scene in DECOUPLED:
      # nothing couples the trees and sleepers have zero velocity: the forced set must survive the forward pass
      c.equal(pre + "awake set after forward", np.array(aw), np.array([t for t in range(mjm.ntree) if (want_awake[w] >> t) & 1]), vkey=f"{entry}:awake_set_changed")
    adofs = [i for t in aw for i in _tree_dofs(mjm, t)]
    sdofs = [i for i in range(mjm.nv) if i not in adofs]
    needed = len(adofs)
    bit = bool(int(got["overflow"][w]) & NVMAX_BIT)
    if needed > k:
      stats["fault"] = True
      counts["faults_injected"] += 1
      c.true(pre + "NVMAX bit", bit, f"{needed} active dofs, nvmax={k}, overflow={int(got['overflow'][w]):#x}", vkey=f"{entry}:silent_nvmax")
      c.equal(pre + "ncdof clamp", int(ncdof[w]), k, vkey=f"{entry}:ncdof")
      for f in OUT:
        c.true(pre + f + " finite", np.all(np.isfinite(got[f][w])), "non-finite after overflow", vkey=f"{entry}:overflow_nonfinite")
      continue
    c.true(pre + "no NVMAX bit", not bit, f"{needed} active dofs fit nvmax={k} but overflow={int(got['overflow'][w]):#x}", vkey=f"{entry}:spurious_nvmax")
    c.equal(pre + "ncdof", int(ncdof[w]), needed, vkey=f"{entry}:ncdof")
    # maps: active dofs packed in order, inactive -1, inverse consistent
    want_map = np.full(mjm.nv, -1)
    want_map[adofs] = np.arange(needed)
    c.equal(pre + "dof_cdof", dof_cdof[w], want_map, vkey=f"{entry}:dof_cdof")
    want_inv = np.full(cdof_dof.shape[1], -1)
    want_inv[:needed] = adofs
    c.equal(pre + "cdof_dof", cdof_dof[w], want_inv, vkey=f"{entry}:cdof_dof")
    # frozen dofs
    if sdofs:
      stats["frozen"] = True
      counts["frozen_checked"] += 1
      for f in OUT:
        c.bits(pre + f"{f}[asleep]", got[f][w][sdofs], np.zeros(len(sdofs), np.float32), vkey=f"{entry}:frozen:{f}")
    if not adofs:
      continue
    stats["solved"] = True
    full = len(sdofs) == 0
    if full:
      c.equal(pre + "nefc", int(got["nefc"][w]), int(ref["nefc"][w]), vkey=f"{entry}:all_awake:nefc")
      n = int(ref["nefc"][w])
      if int(got["nefc"][w]) == n and n:
        # rows may be listed in another order (contacts of trees woken during the forward pass are appended by the
        # second collision pass): compare forces after sorting the rows of both sides by (type, Jacobian row)
        rg, rr = util.efc_dense(m, d, w)[1], ref["rows"][w]
        og = _match_rows(rg, rr)
        if og is None:
          c.fail(f"{entry}:all_awake:efc_type", pre + f"row types differ: {rg['type'].tolist()} vs {rr['type'].tolist()}")
        elif c.close(pre + "efc.J (rows matched)", rg["J"][og], rr["J"], "f32dyn", vkey=f"{entry}:all_awake:efc_J"):
          c.close(pre + "efc.force", rg["force"][og], rr["force"], "solver", vkey=f"{entry}:all_awake:efc_force")
    if full or scene in DECOUPLED:
      kind = "all_awake" if full else "partial"
      c.close(pre + "qacc_smooth[awake]", got["qacc_smooth"][w][adofs], ref["qacc_smooth"][w][adofs], "f32dyn", vkey=f"{entry}:{kind}:qacc_smooth")
      c.close(pre + "qfrc_constraint[awake]", got["qfrc_constraint"][w][adofs], ref["qfrc_constraint"][w][adofs], "solver", vkey=f"{entry}:{kind}:qfrc_constraint")
      _qacc_close(c, pre + "qacc[awake]", got["qacc"][w][adofs], ref["qacc"][w][adofs], ref["M"][w][np.ix_(adofs, adofs)], mjm, f"{entry}:{kind}:qacc")
    # internal consistency: qfrc_constraint = J^T force on awake dofs
    n = min(int(got["nefc"][w]), d.njmax)
    if n:
      J = _J(m, d, w)[:n]
      jf = J.T @ got["force"][w, :n].astype(np.float64)
      c.close(pre + "qfrc_constraint vs J^T f", got["qfrc_constraint"][w][adofs], jf[adofs], "f32dyn", vkey=f"{entry}:jtf")
  return stats


def _qacc_close(c, name, got, want, M, mjm, vkey):
  """Solver-class comparison of accelerations in the solver's own metric.

  The Newton solver stops when the (remaining) cost decrease, rescaled by 1/(meaninertia*nv), is below opt.tolerance.
  For two iterates near the optimum the cost gap is >= 0.5 e^T M e (the Hessian is M + J^T D J), so two converged
  solves may differ by e with 0.5 e^T M e / (meaninertia*nv) ~ tolerance: on a dof with a tiny inertia (the spin of a
  thin capsule, 7e-4) that is several 1e-2 of acceleration although forces agree to 1e-5.  Bound: 10 x tolerance
  (both sides carry their own stopping error).  A wrong index / missing row gives 1e-3..1 here, tolerance is 1e-6.
  """
  c.nchecked += 1
  got, want = np.asarray(got, np.float64), np.asarray(want, np.float64)
  if not np.all(np.isfinite(got)):
    c.fail(vkey, f"{name}: non-finite value in MJWarp result")
    return
  e = got - want
  tol = max(float(mjm.opt.tolerance), 1e-6)
  gap = 0.5 * float(e @ M @ e) / (float(mjm.stat.meaninertia) * max(1, mjm.nv))
  c.maxrel = max(c.maxrel, gap)
  if gap > 10 * tol:
    i = int(np.argmax(np.abs(e)))
    c.fail(vkey, f"{name}: energy-norm gap {gap:.3g} > {10 * tol:.3g} (max |got-want|={abs(e[i]):.3g} at {i}: got={got[i]:.6g} want={want[i]:.6g})")


def _place(mjm, d, variant, subsets):
  for w, s in enumerate(subsets):
    util.copy_state(_state_of(mjm)(mjm, w, variant, s), d, world=w)


# ------------------------------------------------------------------------------- worlds without constraint rows


def _free_state(mjm, w, variant, letter, subset):
  """MuJoCo data of world w in state `letter` (A airborne, C on the floor); trees outside `subset` get zero velocity."""
  import mujoco

  d = mujoco.MjData(mjm)
  k = w + variant
  jadr = lambda n: int(mjm.jnt_qposadr[mujoco.mj_name2id(mjm, mujoco.mjtObj.mjOBJ_JOINT, n)])
  fa, fb = jadr("fa"), jadr("fb")
  d.qpos[fa + 0] += 0.004 * k
  d.qpos[fb + 1] -= 0.003 * k
  if letter == "A":
    d.qpos[fa + 2] = 0.8 + 0.1 * k
    d.qpos[fa + 3 : fa + 7] = QUATS[k % 4]
    d.qpos[fb + 2] = 0.6 + 0.05 * k
  else:
    d.qpos[fa + 2] = 0.098  # half height 0.1, upright: four corners 2 mm inside the floor
    d.qpos[fb + 2] = 0.097 if variant % 2 == 0 else 0.6 + 0.05 * k  # odd alphabets: the sphere's tree has no row either
  d.qpos[fb + 3 : fb + 7] = QUATS[(k + 1) % 4]
  d.qpos[jadr("h1")] = 0.3 - 0.25 * k
  d.qpos[jadr("h2")] = 0.2 + 0.15 * k
  d.qvel[:] = 0.05 * np.cos(np.arange(mjm.nv) + k)
  for t in range(mjm.ntree):
    if not (subset >> t) & 1:
      d.qvel[_tree_dofs(mjm, t)] = 0.0
  return d


def _free_place(mjm, d, variant, letters, subsets):
  for w in range(NW):
    util.copy_state(_free_state(mjm, w, variant, letters[w], subsets[w]), d, world=w)


def _free_reference(key, letters, subsets, variant):
  """Full solve (sleep disabled, fresh unpoisoned Data) of the per-world states `letters`, plus MuJoCo's nefc / qacc."""
  import mujoco
  import mujoco_warp as mjw

  rk = (key, letters, tuple(subsets), variant)
  if rk not in _REF:
    if len(_REF) > 200:
      _REF.clear()
    _, _, mjm_n, m_n = _models(*key)
    d = mjw.make_data(mjm_n, nworld=NW)
    M, mj_nefc, mj_qacc = [], [], []
    for w in range(NW):
      st = _free_state(mjm_n, w, variant, letters[w], subsets[w])
      util.copy_state(st, d, world=w)
      mujoco.mj_forward(mjm_n, st)
      M.append(util.mj_full_m(mjm_n, st))
      mj_nefc.append(int(st.nefc))
      mj_qacc.append(st.qacc.copy())
    mjw.forward(m_n, d)
    r = _grab(m_n, d)
    r.update(M=M, mj_nefc=mj_nefc, mj_qacc=mj_qacc, qfrc_smooth=d.qfrc_smooth.numpy().copy())
    _REF[rk] = r
  return _REF[rk]


def _free_step_reference(key, letters, variant):
  """qpos / qvel after two steps of the sleep-disabled model from the all-awake states `letters`."""
  import mujoco_warp as mjw

  rk = (key, letters, "step2", variant)
  if rk not in _REF:
    _, _, mjm_n, m_n = _models(*key)
    d = mjw.make_data(mjm_n, nworld=NW)
    _free_place(mjm_n, d, variant, letters, (7, 7))
    mjw.step(m_n, d)
    mjw.step(m_n, d)
    _REF[rk] = dict(qpos=d.qpos.numpy().copy(), qvel=d.qvel.numpy().copy())
  return _REF[rk]


def _free_mode(seq):
  if len(seq) == 2:
    return "history"
  return {"AA": "airborne", "CC": "contact"}.get(seq[0], "mixed")


def _free_oracle(c, tag, mode, mjm, m, d, letters, prev, want_awake, ref, counts, variant):
  """C38 oracles for one finished forward() of the free scenes; `prev` = per-world letters of the previous call on this Data."""
  got = _grab(m, d)
  # trees that rest on the floor (see _free_state): box, and the sphere for even alphabets, in a C world
  rowtrees = [() if letters[w] == "A" else ((0, 1) if variant % 2 == 0 else (0,)) for w in range(NW)]
  awake = d.tree_awake.numpy()
  for w in range(NW):
    pre = f"{tag} world {w} ({letters[w]}): "
    aw = [t for t in range(mjm.ntree) if awake[w, t] == 1]
    # nothing couples the trees (the floor is static) and sleepers have zero velocity: the forced set must survive
    c.equal(pre + "awake set after forward", np.array(aw), np.array([t for t in range(mjm.ntree) if (want_awake[w] >> t) & 1]), vkey=f"{mode}:awake_set_changed")
    adofs = [i for t in aw for i in _tree_dofs(mjm, t)]
    sdofs = [i for i in range(mjm.nv) if i not in adofs]
    if sdofs:
      counts["frozen_checked"] += 1
      for f in OUT:
        c.bits(pre + f"{f}[asleep]", got[f][w][sdofs], np.zeros(len(sdofs), np.float32), vkey=f"{mode}:frozen:{f}")
    if not adofs:
      continue
    finite = True
    for f in OUT:
      c.nchecked += 1
      if not np.all(np.isfinite(got[f][w][adofs])):
        finite = False
        c.fail(f"{mode}:{f}_nonfinite", pre + f"{f}[awake] is not finite: {got[f][w][adofs][:3].tolist()}..., full solve {ref[f][w][adofs][:3].tolist()}...")
    if not finite:
      continue
    c.equal(pre + "overflow", int(got["overflow"][w]), int(ref["overflow"][w]), vkey=f"{mode}:overflow")
    full = not sdofs
    if not any(t in aw for t in rowtrees[w]):
      # no awake tree has a constraint (A world, or a C world whose resting trees sleep: MJWarp drops a sleeper's contacts):
      # MuJoCo and the full solve give qacc = qacc_smooth, qfrc_constraint = 0 exactly on these (uncoupled) trees.  The
      # compacted solve takes Newton steps on M qacc = qfrc_smooth in float32: f32dyn (2e-4; measured <= 1e-5 of the scale on the repaired tree)
      counts["rowless_worlds_checked"] += 1
      if letters[w] == "A":
        c.equal(pre + "nefc", int(got["nefc"][w]), 0, vkey=f"{mode}:nefc")
      stale = prev is not None and prev[w] == "C"
      c.close(
        pre + ("qfrc_constraint[awake] (no rows now, rows in the previous call)" if stale else "qfrc_constraint[awake] (no rows)"),
        got["qfrc_constraint"][w][adofs],
        np.zeros(len(adofs)),
        "f32dyn",
        scale=1.0 + float(np.abs(ref["qfrc_smooth"][w]).max()),
        vkey=f"{mode}:stale_qfrc_constraint" if stale else f"{mode}:qfrc_constraint_nonzero",
      )
      c.close(pre + "qacc_smooth[awake]", got["qacc_smooth"][w][adofs], ref["qacc_smooth"][w][adofs], "f32dyn", vkey=f"{mode}:qacc_smooth")
      if c.close(pre + "qacc[awake] vs full solve", got["qacc"][w][adofs], ref["qacc"][w][adofs], "f32dyn", vkey=f"{mode}:qacc"):
        c.close(pre + "qacc[awake] vs MuJoCo (no constraint)", got["qacc"][w][adofs], ref["mj_qacc"][w][adofs], "f32dyn", vkey=f"{mode}:qacc_vs_mujoco")
    else:
      if full:
        c.equal(pre + "nefc", int(got["nefc"][w]), int(ref["nefc"][w]), vkey=f"{mode}:contact_world:nefc")
      c.close(pre + "qacc_smooth[awake]", got["qacc_smooth"][w][adofs], ref["qacc_smooth"][w][adofs], "f32dyn", vkey=f"{mode}:contact_world:qacc_smooth")
      c.close(pre + "qfrc_constraint[awake]", got["qfrc_constraint"][w][adofs], ref["qfrc_constraint"][w][adofs], "solver", vkey=f"{mode}:contact_world:qfrc_constraint")
      _qacc_close(c, pre + "qacc[awake]", got["qacc"][w][adofs], ref["qacc"][w][adofs], ref["M"][w][np.ix_(adofs, adofs)], mjm, f"{mode}:contact_world:qacc")


def _execute_free(scn):
  import mujoco_warp as mjw
  from mc import world

  key = ("free", scn["jac"], scn["cone"])
  mjm_s, m_s, mjm_n, m_n = _models(*key)
  assert mjm_s.nv == 14 and mjm_s.ntree == 3
  seq, variant, poison = [str(s) for s in scn["seq"]], scn["variant"], scn["poison"]
  mode = _free_mode(seq)
  c = util.Cmp()
  counts = dict(extra_evaluations=-1, faults_injected=0, frozen_checked=0, rowless_worlds_checked=0)
  # length 1: all awake in both worlds, then every subset of world 0 with the bijective image in world 1; histories: all awake
  subs = [(7, 7)] + ([(s0, (3 * s0 + 5) % 8) for s0 in range(8)] if len(seq) == 1 else [])
  # references on unpoisoned memory; MuJoCo's testimony that A worlds have no row and C worlds have some
  refs = {(i, ss): _free_reference(key, letters, ss, variant) for i, letters in enumerate(seq) for ss in subs}
  as_intended = all((refs[(i, (7, 7))]["mj_nefc"][w] == 0) == (letters[w] == "A") and (refs[(i, (7, 7))]["nefc"][w] == 0) == (letters[w] == "A") for i, letters in enumerate(seq) for w in range(NW))
  step_ref = _free_step_reference(key, seq[0], variant) if len(seq) == 1 else None
  tag0 = f"free/{scn['jac']}/{scn['cone']} poison={poison:#04x} calls={'>'.join(seq)}"

  world.set_poison(poison)
  try:
    for ss in subs:
      d = mjw.make_data(mjm_s, nworld=NW)
      prev = None
      for i, letters in enumerate(seq):
        if i == 0:
          _free_place(mjm_s, d, variant, letters, ss)
          _garbage(d)
          _force_awake(m_s, d, ss)
        else:
          # the same Data is moved to the next state: only qpos / qvel are replaced
          st = [_free_state(mjm_s, w, variant, letters[w], ss[w]) for w in range(NW)]
          util.set_field(d.qpos, np.stack([s.qpos for s in st]))
          util.set_field(d.qvel, np.stack([s.qvel for s in st]))
        mjw.forward(m_s, d)
        counts["extra_evaluations"] += 1
        _free_oracle(c, f"{tag0} call {i} awake={ss[0]:03b},{ss[1]:03b}", mode, mjm_s, m_s, d, letters, prev, ss, refs[(i, ss)], counts, variant)
        prev = letters
    if step_ref is not None:
      # two steps from the all-awake state (10 steps below the velocity tolerance are needed to fall asleep)
      d = mjw.make_data(mjm_s, nworld=NW)
      _free_place(mjm_s, d, variant, seq[0], (7, 7))
      mjw.step(m_s, d)
      mjw.step(m_s, d)
      counts["extra_evaluations"] += 2
      for w in range(NW):
        pre = f"{tag0} two steps, world {w} ({seq[0][w]}): "
        tol = "f32dyn" if seq[0][w] == "A" else "solver"
        for f in ("qvel", "qpos"):
          g = getattr(d, f).numpy()[w]
          c.nchecked += 1
          if not np.all(np.isfinite(g)):
            c.fail(f"{mode}:step2:{f}_nonfinite", pre + f"{f} is not finite: {g[:3].tolist()}..., sleep disabled {step_ref[f][w][:3].tolist()}...")
          else:
            c.close(pre + f, g, step_ref[f][w], tol, vkey=f"{mode}:step2:{f}")
  finally:
    world.set_poison(None)

  counts["extra_evaluations"] = max(0, counts["extra_evaluations"])
  return c.result(nontrivial=as_intended, key=util.sha(scn), counts=counts, info=dict(nv=mjm_s.nv, mode=mode, checked=c.nchecked, maxrel=round(c.maxrel, 8), as_intended=bool(as_intended)))


# ------------------------------------------------------------------------------- capacity histories on one Data


def _execute_hist(scn):
  """Every sequence of awake-subset pairs (world 0: first, then all; world 1: the bijective image) on ONE Data with capacity nvmax."""
  import itertools

  import mujoco_warp as mjw
  from mujoco_warp._src import island, solver

  key = (BIG, scn["jac"], scn["cone"])
  mjm_s, m_s, mjm_n, m_n = _models(*key)
  k, variant, entry, first, length = scn["nvmax"], scn["variant"], scn["entry"], scn["first"], scn["length"]
  nv, ntree = mjm_s.nv, mjm_s.ntree
  assert nv == 18 and ntree == 3 and all(int(n) == 6 for n in mjm_s.tree_dofnum)
  mjm, m = (mjm_s, m_s) if entry == "forward" else (mjm_n, m_n)
  c = util.Cmp()
  counts = dict(extra_evaluations=-1, faults_injected=0, frozen_checked=0, sequences=0, calls_on_reused_data=0, tree_fell_asleep_on_reused_data=0, calls_padded_width_below_nv=0)
  agg = dict(frozen=False, fault=False, solved=False)

  ref_all = _reference(key, (7, 7), variant)
  ref_ok = all(np.abs(ref_all["force"][w, : ref_all["nefc"][w]]).max() > 1e-3 for w in range(NW))
  for t in range(ntree):
    dofs = _tree_dofs(mjm_n, t)
    ref_ok &= all(np.abs(ref_all["qfrc_constraint"][w][dofs]).max() > 1e-3 for w in range(NW))

  pad = None
  for rest in itertools.product(range(8), repeat=length - 1):
    seq = [(s0, (3 * s0 + 5) % 8) for s0 in (first,) + rest]
    d = mjw.make_data(mjm, nworld=NW, nvmax=k)
    pad = int(d.nvmax_pad)
    counts["sequences"] += 1
    for i, subsets in enumerate(seq):
      ref = _reference(key, subsets, variant)
      hist = ">".join(f"{a:03b},{b:03b}" for a, b in seq[: i + 1])
      tag = f"{BIG}/{scn['jac']}/{scn['cone']} nv={nv} nvmax={k} (padded {pad}) one Data, awake sets {hist} [{entry}, call {i}]"
      if i == 0:
        _place(mjm, d, variant, subsets)
      else:
        # the same Data is moved on: only the state (qvel of the sleepers differs), the sticky overflow word and the forced set change
        st = [_state3(mjm, w, variant, subsets[w]) for w in range(NW)]
        util.set_field(d.qpos, np.stack([s.qpos for s in st]))
        util.set_field(d.qvel, np.stack([s.qvel for s in st]))
        d.overflow.zero_()
        counts["calls_on_reused_data"] += 1
        counts["tree_fell_asleep_on_reused_data"] += sum(bin(seq[i - 1][w] & ~subsets[w] & 7).count("1") for w in range(NW))
      counts["calls_padded_width_below_nv"] += int(pad < nv)
      if entry == "forward":
        _garbage(d)
        _force_awake(m, d, subsets)
        mjw.forward(m, d)
      else:
        mjw.forward(m, d)
        util.set_field(d.tree_awake, np.array([[(s >> t) & 1 for t in range(ntree)] for s in subsets], dtype=np.int32))
        island.update_active_dofs(m, d)
        solver.smooth_solve_compact(m, d)
        solver.solve_compact(m, d)
      st = _oracle(c, tag, "hist_" + entry, BIG, mjm, m, d, k, subsets, ref, counts, check_forced=entry == "forward")
      for a in agg:
        agg[a] |= st[a]
      counts["extra_evaluations"] += 1

  counts["extra_evaluations"] = max(0, counts["extra_evaluations"])
  nontrivial = ref_ok and (agg["frozen"] or agg["fault"]) and counts["calls_on_reused_data"] > 0
  return c.result(nontrivial=nontrivial, key=util.sha(scn), counts=counts, info=dict(nv=nv, nvmax_pad=pad, checked=c.nchecked, maxrel=round(c.maxrel, 8), ref_ok=bool(ref_ok)))


def execute(scn):
  if scn.get("kind") == "free":
    return _execute_free(scn)
  if scn.get("kind") == "hist":
    return _execute_hist(scn)

  import mujoco_warp as mjw
  from mujoco_warp._src import island, solver

  key = (scn["scene"], scn["jac"], scn["cone"])
  mjm_s, m_s, mjm_n, m_n = _models(*key)
  k, variant = scn["nvmax"], scn["variant"]
  nv = mjm_s.nv
  assert nv == 12 and mjm_s.ntree == 3
  c = util.Cmp()
  counts = dict(extra_evaluations=-1, faults_injected=0, frozen_checked=0)
  agg = dict(frozen=False, fault=False, solved=False)

  def merge(st):
    for a in agg:
      agg[a] |= st[a]

  all_awake = (7, 7)
  ref_all = _reference(key, all_awake, variant)
  ref_ok = all(np.abs(ref_all["force"][w, : ref_all["nefc"][w]]).max() > 1e-3 for w in range(NW))
  for t in range(3):
    dofs = _tree_dofs(mjm_n, t)
    ref_ok &= all(np.abs(ref_all["qfrc_constraint"][w][dofs]).max() > 1e-3 for w in range(NW))

  # --- capacity must be ignored / harmless on the full path; nvmax=None equals nvmax=nv on the compact path
  dn = mjw.make_data(mjm_n, nworld=NW, nvmax=k)
  _place(mjm_n, dn, variant, all_awake)
  mjw.forward(m_n, dn)
  g = _grab(m_n, dn)
  counts["extra_evaluations"] += 1
  for f in OUT + ("force", "nefc"):
    c.bits(f"sleep disabled, nvmax={k}: {f} vs default make_data", g[f], ref_all[f], vkey=f"nosleep_nvmax:{f}")
  c.true(f"sleep disabled, nvmax={k}: NVMAX bit", not np.any(g["overflow"] & NVMAX_BIT), f"overflow={g['overflow'].tolist()}", vkey="nosleep_nvmax:overflow")
  if k == nv:
    res = []
    for kk in (None, nv):
      ds = mjw.make_data(mjm_s, nworld=NW, nvmax=kk)
      _place(mjm_s, ds, variant, all_awake)
      mjw.forward(m_s, ds)
      res.append(_grab(m_s, ds))
      counts["extra_evaluations"] += 1
    for f in OUT + ("force", "nefc", "overflow"):
      c.bits(f"sleep enabled: nvmax=None vs nvmax=nv: {f}", res[0][f], res[1][f], vkey=f"default_vs_nv:{f}")

  for s0 in range(8):
    s1 = (3 * s0 + 5) % 8 if scn["w1"] == "map" else int(scn["w1"])
    subsets = (s0, s1)
    ref = _reference(key, subsets, variant)
    tag0 = f"{scn['scene']}/{scn['jac']}/{scn['cone']} nvmax={k} awake={s0:03b},{s1:03b}"

    # entry 1: forward on the sleep-enabled model
    d = mjw.make_data(mjm_s, nworld=NW, nvmax=k)
    _place(mjm_s, d, variant, subsets)
    _garbage(d)
    _force_awake(m_s, d, subsets)
    mjw.forward(m_s, d)
    merge(_oracle(c, tag0 + " [forward]", "forward", scn["scene"], mjm_s, m_s, d, k, subsets, ref, counts))
    counts["extra_evaluations"] += 1

    # entry 2: all-awake forward, then force the set and redo acceleration + solve
    d = mjw.make_data(mjm_s, nworld=NW, nvmax=k)
    _place(mjm_s, d, variant, subsets)
    mjw.forward(m_s, d)
    d.overflow.zero_()
    _force_awake(m_s, d, subsets)
    mjw.fwd_acceleration(m_s, d, factorize=True)
    mjw.solve(m_s, d)
    merge(_oracle(c, tag0 + " [resolve]", "resolve", scn["scene"], mjm_s, m_s, d, k, subsets, ref, counts, check_forced=False))
    counts["extra_evaluations"] += 1

    # entry 3: compact API on the sleep-disabled model (solver_test style)
    d = mjw.make_data(mjm_n, nworld=NW, nvmax=k)
    _place(mjm_n, d, variant, subsets)
    mjw.forward(m_n, d)
    ta = np.array([[(s >> t) & 1 for t in range(3)] for s in subsets], dtype=np.int32)
    util.set_field(d.tree_awake, ta)
    island.update_active_dofs(m_n, d)
    solver.smooth_solve_compact(m_n, d)
    solver.solve_compact(m_n, d)
    merge(_oracle(c, tag0 + " [api]", "api", scn["scene"], mjm_n, m_n, d, k, subsets, ref, counts, check_forced=False))
    counts["extra_evaluations"] += 1

  counts["extra_evaluations"] = max(0, counts["extra_evaluations"])
  nontrivial = ref_ok and (agg["frozen"] or agg["fault"])
  return c.result(nontrivial=nontrivial, key=util.sha(scn), counts=counts, info=dict(nv=nv, checked=c.nchecked, maxrel=round(c.maxrel, 8), ref_ok=bool(ref_ok)))
