"""C04 Collision detection agrees with MuJoCo C.

(i) pair scenes: every unordered pair of geom types from {plane, sphere, capsule, ellipsoid, cylinder, box,
mesh(tetrahedron), mesh(cube)} (+ hfield x each) in a constructed contact (refs/colscene.py): orientation alphabet
x 6 signed separations (deep, shallow, touching-eps, inside margin, inside gap, outside) x margin x gap;
(ii) parameter scenes on sphere-sphere and plane-box: priority^2 x solmix^2 x condim^2 (+ friction, solref sign,
explicit <pair> override incl. a pair margin larger than the geom margins, <exclude>, cone in the thorough tier).
Oracle: mj_collision, contacts matched per geom pair; parameters and pair presence compared directly; geometry by
pair class (P: direct f32; C: float64 support-function certificate, see refs/colcheck.py).
"""

import collections
import itertools

import numpy as np

from mc import space, util
from mc.refs import colcheck as cc
from mc.refs import colscene as cs
from mc.refs import support_fn as sf

ID = "C04"
LEVEL = "exploration"
RULE = (
  "enumerate every unordered geom-type pair x orientation case x (margin, gap) [x which geom is static]; each scenario "
  "evaluates 6 signed separations as 6 worlds of one batched collision call, each against its own mj_collision; "
  "parameter scenes enumerate priority^2 x solmix^2 x condim^2 (x overrides). non-trivial = >=1 world/evaluation has a "
  "reference contact whose geometry and parameters were compared and >=1 has none; distinct = hash of the scenario spec"
)
BOUNDS = {
  "quick": "36 type pairs x 3 orientations x 4 (margin,gap) + static/moving swap on the generic orientation; hfield x 7 types x 2 orientations; param scenes priority^2 x solmix^2 x condim^2 on 2 geom sets + 5 override scenarios + 12 solref-sign x priority scenarios",
  "thorough": "5 orientations, swap everywhere; param scenes x solref sign x friction x override {none,pair,pair_bigmargin,exclude} x cone",
}
ASSUMPTIONS = [
  "MuJoCo C 3.13 is the reference; parameters/presence compared directly (class f32, boundary rule 1e-5 / 5e-5 for convex pairs)",
  "class P pairs (closed-form primitives) compared contact by contact under f32; class C pairs (GJK/EPA, multi-contact, plane-mesh) "
  "judged by the float64 support-function certificate: |dist - sep(n)| <= 5e-4 (EPA depth tolerance 1e-6 on curved surfaces) + 0.05*margin "
  "(margin-inflated shapes) + float32 cancellation term + 4x the deviation MuJoCo's own float64 solver shows on the same input; sep(n) within "
  "1e-3 (+ the same allowances) of the best of {sep(n_mjw), sep(n_mj), local float64 refinement}; contact counts of class C manifolds only need to be >= 1",
  "MuJoCo's dist (and presence) is used for class C only where MuJoCo itself passes the certificate (it does not for some cylinder pairs; "
  "a contact MuJoCo misses although the float64 oracle puts the geoms in range is counted as reference_missed_contact, not as a violation)",
  "hfield: MJWarp keeps a documented subset of <= 4 per-prism contacts: every MJWarp contact must match one of MuJoCo's (dist 5e-4, pos 1e-3, normal 1e-2) "
  "and MuJoCo's deepest must be present",
  "NATIVECCD/MULTICCD at their defaults; box/mesh pairs with a margin are 'unsupported' (NotImplementedError) by default and are "
  "additionally run with MULTICCD disabled; hfield contacts are compared as sets (presence, count, deepest distance)",
  "nworld = 6 (one world per separation) for pair scenes, 2 for parameter scenes",
]
BUDGET = {"quick": 500, "thorough": 3000}

MG = [(0.0, 0.0), (0.05, 0.0), (0.05, 0.02), (0.0, 0.02)]
PARAM_FIELDS = ("friction", "solref", "solreffriction", "solimp", "includemargin")
BOXY = ("box", "tet", "cube")


def scenarios(tier, seed):
  v = seed % 4
  out = []
  orients = cs.ORIENTS[:3] if tier == "quick" else cs.ORIENTS
  # smallest known reproducer first
  out.append(dict(fam="param", geoms="ss", prio=[0, 0], solref="pp", fric=0, override="pair_bigmargin", cone="pyramidal", variant=v, inner="condim"))
  for ta, tb in cs.type_pairs():
    for o in orients:
      for margin, gap in MG:
        swaps = [0]
        if cs.ORDER[ta] != cs.ORDER[tb] and ta != "plane" and (tier == "thorough" or o == "generic"):
          swaps.append(1)
        for sw in swaps:
          base = dict(fam="pair", ta=ta, tb=tb, orient=o, margin=margin, gap=gap, swap=sw, variant=v, multiccd=1)
          out.append(base)
          if margin and ta in BOXY and tb in BOXY and not (ta == "box" and tb == "box"):
            out.append(dict(base, multiccd=0))
  for tb in cs.TYPES[1:]:
    for o in ("aligned", "generic") if tier == "quick" else ("aligned", "generic", "rot90"):
      for margin, gap in MG[:2] if tier == "quick" else MG:
        out.append(dict(fam="hfield", tb=tb, orient=o, margin=margin, gap=gap, variant=v))
  # parameter scenes
  prios = list(itertools.product((-1, 0, 1), repeat=2))
  if tier == "quick":
    for g in ("ss", "pb"):
      for p in prios:
        out.append(dict(fam="param", geoms=g, prio=list(p), solref="pp", fric=0, override="none", cone="pyramidal", variant=v, inner="full"))
      for ov in ("pair", "exclude", "pair_bigmargin"):
        if not (g == "ss" and ov == "pair_bigmargin"):
          out.append(dict(fam="param", geoms=g, prio=[0, 1], solref="pn", fric=1, override=ov, cone="elliptic", variant=v, inner="condim"))
      # direct (negative) solref x priority order, condim^2 only
      for sr in ("pn", "nn"):
        for p in ((0, 0), (1, 0), (0, 1)):
          out.append(dict(fam="param", geoms=g, prio=list(p), solref=sr, fric=1, override="none", cone="pyramidal", variant=v, inner="condim"))
  else:
    for g in ("ss", "pb"):
      for p in prios:
        for sr in ("pp", "pn", "nn"):
          for fr in (0, 1):
            for cone in ("pyramidal", "elliptic"):
              out.append(dict(fam="param", geoms=g, prio=list(p), solref=sr, fric=fr, override="none", cone=cone, variant=v, inner="full"))
      for ov in ("pair", "exclude", "pair_bigmargin"):
        for p in prios:
          for cone in ("pyramidal", "elliptic"):
            if not (g == "ss" and ov == "pair_bigmargin" and p == (0, 0) and cone == "pyramidal"):
              out.append(dict(fam="param", geoms=g, prio=list(p), solref="pn", fric=1, override=ov, cone=cone, variant=v, inner="condim"))
  return out


# --------------------------------------------------------------------------------------- comparison


def _geomkey(k):
  return tuple(sorted(int(x) for x in k["geom"]))


def compare_params(c, got, ref, tag, kind="dynamic"):
  """Contact parameters of one MJWarp contact vs the reference contact of the same pair."""
  c.equal(f"{tag}:geom", got["geom"], ref["geom"], vkey=f"param:geom_order:{kind}")
  c.equal(f"{tag}:dim", int(got["dim"]), int(ref["dim"]), vkey=f"param:dim:{kind}")
  for f in PARAM_FIELDS:
    c.close(f"{tag}:{f}", got[f], ref[f], "f32", vkey=f"param:{f}:{kind}")


def _zone(dist, margin):
  return "penetrating" if dist < 0 else ("in_margin" if dist < margin else "in_gap")


def compare_pair(c, cls, name, ref, got, s_by_geom, margin, gap, tag, stats, extra_normals=(), geoms=(0, 1)):
  """Contacts of ONE geom pair in one world. ref/got: lists of contact dicts."""
  btol = 1e-5 if cls == "P" else 5e-5
  lim = margin + gap
  # boundary rule: a contact whose inclusion predicate dist < margin+gap is within btol of flipping is "don't care"
  nb = len(ref) + len(got)
  ref = [k for k in ref if abs(float(k["dist"]) - lim) >= btol]
  got = [k for k in got if abs(float(k["dist"]) - lim) >= btol]
  stats["boundary_dont_care"] += nb - len(ref) - len(got)
  s1, s2 = None, None
  if cls == "C":
    g0 = [int(x) for x in (ref or got)[0]["geom"]] if (ref or got) else list(geoms)
    s1, s2 = s_by_geom[g0[0]], s_by_geom[g0[1]]
  if bool(ref) != bool(got):
    present = ref or got
    dmin = min(float(k["dist"]) for k in present)
    if cls == "C":
      # adjudicate by the float64 oracle: the true signed distance is max_n sep(n)
      cands = [np.asarray(k["frame"], np.float64)[0] for k in present] + [np.asarray(x, np.float64) for x in extra_normals]
      true_d, _ = cc.best_sep(s1, s2, cands)
      if abs(true_d - lim) < 10 * btol:
        stats["boundary_dont_care"] += 1
        return
      if got and true_d < lim and abs(cc.certificate(s1, s2, min(got, key=lambda k: float(k["dist"])))[1]) <= cc.cert_tol(dmin, present[0]["pos"], margin=margin):
        stats["reference_missed_contact"] += 1  # MuJoCo reports nothing although the geoms are within margin+gap (float64 oracle)
        return
      if ref and true_d > lim:
        stats["reference_spurious_contact"] += 1
        return
    side = "missing" if ref else "extra"
    c.fail(
      f"presence:{side}:{name}:{_zone(dmin, margin)}",
      f"{tag}: MuJoCo {len(ref)} contact(s), MJWarp {len(got)}; dist={[round(float(k['dist']), 6) for k in present]} margin={margin} gap={gap}",
    )
    return
  if not ref:
    stats["empty"] += 1
    return
  stats["with_contact"] += 1
  for k in got:
    compare_params(c, k, ref[0], tag)
    cc.frame_valid(c, k, tag, f"{cls}:{name}")
  if cls == "P":
    if len(ref) != len(got):
      c.fail(f"P:{name}:count", f"{tag}: MuJoCo {len(ref)} contacts (dist {[round(float(k['dist']), 5) for k in ref]}), MJWarp {len(got)} (dist {[round(float(k['dist']), 5) for k in got]})")
      return
    for i, j in cc.match(ref, got):
      r, g = ref[i], got[j]
      c.close(f"{tag}:dist", g["dist"], r["dist"], "f32", vkey=f"P:{name}:dist", scale=1.0)
      c.close(f"{tag}:pos", g["pos"], r["pos"], "f32", vkey=f"P:{name}:pos")
      c.close(f"{tag}:normal", g["frame"][0], r["frame"][0], "f32", vkey=f"P:{name}:normal")
    stats["P_compared"] += len(ref)
    return
  # class C: certificate on the deepest contact of each side
  gd = min(got, key=lambda k: float(k["dist"]))
  rd = min(ref, key=lambda k: float(k["dist"]))
  n_w = np.asarray(gd["frame"], np.float64)[0]
  n_r = np.asarray(rd["frame"], np.float64)[0]
  sep_w, dev_w = cc.certificate(s1, s2, gd)
  sep_r, dev_r = cc.certificate(s1, s2, rd)
  best, _ = cc.best_sep(s1, s2, [n_w, n_r] + [np.asarray(x, np.float64) for x in extra_normals])
  sub_w, sub_r = best - sep_w, best - sep_r
  # convex-solver tolerance: the model of cert_tol plus 4x what the reference solver (same algorithm, float64) itself
  # achieves on this very input, measured against the float64 certificate. Where MuJoCo is exact MJWarp must be within
  # the base tolerance; where MuJoCo's own (dist, normal) fail the certificate the input is ill-conditioned for EPA
  # (rounded margin-inflated polytopes, iteration cap) and MJWarp may be off by the same order (ratios up to 3.4
  # observed on the unchanged tree over seeds 0-3).
  tol_dev = cc.cert_tol(gd["dist"], gd["pos"], margin=float(gd["includemargin"])) + 4.0 * abs(dev_r)
  tol_sub = 1e-3 + (tol_dev - cc.CERT_BASE) + 4.0 * max(0.0, sub_r)
  c.nchecked += 2
  stats["C_certified"] += 1
  stats["max_dev"] = max(stats.get("max_dev", 0.0), abs(dev_w))
  stats["max_subopt"] = max(stats.get("max_subopt", 0.0), sub_w)
  zone = _zone(float(rd["dist"]), margin)
  if abs(dev_w) > tol_dev:
    c.fail(
      f"C:{name}:dist_inconsistent_with_normal:{zone}" + (":near_touch" if abs(float(gd["dist"])) <= 2e-4 and abs(float(gd["dist"]) - float(rd["dist"])) <= 2e-5 else ""),
      f"{tag}: MJWarp dist={float(gd['dist']):.6g} but separation along its normal {np.round(n_w, 5).tolist()} is {sep_w:.6g} "
      f"(|diff|={abs(dev_w):.3g} > {tol_dev:.3g}); MuJoCo dist={float(rd['dist']):.6g} n={np.round(n_r, 5).tolist()} sep={sep_r:.6g}; best sep found {best:.6g}",
    )
  elif sub_w > tol_sub:
    c.fail(
      f"C:{name}:normal_suboptimal:{zone}",
      f"{tag}: separation along MJWarp normal {np.round(n_w, 5).tolist()} is {sep_w:.6g}, {sub_w:.3g} below the best found {best:.6g} "
      f"(tolerance {tol_sub:.3g}; MuJoCo normal {np.round(n_r, 5).tolist()} gives {sep_r:.6g})",
    )
  # MuJoCo's distance is usable where MuJoCo passes its own certificate
  if abs(dev_r) <= cc.CERT_BASE and sub_r <= 1e-3:
    stats["C_dist_vs_mj"] += 1
    c.close(f"{tag}:deepest_dist", gd["dist"], rd["dist"], 0.0, vkey=f"C:{name}:deepest_dist:{zone}", atol=2e-4 + (tol_dev - cc.CERT_BASE))
  else:
    stats["mj_fails_own_certificate"] += 1


# --------------------------------------------------------------------------------------- pair scenes


def _pair(scn):
  import mujoco

  b = cs.build_pair(scn)
  if "outcome" in b:
    return dict(ok=True, nontrivial=False, key=util.sha(scn), **b)
  mjm, qs, cases, sA, n = b["mjm"], b["qs"], b["cases"], b["sA"], b["n"]
  margin, gap = scn["margin"], scn["gap"]
  try:
    m, d = cs.run_worlds(mjm, qs)
  except NotImplementedError as e:
    return dict(ok=True, nontrivial=False, outcome="unsupported", info=str(e)[:160], key=util.sha(scn))
  c = util.Cmp()
  stats = collections.Counter()
  t1, t2 = int(mjm.geom_type[0]), int(mjm.geom_type[1])
  cls, name = cc.pair_class(t1, t2), cc.pair_name(t1, t2)
  for w, (cname, dd) in enumerate(cases):
    mjd = util.mj_data(mjm, qpos=qs[w])
    mujoco.mj_kinematics(mjm, mjd)
    mujoco.mj_collision(mjm, mjd)
    if util.mj_warnings(mjd):
      stats["mj_warning"] += 1
      continue
    ref, got = util.mj_contacts(mjd), util.mjw_contacts(d, w)
    shapes = {0: sA, 1: sf.from_model(mjm, mjd, 1)}
    # margins as the engines combine them are read back from the reference contact; boundary uses geom sums
    compare_pair(c, cls, name, ref, got, shapes, margin, gap, f"{cname}(d={dd:+.4g})", stats, extra_normals=(n, -n))
  nontrivial = stats["with_contact"] > 0 and stats["empty"] > 0
  info = {k: (round(x, 7) if isinstance(x, float) else int(x)) for k, x in stats.items()}
  info.update(cls=cls, pair=name)
  return c.result(nontrivial=nontrivial, key=util.sha(scn), info=info, counts=dict(extra_evaluations=len(cases) - 1))


# --------------------------------------------------------------------------------------- hfield scenes

def _hfield(scn):
  import mujoco

  b = cs.build_hfield(scn)
  if "outcome" in b:
    return dict(ok=True, nontrivial=False, key=util.sha(scn), **b)
  mjm, qs, cases, up = b["mjm"], b["qs"], b["cases"], b["up"]
  margin, gap = scn["margin"], scn["gap"]
  try:
    m, d = cs.run_worlds(mjm, qs)
  except NotImplementedError as e:
    return dict(ok=True, nontrivial=False, outcome="unsupported", info=str(e)[:160], key=util.sha(scn))
  c = util.Cmp()
  stats = collections.Counter()
  name = cc.pair_name(int(mjm.geom_type[0]), int(mjm.geom_type[1]))
  for w, (cname, dd) in enumerate(cases):
    mjd = util.mj_data(mjm, qpos=qs[w])
    mujoco.mj_kinematics(mjm, mjd)
    mujoco.mj_collision(mjm, mjd)
    ref, got = util.mj_contacts(mjd), util.mjw_contacts(d, w)
    tag = f"{cname}(d={dd:+.4g})"
    if bool(ref) != bool(got):
      present = ref or got
      if all(abs(float(k["dist"]) - (margin + gap)) < 5e-5 for k in present):
        continue
      c.fail(f"presence:{'missing' if ref else 'extra'}:{name}:{_zone(dd, margin)}", f"{tag}: MuJoCo {len(ref)} contacts, MJWarp {len(got)}; dist={[round(float(k['dist']), 6) for k in present]}")
      continue
    if not ref:
      stats["empty"] += 1
      continue
    stats["with_contact"] += 1
    for k in got:
      compare_params(c, k, ref[0], tag)
      cc.frame_valid(c, k, tag, f"H:{name}")
    # prism-by-prism convex collisions; MJWarp keeps a subset of <= 4 of them (documented), MuJoCo up to 50:
    # every MJWarp contact must be one of MuJoCo's, and MuJoCo's deepest contact must be among MJWarp's.
    zone = _zone(min(float(k["dist"]) for k in ref), margin)
    c.true(f"{tag}:count", 1 <= len(got) <= max(4, len(ref)), f"MJWarp {len(got)} contacts, MuJoCo {len(ref)}", vkey=f"H:{name}:count")

    def close_to(a, b):
      return (
        abs(float(a["dist"]) - float(b["dist"])) <= 5e-4
        and np.linalg.norm(a["pos"] - b["pos"]) <= 1e-3
        and np.linalg.norm(np.asarray(a["frame"])[0] - np.asarray(b["frame"])[0]) <= 1e-2
      )

    for k in got:
      stats["H_matched"] += 1
      if not any(close_to(k, r) for r in ref):
        nk = np.asarray(k["frame"], np.float64)[0] * (1.0 if int(k["geom"][0]) == 0 else -1.0)
        kind = "contact_with_normal_into_terrain" if float(nk @ up) < -0.1 else "unmatched_contact"
        c.fail(
          f"H:{name}:{kind}:{zone}",
          f"{tag}: MJWarp contact dist={float(k['dist']):.5g} n={np.round(np.asarray(k['frame'])[0], 4).tolist()} pos={np.round(k['pos'], 4).tolist()} "
          f"matches none of MuJoCo's {len(ref)} contacts (dist {[round(float(r['dist']), 5) for r in ref]})",
        )
    rmin = min(float(r["dist"]) for r in ref)
    if not any(abs(float(k["dist"]) - rmin) <= 5e-4 for k in got):
      c.fail(f"H:{name}:deepest_missing:{zone}", f"{tag}: MuJoCo's deepest contact dist={rmin:.5g} not among MJWarp's (dist {[round(float(k['dist']), 5) for k in got]})")
  return c.result(
    nontrivial=stats["with_contact"] > 0 and stats["empty"] > 0,
    key=util.sha(scn),
    info={k: int(x) for k, x in stats.items()},
    counts=dict(extra_evaluations=len(cases) - 1),
  )


# --------------------------------------------------------------------------------------- parameter scenes

SOLMIX = (0.0, 0.5, 2.0)
CONDIM = (1, 3, 4, 6)
FRIC = [((0.8, 0.02, 0.003), (0.6, 0.05, 0.001)), ((0.3, 0.004, 0.0002), (1.2, 0.001, 0.004))]
SOLREF = {"p": ((0.02, 1.0), (0.035, 0.6)), "n": ((-900.0, -30.0), (-400.0, -11.0))}


def _param_xml(scn, sm, cd):
  g, (p1, p2), v = scn["geoms"], scn["prio"], scn["variant"]
  f1, f2 = FRIC[scn["fric"]]
  sr1 = SOLREF[scn["solref"][0]][0]
  sr2 = SOLREF[scn["solref"][1]][1]
  ov = scn["override"]

  def attrs(i, p, s, cdim, fr, sr):
    return (
      f'priority="{p}" solmix="{s}" condim="{cdim}" friction="{space.fmt(fr)}" solref="{space.fmt(sr)}" '
      f'solimp="{0.9 - 0.1 * i:.3g} {0.95 - 0.05 * i:.3g} {0.001 * (1 + i):.3g} {0.5 - 0.2 * i:.3g} {2 + i}" margin="{0.01 * (1 + i):.3g}" gap="{0.004 * i:.3g}"'
    )

  a1 = attrs(0, p1, sm[0], cd[0], f1, sr1)
  a2 = attrs(1, p2, sm[1], cd[1], f2, sr2)
  if g == "ss":
    far = ov == "pair_bigmargin"
    x2 = 0.5 if far else 0.17
    world = (
      f'<body name="b1" pos="0.1 -0.05 0.2"><joint type="slide" axis="1 0 0"/><geom name="g1" type="sphere" size="0.1" {a1}/></body>'
      f'<body name="b2" pos="{0.1 + x2:.4g} -0.02 0.26"><freejoint/><geom name="g2" type="sphere" size="0.1" {a2}/></body>'
    )
  else:
    z = 0.4 if ov == "pair_bigmargin" else 0.1
    world = (
      f'<geom name="g1" type="plane" size="1 1 0.1" pos="0 0 0.02" quat="0.9659258 0.0 0.1830127 -0.1830127" {a1}/>'
      f'<body name="b2" pos="0.05 0.03 {z}" quat="0.9238795 0.2209424 0.2209424 0.2209424"><freejoint/><geom name="g2" type="box" size="0.1 0.08 0.06" {a2}/></body>'
    )
  con = ""
  if ov in ("pair", "pair_bigmargin"):
    mgn = 1.0 if ov == "pair_bigmargin" else 0.03
    con = (
      f'<contact><pair geom1="g1" geom2="g2" condim="{CONDIM[(cd[0] + cd[1]) % 4]}" friction="0.9 0.8 0.03 0.004 0.005" '
      f'solref="0.031 0.7" solreffriction="0.04 0.9" solimp="0.8 0.9 0.002 0.4 3" margin="{mgn}" gap="0.01"/></contact>'
    )
  elif ov == "exclude":
    b1 = "b1" if g == "ss" else "world"
    con = f'<contact><exclude body1="{b1}" body2="b2"/></contact>'
  return f'<mujoco><option cone="{scn["cone"]}"/><worldbody>{world}</worldbody>{con}</mujoco>'


def _param(scn):
  import mujoco
  import mujoco_warp as mjw

  c = util.Cmp()
  stats = collections.Counter()
  sms = list(itertools.product(SOLMIX, repeat=2)) if scn["inner"] == "full" else [(0.5, 2.0)]
  cds = list(itertools.product(CONDIM, repeat=2))
  ov = scn["override"]
  kind = "explicit" if ov.startswith("pair") else "dynamic"
  for sm in sms:
    for cd in cds:
      xml = _param_xml(scn, sm, cd)
      mjm, err = util.try_load(xml)
      if mjm is None:
        stats["rejected"] += 1
        continue
      mjd = mujoco.MjData(mjm)
      mujoco.mj_kinematics(mjm, mjd)
      mujoco.mj_collision(mjm, mjd)
      ref = util.mj_contacts(mjd)
      try:
        m = mjw.put_model(mjm)
      except NotImplementedError:
        stats["unsupported"] += 1
        continue
      d = mjw.make_data(mjm, nworld=2, nconmax=32)
      mjw.kinematics(m, d)
      mjw.collision(m, d)
      stats["evals"] += 1
      tag = f"solmix={sm} condim={cd}"
      for w in (0, 1):
        got = util.mjw_contacts(d, w)
        if len(ref) != len(got):
          if ov == "pair_bigmargin" and ref and not got:
            c.fail(
              "pair_margin_gt_geom_margin:missing_contact",
              f"{tag} world{w}: explicit pair margin 1.0 > geom margins; MuJoCo {len(ref)} contact(s) at dist {float(ref[0]['dist']):.4g}, MJWarp 0",
            )
          else:
            c.fail(f"param:count:{kind}:{scn['geoms']}", f"{tag} world{w}: MuJoCo {len(ref)} contacts, MJWarp {len(got)}")
          continue
        if not ref:
          stats["empty"] += 1
          continue
        stats["with_contact"] += 1
        pairs = cc.match(ref, got)
        for i, j in pairs:
          compare_params(c, got[j], ref[i], f"{tag} world{w}", kind)
          c.close(f"{tag}:dist", got[j]["dist"], ref[i]["dist"], "f32", vkey="P:param_scene:dist", scale=1.0)
          c.close(f"{tag}:pos", got[j]["pos"], ref[i]["pos"], "f32", vkey="P:param_scene:pos")
          c.close(f"{tag}:normal", got[j]["frame"][0], ref[i]["frame"][0], "f32", vkey="P:param_scene:normal")
      if len(c.violations) >= 12:
        break
  if stats["rejected"] and not stats["evals"]:
    return dict(ok=True, nontrivial=False, outcome="rejected_by_compiler", key=util.sha(scn))
  nontrivial = stats["with_contact"] > 0 or (ov == "exclude" and stats["empty"] > 0)
  return c.result(
    nontrivial=nontrivial,
    key=util.sha(scn),
    info={k: int(x) for k, x in stats.items()},
    counts=dict(extra_evaluations=max(0, stats["evals"] - 1), extra_distinct=max(0, stats["evals"] - 1) if nontrivial else 0),
  )


def worker_init():
  from mc.refs import colwarm

  colwarm.warm_dispatch()


def execute(scn):
  if scn["fam"] == "pair":
    return _pair(scn)
  if scn["fam"] == "hfield":
    return _hfield(scn)
  return _param(scn)
