"""C01 Kinematics agree with MuJoCo C.

Space: every DFS-ordered kinematic tree with <=N bodies x every joint-kind assignment x 3 states
(incl. unnormalised quaternions, moved mocap), each body carrying a geom, site, camera and light
(tracking modes cycle over bodies); plus tendon families (fixed tendons over every subset of <=2
scalar joints, spatial tendons site-site / sphere wrap / cylinder wrap (+sidesite) / pulley), plus tendons that actively wrap a sphere or
cylinder carried by the middle body of a 3-body arm (4 wrap kinds x 4 joint layouts x 27 poses each).
Oracle: mj_kinematics + mj_comPos + mj_camlight + mj_tendon, class f32.
"""

import itertools

import numpy as np

from mc import space, util

ID = "C01"
LEVEL = "exploration"
RULE = (
  "enumerate all DFS-ordered trees with <=N bodies x all joint-kind assignments x decorations; each scenario evaluates 3 "
  "states through both entry points; non-trivial = model has >=1 dof and the compared poses differ from the qpos0 poses; "
  "distinct = canonical hash of (spec)"
)
BOUNDS = {"quick": "N<=3 bodies, tendon families on 3-body trees", "thorough": "N<=4 bodies, tendon families on 3-body trees"}
ASSUMPTIONS = [
  "MuJoCo C 3.13 (python bindings) is the reference; float32 vs float64 compared under class f32 (2e-5*(1+max|ref|))",
  "real values from curated alphabets (VERIF_SEED mod 4), structure exhaustive",
  "CPU backend only",
]
BUDGET = {"quick": 400, "thorough": 3000}

CAM_MODES = ("fixed", "track", "trackcom", "targetbody", "targetbodycom")


def _body_extra(n, off):
  def f(i):
    mode = CAM_MODES[(i + off) % 5] if n > 1 else CAM_MODES[(i + off) % 3]
    tgt = f' target="b{(i % n) + 1}"' if mode.startswith("target") else ""
    lm = CAM_MODES[(i + off + 2) % 5] if n > 1 else CAM_MODES[(i + off + 2) % 3]
    ltgt = f' target="b{((i + 1) % n) + 1}"' if lm.startswith("target") else ""
    if ltgt and ((i + 1) % n) + 1 == i:
      lm, ltgt = "track", ""
    if tgt and (i % n) + 1 == i:
      mode, tgt = "trackcom", ""
    return (
      f'<camera name="c{i}" mode="{mode}"{tgt} pos="0.1 -0.2 0.15" quat="0.8 0.36 -0.48 0"/>'
      f'<light name="l{i}" mode="{lm}"{ltgt} pos="-0.1 0.05 0.3" dir="0.36 0.48 -0.8"/>'
    )

  return f


def scenarios(tier, seed):
  n = 3 if tier == "quick" else 4
  variant = seed % 4
  out = []
  for ti, parents in enumerate(space.trees_upto(n)):
    for joints in space.joint_assignments(parents):
      out.append(dict(fam="tree", parents=list(parents), joints=list(joints), variant=variant, off=ti))
  # tendon families on all 3-body trees with scalar joints
  for parents in space.trees(3):
    for joints in itertools.product(("hinge", "slide"), ("hinge", "slide", "ball"), ("hinge", "hingeslide")):
      for kind in ("fixed1", "fixed2", "spatial", "sphere", "cylinder", "cylinder_side", "pulley"):
        out.append(dict(fam="tendon", parents=list(parents), joints=list(joints), variant=variant, tendon=kind))
  # spatial tendons that really wrap around a geom carried by a MOVING body (arm of three bodies, wrap geom on the middle one)
  for wrap in WRAPS:
    for arm in ARMS:
      out.append(dict(fam="wrapmove", wrap=wrap, arm=arm, variant=variant))
  return out


WRAPS = ("sphere", "sphere_side", "cylinder", "cylinder_side")
ARMS = ("hhh", "hbh", "shh", "free")  # joint of body 1 / 2 / 3: hinge, ball, slide; "free": floating base + two hinges
WRAP_GRID = (-0.5, 0.0, 0.45)


def _wrapmove_xml(scn):
  v = scn["variant"]
  r = (0.08, 0.07, 0.09, 0.075)[v]
  side = '<site name="side" pos="0 0 0.3" size="0.01"/>' if scn["wrap"].endswith("_side") else ""
  if scn["wrap"].startswith("sphere"):
    wg = f'<geom name="wrapg" type="sphere" size="{r}" pos="0.02 0.01 0" contype="0" conaffinity="0"/>'
  else:
    wg = f'<geom name="wrapg" type="cylinder" size="{r} 0.3" pos="0.02 0 0" quat="0.7071068 0.7071068 0 0" contype="0" conaffinity="0"/>'
  j = {
    "hhh": ('<joint name="j1" type="hinge" axis="0 1 0"/>', '<joint name="j2" type="hinge" axis="1 0 0"/>', '<joint name="j3" type="hinge" axis="0 1 0"/>'),
    "hbh": ('<joint name="j1" type="hinge" axis="0 1 0"/>', '<joint name="j2" type="ball"/>', '<joint name="j3" type="hinge" axis="0 1 0"/>'),
    "shh": ('<joint name="j1" type="slide" axis="0 0.6 0.8"/>', '<joint name="j2" type="hinge" axis="0.6 0 0.8"/>', '<joint name="j3" type="hinge" axis="0 1 0"/>'),
    "free": ('<freejoint name="j1"/>', '<joint name="j2" type="hinge" axis="1 0 0"/>', '<joint name="j3" type="hinge" axis="0 1 0"/>'),
  }[scn["arm"]]
  sidesite = ' sidesite="side"' if side else ""
  return f"""<mujoco><worldbody>
  <body name="b1" pos="0 0 1">{j[0]}<geom size="0.03" contype="0" conaffinity="0"/><site name="sA" pos="0.05 0 0.05" size="0.01"/>
    <body name="b2" pos="0.3 0 0">{j[1]}<geom size="0.03" pos="0 0.2 0" contype="0" conaffinity="0"/>{wg}{side}
      <body name="b3" pos="0.3 0 0">{j[2]}<geom size="0.03" contype="0" conaffinity="0"/><site name="sB" pos="0.1 0 0.03" size="0.01"/></body></body></body>
  </worldbody><tendon><spatial name="tw"><site site="sA"/><geom geom="wrapg"{sidesite}/><site site="sB"/></spatial></tendon></mujoco>"""


def _wrapmove(scn):
  import mujoco
  import mujoco_warp as mjw

  mjm = util.load(_wrapmove_xml(scn))
  m = mjw.put_model(mjm)
  d = mjw.make_data(mjm, nworld=2)
  c = util.Cmp()
  states = []
  for a in itertools.product(WRAP_GRID, repeat=3):
    q = np.array(mjm.qpos0)
    if scn["arm"] == "hbh":
      q[0], q[5] = a[0], a[2]
      ax = np.array([0.6, 0.0, 0.8]) * np.sin(a[1] / 2)
      q[1:5] = [np.cos(a[1] / 2), *ax]
    elif scn["arm"] == "free":
      q[0:3] += [0.1 * a[0], -0.05, 0.2 * a[0]]
      q[3:7] = [np.cos(a[0] / 2), 0.0, np.sin(a[0] / 2), 0.0]
      q[7], q[8] = a[1], a[2]
    else:
      q[:3] = [0.2 * a[0] if scn["arm"] == "shh" else a[0], a[1], a[2]]
    states.append(q)
  wrapped = 0
  for k, q in enumerate(states):
    mjd = util.mj_data(mjm, qpos=q)
    mujoco.mj_kinematics(mjm, mjd)
    mujoco.mj_comPos(mjm, mjd)
    mujoco.mj_tendon(mjm, mjd)
    util.copy_state(mjd, d)
    util.copy_state(util.mj_data(mjm, qpos=states[(k + 1) % len(states)]), d, world=1)
    mjw.kinematics(m, d)
    mjw.com_pos(m, d)
    mjw.tendon(m, d)
    active = bool(mjd.ten_wrapnum[0] == 4)  # site, two tangent points on the geom, site
    wrapped += active
    pre = f"state{k}:"
    c.close(pre + "ten_length", d.ten_length.numpy()[0], mjd.ten_length, "f32", vkey="ten_length")
    c.equal(pre + "ten_wrapnum", d.ten_wrapnum.numpy()[0], mjd.ten_wrapnum, vkey="ten_wrapnum")
    n = int(mjd.ten_wrapnum[0])
    c.close(pre + "wrap_xpos", d.wrap_xpos.numpy()[0].reshape(-1)[: 3 * n], np.asarray(mjd.wrap_xpos).reshape(-1)[: 3 * n], "f32", vkey="wrap_xpos")
    Jm = np.zeros((1, mjm.nv))
    a0, kk = mjm.ten_J_rowadr[0], mjm.ten_J_rownnz[0]
    if np.asarray(mjd.ten_J).size != mjm.nv or mujoco.mj_isSparse(mjm):
      Jm[0, mjm.ten_J_colind[a0 : a0 + kk]] = mjd.ten_J[a0 : a0 + kk]
    else:
      Jm[:] = np.array(mjd.ten_J).reshape(1, mjm.nv)
    Jw = _ten_J_dense(m, d, 0)
    if Jw is not None:
      c.close(pre + "ten_J", Jw, Jm, "f32", vkey="ten_J")
  return c.result(nontrivial=wrapped > 0, key=util.sha(scn), info=dict(states=len(states), wrapped=wrapped), counts=dict(extra_evaluations=len(states) - 1))


def _tendon_sections(kind, joints):
  scal = []
  for i, k in enumerate(joints, 1):
    if k in ("hinge", "slide"):
      scal.append(f"j{i}")
    elif k == "hingeslide":
      scal += [f"j{i}", f"j{i}b"]
  world = ""
  if kind == "fixed1":
    t = "".join(f'<fixed name="t{a}"><joint joint="{j}" coef="{1.5 - 0.7 * a:.3g}"/></fixed>' for a, j in enumerate(scal))
  elif kind == "fixed2":
    t = "".join(
      f'<fixed name="t{a}"><joint joint="{j1}" coef="0.8"/><joint joint="{j2}" coef="-1.7"/></fixed>'
      for a, (j1, j2) in enumerate(itertools.combinations(scal, 2))
    )
  elif kind == "spatial":
    t = "".join(
      f'<spatial name="t{a}{b}"><site site="s{a}"/><site site="s{b}"/></spatial>' for a, b in itertools.combinations((1, 2, 3), 2)
    )
    t += '<spatial name="t123"><site site="s1"/><site site="s2"/><site site="s3"/></spatial>'
  elif kind == "sphere":
    world = '<geom name="wrapg" type="sphere" size="0.12" pos="0.25 0.1 0.3" contype="0" conaffinity="0"/>'
    t = '<spatial name="tw"><site site="s1"/><geom geom="wrapg"/><site site="s3"/></spatial>'
    t += '<spatial name="tw2"><site site="s2"/><geom geom="g1"/><site site="s3"/></spatial>'
  elif kind == "cylinder":
    world = '<geom name="wrapg" type="cylinder" size="0.1 0.4" pos="0.3 0.05 0.35" quat="0.8 0.36 -0.48 0" contype="0" conaffinity="0"/>'
    t = '<spatial name="tw"><site site="s1"/><geom geom="wrapg"/><site site="s3"/></spatial>'
  elif kind == "cylinder_side":
    world = (
      '<geom name="wrapg" type="cylinder" size="0.1 0.4" pos="0.3 0.05 0.35" quat="0.8 0.36 -0.48 0" contype="0" conaffinity="0"/>'
      '<site name="side" pos="0.3 0.3 0.5" size="0.01"/>'
    )
    t = '<spatial name="tw"><site site="s1"/><geom geom="wrapg" sidesite="side"/><site site="s3"/></spatial>'
  elif kind == "pulley":
    t = (
      '<spatial name="tp"><site site="s1"/><site site="s2"/><pulley divisor="2"/><site site="s2"/><site site="s3"/>'
      '<pulley divisor="3"/><site site="s1"/><site site="s3"/></spatial>'
    )
  return world, f"<tendon>{t}</tendon>"


def build_xml(scn):
  parents, joints, v = scn["parents"], scn["joints"], scn["variant"]
  if scn["fam"] == "tree":
    return space.tree_xml(parents, joints, variant=v, body_extra=_body_extra(len(parents), scn.get("off", 0)))
  world, sec = _tendon_sections(scn["tendon"], joints)
  return space.tree_xml(parents, joints, variant=v, world_extra=world, sections=sec)


def _quat_close(c, name, got, want):
  got, want = np.asarray(got, np.float64), np.asarray(want, np.float64)
  sgn = np.sign(np.sum(got * want, axis=-1, keepdims=True))
  sgn[sgn == 0] = 1
  c.close(name, got * sgn, want, "f32")


FIELDS = (
  "xpos xmat xipos ximat xanchor xaxis geom_xpos geom_xmat site_xpos site_xmat cam_xpos cam_xmat "
  "light_xpos light_xdir subtree_com cdof cinert ten_length"
).split()


def execute(scn):
  import mujoco
  import mujoco_warp as mjw

  if scn["fam"] == "wrapmove":
    return _wrapmove(scn)
  xml = build_xml(scn)
  mjm, err = util.try_load(xml)
  if mjm is None:
    return dict(ok=True, nontrivial=False, outcome="rejected_by_compiler", info=err)
  c = util.Cmp()
  m = mjw.put_model(mjm)
  d = mjw.make_data(mjm, nworld=2)
  d0 = mujoco.MjData(mjm)
  mujoco.mj_kinematics(mjm, d0)
  moved = False
  for which in (0, 1, 2):
    qpos, qvel = space.state_grid(scn["joints"], scn["variant"], which)
    if which == 0:
      qpos = list(mjm.qpos0)
    mjd = util.mj_data(mjm, qpos=qpos)
    if mjm.nmocap and which:
      mjd.mocap_pos[:] = np.array([[0.2 * which, -0.1, 0.3]] * mjm.nmocap)
      mjd.mocap_quat[:] = np.array([space.QPOS_QUAT[scn["variant"]][which]] * mjm.nmocap)
    mujoco.mj_kinematics(mjm, mjd)
    mujoco.mj_comPos(mjm, mjd)
    mujoco.mj_camlight(mjm, mjd)
    mujoco.mj_tendon(mjm, mjd)
    if util.mj_warnings(mjd):
      continue
    # world 0: the state; world 1: a different state (batch rows must not mix)
    util.copy_state(mjd, d)
    other = util.mj_data(mjm, qpos=space.state_grid(scn["joints"], scn["variant"], (which + 1) % 3)[0] if which != 2 else list(mjm.qpos0))
    util.copy_state(other, d, world=1)
    if which % 2 == 0:
      mjw.kinematics(m, d)
      mjw.com_pos(m, d)
      mjw.camlight(m, d)
      mjw.tendon(m, d)
    else:
      mjw.fwd_kinematics(m, d)
    pre = f"state{which}:"
    for f in FIELDS:
      want = getattr(mjd, f)
      if want.size == 0:
        continue
      got = getattr(d, f).numpy()[0]
      c.close(pre + f, got.reshape(want.shape) if got.size == want.size else got, want, "f32", vkey=f)
    _quat_close(c, pre + "xquat", d.xquat.numpy()[0], mjd.xquat)
    if mjm.ntendon:
      # tendon Jacobian (dense vs MuJoCo, whichever storage MuJoCo uses)
      nv = mjm.nv
      Jm = np.zeros((mjm.ntendon, nv))
      if np.asarray(mjd.ten_J).size != mjm.ntendon * nv or mujoco.mj_isSparse(mjm):
        for t in range(mjm.ntendon):
          a, k = mjm.ten_J_rowadr[t], mjm.ten_J_rownnz[t]
          Jm[t, mjm.ten_J_colind[a : a + k]] = mjd.ten_J[a : a + k]
      else:
        Jm[:] = np.array(mjd.ten_J).reshape(mjm.ntendon, nv)
      Jw = _ten_J_dense(m, d, 0)
      if Jw is not None:
        c.close(pre + "ten_J", Jw, Jm, "f32", vkey="ten_J")
      c.equal(pre + "ten_wrapnum", d.ten_wrapnum.numpy()[0], mjd.ten_wrapnum, vkey="ten_wrapnum")
    if which and not np.allclose(mjd.xpos, d0.xpos):
      moved = True
  return c.result(nontrivial=moved and mjm.nv > 0, key=util.sha(scn), info=dict(nv=int(mjm.nv), nbody=int(mjm.nbody), checked=c.nchecked))


def _ten_J_dense(m, d, w):
  J = d.ten_J.numpy()[w]
  nt, nv = m.ntendon, m.nv
  # static CSR structure lives on the model
  try:
    rownnz = m.ten_J_rownnz.numpy()
    rowadr = m.ten_J_rowadr.numpy()
    colind = m.ten_J_colind.numpy()
  except AttributeError:
    return None
  out = np.zeros((nt, nv))
  for t in range(nt):
    a, k = int(rowadr[t]), int(rownnz[t])
    out[t, colind[a : a + k]] = J[a : a + k]
  return out
