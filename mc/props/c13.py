"""C13 reset_data restores a fresh Data.

Explicit enumeration of histories on live Data objects (nworld=3): for every model variant, every op sequence up to
depth d, and every reset mask (None + all 2^3 masks), the history is applied, reset_data(mask) is called, and
 * every selected world must equal the same world of a never-used Data from make_data: integration state (incl.
   activations and delay buffers) bit for bit, no contacts reported, and the next K steps bit-identical;
 * every unselected world must equal the same world of a twin Data that ran the same history without the reset:
   state, reported contacts, and the next K steps;
 * MuJoCo-defined fields of selected worlds equal mj_resetData's;
 * the sticky overflow word of selected worlds is cleared and that of unselected worlds kept (model `rich_tight` runs with
   capacities that overflow, so the word is non-zero before the reset).
"""

import itertools

import numpy as np

from mc import hist, scenes, snap, util

ID = "C13"
LEVEL = "model_checking"
RULE = (
  "model variants x all op sequences of length <= d x all reset masks (None and each of the 2^3 boolean masks); state = integration "
  "state of all worlds after the history (hash), transition = one API operation; every trace is validated against the implementation "
  "twice (fresh-Data twin for selected worlds, no-reset twin for unselected worlds) and against mj_resetData"
)
BOUNDS = {
  "quick": "5 model variants, depth<=2 (rich, delay) / <=1 (others) over 6 ops, all 9 masks, K=3 follow-up steps, nworld=3",
  "thorough": "5 model variants, depth<=3, 9 masks, K=4, poison 0xFF on the dirty Data",
}
ASSUMPTIONS = [
  "bit identity between Data objects of the same model and capacities",
  "a fresh Data is the result of make_data(mjm, nworld=3)",
  "follow-up steps use a fixed per-world control sequence applied identically to both Data objects",
]
BUDGET = {"quick": 500, "thorough": 3400}
NW = 3
MASKS = [None] + [list(m) for m in itertools.product([False, True], repeat=NW)]

USER_XML = """<mujoco><option timestep="0.004"/><worldbody>
  <body pos="0 0 0.5"><joint name="h" type="hinge" axis="0 1 0" damping="0.1"/><geom type="capsule" fromto="0 0 0 0.3 0 0" size="0.03"/></body>
  <body pos="0 0.5 0.5"><joint name="s" type="slide" axis="0 0 1" damping="0.2"/><geom size="0.05"/></body></worldbody>
  <actuator><general name="u" joint="h" dyntype="user" actdim="3" gainprm="1"/><general name="f" joint="s" dyntype="filter" dynprm="0.05"/></actuator>
</mujoco>"""

MOCAP_XML = """<mujoco><option timestep="0.004"/><size nuserdata="3"/><worldbody>
  <geom type="plane" size="3 3 .1"/>
  <body name="mc" mocap="true" pos="0.3 0 0.6"><geom size="0.03" contype="0" conaffinity="0"/></body>
  <body name="p" pos="0 0 0.5"><freejoint/><geom type="box" size="0.08 0.08 0.08"/></body>
  <body name="q" pos="0.5 0 0.079"><freejoint/><geom type="box" size="0.08 0.08 0.08"/></body></worldbody>
  <equality><weld name="w0" body1="mc" body2="p" solref="0.05 1" active="false"/><connect name="c1" body1="p" body2="q" anchor="0.2 0 0" solref="0.05 1"/></equality>
  <actuator><motor joint="" body="" /></actuator>
</mujoco>""".replace('<actuator><motor joint="" body="" /></actuator>', "")

DELAY_XML = """<mujoco><option timestep="0.004"/><worldbody>
  <body pos="0 0 0.5"><joint name="h" type="hinge" axis="0 1 0" damping="0.1"/><geom type="capsule" fromto="0 0 0 0.3 0 0" size="0.03"/><site name="s0" pos="0.3 0 0"/></body>
  <body pos="0 0.5 0.5"><joint name="s" type="slide" axis="0 0 1" damping="0.2"/><geom size="0.05"/></body></worldbody>
  <actuator><motor name="m" joint="h" delay="0.01" nsample="4"/><position name="p" joint="s" kp="5" delay="0.006" nsample="3" interp="linear"/></actuator>
  <sensor><jointpos joint="h" delay="0.008" nsample="3"/><framepos objtype="site" objname="s0" interval="0.012" nsample="2"/><jointvel joint="s"/></sensor>
</mujoco>"""

MODELS = {
  "rich": lambda: scenes.rich(),
  "rich_tight": lambda: scenes.rich(),  # same model, capacities below the need: every history step records overflow bits
  "user_act": lambda: USER_XML,
  "delay": lambda: DELAY_XML,
  "mocap_eq": lambda: MOCAP_XML,
  "rich_sleep": lambda: scenes.rich(sleep=True),
}


def _op_step_ctrl(vals):
  def f(ctx):
    import mujoco_warp as mjw

    if ctx.mjm.nu:
      v = np.array([[vals[(w + i) % len(vals)] for i in range(ctx.mjm.nu)] for w in range(ctx.d.nworld)], dtype=np.float32)
      util.set_field(ctx.d.ctrl, v)
    mjw.step(ctx.m, ctx.d)

  return f


def _op_dirty_inputs(ctx):
  """Touch every user-settable input that exists in the model."""
  d, mjm = ctx.d, ctx.mjm
  nw = d.nworld
  x = d.xfrc_applied.numpy()
  x[:, -1, :] = [0.3, -0.2, 0.5, 0.01, 0.02, -0.01]
  util.set_field(d.xfrc_applied, x)
  util.set_field(d.qfrc_applied, np.tile(0.05 * np.cos(np.arange(mjm.nv)), (nw, 1)).astype(np.float32))
  if mjm.neq:
    e = d.eq_active.numpy()
    util.set_field(d.eq_active, ~e)
  if mjm.nmocap:
    util.set_field(d.mocap_pos, d.mocap_pos.numpy() + np.float32(0.07))
    q = d.mocap_quat.numpy()
    q[...] = [0.6, 0.8, 0.0, 0.0]
    util.set_field(d.mocap_quat, q)
  if mjm.nuserdata:
    util.set_field(d.userdata, np.full((nw, mjm.nuserdata), 3.5, np.float32))
  if mjm.na:
    a = d.act.numpy()
    a[...] = 0.3 + 0.1 * np.arange(mjm.na)
    util.set_field(d.act, a)


def _op_kick(ctx):
  v = ctx.d.qvel.numpy()
  v += np.float32(0.4) * np.cos(np.arange(v.shape[1]) + np.arange(v.shape[0])[:, None]).astype(np.float32)
  util.set_field(ctx.d.qvel, v)


OPS = {
  "step_a": _op_step_ctrl((0.8, -0.6, 0.3)),
  "step_b": _op_step_ctrl((-1.2, 0.2, 0.9)),
  "dirty_inputs": _op_dirty_inputs,
  "kick": _op_kick,
  "forward": hist.op_forward,
  "step3": lambda ctx: [_op_step_ctrl((0.5, 0.1, -0.7))(ctx) for _ in range(3)],
}
ALPHABET = list(OPS)


def scenarios(tier, seed):
  out = []
  for model in MODELS:
    # reset_data re-instantiates its module="unique" kernels on every call (~1 s each): quick keeps depth 2 for two models
    depth = (2 if model in ("rich", "delay") else 1) if tier == "quick" else 3
    if model == "rich_tight" and tier == "quick":
      depth = 1
    for first in ALPHABET:
      for mi in range(len(MASKS)):
        out.append(dict(model=model, first=first, mask=mi, depth=depth, k=3 if tier == "quick" else 4, poison=None if tier == "quick" else 0xFF))
  return out


_M = {}


CAPS = {"rich_tight": dict(naconmax=9, njmax=40)}


def _model(name):
  import mujoco_warp as mjw

  if name not in _M:
    mjm = util.load(MODELS[name]())
    m = mjw.put_model(mjm)
    m.opt.warn_overflow = False
    _M[name] = (mjm, m)
  return _M[name]


def _follow(mjm, m, d, k):
  import mujoco_warp as mjw

  for i in range(k):
    if mjm.nu:
      v = np.array([[0.3 * np.sin(1.0 + i + 0.7 * w + j) for j in range(mjm.nu)] for w in range(d.nworld)], dtype=np.float32)
      util.set_field(d.ctrl, v)
    mjw.step(m, d)


def _state_fields(d):
  return {f: getattr(d, f).numpy().copy() for f in snap.STATE_FIELDS if getattr(d, f, None) is not None}


def execute(scn):
  import mujoco
  import warp as wp

  import mujoco_warp as mjw
  from mc import world

  mjm, m = _model(scn["model"])
  c = util.Cmp()
  sleep = scn["model"].endswith("sleep")
  counts = dict(transitions=0, traces_validated_against_impl=0, extra_evaluations=0)
  seen = set()
  hs = hist.histories(ALPHABET, scn["depth"], first=scn["first"])
  # reference: never-used Data and its K follow-up steps
  caps = CAPS.get(scn["model"], {})
  fresh = mjw.make_data(mjm, nworld=NW, **caps)
  fresh_overflow = fresh.overflow.numpy().copy()
  fresh_state = hist.get_integration_state(mjm, m, fresh)
  fresh_fields = _state_fields(fresh)
  _follow(mjm, m, fresh, scn["k"])
  fresh_after = snap.take(m, fresh, sleep=sleep)
  # MuJoCo reference for the state after reset
  mjd = mujoco.MjData(mjm)
  mujoco.mj_resetData(mjm, mjd)

  def run(h, mask, do_reset):
    world.set_poison(scn["poison"])
    d = mjw.make_data(mjm, nworld=NW, **caps)
    ctx = hist.Ctx(mjm, m, d)
    for op in h:
      OPS[op](ctx)
    world.set_poison(None)
    if do_reset:
      if mask is None:
        mjw.reset_data(m, d)
      else:
        mjw.reset_data(m, d, reset=wp.array(np.array(mask, dtype=bool), dtype=bool))
    return d

  for h in hs:
    counts["transitions"] += len(h)
    twin = run(h, None, False)
    twin_state = hist.get_integration_state(mjm, m, twin)
    seen.add(util.np_digest(twin_state))
    twin_contacts = [util.mjw_contacts(twin, w) for w in range(NW)]
    twin_overflow = twin.overflow.numpy().copy()
    _follow(mjm, m, twin, scn["k"])
    twin_after = snap.take(m, twin, sleep=sleep)
    for mask in [MASKS[scn["mask"]]]:
      d = run(h, mask, True)
      counts["transitions"] += 1
      counts["traces_validated_against_impl"] += 1
      sel = [True] * NW if mask is None else mask
      tag = f"history {h} mask {mask}: "
      st = hist.get_integration_state(mjm, m, d)
      fields = _state_fields(d)
      cons = [util.mjw_contacts(d, w) for w in range(NW)]
      ovf = d.overflow.numpy().copy()
      nv0 = len(c.violations)
      for w in range(NW):
        # the overflow flags are part of what a user observes: a reset world reports none, an untouched world keeps its own
        if sel[w]:
          c.equal(f"{tag}world {w} (selected) overflow flags vs fresh", ovf[w], fresh_overflow[w], vkey="selected:overflow")
        else:
          c.equal(f"{tag}world {w} (unselected) overflow flags vs no-reset twin", ovf[w], twin_overflow[w], vkey="unselected:overflow")
      for w in range(NW):
        if sel[w]:
          c.bits(f"{tag}world {w} (selected) integration state vs fresh", st[w], fresh_state[w], vkey="selected:state_vector")
          for f, a in fields.items():
            c.bits(f"{tag}world {w} (selected) {f} vs fresh", a[w], fresh_fields[f][w], vkey=f"selected:{f}")
          c.true(f"{tag}world {w} (selected) contacts", len(cons[w]) == 0, f"{len(cons[w])} contacts still reported for a reset world", vkey="selected:contacts_reported")
          # MuJoCo parity for MuJoCo-defined fields
          for f in ("qpos", "qvel", "act", "ctrl", "history", "mocap_pos", "mocap_quat", "userdata", "qacc_warmstart"):
            ref = np.asarray(getattr(mjd, f)).reshape(-1)
            if ref.size:
              c.close(f"{tag}world {w} {f} vs mj_resetData", fields[f][w].reshape(-1), ref, "f32", vkey=f"mj_resetData:{f}")
        else:
          c.bits(f"{tag}world {w} (unselected) integration state vs no-reset twin", st[w], twin_state[w], vkey="unselected:state_vector")
          a, b = cons[w], twin_contacts[w]
          if len(a) != len(b):
            nacon = int(d.nacon.numpy()[0])
            blank = [x for x in a if int(x["dim"]) == 0 and float(x["dist"]) == 0.0 and not np.any(x["frame"])]
            if w == 0 and not sel[0] and len(a) - len(blank) == len(b):
              kind = "blank_contacts_of_reset_worlds_relabelled_world0"
            elif sel[0] and nacon == 0 and len(a) == 0:
              kind = "nacon_zeroed_because_world0_selected"
            else:
              kind = "other"
            c.fail(f"unselected:contacts_count:{kind}", f"{tag}world {w} (unselected) reports {len(a)} contacts, twin without reset {len(b)} (nacon={nacon})")
          else:
            for x, y in zip(snap._canon_contacts(a), snap._canon_contacts(b)):
              for f in ("dist", "pos", "frame", "geom", "dim"):
                c.bits(f"{tag}world {w} (unselected) contact.{f}", np.asarray(x[f]), np.asarray(y[f]), vkey=f"unselected:contact.{f}")
      _follow(mjm, m, d, scn["k"])
      after = snap.take(m, d, sleep=sleep)
      for w in range(NW):
        if caps:
          break  # capacities below the need: the follow-up steps overflow, their result is not defined (C16); the flags above are
        ref = fresh_after if sel[w] else twin_after
        side = "selected" if sel[w] else "unselected"
        cc = util.Cmp()
        snap.compare_exact(cc, snap.world_slice(after, w), snap.world_slice(ref, w), pre=f"{tag}world {w} ({side}) after {scn['k']} steps: ")
        for v in cc.violations[:3]:
          v["vkey"] = f"{side}:trajectory:{v['vkey']}"
          c.violations.append(v)
      for v in c.violations[nv0:]:
        v.setdefault("history", h)
        v.setdefault("mask", mask)
        v["vkey"] = f"{scn['model']}:{v['vkey']}"
      if len(c.violations) > 40:
        break
    if len(c.violations) > 40:
      break
  # keep one representative per vkey (simplest history first)
  uniq = {}
  for v in c.violations:
    uniq.setdefault(v["vkey"], v)
  c.violations = list(uniq.values())
  counts["states"] = len(seen)
  counts["extra_evaluations"] = len(hs) - 1
  counts["extra_distinct"] = max(0, len(seen) - 1)
  return c.result(nontrivial=True, key=util.sha(scn), counts=counts, info=dict(histories=len(hs), masks=len(MASKS)))
