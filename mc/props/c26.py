"""C26 Forward and inverse dynamics are consistent.

Space: every DFS-ordered tree with <=N bodies x joint-kind assignment x constraint set
  {none, limit (joint ranges violated by the state), equality (connect to the world + joint equality), contact (bodies
   resting in a plane, pyramidal), contact_elliptic, all}
  x integrator {Euler (with implicit damping), implicitfast} x INVDISCRETE {off, on};
  every model carries armature, linear+polynomial damping on every joint, velocity-dependent actuators (affine bias, affine gain,
  filter dynamics), non-zero ctrl/act, qfrc_applied and xfrc_applied; two states as a 2-world batch.
  Damping-specification family (constraint set none, same integrators x INVDISCRETE): the damping of every joint and of every
  tendon is drawn independently from the alphabet {none, linear only, polynomial only, linear+polynomial}
    A  one body: dof-carrying joint kinds x joint spec x spec of one spatial tendon (world -> body),
    B  two bodies, both trees, kinds {hinge, slide, ball}^2 (thorough: all dof-carrying kinds): spec of joint 1 x spec of joint 2,
    C  two bodies, both trees, kinds {hinge, ball}^2, joint specs (polynomial, linear), two spatial tendons (world -> b1,
       b1 -> b2): spec of tendon 1 x spec of tendon 2;
  four states as a 4-world batch: the two grid states and the same two with qvel negated (velocities of both signs on every dof).
Procedure
  INVDISCRETE off: forward(); inverse() on the same Data.
  INVDISCRETE on : step() on Data A gives qvel'; on Data B (same state) forward(), then qacc := (qvel' - qvel)/h, inverse().
Oracle: qfrc_inverse == qfrc_applied + J^T xfrc_applied (MuJoCo mj_applyFT, float64) + qfrc_actuator, within
  f32dyn * (1 + largest force term) + 2 * |forward solver residual| + one float32 ulp of the summed constraint-row magnitudes,
  where the residual M qacc - qfrc_smooth - qfrc_constraint
  is measured on MJWarp's own forward result; inverse() must leave qacc untouched; qfrc_constraint of inverse == forward.
"""

import numpy as np

from mc import space, util
from mc.props import c02 as _c02
from mc.props import c27 as _c27

ID = "C26"
LEVEL = "exploration"
RULE = (
  "enumerate trees(<=N) x joint kinds x constraint sets x {Euler, implicitfast} x INVDISCRETE {off,on}; each scenario runs the "
  "forward/inverse round trip on two states (2-world batch); non-trivial = nv>0, the expected force is non-zero, the requested "
  "constraint kinds are active (nefc>0 / ncon>0) in at least one world, and for INVDISCRETE the discrete acceleration differs from "
  "the continuous one; distinct = canonical hash of the spec. Damping family: (A) 1 body x dof kinds x joint damping spec x "
  "tendon damping spec, (B) 2 bodies x trees x kinds x joint spec^2, (C) 2 bodies x trees x tendon spec^2, specs from {none, "
  "linear, polynomial, linear+polynomial}, x integrators x INVDISCRETE, 4-world batch = 2 grid states x qvel sign {+,-}"
)
BOUNDS = {
  "quick": "N<=2: all joint kinds x 6 constraint sets; N=3: kinds {weld,hinge,slide,ball,free} x {none, all}; x 2 integrators x INVDISCRETE off/on; "
  "damping family A: 5 dof kinds x 4 x 4, B: 2 trees x {hinge,slide,ball}^2 x 4^2, C: 2 trees x {hinge,ball}^2 x 4^2 tendon specs",
  "thorough": "N<=3: all joint kinds x 6 constraint sets x 2 integrators x INVDISCRETE off/on; damping family A: 5 dof kinds x 4 x 4, "
  "B: 2 trees x all dof kinds x 4^2, C: 2 trees x {hinge,ball}^2 x 4^2 tendon specs",
}
ASSUMPTIONS = [
  "self-consistency of MJWarp (forward vs inverse); MuJoCo is used only for J^T xfrc_applied (mj_applyFT, float64)",
  "tolerance f32dyn*(1+max force term) + 2*|measured forward solver residual| + 1.2e-7*max(|J|^T D (|J||qacc|+|aref|)) (float32 "
  "evaluation error of the constraint force when row forces cancel); scenarios whose forward solve did not converge "
  "(residual > 1e-3 of the force scale) are counted as outcome solver_unconverged and are not non-trivial (C06 judges the solver)",
  "INVDISCRETE is enumerated for Euler and implicitfast only (discrete_acc raises NotImplementedError for RK4/implicit by design)",
  "Newton solver, default tolerance; pyramidal and elliptic cones",
  "real values from curated alphabets (VERIF_SEED mod 4), structure exhaustive",
  "CPU backend only",
]
BUDGET = {"quick": 400, "thorough": 3000}

CONS = ("none", "limit", "equality", "contact", "contact_elliptic", "all")
_REDUCED = ("weld", "hinge", "slide", "ball", "free")
H = 0.01


DAMP_SPECS = ("none", "lin", "poly", "linpoly")
_DOF_KINDS = ("hinge", "slide", "ball", "free", "hingeslide")
# the two grid states, then the same with qvel negated: every dof sees velocities of both signs
_STATES4 = [[1, 1], [2, 1], [1, -1], [2, -1]]


def _damping_family(tier):
  """Specs (without integrator / INVDISCRETE) of the damping-specification family, see the module docstring."""
  out = []
  specs = DAMP_SPECS
  # A: one body, one spatial tendon
  for k in _DOF_KINDS:
    for jd in specs:
      for td in specs:
        out.append(dict(parents=[0], joints=[k], jdamp=[jd], tdamp=[td]))
  trees2 = [list(p) for p in space.trees(2)]
  # B: two bodies, no tendon, joint spec x joint spec
  kinds_b = ("hinge", "slide", "ball") if tier == "quick" else _DOF_KINDS
  for parents in trees2:
    for joints in space.joint_assignments(parents, kinds=kinds_b):
      for jd1 in specs:
        for jd2 in specs:
          out.append(dict(parents=parents, joints=list(joints), jdamp=[jd1, jd2], tdamp=[]))
  # C: two bodies, two tendons, tendon spec x tendon spec
  for parents in trees2:
    for joints in space.joint_assignments(parents, kinds=("hinge", "ball")):
      for td1 in specs:
        for td2 in specs:
          out.append(dict(parents=parents, joints=list(joints), jdamp=["poly", "lin"], tdamp=[td1, td2]))
  return out


def scenarios(tier, seed):
  v = seed % 4
  specs = []

  def add(nmin, nmax, cons, kinds=space.JOINT_KINDS):
    for n in range(nmin, nmax + 1):
      for parents in space.trees(n):
        for joints in space.joint_assignments(parents, kinds=kinds):
          for cset in cons:
            specs.append(dict(parents=list(parents), joints=list(joints), cons=cset))

  def add_damping():
    for sp in _damping_family(tier):
      specs.append(dict(sp, cons="none", states=_STATES4))

  # simplest first: the damping family (<= 2 bodies, no constraint; ~5x cheaper per scenario than a constrained model) runs
  # right after the one-body models, so that a run cut short by the time budget still covers it
  add(1, 1, CONS)
  add_damping()
  add(2, 2, CONS)
  if tier == "quick":
    add(3, 3, ("none", "all"), kinds=_REDUCED)
  else:
    add(3, 3, CONS)
  out = []
  for sp in specs:
    for integ in ("Euler", "implicitfast"):
      for disc in (0, 1):
        out.append(dict(sp, integ=integ, invdiscrete=disc, variant=v))
  return out


# ------------------------------------------------------------------------------- model


def _damp_value(spec, v, i):
  """Value of a damping="..." attribute (linear coefficient, then the polynomial ones) for a spec of DAMP_SPECS; None = no attribute."""
  lin, p1, p2 = _c02._DPOLY[v].split()
  lin = f"{float(lin) + 0.1 * i:.3g}"
  return {"none": None, "lin": lin, "poly": f"0 {p1} {p2}", "linpoly": f"{lin} {p1} {p2}"}[spec]


def model_xml(parents, joints, cons, integ, disc, v, jdamp=None, tdamp=None):
  n = len(parents)
  limit = cons in ("limit", "all")
  equality = cons in ("equality", "all")
  contact = cons in ("contact", "contact_elliptic", "all")
  base = _c02._joint_attrs(("armature", "dampingpoly") if jdamp is None else ("armature",), v)

  def ja(i, kind):
    a = base(i, kind)
    if jdamp is not None and _damp_value(jdamp[i - 1], v, i) is not None:
      a += f' damping="{_damp_value(jdamp[i - 1], v, i)}"'
    if limit and kind in ("hinge", "slide", "hingeslide"):
      a += ' limited="true" range="-0.2 0.15"'
    elif limit and kind == "ball":
      a += ' limited="true" range="0 0.35"'
    return a

  acts = ""
  scal = []
  for i, k in enumerate(joints, 1):
    names = {"hinge": [(f"j{i}", "hinge")], "slide": [(f"j{i}", "slide")], "ball": [(f"j{i}", "ball")], "free": [(f"j{i}", "free")]}.get(k)
    if k == "hingeslide":
      names = [(f"j{i}", "hinge"), (f"j{i}b", "slide")]
    for b, (jn, jk) in enumerate(names or []):
      acts += _c27._act(f"a{jn}", f'joint="{jn}"', (i + b + v) % 3, _c27._GEAR[jk])  # affine bias / affine gain / filter
      if jk in ("hinge", "slide"):
        scal.append(jn)
  eq = ""
  if equality:
    eq += f'<connect body1="b{n}" anchor="0.05 0.02 -0.03"/>'
    if len(scal) >= 2:
      eq += f'<joint joint1="{scal[0]}" joint2="{scal[-1]}" polycoef="0.1 0.8 0 0 0"/>'
  world = ""
  if contact:
    world = '<geom name="floor" type="plane" size="3 3 0.1" pos="0 0 0.05" quat="0.9990482 0.0308436 -0.0308436 0" margin="0.12"/>'
  if tdamp:
    # spatial tendons (work with every joint kind): world site -> s1, s1 -> s2
    world += '<site name="sw" pos="0.05 -0.4 0.6" size="0.01"/>'
    ends = [("sw", "s1"), ("s1", "s2")]
    tens = ""
    for t, spec in enumerate(tdamp):
      dv = _damp_value(spec, (v + 2) % 4, t)
      da = f' damping="{dv}"' if dv is not None else ""
      tens += f'<spatial name="t{t}"{da}><site site="{ends[t][0]}"/><site site="{ends[t][1]}"/></spatial>'
    tendon_sec = f"<tendon>{tens}</tendon>"
  else:
    tendon_sec = ""
  flags = '<flag invdiscrete="enable"/>' if disc else ""
  cone = ' cone="elliptic"' if cons == "contact_elliptic" else ""
  opt = f'<option timestep="{H}" integrator="{integ}"{cone}>{flags}</option>'
  sections = tendon_sec + (f"<actuator>{acts}</actuator>" if acts else "") + (f"<equality>{eq}</equality>" if eq else "")
  # soft constraints (time constant 0.08 instead of 0.02): the grid states violate limits/equalities/contacts by O(0.3), which
  # with the default stiffness gives row forces O(1e4) that cancel to O(10) -- ill conditioned for no benefit
  comp = (
    '<compiler angle="radian"/><default><joint solreflimit="0.08 1"/><equality solref="0.08 1"/><geom solref="0.08 1"/></default>'
  )
  return space.tree_xml(
    parents, joints, variant=v, joint_attrs=ja, world_extra=world, sections=sections, option=opt, collide=contact, compiler=comp
  )


def _state(mjm, joints, v, which, sign=1):
  qpos, qvel = space.state_grid(joints, v, which)
  qvel = [sign * x for x in qvel]
  ctrl, act = _c27._inputs(mjm, v, which)
  _, _, qa, xf = _c02._state(mjm, joints, v, which)
  return np.array(qpos), np.array(qvel), ctrl, act, qa, xf


def _jt_xfrc(mjm, mjd):
  """J^T xfrc_applied by MuJoCo (float64); mjd must hold kinematics of the state."""
  import mujoco

  out = np.zeros(mjm.nv)
  for b in range(1, mjm.nbody):
    f = mjd.xfrc_applied[b]
    if np.any(f):
      mujoco.mj_applyFT(mjm, mjd, f[:3].copy(), f[3:].copy(), mjd.xipos[b].copy(), b, out)
  return out


def execute(scn):
  import mujoco
  import mujoco_warp as mjw
  import warp as wp

  v, integ, disc, cons = scn["variant"], scn["integ"], scn["invdiscrete"], scn["cons"]
  xml = model_xml(scn["parents"], scn["joints"], cons, integ, disc, v, jdamp=scn.get("jdamp"), tdamp=scn.get("tdamp"))
  states = scn.get("states") or [[1, 1], [2, 1]]  # (grid state, qvel sign) per world
  mjm, err = util.try_load(xml)
  if mjm is None:
    return dict(ok=True, nontrivial=False, outcome="rejected_by_compiler", info=err, key=util.sha(scn))
  nv, NW = mjm.nv, len(states)
  c = util.Cmp(prefix=f"{integ}:disc={disc}:")
  m = mjw.put_model(mjm)
  dB = mjw.make_data(mjm, nworld=NW)
  dA = mjw.make_data(mjm, nworld=NW) if disc else None
  refs = []
  for w, (which, sign) in enumerate(states):
    qpos, qvel, ctrl, act, qa, xf = _state(mjm, scn["joints"], v, which, sign)
    mjd = util.mj_data(mjm, qpos=qpos, qvel=qvel, ctrl=ctrl, act=act if mjm.na else None, qfrc_applied=qa, xfrc_applied=xf)
    mujoco.mj_forward(mjm, mjd)
    refs.append(mjd)
    util.copy_state(mjd, dB, world=w)
    if disc:
      util.copy_state(mjd, dA, world=w)
  degenerate = [bool(util.mj_warnings(r)) or not np.all(np.isfinite(r.qacc)) for r in refs]

  mjw.forward(m, dB)
  fwd = {k: getattr(dB, k).numpy().copy() for k in ("qacc", "qfrc_smooth", "qfrc_constraint", "qfrc_actuator", "qfrc_bias", "qfrc_passive", "qvel")}
  nefc = dB.nefc.numpy().copy()
  ncon_world = np.zeros(NW, int)
  nacon = int(dB.nacon.numpy()[0])
  if nacon:
    wid = dB.contact.worldid.numpy()[:nacon]
    for w in range(NW):
      ncon_world[w] = int(np.sum(wid == w))
  Mw = [util.full_m(mjm, dB, w) for w in range(NW)]
  efc_rows = [util.efc_dense(m, dB, w)[1] if nefc[w] > 0 else None for w in range(NW)]

  qacc_in = fwd["qacc"].copy()
  if disc:
    mjw.step(m, dA)
    qv1 = dA.qvel.numpy()
    qacc_in = ((qv1.astype(np.float64) - fwd["qvel"].astype(np.float64)) / H).astype(np.float32)
    util.set_field(dB.qacc, qacc_in)
  dB.qfrc_inverse.fill_(np.nan)
  dB.qfrc_constraint.fill_(np.nan)  # inverse() must recompute it from qacc, not reuse forward's
  mjw.inverse(m, dB)
  inv = {k: getattr(dB, k).numpy().copy() for k in ("qfrc_inverse", "qfrc_constraint", "qacc")}

  active_any, expected_nz, disc_differs, unconverged = False, False, False, 0
  maxres = 0.0
  for w, mjd in enumerate(refs):
    if degenerate[w]:
      continue
    expected = mjd.qfrc_applied + _jt_xfrc(mjm, mjd) + fwd["qfrc_actuator"][w].astype(np.float64)
    Ma = Mw[w] @ fwd["qacc"][w].astype(np.float64)
    terms = [expected, Ma, fwd["qfrc_bias"][w], fwd["qfrc_passive"][w], fwd["qfrc_constraint"][w]]
    scale = 1.0 + max(float(np.abs(t).max()) for t in terms)
    resid = float(np.abs(Ma - fwd["qfrc_smooth"][w] - fwd["qfrc_constraint"][w]).max())
    maxres = max(maxres, resid / scale)
    if resid > 1e-3 * scale:
      unconverged += 1
      continue
    # float32 evaluation error of J^T D (J qacc - aref): one ulp of the summed magnitudes (row forces may cancel)
    amp = 0.0
    if nefc[w] > 0:
      rows = efc_rows[w]
      J, D, aref = np.abs(rows["J"]), rows["D"], np.abs(rows["aref"])
      amp = float((J.T @ (D * (J @ np.abs(fwd["qacc"][w].astype(np.float64)) + aref))).max()) if J.size else 0.0
    atol = 2.0 * resid + 1.2e-7 * amp
    pre = f"w{w}:"
    ckey = cons
    if "jdamp" in scn:  # damping family: name the damping specs present on joints / tendons
      ckey += ":jdamp=" + "+".join(sorted(set(scn["jdamp"]))) + ":tdamp=" + ("+".join(sorted(set(scn["tdamp"]))) or "-")
    c.close(pre + "qfrc_inverse", inv["qfrc_inverse"][w], expected, "f32dyn", scale=scale, atol=atol, vkey=f"qfrc_inverse:{ckey}")
    c.close(pre + "qfrc_constraint", inv["qfrc_constraint"][w], fwd["qfrc_constraint"][w], "f32dyn", scale=scale, atol=atol, vkey=f"qfrc_constraint:{ckey}")
    c.bits(pre + "qacc_untouched", inv["qacc"][w], qacc_in[w], vkey="qacc_modified_by_inverse")
    expected_nz = expected_nz or bool(np.any(np.abs(expected) > 1e-6))
    if disc and np.any(np.abs(qacc_in[w] - fwd["qacc"][w]) > 1e-4 * (1 + np.abs(fwd["qacc"][w]).max())):
      disc_differs = True
    need_con = cons in ("contact", "contact_elliptic")
    if cons == "none":
      active_any = True
    elif need_con:
      active_any = active_any or ncon_world[w] > 0
    elif cons == "all":
      active_any = active_any or (nefc[w] > 0 and ncon_world[w] > 0)
    else:
      active_any = active_any or nefc[w] > 0

  states_ok = sum(1 for g in degenerate if not g) - unconverged
  nontrivial = nv > 0 and states_ok > 0 and expected_nz and active_any and (disc_differs or not disc)
  outcome = "degenerate" if all(degenerate) else ("solver_unconverged" if states_ok <= 0 else "ok")
  if "jdamp" in scn:
    # a damped dof that never moves would make the damping spec irrelevant
    nontrivial = nontrivial and bool(np.any(np.abs(fwd["qvel"]) > 0))
  info = dict(nv=int(nv), nefc=[int(x) for x in nefc], ncon=[int(x) for x in ncon_world], resid=float(f"{maxres:.3g}"), maxrel=float(f"{c.maxrel:.3g}"), checked=c.nchecked)
  return c.result(nontrivial=nontrivial, key=util.sha(scn), outcome=outcome, info=info)
