"""C14 reset_data_keyframe semantics.

Enumerates, on live Data objects (nworld=3) after each history of a small alphabet, every scalar key in {-1..nkey}
and every per-world key array over {-1, 0, 2, nkey(invalid)}^3.  Valid worlds must equal a fresh Data with the
keyframe's time/qpos/qvel/act/ctrl/mocap written into it (bit for bit, and in the next K steps) and
mj_resetDataKeyframe (f32); invalid-index worlds must be untouched (twin without the call); invalid scalar keys and
malformed arrays must raise ValueError.  64-bit key arrays holding values beyond 32 bits must either be rejected with nothing
touched or behave like the same values in an int32 array (an index such as 2**32 is out of range).
"""

import itertools

import numpy as np

from mc import hist, snap, util
from mc.props import c13

ID = "C14"
LEVEL = "model_checking"
RULE = (
  "histories (depth<=d over 3 ops) x key argument (5 scalars + all 64 arrays over {-1,0,2,3}^3 + malformed arrays); state = "
  "integration state after the history (hash), transition = one API call; every trace validated against a fresh-Data twin, a "
  "no-call twin and mj_resetDataKeyframe"
)
BOUNDS = {"quick": "depth<=1 (4 histories), 69 key arguments + 3 malformed + 4 int64 arrays (values beyond 32 bits), K=2", "thorough": "depth<=2 (13 histories), same keys, K=3"}
ASSUMPTIONS = ["bit identity vs fresh Data + keyframe fields; f32 vs mj_resetDataKeyframe", "model has 3 keyframes with distinct time/qpos/qvel/act/ctrl/mpos/mquat"]
BUDGET = {"quick": 500, "thorough": 3000}
NW = 3

XML = """<mujoco><option timestep="0.004"/><size nuserdata="2"/><worldbody>
  <geom type="plane" size="3 3 .1"/>
  <body name="mc" mocap="true" pos="0.3 0 0.6"><geom size="0.03" contype="0" conaffinity="0"/></body>
  <body name="p" pos="0 0 0.5"><freejoint/><geom type="box" size="0.08 0.08 0.08"/></body>
  <body pos="0.6 0 0.5"><joint name="h" type="hinge" axis="0 1 0" damping="0.1"/><geom type="capsule" fromto="0 0 0 0.3 0 0" size="0.03"/></body></worldbody>
  <equality><weld body1="mc" body2="p" solref="0.05 1" active="false"/></equality>
  <actuator><general name="f" joint="h" dyntype="filter" dynprm="0.05"/><motor name="m" joint="h"/><general name="i" joint="h" dyntype="integrator"/></actuator>
  <keyframe>
    <key name="k0" time="0.5" qpos="0.1 0.2 0.7 1 0 0 0 0.3" qvel="0.1 0 0 0 0 0.2 -0.4" act="0.2 -0.1" ctrl="0.5 -0.5 0.1" mpos="0.1 0.1 0.9" mquat="0.6 0.8 0 0"/>
    <key name="k1" time="1.25" qpos="-0.2 0.1 0.4 0.6 0 0.8 0 -0.5" qvel="0 0.3 0 0.1 0 0 0.9" act="-0.3 0.4" ctrl="-0.2 0.3 0.7" mpos="-0.2 0.3 0.5" mquat="0 1 0 0"/>
    <key name="k2" time="2.0" qpos="0.3 -0.3 0.6 0.5 0.5 0.5 0.5 1.1" qvel="-0.2 0 0.1 0 0.3 0 0" act="0.05 0.9" ctrl="0.9 0.8 -0.6" mpos="0 0 1.2" mquat="0.5 -0.5 0.5 0.5"/>
  </keyframe>
</mujoco>"""

XML_MOCAP = """<mujoco><option timestep="0.004"/><worldbody>
  <body name="m0" mocap="true" pos="0.3 0 0.6"><geom size="0.03" contype="0" conaffinity="0"/></body>
  <body name="m1" mocap="true" pos="-0.3 0 0.6" quat="0.6 0.8 0 0"><geom size="0.03" contype="0" conaffinity="0"/></body>
  <body name="m2" mocap="true" pos="0 0.3 0.7"><geom size="0.03" contype="0" conaffinity="0"/></body>
  <body name="m3" mocap="true" pos="0 -0.3 0.7"><geom size="0.03" contype="0" conaffinity="0"/></body>
  <body name="p" pos="0 0 0.5"><joint name="s" type="slide" axis="0 0 1"/><geom size="0.05"/></body></worldbody>
  <equality><weld body1="m0" body2="p" solref="0.05 1"/></equality>
  <actuator><motor joint="s"/></actuator>
  <keyframe>
    <key name="k0" time="0.5" qpos="0.1" qvel="0.2" ctrl="0.5" mpos="0.1 0.1 0.9 0.2 0.2 0.8 0.3 0.3 0.7 0.4 0.4 0.6" mquat="0.6 0.8 0 0 0 1 0 0 0.5 0.5 0.5 0.5 0 0 1 0"/>
    <key name="k1" time="1.25" qpos="-0.2" qvel="0.3" ctrl="-0.2" mpos="-0.2 0.3 0.5 0 0 1 1 0 0 0 1 0" mquat="0 1 0 0 0.6 0 0.8 0 1 0 0 0 0.5 -0.5 0.5 0.5"/>
    <key name="k2" time="2.0" qpos="0.3" qvel="-0.2" ctrl="0.9" mpos="0 0 1.2 0.5 0.5 0.5 -0.5 0.5 0.5 0.5 -0.5 0.5" mquat="0.5 -0.5 0.5 0.5 0.8 0.6 0 0 0 0 0.6 0.8 1 0 0 0"/>
  </keyframe>
</mujoco>"""
MODELS = {"full": XML, "mocap4": XML_MOCAP}  # mocap4: more mocap bodies than max(nq, nu, na)

OPS = {"step_a": c13.OPS["step_a"], "dirty_inputs": c13.OPS["dirty_inputs"], "kick": c13.OPS["kick"]}
ALPHABET = list(OPS)
KEY_ARRAYS = [list(k) for k in itertools.product([-1, 0, 2, 3], repeat=NW)]
# 64-bit key arrays (numpy's default integer): either rejected without touching anything, or treated like the same values
# in an int32 array -- an index such as 2**32 (low 32 bits = 0) is out of range and must leave its world untouched
KEYS64 = [[0, 2, 1], [2**32, 1, 2**32 + 1], [-(2**32) + 2, 2**31, 0], [2**40 + 2, -1, 2**32 + 2]]
KEYS = (
  [("scalar", k) for k in (-1, 0, 1, 2, 3)]
  + [("array", k) for k in KEY_ARRAYS]
  + [("bad_shape", None), ("bad_dtype", None), ("bad_type", None)]
  + [("int64", k) for k in KEYS64]
)


def scenarios(tier, seed):
  depth = 1 if tier == "quick" else 2
  hs = [[]] + hist.histories(ALPHABET, depth, first=None)[1:]
  out = []
  for h in hs:
    for ki in range(len(KEYS)):
      out.append(dict(model="full", history=h, key=ki, k=2 if tier == "quick" else 3))
  for h in hs[:2] if tier == "quick" else hs:
    for ki in range(len(KEYS)):
      out.append(dict(model="mocap4", history=h, key=ki, k=2))
  return out


_M = {}


def _model(name="full"):
  import mujoco_warp as mjw

  if name not in _M:
    mjm = util.load(MODELS[name])
    _M[name] = (mjm, mjw.put_model(mjm))
  return _M[name]


def _dirty(mjm, m, h):
  import mujoco_warp as mjw

  d = mjw.make_data(mjm, nworld=NW)
  ctx = hist.Ctx(mjm, m, d)
  for op in h:
    OPS[op](ctx)
  return d


def execute(scn):
  import mujoco
  import warp as wp

  import mujoco_warp as mjw

  mjm, m = _model(scn.get("model", "full"))
  c = util.Cmp()
  h = scn["history"]
  kind, key = KEYS[scn["key"]]
  counts = dict(transitions=len(h) + 1, traces_validated_against_impl=1, states=1)
  d = _dirty(mjm, m, h)
  before = hist.get_integration_state(mjm, m, d)
  tag = f"history {h} key {kind}:{key}: "

  def call(arg):
    try:
      mjw.reset_data_keyframe(m, d, arg)
      return None
    except ValueError as e:
      return e

  if kind.startswith("bad"):
    arg = {"bad_shape": wp.array(np.zeros(NW + 1, np.int32), dtype=int), "bad_dtype": wp.array(np.zeros(NW, np.float32), dtype=float), "bad_type": 1.0}[kind]
    err = call(arg)
    c.true(tag + "rejects", err is not None, "malformed key accepted", vkey=f"accepts:{kind}")
    c.bits(tag + "state untouched", hist.get_integration_state(mjm, m, d), before, vkey="rejected_call_modified_state")
    return c.result(nontrivial=True, key=util.sha(scn), counts=counts)

  if kind == "int64":
    try:
      mjw.reset_data_keyframe(m, d, wp.array(np.array(key, np.int64), dtype=wp.int64))
      err = None
    except Exception as e:  # any rejection is acceptable as long as nothing was touched
      err = e
    if err is not None:
      c.bits(tag + "state untouched", hist.get_integration_state(mjm, m, d), before, vkey="rejected_call_modified_state")
      return c.result(nontrivial=True, key=util.sha(scn), counts=counts, outcome="int64_rejected")
    keys = [k if 0 <= k < mjm.nkey else -1 for k in key]
  elif kind == "scalar":
    err = call(key)
    valid = 0 <= key < mjm.nkey
    if not valid:
      c.true(tag + "rejects", err is not None, "invalid scalar key accepted", vkey="accepts:invalid_scalar")
      c.bits(tag + "state untouched", hist.get_integration_state(mjm, m, d), before, vkey="rejected_call_modified_state")
      return c.result(nontrivial=True, key=util.sha(scn), counts=counts)
    c.true(tag + "accepted", err is None, f"valid scalar key raised {err}", vkey="rejects:valid_scalar")
    keys = [key] * NW
  else:
    err = call(wp.array(np.array(key, np.int32), dtype=int))
    c.true(tag + "accepted", err is None, f"key array raised {err}", vkey="rejects:array")
    keys = key
  if err is not None:
    return c.result(nontrivial=True, key=util.sha(scn), counts=counts)

  # references: fresh + keyframe fields; twin without the call
  ref = mjw.make_data(mjm, nworld=NW)
  twin = _dirty(mjm, m, h)
  for w, k in enumerate(keys):
    if 0 <= k < mjm.nkey:
      for f, src in (("qpos", mjm.key_qpos), ("qvel", mjm.key_qvel), ("act", mjm.key_act), ("ctrl", mjm.key_ctrl), ("mocap_pos", mjm.key_mpos), ("mocap_quat", mjm.key_mquat)):
        a = getattr(ref, f).numpy()
        a[w] = np.asarray(src[k], dtype=np.float32).reshape(a[w].shape)
        util.set_field(getattr(ref, f), a)
      t = ref.time.numpy()
      t[w] = mjm.key_time[k]
      util.set_field(ref.time, t)
  st, st_ref, st_twin = (hist.get_integration_state(mjm, m, x) for x in (d, ref, twin))
  mjd = mujoco.MjData(mjm)
  for w, k in enumerate(keys):
    if 0 <= k < mjm.nkey:
      c.bits(f"{tag}world {w} (key {k}) state vs fresh+keyframe", st[w], st_ref[w], vkey="valid:state_vector")
      mujoco.mj_resetDataKeyframe(mjm, mjd, k)
      for f in ("qpos", "qvel", "act", "ctrl", "mocap_pos", "mocap_quat", "qacc_warmstart", "userdata"):
        c.close(f"{tag}world {w} {f} vs mj_resetDataKeyframe", getattr(d, f).numpy()[w].reshape(-1), np.asarray(getattr(mjd, f)).reshape(-1), "f32", vkey=f"mj:{f}")
      c.close(f"{tag}world {w} time vs mj", d.time.numpy()[w], mjd.time, "f32", vkey="mj:time")
      c.equal(f"{tag}world {w} eq_active vs mj", d.eq_active.numpy()[w].astype(int), np.asarray(mjd.eq_active).astype(int), vkey="mj:eq_active")
    else:
      c.bits(f"{tag}world {w} (invalid key {k}) state vs untouched twin", st[w], st_twin[w], vkey="invalid:state_vector")
  # follow-up trajectories
  for x in (d, ref, twin):
    c13._follow(mjm, m, x, scn["k"])
  a, r, t = (snap.take(m, x, contacts=False) for x in (d, ref, twin))
  for w, k in enumerate(keys):
    other, side = (r, "valid") if 0 <= k < mjm.nkey else (t, "invalid")
    cc = util.Cmp()
    snap.compare_exact(cc, snap.world_slice(a, w), snap.world_slice(other, w), pre=f"{tag}world {w} ({side}) after {scn['k']} steps: ")
    for v in cc.violations[:3]:
      v["vkey"] = f"{side}:trajectory:{v['vkey']}"
      c.violations.append(v)
  return c.result(nontrivial=True, key=util.sha(scn), counts=counts, info=dict(keys=keys))
