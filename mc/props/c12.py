"""C12 Next step depends only on the integration state.

For every history h (all op sequences up to depth d over the alphabet) executed on a Data D1, a fresh Data D0 of
the same model and capacities receives D1's integration state through get_state/set_state; forward() and step()
on both must then be bit-identical in every output step() defines.  Crossed with the poison alphabet for
uninitialised scratch (wp.empty) on both sides and with two capacity settings (ample; tight, so that histories
pass through overflowing steps and leave stale data behind).
"""

import numpy as np

from mc import hist, scenes, snap, util

ID = "C12"
LEVEL = "model_checking"
RULE = (
  "all operation sequences of length <= d over the alphabet (no dedup: hidden scratch is the thing under test) x poison pairs x "
  "capacity setting; each history is validated against the implementation by replaying its integration state on a fresh Data; "
  "states = distinct integration states reached (hash), transitions = operations executed"
)
BOUNDS = {
  "quick": "depth<=2 over 11 ops (133 histories) x 4 poison pairs x {ample,tight} capacities, nworld=2, Newton dense + sparse; 12 disable flags switched on after every history of depth<=1",
  "thorough": "depth<=3 (1464 histories) x 16 poison pairs x {ample,tight}, dense + sparse + implicitfast",
}
ASSUMPTIONS = [
  "bit identity is required (same kernels, same schedule, same inputs)",
  "comparisons where either side reports a capacity overflow bit after the final step are excluded and counted",
  "poison alphabet {0x00,0xFF,0x7F,0xC3} stands for arbitrary uninitialised memory",
]
BUDGET = {"quick": 500, "thorough": 3400}
ALPHABET = ["step", "forward", "step_ctrl_a", "step_ctrl_b", "pose_collide", "pose_free", "xfrc", "eq_toggle", "reset", "reset_w0", "reset_w1"]
POISON_QUICK = [(0x00, 0xFF), (0xFF, 0x00), (0x7F, 0xC3), (0xC3, 0x7F)]
CAPACITY_BITS = 0x1FF  # everything except ITERATIONS / LS_ITERATIONS


# Data fields that legitimately persist outside the integration state (justified one by one):
PERSISTENT = {
  "overflow": "sticky by design: bits are only cleared by reset_data",
  "geom_xpos": "static (world-attached) geoms are positioned once in make_data and never recomputed (smooth.py geom kinematics skips them)",
  "geom_xmat": "same as geom_xpos",
  "xquat": "world body entry is set once in make_data",
  "xmat": "world body entry is set once in make_data",
  "ximat": "world body entry is set once in make_data",
  "xpos": "world body entry",
  "xipos": "world body entry",
  "nworld": "", "naconmax": "", "njmax": "",
}
STATE = ("time", "qpos", "qvel", "act", "history", "qacc_warmstart", "ctrl", "qfrc_applied", "xfrc_applied", "eq_active", "mocap_pos", "mocap_quat", "userdata")
FIELD_CHUNKS = 12


def scenarios(tier, seed):
  from mc.world import POISON_ALPHABET

  depth = 2 if tier == "quick" else 3
  opts = ['jacobian="dense"', 'jacobian="sparse"'] + (['integrator="implicitfast"'] if tier == "thorough" else [])
  pois = POISON_QUICK if tier == "quick" else [(a, b) for a in POISON_ALPHABET for b in POISON_ALPHABET]
  out = []
  # family 2: every non-state Data array, one at a time, overwritten with each poison pattern before the step
  for opt in ['cone="elliptic" jacobian="dense"', 'jacobian="sparse"', 'cone="elliptic" jacobian="sparse" integrator="implicitfast"'] + (['solver="CG"', 'integrator="RK4"'] if tier == "thorough" else []):
    for chunk in range(FIELD_CHUNKS):
      out.append(dict(kind="poison_field", opt=opt, chunk=chunk, variant=seed % 4))
  for opt in opts:
    for cap in ("ample", "tight"):
      for p1, p0 in pois:
        for first in [None] + ALPHABET:
          out.append(dict(opt=opt, cap=cap, p1=p1, p0=p0, first=first, depth=depth, variant=seed % 4))
  # family 3: the history runs with the model's flags, then a disable flag is switched on (Model field edited at run time) and the
  # next forward/step must still depend on the integration state only (outputs of skipped stages are reset, not left over)
  for flag in FLIP_FLAGS:
    for first in [None] + ALPHABET:
      out.append(dict(opt=opts[0], cap="ample", p1=pois[0][0], p0=pois[0][1], first=first, depth=1 if tier == "quick" else 2, variant=seed % 4, flip=flag))
  return out


FLIP_FLAGS = ("CONTACT", "CONSTRAINT", "EQUALITY", "FRICTIONLOSS", "LIMIT", "SPRING", "DAMPER", "GRAVITY", "CLAMPCTRL", "ACTUATION", "SENSOR", "FILTERPARENT")


def _flipped(opt, flag):
  """Same model with one more disable bit (what a user gets by editing m.opt.disableflags between steps)."""
  import mujoco
  import mujoco_warp as mjw

  k = (opt, flag)
  if k not in _M:
    mjm = util.load(scenes.rich(opt))
    mjm.opt.disableflags |= int(getattr(mujoco.mjtDisableBit, "mjDSBL_" + flag))
    _M[k] = mjw.put_model(mjm)
  return _M[k]


_M = {}


def _model(opt):
  import mujoco_warp as mjw

  if opt not in _M:
    mjm = util.load(scenes.rich(opt))
    _M[opt] = (mjm, mjw.put_model(mjm))
  return _M[opt]


def _mk(mjm, cap, variant):
  import mujoco_warp as mjw

  kw = {} if cap == "ample" else dict(naconmax=18, njmax=64)
  d = mjw.make_data(mjm, nworld=2, **kw)
  for w, s in enumerate(scenes.rich_states(mjm, 2, variant)):
    util.copy_state(s, d, world=w)
  return d


def _data_arrays(d):
  """(name, warp array) for every non-empty array of Data, Contact and Constraint."""
  import dataclasses

  import warp as wp

  out = []
  for f in dataclasses.fields(type(d)):
    v = getattr(d, f.name)
    if isinstance(v, wp.array):
      if v.size:
        out.append((f.name, v))
    elif dataclasses.is_dataclass(v):
      for g in dataclasses.fields(type(v)):
        a = getattr(v, g.name)
        if isinstance(a, wp.array) and a.size:
          out.append((f"{f.name}.{g.name}", a))
  return out


def _poison_field(scn):
  """One non-state array at a time is overwritten with a poison pattern on a Data that already ran forward(); step()
  must not notice (the array must be written before it is read), otherwise it is hidden state."""
  import ctypes

  import mujoco_warp as mjw

  mjm, m = _model(scn["opt"])
  c = util.Cmp()
  ref = _mk(mjm, "ample", scn["variant"])
  mjw.forward(m, ref)
  mjw.step(m, ref)
  want = snap.take(m, ref)
  names = [n for n, _ in _data_arrays(ref)]
  mine = [n for i, n in enumerate(names) if i % FIELD_CHUNKS == scn["chunk"]]
  counts = dict(transitions=0, traces_validated_against_impl=0, states=1, fields_poisoned=0, fields_exempt=0, extra_evaluations=0)
  for name in mine:
    if name in STATE or name in PERSISTENT or name.split(".")[-1] in PERSISTENT:
      counts["fields_exempt"] += 1
      continue
    counts["fields_poisoned"] += 1
    # finite patterns only (-390.76 / 0.186 / 0 as float32; large negative / positive / 0 as int32): stale contents are
    # values left by earlier steps; NaN contents would presuppose an earlier diverged step (dense tile products mask unused
    # rows by multiplying with 0, which NaN survives)
    for byte in (0xC3, 0x3E, 0x00):
      d = _mk(mjm, "ample", scn["variant"])
      mjw.forward(m, d)
      arr = dict(_data_arrays(d))[name]
      if name == "efc.J" and not m.is_sparse:
        # dense J is allocated (njmax_pad, nv_pad): the padding is zeroed once by make_data and read by the tile kernels,
        # i.e. a constant of the Data object, not history -- poison only the logical (njmax, nv) region
        a = arr.numpy()
        a[:, : d.njmax, : m.nv] = np.frombuffer(bytes([byte]) * 4, dtype=np.float32)[0]
        util.set_field(arr, a)
      else:
        ctypes.memset(arr.ptr, byte, arr.capacity)
      mjw.step(m, d)
      got = snap.take(m, d)
      counts["transitions"] += 2
      counts["traces_validated_against_impl"] += 1
      counts["extra_evaluations"] += 1
      cc = util.Cmp()
      snap.compare_exact(cc, got, want, pre=f"Data.{name} overwritten with 0x{byte:02X} bytes after forward(): step() result differs: ")
      if cc.violations:
        v = cc.violations[0]
        v["vkey"] = f"hidden_state:{name}"
        c.violations.append(v)
        break
  return c.result(nontrivial=counts["fields_poisoned"] > 0, key=util.sha(scn), counts=counts, info=dict(fields=mine))


def execute(scn):
  import mujoco_warp as mjw
  from mc import world

  if scn.get("kind") == "poison_field":
    return _poison_field(scn)
  mjm, m = _model(scn["opt"])
  c = util.Cmp()
  hs = [[]] if scn["first"] is None else hist.histories(ALPHABET, scn["depth"], first=scn["first"])
  counts = dict(transitions=0, traces_validated_against_impl=0, excluded_overflow=0, extra_evaluations=0)
  seen = set()
  for h in hs:
    world.set_poison(scn["p1"])
    d1 = _mk(mjm, scn["cap"], scn["variant"])
    ctx = hist.Ctx(mjm, m, d1, scn["variant"])
    for op in h:
      hist.apply(op, ctx)
      counts["transitions"] += 1
    state = hist.get_integration_state(mjm, m, d1)
    seen.add(util.np_digest(state))
    world.set_poison(scn["p0"])
    d0 = _mk(mjm, scn["cap"], scn["variant"])
    hist.set_integration_state(mjm, m, d0, state)
    back = hist.get_integration_state(mjm, m, d0)
    if back.tobytes() != state.tobytes():
      c.fail("set_get_roundtrip", f"history {h}: set_state/get_state does not round-trip the integration state")
      continue
    pre = f"history {h}: " + (f"then disable {scn['flip']}: " if scn.get("flip") else "")
    bad = False
    mf = _flipped(scn["opt"], scn["flip"]) if scn.get("flip") else m
    for final in ("forward", "step"):
      world.set_poison(scn["p1"])
      getattr(mjw, final)(mf, d1)
      s1 = snap.take(mf, d1)
      world.set_poison(scn["p0"])
      getattr(mjw, final)(mf, d0)
      s0 = snap.take(mf, d0)
      if np.any((s1["count"]["overflow"] | s0["count"]["overflow"]) & CAPACITY_BITS):
        counts["excluded_overflow"] += 1
        break
      before = len(c.violations)
      snap.compare_exact(c, s0, s1, pre=f"{pre}after {final}: ")
      if len(c.violations) > before:
        for v in c.violations[before:]:
          v["history"] = h
          v["vkey"] = (f"flip_{scn['flip']}:" if scn.get("flip") else "") + f"{final}:{v['vkey']}"
        bad = True
        break
    counts["traces_validated_against_impl"] += 1
    if bad and len(c.violations) >= 6:
      break
  world.set_poison(None)
  counts["states"] = len(seen)
  counts["extra_evaluations"] = max(0, len(hs) - 1)
  counts["extra_distinct"] = max(0, len(seen) - 1)
  return c.result(nontrivial=len(hs) > 0, key=util.sha(scn), counts=counts, info=dict(histories=len(hs), distinct_states=len(seen)))
