"""C12 Next step depends only on the integration state.

For every history h (all op sequences up to depth d over the alphabet) executed on a Data D1, a fresh Data D0 of
the same model and capacities receives D1's integration state through get_state/set_state; forward() and step()
on both must then be bit-identical in every output step() defines.  Crossed with the poison alphabet for
uninitialised scratch (wp.empty) on both sides and with two capacity settings (ample; tight, so that histories
pass through overflowing steps and leave stale data behind).
"""

import numpy as np

from mc import hist, scenes, snap, util

ID = "C12"
LEVEL = "model_checking"
RULE = (
  "all operation sequences of length <= d over the alphabet (no dedup: hidden scratch is the thing under test) x poison pairs x "
  "capacity setting; each history is validated against the implementation by replaying its integration state on a fresh Data; "
  "states = distinct integration states reached (hash), transitions = operations executed"
)
BOUNDS = {
  "quick": "depth<=2 over 11 ops (133 histories) x 4 poison pairs x {ample,tight} capacities, nworld=2, Newton dense + sparse",
  "thorough": "depth<=3 (1464 histories) x 16 poison pairs x {ample,tight}, dense + sparse + implicitfast",
}
ASSUMPTIONS = [
  "bit identity is required (same kernels, same schedule, same inputs)",
  "comparisons where either side reports a capacity overflow bit after the final step are excluded and counted",
  "poison alphabet {0x00,0xFF,0x7F,0xC3} stands for arbitrary uninitialised memory",
]
BUDGET = {"quick": 500, "thorough": 3400}
ALPHABET = ["step", "forward", "step_ctrl_a", "step_ctrl_b", "pose_collide", "pose_free", "xfrc", "eq_toggle", "reset", "reset_w0", "reset_w1"]
POISON_QUICK = [(0x00, 0xFF), (0xFF, 0x00), (0x7F, 0xC3), (0xC3, 0x7F)]
CAPACITY_BITS = 0x1FF  # everything except ITERATIONS / LS_ITERATIONS


def scenarios(tier, seed):
  from mc.world import POISON_ALPHABET

  depth = 2 if tier == "quick" else 3
  opts = ['jacobian="dense"', 'jacobian="sparse"'] + (['integrator="implicitfast"'] if tier == "thorough" else [])
  pois = POISON_QUICK if tier == "quick" else [(a, b) for a in POISON_ALPHABET for b in POISON_ALPHABET]
  out = []
  for opt in opts:
    for cap in ("ample", "tight"):
      for p1, p0 in pois:
        for first in [None] + ALPHABET:
          out.append(dict(opt=opt, cap=cap, p1=p1, p0=p0, first=first, depth=depth, variant=seed % 4))
  return out


_M = {}


def _model(opt):
  import mujoco_warp as mjw

  if opt not in _M:
    mjm = util.load(scenes.rich(opt))
    _M[opt] = (mjm, mjw.put_model(mjm))
  return _M[opt]


def _mk(mjm, cap, variant):
  import mujoco_warp as mjw

  kw = {} if cap == "ample" else dict(naconmax=18, njmax=64)
  d = mjw.make_data(mjm, nworld=2, **kw)
  for w, s in enumerate(scenes.rich_states(mjm, 2, variant)):
    util.copy_state(s, d, world=w)
  return d


def execute(scn):
  import mujoco_warp as mjw
  from mc import world

  mjm, m = _model(scn["opt"])
  c = util.Cmp()
  hs = [[]] if scn["first"] is None else hist.histories(ALPHABET, scn["depth"], first=scn["first"])
  counts = dict(transitions=0, traces_validated_against_impl=0, excluded_overflow=0, extra_evaluations=0)
  seen = set()
  for h in hs:
    world.set_poison(scn["p1"])
    d1 = _mk(mjm, scn["cap"], scn["variant"])
    ctx = hist.Ctx(mjm, m, d1, scn["variant"])
    for op in h:
      hist.apply(op, ctx)
      counts["transitions"] += 1
    state = hist.get_integration_state(mjm, m, d1)
    seen.add(util.np_digest(state))
    world.set_poison(scn["p0"])
    d0 = _mk(mjm, scn["cap"], scn["variant"])
    hist.set_integration_state(mjm, m, d0, state)
    back = hist.get_integration_state(mjm, m, d0)
    if back.tobytes() != state.tobytes():
      c.fail("set_get_roundtrip", f"history {h}: set_state/get_state does not round-trip the integration state")
      continue
    pre = f"history {h}: "
    bad = False
    for final in ("forward", "step"):
      world.set_poison(scn["p1"])
      getattr(mjw, final)(m, d1)
      s1 = snap.take(m, d1)
      world.set_poison(scn["p0"])
      getattr(mjw, final)(m, d0)
      s0 = snap.take(m, d0)
      if np.any((s1["count"]["overflow"] | s0["count"]["overflow"]) & CAPACITY_BITS):
        counts["excluded_overflow"] += 1
        break
      before = len(c.violations)
      snap.compare_exact(c, s0, s1, pre=f"{pre}after {final}: ")
      if len(c.violations) > before:
        for v in c.violations[before:]:
          v["history"] = h
          v["vkey"] = f"{final}:{v['vkey']}"
        bad = True
        break
    counts["traces_validated_against_impl"] += 1
    if bad and len(c.violations) >= 6:
      break
  world.set_poison(None)
  counts["states"] = len(seen)
  counts["extra_evaluations"] = max(0, len(hs) - 1)
  counts["extra_distinct"] = max(0, len(seen) - 1)
  return c.result(nontrivial=len(hs) > 0, key=util.sha(scn), counts=counts, info=dict(histories=len(hs), distinct_states=len(seen)))
