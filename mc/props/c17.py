"""C17 No out-of-bounds access or crash on accepted inputs.

Fault enumeration in bounds-checked workers: Warp runs in debug mode (every array access is bounds-checked and an
out-of-range index aborts the process) with crash containment in the runner.  Space: models x option combinations x
capacity lattice (zero, one, exact-fit, exact-fit-k for each knob; all tiny pairs) x sleep modes, plus a 7-sphere pile (complete island
graph) under every sleep mode, each driving the whole
public API sequence (step, forward, step1/step2, inverse, masked reset, get/set_state with exact-size buffers,
contact_force for every slot of the contact buffer, get_data_into after overflow).  Invalid configurations must raise.
Oracle: no abort, no signal, no assertion text; only documented exception types.
"""

import itertools

import numpy as np

from mc import scenes, util

ID = "C17"
LEVEL = "fault_enumeration"
WORLD = {"debug": True}
RULE = (
  "models x {cone,solver,jacobian,integrator} option sets x capacity assignments (ample; each knob in {0,1,fit-1,fit}; pairs of tiny knobs) x "
  "sleep modes; each scenario runs the full public API sequence in a bounds-checked worker; non-trivial = at least one capacity below the "
  "measured need or a non-default option/sleep mode; distinct = scenario hash"
)
BOUNDS = {
  "quick": "rich model: 8 cone/solver/jacobian combos + 3 integrators; 5 small models + a 7-sphere pile (complete island graph) x 3 sleep modes; ~14 capacity assignments; 3 sleep modes; nworld=2",
  "thorough": "adds the full 32-way option product on the rich model and capacity pairs over {0,1,2,fit-1,fit}^2",
}
ASSUMPTIONS = [
  "Warp debug mode bounds-checks every array index but accepts indices in [-n,0) as wrap-around (not flagged)",
  "release-mode crashes are also caught by the runner's crash containment (worker death = violation)",
  "CPU backend only",
]
BUDGET = {"quick": 550, "thorough": 3400}
SCENARIO_TIMEOUT = 1200

NU0 = """<mujoco><worldbody><geom type="plane" size="3 3 .1"/><body pos="0 0 0.09"><freejoint/><geom type="box" size=".1 .1 .1"/></body></worldbody></mujoco>"""
NV0 = """<mujoco><worldbody><geom type="plane" size="3 3 .1"/><geom type="sphere" size=".1" pos="0 0 0.05"/><body pos="1 0 0"><geom type="box" size=".1 .1 .1"/></body></worldbody></mujoco>"""
NGEOM0 = """<mujoco><worldbody><body pos="0 0 1"><joint type="hinge" axis="0 1 0" range="-0.5 0.5" limited="true"/><inertial pos="0.1 0 0" mass="1" diaginertia="0.01 0.01 0.01"/></body></worldbody>
  <actuator><motor joint="" /></actuator></mujoco>""".replace('<actuator><motor joint="" /></actuator>', "")
NA_GT_NU = """<mujoco><worldbody><body pos="0 0 0.5"><joint name="h" type="hinge" axis="0 1 0" damping="0.1"/><geom type="capsule" fromto="0 0 0 0.3 0 0" size="0.03"/></body></worldbody>
  <actuator><general name="u" joint="h" dyntype="user" actdim="3" gainprm="1"/></actuator></mujoco>"""


# 7 mutually overlapping free spheres on a plane (complete tree-tree graph K7) plus a chain of connects: the densest island graph
# a small model can have (depth-first island labelling revisits trees, per-tree scratch is stressed)
PILE = (
  '<mujoco><worldbody><geom type="plane" size="3 3 .1"/>'
  + "".join(f'<body name="p{i}" pos="{0.03 * i:.2f} {0.02 * (i % 3):.2f} {0.19 + 0.01 * i:.2f}"><freejoint/><geom type="sphere" size=".2"/></body>' for i in range(7))
  + "</worldbody><equality>"
  + "".join(f'<connect body1="p{i}" body2="p{i + 1}" anchor="0 0 0"/>' for i in range(0, 6, 2))
  + "</equality></mujoco>"
)


def _xml(model, opt, sleep):
  flag = ""
  if sleep == "on":
    flag = '<flag sleep="enable"/>'
  elif sleep == "noisland":
    flag = '<flag sleep="enable" island="disable"/>'
  if model == "rich":
    x = scenes.rich(opt)
    return x.replace(f'<option timestep="0.004" {opt}></option>', f'<option timestep="0.004" {opt}>{flag}</option>')
  base = {"nu0": NU0, "nv0": NV0, "ngeom0": NGEOM0, "na_gt_nu": NA_GT_NU, "small": scenes.small(""), "pile": PILE}[model]
  return base.replace("<worldbody>", f"<option {opt}>{flag}</option><worldbody>", 1) if "<option" not in base else base.replace('<option timestep="0.004" />', f'<option timestep="0.004" {opt}>{flag}</option>')


OPTS8 = [f'cone="{c}" solver="{s}" jacobian="{j}"' for c in ("pyramidal", "elliptic") for s in ("Newton", "CG") for j in ("dense", "sparse")]
INTEG = ['integrator="RK4"', 'integrator="implicit"', 'integrator="implicitfast"']

# capacity assignments relative to the measured fit ("fit" resolved in the worker)
CAPS_QUICK = [
  {},
  {"njmax": 0},
  {"njmax": 1},
  {"njmax": "fit-1"},
  {"njmax": "fit"},
  # capacities that are multiples of the 16-row padding of the row arrays: an index just past njmax then leaves the array
  # instead of landing in zero padding (every alignment of a cut contact block is reached by the fit-k values below)
  {"njmax": 16},
  {"njmax": 32},
  {"njmax": 48},
  {"njmax": "fit-2"},
  {"njmax": "fit-3"},
  {"njmax": "fit-5"},
  {"naconmax": 0},
  {"naconmax": 1},
  {"naconmax": "fit-1"},
  {"naconmax": "fit"},
  {"njmax_nnz": 0},
  {"njmax_nnz": 1},
  {"njmax_nnz": "fit-1"},
  {"njmax": 1, "naconmax": 1},
  {"njmax": "fit", "naconmax": "fit", "njmax_nnz": "fit"},
  {"naccdmax": 0},
  {"nvmax": 0},
  {"nvmax": 3},
]


def scenarios(tier, seed):
  out = []
  for opt in OPTS8 + INTEG:
    for caps in CAPS_QUICK:
      if "njmax_nnz" in caps and "sparse" not in opt:
        continue
      if "nvmax" in caps and ("CG" in opt):
        continue
      out.append(dict(model="rich", opt=opt, sleep="off", caps=caps))
  for sleep in ("on", "noisland"):
    for opt in ('jacobian="dense"', 'jacobian="sparse"', 'cone="elliptic"'):
      for caps in ({}, {"njmax": "fit-1"}, {"naconmax": 1}, {"nvmax": 6}, {"nvmax": 0}):
        out.append(dict(model="rich", opt=opt, sleep=sleep, caps=caps))
  for sleep in ("on", "noisland", "off"):
    for opt in ('jacobian="dense"', 'jacobian="sparse" cone="elliptic"'):
      for caps in ({}, {"njmax": "fit-1"}, {"naconmax": "fit-1"}):
        out.append(dict(model="pile", opt=opt, sleep=sleep, caps=caps))
  for model in ("nu0", "nv0", "ngeom0", "na_gt_nu", "small"):
    for opt in ('jacobian="dense"', 'jacobian="sparse" cone="elliptic"', 'solver="CG"'):
      for caps in ({}, {"njmax": 0}, {"naconmax": 0}, {"njmax": 1, "naconmax": 1}):
        out.append(dict(model=model, opt=opt, sleep="off", caps=caps))
  if tier == "thorough":
    for opt8 in OPTS8:
      for integ in INTEG:
        out.append(dict(model="rich", opt=opt8 + " " + integ, sleep="off", caps={}))
        out.append(dict(model="rich", opt=opt8 + " " + integ, sleep="off", caps={"njmax": "fit-1", "naconmax": "fit-1"}))
    vals = [0, 1, 2, "fit-1", "fit"]
    for a, b in itertools.product(vals, vals):
      for opt in ('jacobian="dense"', 'jacobian="sparse"'):
        out.append(dict(model="rich", opt=opt, sleep="off", caps={"njmax": a, "naconmax": b}))
        if "sparse" in opt:
          out.append(dict(model="rich", opt=opt, sleep="off", caps={"njmax": a, "njmax_nnz": b}))
  # invalid configurations must be rejected with an exception
  for bad in ({"njmax": -1}, {"nconmax": -1}, {"naconmax": -1}, {"nworld": 0}, {"nvmax": 99}, {"nvmax": -1}, {"naccdmax": 10**6}):
    out.append(dict(model="rich", opt="", sleep="off", caps=bad, invalid=True))
  out.append(dict(model="rich", opt='solver="CG"', sleep="on", caps={}, invalid_model=True))
  return out


def crash_vkey(scn):
  caps = ",".join(f"{k}={v}" for k, v in sorted(scn["caps"].items()))
  return f"{scn['model']}:sleep={scn['sleep']}:{scn['opt']}:caps[{caps}]"


_FIT = {}


def _fit(model, opt, sleep, mjm, m, states):
  """Measured needs of the first step with ample capacities."""
  import mujoco_warp as mjw

  key = (model, opt, sleep)
  if key not in _FIT:
    d = mjw.make_data(mjm, nworld=2, naconmax=200, njmax=300)
    for w, s in enumerate(states):
      util.copy_state(s, d, world=w)
    mjw.forward(m, d)
    nefc = d.nefc.numpy()
    fit = dict(njmax=int(nefc.max()), naconmax=int(d.nacon.numpy()[0]))
    if m.is_sparse and nefc.max() > 0:
      rn = d.efc.J_rownnz.numpy()
      fit["njmax_nnz"] = int(max(rn[w, : nefc[w]].sum() for w in range(2)))
    else:
      fit["njmax_nnz"] = 0
    _FIT[key] = fit
  return _FIT[key]


def _states(model, mjm):
  import mujoco

  if model == "rich":
    return scenes.rich_states(mjm, 2, 0)
  if model == "small":
    return scenes.small_states(mjm, 2, 0)
  out = []
  for w in range(2):
    d = mujoco.MjData(mjm)
    if mjm.nq:
      d.qvel[:] = 0.1 * (w + 1)
    if model == "ngeom0":
      d.qpos[0] = 0.6
    out.append(d)
  return out


ALLOWED = (ValueError, NotImplementedError)


def execute(scn):
  import mujoco
  import warp as wp

  import mujoco_warp as mjw

  c = util.Cmp()
  xml = _xml(scn["model"], scn["opt"], scn["sleep"])
  mjm = util.load(xml)
  if scn.get("invalid_model"):
    try:
      mjw.put_model(mjm)
      c.fail("accepts:sleep+CG", "put_model accepted sleeping with the CG solver")
    except ALLOWED:
      pass
    return c.result(nontrivial=True, key=util.sha(scn), outcome="rejected_ok")
  m = mjw.put_model(mjm)
  m.opt.warn_overflow = False
  if scn.get("invalid"):
    kw = dict(scn["caps"])
    nworld = kw.pop("nworld", 2)
    try:
      mjw.make_data(mjm, nworld=nworld, **kw)
      c.fail(f"accepts_invalid:{sorted(scn['caps'])}", f"make_data accepted invalid configuration {scn['caps']}")
    except ALLOWED:
      pass
    return c.result(nontrivial=True, key=util.sha(scn), outcome="rejected_ok")

  states = _states(scn["model"], mjm)
  fit = _fit(scn["model"], scn["opt"], scn["sleep"], mjm, m, states)
  caps = {}
  for k, v in scn["caps"].items():
    if isinstance(v, str):
      v = max(0, fit[k] + (int(v[3:]) if len(v) > 3 else 0))
    caps[k] = v
  if "nvmax" in caps and caps["nvmax"] > mjm.nv:
    caps["nvmax"] = mjm.nv
  if "naccdmax" in caps and "naconmax" not in caps:
    pass
  try:
    d = mjw.make_data(mjm, nworld=2, **caps)
  except ALLOWED as e:
    return c.result(nontrivial=False, key=util.sha(scn), outcome="make_data_rejected", info=str(e)[:100])
  for w, s in enumerate(states):
    util.copy_state(s, d, world=w)

  calls = 0

  def run(name, fn):
    nonlocal calls
    try:
      fn()
      calls += 1
    except ALLOWED:
      calls += 1
    except Exception as e:
      c.fail(f"exception:{name}:{type(e).__name__}", f"{name} raised undocumented {type(e).__name__}: {str(e)[:200]}")

  run("step", lambda: mjw.step(m, d))
  run("forward", lambda: mjw.forward(m, d))
  run("step1", lambda: mjw.step1(m, d))
  run("step2", lambda: mjw.step2(m, d))
  run("inverse", lambda: mjw.inverse(m, d))
  run("reset_masked", lambda: mjw.reset_data(m, d, reset=wp.array(np.array([False, True]), dtype=bool)))
  run("step_after_reset", lambda: mjw.step(m, d))
  # state get/set with exact-size buffers
  for sig in (int(mjw.State.INTEGRATION), int(mjw.State.PHYSICS), 1 << 2, (1 << 13) | 1):
    n = mujoco.mj_stateSize(mjm, sig)
    buf = wp.zeros((2, n), dtype=float)
    run(f"get_state", lambda: mjw.get_state(m, d, buf, sig))
    run(f"set_state", lambda: mjw.set_state(m, d, buf, sig, active=wp.array(np.array([True, False]), dtype=bool)))
  run("step_after_set_state", lambda: mjw.step(m, d))
  # contact_force for every slot of the contact buffer (slots >= nacon hold stale or blank contacts)
  if d.naconmax > 0:
    ids = wp.array(np.arange(d.naconmax, dtype=np.int32), dtype=int)
    force = wp.zeros(d.naconmax, dtype=wp.spatial_vector)
    run("contact_force", lambda: mjw.contact_force(m, d, ids, False, force))
    run("contact_force_world", lambda: mjw.contact_force(m, d, ids, True, force))
  out = mujoco.MjData(mjm)
  for w in range(2):
    run("get_data_into", lambda: mjw.get_data_into(out, mjm, d, world_id=w))
  run("reset_all", lambda: mjw.reset_data(m, d))
  run("step_after_full_reset", lambda: mjw.step(m, d))
  ov = d.overflow.numpy().tolist()
  below = any(k in fit and caps[k] < fit[k] for k in caps) or bool(caps) or scn["sleep"] != "off"
  return c.result(nontrivial=below or scn["opt"] != "", key=util.sha(scn), outcome="survived", info=dict(caps=caps, fit=fit, overflow=ov, calls=calls))
