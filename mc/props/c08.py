"""C08 Time integration agrees with MuJoCo C.

Space: every DFS-ordered tree with <=3 bodies x every joint-kind assignment from {weld, hinge, ball, free,
hinge+slide} x joint damping {off, on} x actuator set {none, filter with actrange, filterexact with actrange (+actearly), integrator with
actrange, muscle} -> one model each; every model is stepped under 5 integrator configurations (Euler, Euler with
EULERDAMP disabled (damped models only), RK4, implicitfast, implicit) from 2 grid states (unnormalised quaternions, non-zero qvel,
ctrl, act; state 2 under applied generalized forces; one world each; in world 0 the limited activation starts next to its range so the clamp fires)
for k lock-step steps, and compared with mj_step after every step.
Oracle: mj_step: qpos, qvel, act, time, qacc_warmstart; class f32dyn, growing linearly with the step number.
"""

import numpy as np

from mc import space, util

ID = "C08"
LEVEL = "exploration"
RULE = (
  "enumerate trees(<=3) x joint kinds x damping x actuator set; each scenario runs 5 integrator configurations x 2 states x k "
  "steps against mj_step; non-trivial = nv>0, the reference state moved, and (Euler) the EULERDAMP flag / (others) the "
  "integrator changed the reference result whenever damping>0; distinct = hash of the scenario spec"
)
BOUNDS = {
  "quick": "N<=3 bodies (k=1 for N=3 with joint kinds {hinge, ball, free}; k=3 for N<=2 with {weld, hinge+slide} as well), "
  "5 integrator configurations, 2 states",
  "thorough": "N<=3 bodies, all 5 joint kinds, k=5 for all, 5 integrator configurations, 2 states, plus joint-limit variant (solver class)",
}
ASSUMPTIONS = [
  "MuJoCo C 3.13 mj_step is the reference; float32 vs float64 under class f32dyn = 2e-4*(1+max|ref|) per step "
  "(x step number for trajectories); class solver (2e-3) when joint limits are active (thorough only)",
  "no contacts (geoms do not collide): smooth dynamics + actuators only in quick",
  "real values from curated alphabets (VERIF_SEED mod 4), structure exhaustive; timestep 0.005",
  "a (configuration, state) is excluded only when MuJoCo raises a warning for it",
]
BUDGET = {"quick": 600, "thorough": 3000}

KINDS = ("weld", "hinge", "ball", "free", "hingeslide")
ACTS = ("none", "filter", "filterexact", "intlim", "muscle")
# (name, integrator, extra disable flags)
CONFIGS = (
  ("euler", "mjINT_EULER", 0),
  ("euler_noeulerdamp", "mjINT_EULER", "mjDSBL_EULERDAMP"),
  ("rk4", "mjINT_RK4", 0),
  ("implicitfast", "mjINT_IMPLICITFAST", 0),
  ("implicit", "mjINT_IMPLICIT", 0),
)


def scenarios(tier, seed):
  v = seed % 4
  out = []
  for parents in space.trees_upto(3):
    n = len(parents)
    k = 5 if tier == "thorough" else (1 if n == 3 else 3)
    kinds = KINDS if (tier == "thorough" or n < 3) else KINDS[1:4]  # quick: welded and two-joint bodies only in trees of <=2 bodies
    for joints in space.joint_assignments(parents, kinds=kinds):
      for damp in (0, 1):
        for act in ACTS:
          out.append(dict(parents=list(parents), joints=list(joints), damp=damp, act=act, k=k, limits=0, variant=v))
      # polynomial (velocity-dependent) joint damping: the Euler implicit-damping matrix uses d(force)/d(vel), which needs |v|
      # for the quadratic term -- states carry velocities of both signs
      out.append(dict(parents=list(parents), joints=list(joints), damp=2, act="none" if "none" in ACTS else ACTS[0], k=k, limits=0, variant=v))
      if tier == "thorough":
        out.append(dict(parents=list(parents), joints=list(joints), damp=1, act="filter", k=5, limits=1, variant=v))
  return out


def _target(joints):
  """First joint with dofs: (name, kind)."""
  for i, kd in enumerate(joints, 1):
    if kd in ("hinge", "ball", "free", "hingeslide", "slide"):
      return f"j{i}", ("hinge" if kd == "hingeslide" else kd)
  return None, None


def _actuators(scn):
  name, kind = _target(scn["joints"])
  v = scn["variant"]
  gear = {"hinge": "1.3", "slide": "1.3", "ball": "1 0.5 -0.7", "free": "0.4 -0.3 0.6 0.2 0.5 -0.3"}[kind]
  j = f'joint="{name}" gear="{gear}"'
  tau = (0.03, 0.012, 0.06, 0.02)[v]
  if scn["act"] == "none":
    return ""
  if scn["act"] == "filter":
    a = f'<general {j} dyntype="filter" dynprm="{tau}" gainprm="1.5" biastype="affine" biasprm="0.1 -0.5 -1.5" actlimited="true" actrange="-0.5 0.45"/>'
  elif scn["act"] == "filterexact":
    a = (
      f'<general {j} dyntype="filterexact" dynprm="{tau * 0.6:g}" gainprm="-0.8" biastype="affine" biasprm="0 0 -1.2" actlimited="true" actrange="-0.45 0.5"/>'
      f'<general {j} dyntype="filterexact" dynprm="{tau:g}" gainprm="0.5" actearly="true"/>'
    )
  elif scn["act"] == "intlim":
    a = (
      f'<general {j} dyntype="integrator" actlimited="true" actrange="-0.5 0.5" gainprm="1.2" biastype="affine" '
      f'biasprm="0 -1.2 -1.5"/>'
    )
  else:
    a = (
      f'<general {j} dyntype="muscle" gaintype="muscle" biastype="muscle" dynprm="0.01 0.04 {(0, 0.3, 0, 0.5)[v]}" '
      f'gainprm="0.75 1.05 3 200 0.5 1.6 1.5 1.3 1.2" biasprm="0.75 1.05 3 200 0.5 1.6 1.5 1.3 1.2" lengthrange="-1.5 2.5"/>'
    )
  return f"<actuator>{a}</actuator>"


def build_xml(scn):
  v = scn["variant"]

  def jattr(i, kind):
    if scn["damp"] == 2:
      b0 = (0.4, 0.25, 0.6, 0.15)[v]
      s = f'damping="{b0} {1.5 * b0:.3g} {0.5 * b0:.3g}" armature="0.02"'
    else:
      s = f'damping="{(0.4, 0.25, 0.6, 0.15)[v]}" armature="0.02"' if scn["damp"] else 'armature="0.02"'
    if scn.get("limits") and kind in ("hinge", "hingeslide"):
      s += ' limited="true" range="-0.75 0.6"'
    return s

  return space.tree_xml(
    scn["parents"], scn["joints"], variant=v, joint_attrs=jattr, sections=_actuators(scn), option='<option timestep="0.005"/>'
  )


def _inputs(mjm, scn, which):
  v = scn["variant"]
  qpos, qvel = space.state_grid(scn["joints"], v, which)
  ctrl = [(1.7, -0.6, 0.9, -1.4)[(v + which + u) % 4] for u in range(mjm.nu)]
  if scn["act"] == "intlim":
    act = [0.4975 if which == 1 else -0.2]  # state 1: the clamp at +0.5 fires within the first step (ctrl>0)
    if which == 1:
      ctrl = [abs(c) + 0.5 for c in ctrl]
  else:
    act = [(0.3, 0.7, 0.15, 0.5)[(v + which + a) % 4] for a in range(mjm.na)]
  # state 2 is under load: generalized forces that change qvel by O(1) in one step (velocity-implicit terms only show then)
  frc = [0.0] * mjm.nv if which == 1 else [(4.5, -6.0, 3.0)[(i + v) % 3] for i in range(mjm.nv)]
  return qpos, qvel, ctrl, act, frc


def execute(scn):
  import mujoco
  import mujoco_warp as mjw

  mjm, err = util.try_load(build_xml(scn))
  key = util.sha(scn)
  if mjm is None:
    return dict(ok=True, nontrivial=False, outcome="rejected_by_compiler", key=key, info=dict(err=err))
  if mjm.nv == 0:
    return dict(ok=True, nontrivial=False, outcome="degenerate", key=key, info=dict(nv=0))
  c = util.Cmp()
  K = scn["k"]
  tolclass = "solver" if scn.get("limits") else "f32dyn"
  base = int(mjm.opt.disableflags)
  m = mjw.put_model(mjm)
  inputs = [_inputs(mjm, scn, which) for which in (1, 2)]
  rot3 = f":rot3={int(any(k in ('ball', 'free') for k in scn['joints']))}"  # 3-dof rotations present (gyroscopic torques)
  final = {}  # config -> reference end state (to show that the configurations differ)
  ndeg = 0
  moved = False
  for name, integ, dis in CONFIGS:
    if dis and not scn["damp"]:
      continue  # EULERDAMP only matters with joint damping (the undamped Euler run is the same computation)
    flags = base | (int(getattr(mujoco.mjtDisableBit, dis)) if dis else 0)
    mjm.opt.integrator = int(getattr(mujoco.mjtIntegrator, integ))
    mjm.opt.disableflags = flags
    m.opt.integrator = int(mjm.opt.integrator)
    m.opt.disableflags = flags
    # reference trajectories
    refs, good = [], []
    for qpos, qvel, ctrl, act, frc in inputs:
      mjd = util.mj_data(mjm, qpos=qpos, qvel=qvel, ctrl=ctrl if mjm.nu else None, act=act if mjm.na else None, qfrc_applied=frc)
      traj, ok = [], True
      for _ in range(K):
        mujoco.mj_step(mjm, mjd)
        if util.mj_warnings(mjd):
          ok = False
          break
        traj.append(dict(qpos=mjd.qpos.copy(), qvel=mjd.qvel.copy(), act=mjd.act.copy(), time=float(mjd.time), qacc_warmstart=mjd.qacc_warmstart.copy()))
      refs.append(traj)
      good.append(ok)
    ndeg += good.count(False)
    # implicit only: does the Coriolis/centrifugal velocity derivative matter here (reference implicit != implicitfast)?
    cor = ["", ""]
    if name == "implicit":
      for w in (0, 1):
        fast = final.get(("implicitfast", w))
        on = good[w] and fast is not None and np.abs(refs[w][-1]["qvel"] - fast["qvel"]).max() > 1e-9
        cor[w] = f":coriolis={int(bool(on))}"
    # MJWarp, both states as two worlds
    d = mjw.make_data(mjm, nworld=2)  # (reset_data re-builds a kernel on every call: ~20 ms)
    for w, (qpos, qvel, ctrl, act, frc) in enumerate(inputs):
      mjd0 = util.mj_data(mjm, qpos=qpos, qvel=qvel, ctrl=ctrl if mjm.nu else None, act=act if mjm.na else None, qfrc_applied=frc)
      util.copy_state(mjd0, d, world=w)
    for step in range(1, K + 1):
      mjw.step(m, d)
      got = dict(qpos=d.qpos.numpy(), qvel=d.qvel.numpy(), act=d.act.numpy(), time=d.time.numpy(), qacc_warmstart=d.qacc_warmstart.numpy())
      for w in (0, 1):
        if not good[w]:
          continue
        r = refs[w][step - 1]
        tol = util.TOL[tolclass] * step
        pre = f"{name}:state{w + 1}:step{step}:"
        cls = f"{name}{cor[w]}{rot3 if name.startswith('implicit') else ''}:act={scn['act']}:damp={scn['damp']}"
        skew = name == "implicitfast" and "rot3=1" in cls
        for f in ("qpos", "qvel", "qacc_warmstart"):
          if skew:
            # known version skew (implicit gyroscopic term, listed finding) moves the result by <= ~2e-3 relative: compare at
            # 25x the tolerance first, so that anything grosser than the known deviation keeps its own (unlisted) key
            if not c.close(pre + f, got[f][w], r[f], 25 * tol, vkey=f"{f}:{cls}:beyond_known_skew".replace("rot3=1", "rot3=one")):
              continue
          c.close(pre + f, got[f][w], r[f], tol, vkey=f"{f}:{cls}")
        if mjm.na:
          c.close(pre + "act", got["act"][w], r["act"], tol, vkey=f"act:{cls}")
        c.close(pre + "time", got["time"][w], r["time"], "f32", vkey=f"time:{name}")
    for w in (0, 1):
      if good[w]:
        final[(name, w)] = refs[w][-1]
        v0 = inputs[w][1]
        if np.abs(refs[w][-1]["qvel"] - np.array(v0)).max() > 1e-6:
          moved = True
  mjm.opt.disableflags = base
  # the configurations are really different computations (else a wrong integrator dispatch would be invisible)
  distinct = True
  for w in (0, 1):
    e, r4, imf = final.get(("euler", w)), final.get(("rk4", w)), final.get(("implicitfast", w))
    if e is None or r4 is None or imf is None:
      continue
    if np.abs(e["qvel"] - r4["qvel"]).max() < 1e-7:
      distinct = False
    if scn["damp"]:
      en = final.get(("euler_noeulerdamp", w))
      if en is not None and np.abs(e["qvel"] - en["qvel"]).max() < 1e-7:
        distinct = False
  return c.result(
    nontrivial=moved and distinct,
    key=key,
    outcome="ok",
    info=dict(nv=int(mjm.nv), nu=int(mjm.nu), na=int(mjm.na), checked=c.nchecked, maxrel=float(f"{c.maxrel:.3g}")),
    counts=dict(extra_evaluations=(len(CONFIGS) - (0 if scn['damp'] else 1)) * 2 * K - 1, states_degenerate=ndeg),
  )
