"""C07 Sensors and energy agree with MuJoCo C.

Space (all enumerated, nothing sampled):
  * family "tree": two 4-body models (chain free>hinge>ball + separate slide tree; branch
    hinge>{hinge+slide, ball} + separate free body), each body carrying a geom, two sites (one typed/sized),
    a camera; limited and sprung joints, a fixed and a spatial tendon (limited, sprung), three actuators.
    One sensor at a time: every SensorType MuJoCo can compile without a plugin x every attachable object
    of the legal kind x every legal (objtype, reftype) pair for frame/insidesite/geom-distance sensors
    x cutoff in {0, small positive}.
  * family "scene": contact scene (floor, free sphere with a child sphere, a third sphere touching it):
    contact sensors over every (obj spec, ref spec) in {none, geom, body, subtree, site} x {none, geom,
    body, subtree} x reduce {none, mindist, maxforce, netforce} x two data specs; touch, rangefinder
    (site / camera / every `data` field), geom distance, tactile.
  * family "pair": ordered pairs of sensors (address bookkeeping between stages).
  * energy: ENERGY flag on/off for every scenario with energy sensors or no sensor; alternating otherwise.
Each scenario evaluates 3 states on one reused Data (nworld=2, a different state in world 1), through
mjw.forward and through the staged sensor_pos/vel/acc entry points.
Oracle: mj_forward sensordata and energy.
"""

import itertools

import numpy as np

from mc import space, util

ID = "C07"
LEVEL = "exploration"
RULE = (
  "enumerate every sensor type MuJoCo compiles x attachable object x legal (objtype, reftype) x cutoff {0,>0} x "
  "energy flag, one sensor per model (plus ordered pairs), 3 states x 2 worlds each; non-trivial = the reference "
  "sensordata (or energy) is non-zero in at least one state and differs between states; distinct = hash of the spec"
)
BOUNDS = {
  "quick": "2 tree bases + contact scene; one sensor per model; ordered pairs over 14 stage representatives; 3 states x 2 worlds",
  "thorough": "same + both object placements for frame sensors, ordered pairs over one representative per sensor type",
}
ASSUMPTIONS = [
  "MuJoCo C 3.13 mj_forward is the reference; classes f32dyn (2e-4) for position/velocity/actuator sensors and energy, "
  "solver (2e-3) for sensors downstream of the constraint solver (acc stage, limit/contact forces)",
  "PLUGIN sensors are not enumerated (no plugin library is loaded); USER sensors are compared without a callback (zeros)",
  "contact sensors with reduce=none are compared as a multiset of slots (contact order is not part of the property)",
  "states keep every contact >= 5e-3 inside its margin so contact presence is not a boundary case",
  "CPU backend only; real values from curated alphabets (VERIF_SEED mod 4), structure exhaustive",
]
BUDGET = {"quick": 600, "thorough": 3000}

OBJT = ("body", "xbody", "geom", "site", "camera")

# ------------------------------------------------------------------------------------------- models

BASES = {
  # parents, joints
  "chain": ((0, 1, 2, 0), ("free", "hinge", "ball", "slide")),
  "branch": ((0, 1, 1, 0), ("hinge", "hingeslide", "ball", "free")),
}
SITE_TYPES = ("sphere", "box", "capsule", "ellipsoid", "cylinder")
SITE_SIZES = {"sphere": "0.45", "box": "0.4 0.45 0.3", "capsule": "0.3 0.4", "ellipsoid": "0.45 0.3 0.5", "cylinder": "0.4 0.3"}


def _tree_objects(base):
  parents, joints = BASES[base]
  scal, ball = [], []
  for i, k in enumerate(joints, 1):
    if k in ("hinge", "slide"):
      scal.append(f"j{i}")
    elif k == "hingeslide":
      scal += [f"j{i}", f"j{i}b"]
    elif k == "ball":
      ball.append(f"j{i}")
  n = len(parents)
  return dict(
    n=n,
    joints=joints,
    scal=scal,
    ball=ball,
    site=[f"s{i}" for i in range(1, n + 1)] + [f"z{i}" for i in range(1, n + 1)] + ["sw"],
    zsite=[f"z{i}" for i in range(1, n + 1)] + ["sw"],
    body=[f"b{i}" for i in range(1, n + 1)],
    geom=[f"g{i}" for i in range(1, n + 1)],
    camera=[f"c{i}" for i in range(1, n + 1)],
    tendon=["t0", "t1"],
    actuator=["a0", "a1", "a2"],
  )


def _obj(o, typ, i):
  """Name of the object of kind `typ` attached to body i (1-based)."""
  return {"body": f"b{i}", "xbody": f"b{i}", "geom": f"g{i}", "site": f"s{i}", "camera": f"c{i}"}[typ]


def tree_xml(base, variant, energy, sensors):
  parents, joints = BASES[base]
  o = _tree_objects(base)

  def body_extra(i):
    st = SITE_TYPES[(i + variant) % 5]
    p, q = space.pose_of(i + 1, variant)
    return (
      f'<camera name="c{i}" pos="0.1 -0.2 0.15" quat="0.8 0.36 -0.48 0" fovy="{40 + 7 * i}" resolution="{16 * i} {12 + i}"/>'
      f'<site name="z{i}" type="{st}" size="{SITE_SIZES[st]}" pos="{space.fmt(tuple(0.2 * x for x in p))}" quat="{space.fmt(q)}"/>'
    )

  def joint_attrs(i, kind):
    if kind in ("hinge", "slide", "hingeslide"):
      return 'limited="true" range="-0.5 0.3" stiffness="3.5" springref="0.15" damping="0.2" armature="0.05"'
    if kind == "ball":
      return 'stiffness="2.5" damping="0.1" limited="true" range="0 0.6"'
    return 'stiffness="1.5"' if variant % 2 else ""

  world = (
    '<geom name="floor" type="plane" size="3 3 0.1" pos="0 0 -0.4" contype="0" conaffinity="0"/>'
    '<site name="sw" type="box" size="0.6 0.5 0.45" pos="0.1 0.05 0.2" quat="0.9238795 0.2209424 0.2209424 0.2209424"/>'
    '<camera name="cw" pos="0.5 -1.5 1.0" xyaxes="1 0.2 0 0 0.5 1" sensorsize="0.03 0.02" focal="0.04 0.045" resolution="64 48"/>'
  )
  s0, s1 = o["scal"][0], o["scal"][-1]
  sections = (
    "<tendon>"
    f'<fixed name="t0" limited="true" range="-0.3 0.25" stiffness="4 1.5 -0.8" springlength="0.05 0.1"><joint joint="{s0}" coef="0.8"/><joint joint="{s1}" coef="-1.3"/></fixed>'
    '<spatial name="t1" limited="true" range="0.1 0.55" stiffness="6 2.5 1.2" springlength="0.2"><site site="s1"/><site site="s3"/><site site="s4"/></spatial>'
    "</tendon>"
    "<actuator>"
    f'<motor name="a0" joint="{s0}" gear="1.3"/>'
    '<position name="a1" tendon="t0" kp="7" kv="0.5"/>'
    '<motor name="a2" tendon="t1" gear="0.7"/>'
    "</actuator>"
    f"<sensor>{''.join(sensors)}</sensor>"
  )
  option = (
    f'<option gravity="0.4 -0.7 -9.1" magnetic="0.1 -0.45 0.3" timestep="0.002"><flag energy="{"enable" if energy else "disable"}"/></option>'
  )
  return space.tree_xml(
    parents, joints, variant=variant, body_extra=body_extra, joint_attrs=joint_attrs, world_extra=world, sections=sections, option=option
  )


def scene_xml(variant, energy, sensors, cone="pyramidal"):
  """Floor + free sphere (child sphere on a hinge) + sliding sphere touching it: three well-conditioned contacts."""
  r = (0.1, 0.11, 0.09, 0.12)[variant]
  # the mesh body exists only for sensors that name it: plane-mesh contact *counts* legitimately differ between the
  # engines (C04's subject), which would perturb every contact-sensor slot list
  mesh = any('"gt"' in s or '"tm"' in s for s in sensors)
  meshbody = (
    '<body name="pt" pos="0.7 0.6 0.07"><joint name="jt" type="slide" axis="0 0 1"/><geom name="gt" type="mesh" mesh="tm" mass="0.4"/></body>'
    if mesh
    else '<body name="pt" pos="0.7 0.6 0.3"><joint name="jt" type="slide" axis="0 0 1"/><geom name="gt" type="sphere" size="0.05" mass="0.4"/></body>'
  )
  return f"""<mujoco><compiler angle="radian"/>
  <option gravity="0 0 -9.81" cone="{cone}" timestep="0.002"><flag energy="{"enable" if energy else "disable"}"/></option>
  <asset><mesh name="tm" builtin="sphere" params="1" scale="0.08 0.08 0.08"/></asset>
  <worldbody>
    <geom name="floor" type="plane" size="3 3 0.1"/>
    <camera name="cw" pos="0.1 -0.9 0.6" xyaxes="1 0 0 0 0.6 0.8" resolution="3 2" fovy="50"/>
    <site name="sw" type="box" size="0.5 0.5 0.05" pos="0 0 0"/>
    <body name="pa" pos="0 0 {r - 0.01:.4g}">
      <freejoint name="ja"/>
      <geom name="ga" type="sphere" size="{r}" mass="1.2"/>
      <site name="sa" type="box" size="{0.6 * r:.4g} {0.6 * r:.4g} {0.25 * r:.4g}" pos="0 0 {-r:.4g}"/>
      <site name="sd" pos="0.01 0.02 {-0.5 * r:.4g}" quat="0 1 0 0" size="0.01"/>
      <camera name="ca" pos="0 0 {2 * r:.4g}" quat="1 0 0 0" resolution="3 2" fovy="60"/>
      <body name="pc" pos="{2.4 * r:.4g} 0.03 0.0">
        <joint name="jc" type="hinge" axis="0 1 0" pos="{-2.4 * r:.4g} 0 0"/>
        <geom name="gc" type="sphere" size="{r + 0.004:.4g}" mass="0.7"/>
        <site name="sc" type="sphere" size="{0.5 * r:.4g}" pos="0 0 {-r:.4g}"/>
      </body>
    </body>
    <body name="pb" pos="{-2 * r + 0.012:.4g} 0.02 {r + 0.03:.4g}">
      <joint name="jb" type="slide" axis="1 0 0"/>
      <geom name="gb" type="sphere" size="{r}" mass="0.9"/>
      <site name="sb" type="sphere" size="{0.7 * r:.4g}" pos="{r:.4g} 0 0"/>
    </body>
    {meshbody}
  </worldbody>
  <sensor>{"".join(sensors)}</sensor>
  </mujoco>"""


SCENE_STATES = (
  # qpos offsets (dx, dy, dz, quat) for ja, jc, jb, jt ; qvel
  dict(ja=(0, 0, 0, 1, 0, 0, 0), jc=0.0, jb=0.0, jt=0.0, v=0.0),
  dict(ja=(0.004, -0.003, -0.008, 0.995, 0.05, -0.06, 0.04), jc=0.03, jb=0.006, jt=-0.004, v=1.0),
  dict(ja=(-0.003, 0.004, 0.005, 0.99, -0.08, 0.07, 0.06), jc=-0.02, jb=-0.004, jt=0.002, v=-0.6),
)


def _scene_state(mjm, which, variant):
  s = SCENE_STATES[which]
  qpos = np.array(mjm.qpos0)
  qpos[0:3] += s["ja"][0:3]
  qpos[3:7] = s["ja"][3:7]
  qpos[7] += s["jc"]
  qpos[8] += s["jb"]
  qpos[9] += s["jt"]
  vs = space.QVEL_SCALAR[variant]
  qvel = np.array([0.1, -0.2, 0.15, 0.5, -0.4, 0.3, vs[1] * 0.3, vs[2] * 0.2, 0.1]) * s["v"]
  return qpos, qvel


# ------------------------------------------------------------------------------------------- sensor alphabets


def _cut(c):
  return f' cutoff="{c}"' if c else ""


NOCUT = ("ballquat", "framequat", "framexaxis", "frameyaxis", "framezaxis")  # MuJoCo rejects a cutoff on axis / quaternion data


def _cutm(c, tag):
  """Cutoff attribute for multi-sensor models: never on a type the compiler would reject (that would void the whole model)."""
  return "" if tag.split(":")[0] in NOCUT else _cut(c)


def tree_sensors(base, tier):
  """[(tag, xml-without-cutoff-closing)] every single sensor of the tree family; '{C}' marks the cutoff slot."""
  o = _tree_objects(base)
  n = o["n"]
  out = []
  sites3 = o["site"][:3] + [o["zsite"][1]]
  for el in ("touch", "accelerometer", "velocimeter", "gyro", "force", "torque", "magnetometer", "rangefinder"):
    for s in sites3:
      out.append((el, f'<{el} site="{s}"{{C}}/>'))
  for s, c in itertools.product(("s1", "s3", "z2"), ("c1", "c2", "cw")):
    out.append(("camprojection", f'<camprojection site="{s}" camera="{c}"{{C}}/>'))
  for el in ("jointpos", "jointvel", "jointactuatorfrc", "jointlimitpos", "jointlimitvel", "jointlimitfrc"):
    for j in o["scal"]:
      out.append((el, f'<{el} joint="{j}"{{C}}/>'))
  for el in ("ballquat", "ballangvel"):
    for j in o["ball"]:
      out.append((el, f'<{el} joint="{j}"{{C}}/>'))
  for el in ("tendonpos", "tendonvel", "tendonactuatorfrc", "tendonlimitpos", "tendonlimitvel", "tendonlimitfrc"):
    for t in o["tendon"]:
      out.append((el, f'<{el} tendon="{t}"{{C}}/>'))
  for el in ("actuatorpos", "actuatorvel", "actuatorfrc"):
    for a in o["actuator"]:
      out.append((el, f'<{el} actuator="{a}"{{C}}/>'))
  # frame sensors with reference: all (objtype, reftype) incl. no reference
  placements = [(3, 2), (1, 3), (4, 2)] if tier == "thorough" else None
  for el in ("framepos", "framequat", "framexaxis", "frameyaxis", "framezaxis", "framelinvel", "frameangvel"):
    for a, ot in enumerate(OBJT):
      for b, rt in enumerate((None,) + OBJT):
        pl = placements or [((3, 2), (1, 3), (4, 2))[(a + b) % 3]]
        for oi, ri in pl:
          ref = f' reftype="{rt}" refname="{_obj(o, rt, ri)}"' if rt else ""
          out.append((f"{el}:{ot}:{rt}", f'<{el} objtype="{ot}" objname="{_obj(o, ot, oi)}"{ref}{{C}}/>'))
  for el in ("framelinacc", "frameangacc"):
    for ot in OBJT:
      for i in range(1, n + 1):
        out.append((f"{el}:{ot}", f'<{el} objtype="{ot}" objname="{_obj(o, ot, i)}"{{C}}/>'))
  for el in ("subtreecom", "subtreelinvel", "subtreeangmom"):
    for b in ["world"] + o["body"]:
      out.append((el, f'<{el} body="{b}"{{C}}/>'))
  for a, ot in enumerate(OBJT):
    for b, s in enumerate(o["zsite"]):
      i = 1 + (a + b) % n
      out.append((f"insidesite:{ot}", f'<insidesite site="{s}" objtype="{ot}" objname="{_obj(o, ot, i)}"{{C}}/>'))
  for el in ("distance", "normal", "fromto"):
    for k1, k2 in itertools.product(("geom", "body"), repeat=2):
      for i, j in ((1, 3), (4, 2), (2, 1)):
        a = f"g{i}" if k1 == "geom" else f"b{i}"
        b = f"g{j}" if k2 == "geom" else f"b{j}"
        out.append((f"{el}:{k1}:{k2}", f'<{el} {k1}1="{a}" {k2}2="{b}"{{C}}/>'))
    out.append((f"{el}:geom:geom", f'<{el} geom1="floor" geom2="g4"{{C}}/>'))
    out.append((f"{el}:geom:geom", f'<{el} geom1="g3" geom2="floor"{{C}}/>'))
  for el in ("e_potential", "e_kinetic", "clock"):
    out.append((el, f"<{el}{{C}}/>"))
  for stage in ("pos", "vel", "acc"):
    out.append(("user", f'<user objtype="site" objname="s2" dim="2" needstage="{stage}" datatype="real"{{C}}/>'))
  return out


CONTACT_OBJ = {
  "none": "",
  "geom": 'geom1="ga"',
  "body": 'body1="pa"',
  "subtree": 'subtree1="pa"',
  "site": 'site="sw"',
}
CONTACT_REF = {"none": "", "geom": 'geom2="floor"', "body": 'body2="world"', "subtree": 'subtree2="pb"'}
CONTACT_REF_ALT = {"none": "", "geom": 'geom2="gb"', "body": 'body2="pc"', "subtree": 'subtree2="world"'}
DATAS = ("found force torque dist pos normal tangent", "dist normal", "found", "torque pos tangent")


def scene_sensors(tier):
  out = []
  k = 0
  for ok, ov in CONTACT_OBJ.items():
    for rk in CONTACT_REF:
      for red in ("none", "mindist", "maxforce", "netforce"):
        for alt in (0, 1):
          rv = (CONTACT_REF_ALT if alt else CONTACT_REF)[rk]
          if alt and rk == "none":
            ov2 = {"geom": 'geom1="gc"', "body": 'body1="world"', "subtree": 'subtree1="pc"', "site": 'site="sa"', "none": None}[ok]
            if ov2 is None:
              continue
          else:
            ov2 = ov
          datas = DATAS if tier == "thorough" else (DATAS[0], DATAS[1 + k % 3])
          k += 1
          for data in datas:
            for num in (1, 3):
              if num == 1 and data != DATAS[0]:
                continue
              out.append((f"contact:{ok}:{rk}:{red}", f'<contact {ov2} {rv} reduce="{red}" data="{data}" num="{num}"{{C}}/>'))
  for s in ("sa", "sc", "sb", "sd"):
    out.append(("touch", f'<touch site="{s}"{{C}}/>'))
    out.append(("rangefinder:site", f'<rangefinder site="{s}"{{C}}/>'))
    out.append(("force", f'<force site="{s}"{{C}}/>'))
    out.append(("torque", f'<torque site="{s}"{{C}}/>'))
    out.append(("accelerometer", f'<accelerometer site="{s}"{{C}}/>'))
  for c in ("ca", "cw"):
    out.append(("rangefinder:camera", f'<rangefinder camera="{c}"{{C}}/>'))
  for data in ("dist", "dir", "origin", "point", "normal", "depth", "dist point normal"):
    out.append((f"rangefinder:data={data.replace(' ', '+')}", f'<rangefinder site="sd" data="{data}"{{C}}/>'))
  for el in ("distance", "normal", "fromto"):
    for a, b in (('geom1="ga"', 'geom2="gb"'), ('geom1="gb"', 'geom2="gc"'), ('body1="pa"', 'geom2="floor"'), ('geom1="gt"', 'body2="pa"'), ('body1="pb"', 'body2="pa"')):
      out.append((f"{el}:scene", f"<{el} {a} {b}{{C}}/>"))
  out.append(("tactile", '<tactile geom="ga" mesh="tm"{C}/>'))
  out.append(("tactile", '<tactile geom="gt" mesh="tm"{C}/>'))
  for el in ("jointlimitfrc", "e_potential", "e_kinetic"):
    pass
  return out


# one representative per sensor type (tree family) for the pair enumeration
def _representatives(base, tier):
  seen, out = set(), []
  for tag, x in tree_sensors(base, "quick"):
    t = tag.split(":")[0]
    if t not in seen:
      seen.add(t)
      out.append((tag, x))
  return out


QUICK_PAIR_TYPES = (
  "touch", "rangefinder", "jointlimitpos", "tendonlimitvel", "tendonactuatorfrc", "jointlimitfrc", "framequat",
  "distance", "fromto", "e_potential", "e_kinetic", "user", "subtreeangmom", "accelerometer",
)  # fmt: skip


def scenarios(tier, seed):
  variant = seed % 4
  out = []
  # no-sensor models (energy only)
  for base in BASES:
    for energy in (0, 1):
      out.append(dict(fam="tree", base=base, variant=variant, energy=energy, tags=[], sensors=[]))
  idx = 0
  for base in BASES:
    for tag, x in tree_sensors(base, tier):
      t = tag.split(":")[0]
      cuts = (0, 0.6, 10) if t in ("distance", "normal", "fromto") else (0, 0.15)
      for cut in cuts:
        energies = (0, 1) if t in ("e_potential", "e_kinetic", "clock") else ((idx % 2),)
        idx += 1
        for energy in energies:
          out.append(dict(fam="tree", base=base, variant=variant, energy=energy, tags=[tag], sensors=[x.replace("{C}", _cut(cut))], cut=cut))
  for cone in ("pyramidal", "elliptic"):
    for tag, x in scene_sensors(tier):
      t = tag.split(":")[0]
      if cone == "elliptic" and t not in ("contact", "touch", "force", "tactile"):
        continue
      cuts = (0, 0.05, 10) if t in ("distance", "normal", "fromto") else (0, 0.4)
      for cut in cuts:
        idx += 1
        out.append(dict(fam="scene", cone=cone, variant=variant, energy=idx % 2, tags=[tag], sensors=[x.replace("{C}", _cut(cut))], cut=cut))
  # ordered pairs (tree family)
  for base in BASES if tier == "thorough" else ("chain",):
    reps = _representatives(base, tier)
    if tier != "thorough":
      reps = [r for r in reps if r[0].split(":")[0] in QUICK_PAIR_TYPES]
    for (t1, x1), (t2, x2) in itertools.product(reps, repeat=2):
      idx += 1
      c1, c2 = (0.15, 0) if idx % 2 else (0, 0.15)
      out.append(
        dict(fam="tree", base=base, variant=variant, energy=idx % 2, tags=[t1, t2], sensors=[x1.replace("{C}", _cutm(c1, t1)), x2.replace("{C}", _cutm(c2, t2))], pair=True)
      )
  # joint #k and tendon #k share the object id k: both limit sensors present (both orders), every stage
  for base in BASES:
    o = _tree_objects(base)
    parents, joints = BASES[base]
    jid, k = {}, 0
    for i, kind in enumerate(joints, 1):
      for nm in {"hingeslide": (f"j{i}", f"j{i}b"), "weld": (), "mocap": ()}.get(kind, (f"j{i}",)):
        jid[nm] = k
        k += 1
    for tid, t in enumerate(o["tendon"]):
      for j in o["scal"]:
        if jid[j] != tid:
          continue
        for st in ("pos", "vel", "frc"):
          a, b = f'<jointlimit{st} joint="{j}"{{C}}/>', f'<tendonlimit{st} tendon="{t}"{{C}}/>'
          for pair in ((a, b), (b, a)):
            for cut in (0, 0.15):
              idx += 1
              out.append(
                dict(fam="tree", base=base, variant=variant, energy=idx % 2, tags=[f"jointlimit{st}", f"tendonlimit{st}"], sensors=[x.replace("{C}", _cut(cut)) for x in pair], pair=True, idclash=1)
              )
  # everything at once, rotated (addresses of every stage list interleaved)
  for base in BASES:
    reps = _representatives(base, tier)
    for rot in range(0, len(reps), 7):
      rr = reps[rot:] + reps[:rot]
      out.append(
        dict(fam="tree", base=base, variant=variant, energy=rot % 2, tags=[t for t, _ in rr], sensors=[x.replace("{C}", _cutm(0.15 if (i + rot) % 3 == 0 else 0, t)) for i, (t, x) in enumerate(rr)], pair=True)
      )
  return out


# ------------------------------------------------------------------------------------------- execution

SOLVER_TYPES = {
  "TOUCH", "CONTACT", "ACCELEROMETER", "FORCE", "TORQUE", "JOINTLIMITFRC", "TENDONLIMITFRC", "FRAMELINACC", "FRAMEANGACC", "TACTILE",
}  # fmt: skip


def build_xml(scn):
  if scn["fam"] == "tree":
    return tree_xml(scn["base"], scn["variant"], scn["energy"], scn["sensors"])
  return scene_xml(scn["variant"], scn["energy"], scn["sensors"], scn.get("cone", "pyramidal"))


def _state(scn, mjm, which):
  if scn["fam"] == "tree":
    joints = BASES[scn["base"]][1]
    qpos, qvel = space.state_grid(joints, scn["variant"], which)
    if which == 0:
      qpos = list(mjm.qpos0)
    ctrl = [0.0] * mjm.nu if which == 0 else [(0.6, -0.9, 0.4)[(which + a) % 3] for a in range(mjm.nu)]
    return np.array(qpos), np.array(qvel), np.array(ctrl)
  qpos, qvel = _scene_state(mjm, which, scn["variant"])
  return qpos, qvel, np.zeros(mjm.nu)


def _slots(x, size):
  x = np.asarray(x, np.float64).reshape(-1, size)
  keys = [tuple(np.round(r, 3)) for r in x]
  return x[sorted(range(len(keys)), key=lambda i: keys[i])].reshape(-1)


# Witness points of an iterative (GJK) distance query converge like sqrt(distance tolerance): on the unchanged tree the
# distance itself agrees to 1e-6 while normal / fromto of smooth convex pairs differ by up to ~1e-3 (float32 GJK).
CCD_WITNESS_TOL = 5e-3


def _witness_ill_conditioned(mjm, r, adr):
  """MuJoCo's testimony that a fromto witness is not unique: it moves by >0.02 when every dof moves by ~1e-4."""
  import mujoco

  dq = 1e-4 * np.array([(1.0, -0.7, 0.45, -0.85, 0.6)[k % 5] for k in range(mjm.nv)])
  for sign in (1.0, -1.0):
    d2 = mujoco.MjData(mjm)
    d2.qpos[:] = r.qpos
    mujoco.mj_integratePos(mjm, d2.qpos, sign * dq, 1.0)
    mujoco.mj_forward(mjm, d2)
    if np.max(np.abs(d2.sensordata[adr : adr + 6] - r.sensordata[adr : adr + 6])) > 0.02:
      return True
  return False


def _analytic_pair(mjm, i):
  """True if every geom pair the distance sensor can select is handled in closed form by both engines."""
  import mujoco

  prim = (mujoco.mjtGeom.mjGEOM_PLANE, mujoco.mjtGeom.mjGEOM_SPHERE, mujoco.mjtGeom.mjGEOM_CAPSULE)

  def geoms(t, k):
    if t == mujoco.mjtObj.mjOBJ_BODY:
      return range(mjm.body_geomadr[k], mjm.body_geomadr[k] + mjm.body_geomnum[k])
    return [k]

  gs = list(geoms(mjm.sensor_objtype[i], mjm.sensor_objid[i])) + list(geoms(mjm.sensor_reftype[i], mjm.sensor_refid[i]))
  return all(mjm.geom_type[g] in prim for g in gs)


def _quiet_close(got, want, scale):
  s = (1.0 + np.max(np.abs(want))) if scale is None else scale
  return bool(np.all(np.abs(np.asarray(got) - np.asarray(want)) <= util.TOL["solver"] * s))


def _undirected(mjm, i, x):
  """Contact-sensor slots with the direction-dependent entries (force z, torque z, normal, tangent) made sign-free."""
  spec = int(mjm.sensor_intprm[i, 0])
  size = _contact_slot_size(mjm, i)
  x = np.array(x, np.float64).reshape(-1, size)
  k = 0
  for b, sz in enumerate((1, 3, 3, 1, 3, 3, 3)):
    if not spec & (1 << b):
      continue
    if b in (1, 2):
      x[:, k + 2] = np.abs(x[:, k + 2])
    elif b in (5, 6):
      x[:, k : k + 3] = np.abs(x[:, k : k + 3])
    k += sz
  return x.reshape(-1)


def _contact_slot_size(mjm, i):
  spec = int(mjm.sensor_intprm[i, 0])
  sizes = (1, 3, 3, 1, 3, 3, 3)
  return sum(s for b, s in enumerate(sizes) if spec & (1 << b))


def execute(scn):
  import mujoco
  import mujoco_warp as mjw

  xml = build_xml(scn)
  mjm, err = util.try_load(xml)
  if mjm is None:
    return dict(ok=True, nontrivial=False, outcome="rejected_by_compiler", info=err)
  try:
    m = mjw.put_model(mjm)
  except NotImplementedError as e:
    return dict(ok=True, nontrivial=False, outcome="unsupported", info=str(e)[:200])
  c = util.Cmp()
  d = mjw.make_data(mjm, nworld=2, nconmax=64, njmax=128)
  ns = mjm.nsensor
  names = [mujoco.mjtSensor(t).name.replace("mjSENS_", "") for t in mjm.sensor_type]
  cut = [float(x) for x in mjm.sensor_cutoff]

  def vkey_of(i):
    ot = mujoco.mjtObj(mjm.sensor_objtype[i]).name.replace("mjOBJ_", "")
    rt = mujoco.mjtObj(mjm.sensor_reftype[i]).name.replace("mjOBJ_", "")
    k = f"sensordata:{names[i]}:obj={ot}:ref={rt}"
    if names[i] == "CONTACT":
      k += ":reduce=%d" % mjm.sensor_intprm[i, 1]
    if names[i] == "RANGEFINDER":
      k += ":data=%d" % mjm.sensor_intprm[i, 0]
    if cut[i] > 0:
      k += ":cutoff"
    if len(scn["sensors"]) > 1:
      k += ":multi"
    return k

  refs = []
  for which in (0, 1, 2):
    qpos, qvel, ctrl = _state(scn, mjm, which)
    mjd = util.mj_data(mjm, qpos=qpos, qvel=qvel, ctrl=ctrl if mjm.nu else None, time=0.25 * which)
    mujoco.mj_forward(mjm, mjd)
    refs.append(mjd)
  active = False
  seen = []
  ncon_seen = 0
  illcond = 0
  for which in (0, 1, 2):
    pair = (refs[which], refs[(which + 1) % 3])
    if any(util.mj_warnings(r) for r in pair):
      continue
    for w, r in enumerate(pair):
      util.copy_state(r, d, world=w)
    mjw.forward(m, d)
    ov = d.overflow.numpy() if hasattr(d, "overflow") else np.zeros(2, int)
    c.true(f"state{which}:overflow", not np.any(ov), f"overflow bits {ov}", vkey="overflow")
    got_all = d.sensordata.numpy().astype(np.float64)
    en_all = d.energy.numpy().astype(np.float64)
    for w, r in enumerate(pair):
      pre = f"state{(which + w) % 3}/world{w}:"
      ncon_seen = max(ncon_seen, r.ncon)
      # energy: MuJoCo leaves energy computed by sensors in mjd.energy only while the flag/sensors say so
      # Data.energy is specified only while the ENERGY flag is on; with the flag off MuJoCo's content is an evaluation-order
      # artefact (e.g. [E_pot, stale] with only an e_potential sensor, [0, 0] with only e_kinetic) and the property
      # covers it through the energy *sensors*, which are compared above
      if scn["energy"]:
        c.close(pre + "energy_potential", en_all[w][0], r.energy[0], "f32dyn", vkey=f"energy:potential:flag={scn['energy']}:esensor={int('E_POTENTIAL' in names)}")
        c.close(pre + "energy_kinetic", en_all[w][1], r.energy[1], "f32dyn", vkey=f"energy:kinetic:flag={scn['energy']}:esensor={int('E_KINETIC' in names)}")
      fscale = 1.0 + max(float(np.max(np.abs(r.efc_force))) if r.nefc else 0.0, float(np.max(np.abs(r.qacc))))
      for i in range(ns):
        a, n = int(mjm.sensor_adr[i]), int(mjm.sensor_dim[i])
        want = np.array(r.sensordata[a : a + n])
        got = got_all[w][a : a + n]
        solver = names[i] in SOLVER_TYPES
        # solver class: the sensor is an O(1)-coefficient linear map of efc_force / qacc, so its error scales with those
        # (a cutoff shrinks the *value* but not the error of a component that stays below the cutoff)
        scale = max(fscale, 1.0 + float(np.max(np.abs(want)))) if solver else None
        vk = vkey_of(i)
        if names[i] == "CONTACT":
          size = _contact_slot_size(mjm, i)
          if mjm.sensor_intprm[i, 1] == 0:
            want, got = _slots(want, size), _slots(got, size)
          elif not _quiet_close(got, want, scale) and _quiet_close(_undirected(mjm, i, got), _undirected(mjm, i, want), scale):
            vk += ":direction_only"  # slots agree up to the sign of the direction-dependent entries
        if names[i] in ("JOINTLIMITPOS", "JOINTLIMITVEL", "JOINTLIMITFRC", "TENDONLIMITPOS", "TENDONLIMITVEL", "TENDONLIMITFRC"):
          other = mujoco.mjtConstraint.mjCNSTR_LIMIT_TENDON if names[i].startswith("JOINT") else mujoco.mjtConstraint.mjCNSTR_LIMIT_JOINT
          if np.any((np.array(r.efc_type) == other) & (np.array(r.efc_id) == mjm.sensor_objid[i])):
            vk += ":other_limit_kind_same_id_active"
        tol = "solver" if solver else "f32dyn"
        if names[i] in ("GEOMNORMAL", "GEOMFROMTO") and not _analytic_pair(mjm, i):
          tol = CCD_WITNESS_TOL
        if names[i] == "GEOMFROMTO" and np.any(want != 0) and _witness_ill_conditioned(mjm, r, a):
          # flat optimum (e.g. cylinder axis parallel to a plane): MuJoCo's own witness jumps under a 1e-4 perturbation,
          # so only the segment's length and direction are determined
          illcond += 1
          seg_w, seg_g = want[3:] - want[:3], got[3:] - got[:3]
          c.close(pre + f"sensor{i}:GEOMFROMTO(segment)", seg_g, seg_w, tol, vkey=vk)
          continue
        c.close(pre + f"sensor{i}:{names[i]}", got, want, tol, scale=scale, vkey=vk)
    if ns:
      seen.append(np.array(refs[which].sensordata))
    if np.any(refs[which].sensordata != 0) or (not ns and np.any(refs[which].energy != 0)):
      active = True
    # staged entry points reproduce forward bit for bit
    if ns and which == 2:
      d.sensordata.zero_()
      mjw.sensor_pos(m, d)
      mjw.sensor_vel(m, d)
      mjw.sensor_acc(m, d)
      c.bits("staged:sensordata", d.sensordata.numpy(), got_all.astype(np.float32), vkey="staged_vs_forward")
  varies = (len(seen) > 1 and any(not np.array_equal(seen[0], s) for s in seen[1:])) or not ns
  info = dict(nsensor=int(ns), nsensordata=int(mjm.nsensordata), ncon=int(ncon_seen), illcond=illcond, checked=c.nchecked, maxrel=float(f"{c.maxrel:.3g}"))
  return c.result(nontrivial=active, key=util.sha(scn), info=info)


def coverage_extra(executed, tier):
  types = set()
  for s, r in executed:
    if r.get("nontrivial"):
      types.update(t.split(":")[0] for t in s.get("tags", []))
  return {"sensor_elements_nontrivial": sorted(types)}
