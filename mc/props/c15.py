"""C15 State get/set is MuJoCo-compatible and lossless.

Space: state signatures x active masks x 2 value sets, on a model in which every state component is present
(nq, nv, na, nu, nhistory, nmocap, neq, nuserdata > 0) and on a second model in which the optional components
are absent (na = nu = nhistory = nmocap = neq = nuserdata = 0).  nworld = 2, each world holds different values.

Oracle: MuJoCo's own mj_getState / mj_setState / mj_stateSize on per-world MjData holding the same
(float32-representable) values:
  get:  rows of selected worlds == float32(mj_getState) bit for bit, guard cells after the last element and
        all rows of unselected worlds keep their sentinel, Data untouched;
  set:  every one of the 13 state fields of every world equals the MjData obtained by mj_setState (selected
        worlds) or the previous content (unselected worlds), bit for bit; then get_state returns the input.
Signatures outside [0, 2^NSTATE) must raise (tested with a generously oversized buffer on a throw-away Data).
"""

import numpy as np

from mc import util

ID = "C15"
LEVEL = "exploration"
RULE = (
  "enumerate signatures (quick: 0, 14 singletons, 91 pairs, named combinations with all masks x 2 value sets; every signature "
  "containing the top two bits with masks {None, world0-only} x 1 value set; thorough: all 2^14 x 5 masks x 2 value sets) in "
  "chunks of 32 per scenario; a (sig, mask, values) evaluation is non-trivial when mj_stateSize(sig) > 0 and at least one world "
  "is selected; distinct = (model, sig, mask, values)"
)
BOUNDS = {
  "quick": "full model: 111 low signatures x {None,FF,TF,FT,TT} x 2 value sets + 4096 signatures with bits 12,13 x {None,TF} x 1 value set; "
  "sparse model (optional components absent): 111 signatures x 5 masks x 1 value set; 5 out-of-range signatures x get/set x 2 models",
  "thorough": "full model: all 16384 signatures x 5 masks x 2 value sets; sparse model: all 16384 x {None,TF} x 1 value set; out-of-range as quick",
}
ASSUMPTIONS = [
  "nworld = 2 (all 4 masks plus active=None)",
  "values are multiples of 1/16 below 2^11, exactly representable in float32, so float32(mj_getState) must match bit for bit",
  "PLUGIN bit (2^13): no plugin state exists in any supported model, MuJoCo's size for it is 0",
  "negative signatures are only executed against a 4096-wide sentinel buffer and a throw-away Data (known heap-corruption risk)",
]
BUDGET = {"quick": 400, "thorough": 3000}

NSTATE = 14
FULL = (1 << NSTATE) - 1
SENT = -777.25
GUARD = 3
CHUNK = 32
MASKS = {"None": None, "FF": (False, False), "TF": (True, False), "FT": (False, True), "TT": (True, True)}
FIELDS = ("time", "qpos", "qvel", "act", "history", "qacc_warmstart", "ctrl", "qfrc_applied", "xfrc_applied", "eq_active", "mocap_pos", "mocap_quat", "userdata")
OUT_OF_RANGE = (-1, -(1 << 13), 1 << 14, (1 << 14) + 1, 1 << 31)

XML_FULL = """<mujoco><size nuserdata="3"/><worldbody>
<body name="m0" mocap="true" pos="0 0 1"><geom size="0.05" contype="0" conaffinity="0"/></body>
<body name="m1" mocap="true" pos="0 1 1"><geom size="0.05" contype="0" conaffinity="0"/></body>
<body name="a"><freejoint/><geom size="0.1"/><body name="b" pos="0 0 0.3"><joint name="h" type="hinge"/><geom size="0.05"/>
<body name="c" pos="0 0 0.3"><joint name="bl" type="ball"/><geom size="0.05"/></body></body></body>
<body name="s" pos="1 0 0"><joint name="sl" type="slide"/><geom size="0.1"/></body>
</worldbody>
<equality><connect body1="a" body2="s" anchor="0 0 0"/><joint joint1="h" joint2="sl" active="false"/><weld body1="m0" body2="s"/></equality>
<actuator><motor joint="h" delay="0.02" nsample="3"/><general joint="sl" dyntype="integrator"/>
<general joint="h" dyntype="filter" dynprm="0.5"/><position joint="sl"/></actuator>
<sensor><jointpos joint="sl" delay="0.02" nsample="2"/></sensor>
</mujoco>"""

XML_SPARSE = """<mujoco><worldbody>
<body name="a"><freejoint/><geom size="0.1"/><body name="b" pos="0 0 0.3"><joint name="h" type="hinge"/><geom size="0.05"/></body></body>
</worldbody></mujoco>"""


def _low_sigs():
  named = [30, 8223, 8128, FULL, FULL & ~8192, 4096 | 30]
  sigs = [0] + [1 << i for i in range(NSTATE)] + [(1 << i) | (1 << j) for i in range(NSTATE) for j in range(i + 1, NSTATE)] + named
  out = []
  for s in sigs:
    if s not in out:
      out.append(s)
  return out


def _chunks(lst):
  return [lst[i : i + CHUNK] for i in range(0, len(lst), CHUNK)]


def scenarios(tier, seed):
  v = seed % 4
  out = []
  allm = list(MASKS)
  for model in ("full", "sparse"):
    out.append(dict(fam="range", model=model, variant=v))
  if tier == "quick":
    for ch in _chunks(_low_sigs()):
      out.append(dict(fam="sigs", model="full", sigs=ch, masks=allm, sets=[0, 1], variant=v))
      out.append(dict(fam="sigs", model="sparse", sigs=ch, masks=allm, sets=[0], variant=v))
    top = [s for s in range(1 << NSTATE) if (s >> 12) == 3]
    for ch in _chunks(top):
      out.append(dict(fam="sigs", model="full", sigs=ch, masks=["None", "TF"], sets=[v % 2], variant=v))
  else:
    for ch in _chunks(list(range(1 << NSTATE))):
      out.append(dict(fam="sigs", model="full", sigs=ch, masks=allm, sets=[0, 1], variant=v))
      out.append(dict(fam="sigs", model="sparse", sigs=ch, masks=["None", "TF"], sets=[v % 2], variant=v))
  return out


# ------------------------------------------------------------------------------------------------ helpers

_CACHE = {}


def _values(mjm, which, world, variant):
  """Full INTEGRATION vector for value set `which` of one world; every slot distinct, float32-exact."""
  import mujoco

  n = mujoco.mj_stateSize(mjm, FULL)
  k = np.arange(n, dtype=np.float64)
  if which == 0:
    vec = (world * 512 + k + 1 + variant) / 8.0
  else:
    vec = -(world * 512 + k + 1 + variant) / 16.0 - 100.0
  # eq_active slots are booleans
  a = mujoco.mj_stateSize(mjm, 511)
  for j in range(mjm.neq):
    vec[a + j] = float((j + world + which + variant) % 2)
  return vec


def _setup(model, variant):
  key = (model, variant)
  if key in _CACHE:
    return _CACHE[key]
  import mujoco
  import mujoco_warp as mjw

  mjm = mujoco.MjModel.from_xml_string(XML_FULL if model == "full" else XML_SPARSE)
  if model == "full":
    assert min(mjm.na, mjm.nu, mjm.nhistory, mjm.nmocap, mjm.neq, mjm.nuserdata) > 0
  m = mjw.put_model(mjm)
  ref = {}
  for which in (0, 1):
    for w in (0, 1):
      mjd = mujoco.MjData(mjm)
      mujoco.mj_setState(mjm, mjd, _values(mjm, which, w, variant), FULL)
      ref[which, w] = mjd
  _CACHE[key] = (mjm, m, ref)
  return _CACHE[key]


def _fill(d, mjds):
  """Write the 13 state fields of per-world MjData into a warp Data (without using set_state)."""
  for f in FIELDS:
    arr = getattr(d, f)
    a = arr.numpy()
    for w, mjd in enumerate(mjds):
      val = np.asarray(getattr(mjd, f))
      a[w] = val.reshape(a[w].shape).astype(a.dtype) if a[w].size else a[w]
    arr.assign(a)


def _read(d):
  return {f: getattr(d, f).numpy().copy() for f in FIELDS}


def _expect_fields(mjds):
  """Same layout as _read, from per-world MjData."""
  out = {}
  for f in FIELDS:
    out[f] = [np.asarray(getattr(mjd, f)).copy() for mjd in mjds]
  return out


def _cmp_fields(c, name, got, mjds, vkey):
  ok = True
  for f in FIELDS:
    for w, mjd in enumerate(mjds):
      g = got[f][w]
      want = np.asarray(getattr(mjd, f)).reshape(g.shape).astype(g.dtype)
      if g.tobytes() != want.tobytes():
        ok = False
        c.fail(f"{vkey}:{f}", f"{name}: world {w} field {f}: got {np.array2string(g.ravel()[:8])} want {np.array2string(want.ravel()[:8])}")
  c.nchecked += 1
  return ok


def _comp_names(sig):
  names = ("TIME", "QPOS", "QVEL", "ACT", "HISTORY", "WARMSTART", "CTRL", "QFRC_APPLIED", "XFRC_APPLIED", "EQ_ACTIVE", "MOCAP_POS", "MOCAP_QUAT", "USERDATA", "PLUGIN")
  return "|".join(n for i, n in enumerate(names) if sig >> i & 1) or "0"


# ------------------------------------------------------------------------------------------------ execute


def _exec_range(scn):
  import warp as wp
  import mujoco_warp as mjw

  mjm, m, ref = _setup(scn["model"], scn["variant"])
  c = util.Cmp()
  for sig in OUT_OF_RANGE:
    for fn in ("get_state", "set_state"):
      d = mjw.make_data(mjm, nworld=2)
      big = wp.array(np.full((2, 4096), SENT, np.float32))
      try:
        getattr(mjw, fn)(m, d, big, sig)
        raised = False
      except Exception:
        raised = True
      kind = "negative_signature_accepted" if sig < 0 else "too_large_signature_accepted"
      c.true(f"{fn}(sig={sig}) must raise", raised, "no exception raised", vkey=f"{kind}:{fn}")
  return c.result(nontrivial=True, key=util.sha(scn), info=dict(checked=c.nchecked), counts=dict(extra_evaluations=2 * len(OUT_OF_RANGE) - 1))


def execute(scn):
  if scn["fam"] == "range":
    return _exec_range(scn)
  import mujoco
  import warp as wp
  import mujoco_warp as mjw

  mjm, m, ref = _setup(scn["model"], scn["variant"])
  c = util.Cmp()
  nevals = nontriv = 0
  d1 = mjw.make_data(mjm, nworld=2)
  d2 = mjw.make_data(mjm, nworld=2)
  for which in scn["sets"]:
    A = [ref[which, 0], ref[which, 1]]
    B = [ref[1 - which, 1], ref[1 - which, 0]]  # different values, and swapped between worlds
    _fill(d1, A)
    before = _read(d1)
    if not _cmp_fields(c, "harness fill", before, A, "harness_fill"):
      raise RuntimeError("harness could not populate Data")
    for sig in scn["sigs"]:
      size = mujoco.mj_stateSize(mjm, sig)
      want = []
      for w in (0, 1):
        v = np.zeros(size)
        mujoco.mj_getState(mjm, A[w], v, sig)
        want.append(v.astype(np.float32))
      for mname in scn["masks"]:
        mask = MASKS[mname]
        sel = (True, True) if mask is None else mask
        active = None if mask is None else wp.array(list(mask), dtype=bool)
        tag = f"sig={sig}({_comp_names(sig)}) mask={mname} set={which}"
        nevals += 1
        nontriv += int(size > 0 and any(sel))
        # ---- get
        buf = wp.array(np.full((2, size + GUARD), SENT, np.float32))
        mjw.get_state(m, d1, buf, sig, active=active)
        got = buf.numpy()
        for w in (0, 1):
          if sel[w]:
            c.bits(f"get {tag} world {w}", got[w, :size], want[w], vkey="get_state_vs_mj_getState")
            c.true(f"get {tag} world {w} guard cells", np.all(got[w, size:] == SENT), f"wrote past mj_stateSize={size}: {got[w, size:]}", vkey="get_state_writes_past_size")
          else:
            c.true(f"get {tag} unselected world {w}", np.all(got[w] == SENT), "row of an unselected world was written", vkey="get_state_writes_unselected_world")
        after = _read(d1)
        for f in FIELDS:
          if after[f].tobytes() != before[f].tobytes():
            c.fail(f"get_state_modifies_data:{f}", f"get {tag}: Data.{f} changed")
        # ---- set into a Data holding B
        _fill(d2, B)
        src = np.full((2, size + GUARD), SENT, np.float32)
        for w in (0, 1):
          src[w, :size] = want[w]
        sbuf = wp.array(src)
        mjw.set_state(m, d2, sbuf, sig, active=active)
        exp = []
        for w in (0, 1):
          e = mujoco.MjData(mjm)
          full = np.zeros(mujoco.mj_stateSize(mjm, FULL))
          mujoco.mj_getState(mjm, B[w], full, FULL)
          mujoco.mj_setState(mjm, e, full, FULL)
          if sel[w]:
            mujoco.mj_setState(mjm, e, want[w].astype(np.float64), sig)
          exp.append(e)
        _cmp_fields(c, f"set {tag}", _read(d2), exp, "set_state_vs_mj_setState")
        c.bits(f"set {tag} input buffer untouched", sbuf.numpy(), src, vkey="set_state_modifies_input")
        # ---- round trip
        rbuf = wp.array(np.full((2, size + GUARD), SENT, np.float32))
        mjw.get_state(m, d2, rbuf, sig, active=active)
        r = rbuf.numpy()
        for w in (0, 1):
          if sel[w]:
            c.bits(f"roundtrip {tag} world {w}", r[w], src[w], vkey="set_get_roundtrip")
  return c.result(
    nontrivial=nontriv > 0,
    key=util.sha(scn),
    info=dict(model=scn["model"], nsig=len(scn["sigs"]), checked=c.nchecked),
    counts=dict(extra_evaluations=nevals - 1, extra_distinct=max(nontriv - 1, 0)),
  )
