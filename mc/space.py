"""E1: bounded-exhaustive generators of model *shapes* (specs) and their MJCF rendering.

A spec is plain JSON data.  Structure is enumerated exhaustively; real values come from small
curated alphabets (VERIF_SEED mod 4 selects one of four value alphabets, structure stays exhaustive).
"""

import itertools
import math

# ----------------------------------------------------------------------------- trees


def trees(n):
  """All DFS-ordered parent arrays with exactly n bodies (parent of body i+1; 0 = world).

  Body order matters to the code under test (level/branch traversals), so isomorphic but
  re-ordered trees are distinct on purpose.  Count = Catalan(n): 1, 2, 5, 14, 42.
  """
  out = []

  def rec(par):
    if len(par) == n:
      out.append(tuple(par))
      return
    i = len(par)  # new body id is i+1
    # candidates: the rightmost path from body i up to the world
    cands, b = [], i
    while True:
      cands.append(b)
      if b == 0:
        break
      b = par[b - 1]
    for c in cands:
      rec(par + [c])

  rec([])
  return out


def trees_upto(n):
  return [t for k in range(1, n + 1) for t in trees(k)]


JOINT_KINDS = ("weld", "hinge", "slide", "ball", "free", "hingeslide", "mocap")


def joint_assignments(parents, kinds=JOINT_KINDS, require_dof=True):
  """All assignments of a joint kind to each body that MuJoCo's compiler accepts structurally."""
  per = []
  for i, p in enumerate(parents):
    ks = [k for k in kinds if (p == 0 or k not in ("free", "mocap"))]
    per.append(ks)
  for combo in itertools.product(*per):
    # a mocap body must be a static child of the world and have no jointed... children are fine
    if require_dof and all(k in ("weld", "mocap") for k in combo):
      continue
    yield combo


# ----------------------------------------------------------------------------- value alphabets

_POS = [
  (0.31, -0.12, 0.23),
  (-0.17, 0.29, 0.14),
  (0.21, 0.18, -0.26),
  (-0.24, -0.15, 0.19),
  (0.13, 0.27, 0.22),
  (0.28, -0.21, -0.11),
]
_QUAT = [
  (0.9238795, 0.2209424, 0.2209424, 0.2209424),
  (0.8660254, -0.2886751, 0.2886751, 0.2886751),
  (0.7071068, 0.5, -0.5, 0.0),
  (0.9659258, 0.0, 0.1830127, -0.1830127),
  (0.5, 0.5, 0.5, -0.5),
  (0.8, 0.36, -0.48, 0.0),
]
_AXIS = [(0.6, 0.0, 0.8), (0.0, 0.8, -0.6), (0.36, 0.48, 0.8), (1, 0, 0), (0.0, 0.6, 0.8), (-0.8, 0.6, 0)]

# generalized-position alphabets per seed variant: (scalar values, quaternions [possibly unnormalised])
QPOS_SCALAR = [
  (0.0, -0.7, 0.4),
  (0.0, 0.55, -0.3),
  (0.0, -0.45, 0.8),
  (0.0, 0.25, -0.9),
]
QPOS_QUAT = [
  ((1, 0, 0, 0), (0.78, 1.04, 0.0, 0.0), (0.5, -0.3, 0.7, 0.4)),
  ((1, 0, 0, 0), (0.0, 0.9, 1.2, 0.0), (0.6, 0.2, -0.5, 0.58)),
  ((1, 0, 0, 0), (1.2, 0.0, 0.0, 1.6), (-0.4, 0.55, 0.3, 0.66)),
  ((1, 0, 0, 0), (0.3, 0.3, -0.3, 0.3), (0.7, -0.1, 0.1, 0.7)),
]
QVEL_SCALAR = [(0.0, 0.9, -1.3), (0.0, -0.6, 1.1), (0.0, 1.4, -0.5), (0.0, -1.0, 0.7)]


def fmt(v):
  if isinstance(v, (tuple, list)):
    return " ".join(fmt(x) for x in v)
  if isinstance(v, float):
    return f"{v:.7g}"
  return str(v)


def pose_of(i, variant=0):
  """Fixed non-axis-aligned pose for object #i."""
  return _POS[(i + variant) % len(_POS)], _QUAT[(i * 5 + 1 + variant) % len(_QUAT)]


def axis_of(i, variant=0):
  return _AXIS[(i + 2 * variant) % len(_AXIS)]


# ----------------------------------------------------------------------------- MJCF rendering


def joint_xml(kind, i, variant=0, attrs=""):
  ax = fmt(axis_of(i, variant))
  jp = fmt(_POS[(i + 3) % len(_POS)])
  if kind == "hinge":
    return f'<joint name="j{i}" type="hinge" axis="{ax}" pos="{jp}" {attrs}/>'
  if kind == "slide":
    return f'<joint name="j{i}" type="slide" axis="{ax}" pos="{jp}" {attrs}/>'
  if kind == "ball":
    return f'<joint name="j{i}" type="ball" pos="{jp}" {attrs}/>'
  if kind == "free":
    return f'<joint name="j{i}" type="free" {attrs}/>'
  if kind == "hingeslide":
    ax2 = fmt(axis_of(i + 1, variant))
    return (
      f'<joint name="j{i}" type="hinge" axis="{ax}" pos="{jp}" {attrs}/>'
      f'<joint name="j{i}b" type="slide" axis="{ax2}" {attrs}/>'
    )
  return ""


def tree_xml(
  parents,
  joints,
  variant=0,
  geom="mixed",
  body_extra=None,
  joint_attrs="",
  world_extra="",
  sections="",
  option="",
  collide=False,
  geom_attrs="",
  compiler='<compiler angle="radian"/>',
):
  """Renders a kinematic tree. bodies b1..bN, joints j{i}, geoms g{i}, sites s{i}."""
  n = len(parents)
  children = {i: [] for i in range(n + 1)}
  for i, p in enumerate(parents):
    children[p].append(i + 1)
  gtypes = ("sphere", "capsule", "box", "ellipsoid", "cylinder")

  def body(i):
    pos, quat = pose_of(i, variant)
    kind = joints[i - 1]
    mocap = ' mocap="true"' if kind == "mocap" else ""
    gt = gtypes[i % len(gtypes)] if geom == "mixed" else geom
    size = {"sphere": "0.07", "capsule": "0.04 0.09", "box": "0.05 0.07 0.04", "ellipsoid": "0.05 0.08 0.06", "cylinder": "0.05 0.08"}[gt]
    gpos, gquat = pose_of(i + 2, variant)
    spos, squat = pose_of(i + 4, variant)
    cc = "" if collide else ' contype="0" conaffinity="0"'
    s = f'<body name="b{i}" pos="{fmt(pos)}" quat="{fmt(quat)}"{mocap}>'
    s += joint_xml(kind, i, variant, joint_attrs if not callable(joint_attrs) else joint_attrs(i, kind))
    s += (
      f'<geom name="g{i}" type="{gt}" size="{size}" pos="{fmt(tuple(0.3 * x for x in gpos))}" quat="{fmt(gquat)}" '
      f'mass="{0.6 + 0.35 * i:.3g}"{cc} {geom_attrs}/>'
    )
    s += f'<site name="s{i}" pos="{fmt(tuple(0.4 * x for x in spos))}" quat="{fmt(squat)}" size="0.01"/>'
    if body_extra:
      s += body_extra(i)
    for c in children[i]:
      s += body(c)
    s += "</body>"
    return s

  w = "".join(body(c) for c in children[0])
  return f"<mujoco>{compiler}{option}<worldbody>{world_extra}{w}</worldbody>{sections}</mujoco>"


def qpos_layout(joints):
  """[(kind, qposadr, nq, dofadr, nv)] per scalar joint entry in MuJoCo order."""
  out, qa, da = [], 0, 0
  for i, k in enumerate(joints):
    ent = {"hinge": [("s", 1, 1)], "slide": [("s", 1, 1)], "ball": [("q", 4, 3)], "free": [("f", 7, 6)], "hingeslide": [("s", 1, 1), ("s", 1, 1)]}.get(k, [])
    for kind, nq, nv in ent:
      out.append((kind, qa, nq, da, nv))
      qa += nq
      da += nv
  return out, qa, da


def state_grid(joints, variant=0, which=0):
  """Deterministic state #which for a joint assignment: (qpos list, qvel list).

  which=0 -> reference-like (zeros / identity); 1,2 -> grid points (quats possibly unnormalised).
  """
  lay, nq, nv = qpos_layout(joints)
  sc, qu, vs = QPOS_SCALAR[variant % 4], QPOS_QUAT[variant % 4], QVEL_SCALAR[variant % 4]
  qpos, qvel = [0.0] * nq, [0.0] * nv
  for j, (kind, qa, nq_, da, nv_) in enumerate(lay):
    k = (which + j) % 3 if which else 0
    if kind == "s":
      qpos[qa] = sc[k]
    elif kind == "q":
      qpos[qa : qa + 4] = list(qu[k])
    else:
      qpos[qa : qa + 3] = [0.1 * k, -0.2 * k, 0.3 + 0.1 * k]
      qpos[qa + 3 : qa + 7] = list(qu[k])
    for t in range(nv_):
      qvel[da + t] = vs[(k + t) % 3] * (1.0 if which else 0.0)
  return qpos, qvel
