"""The controlled world: owns every source of nondeterminism of a Warp CPU process.

Imported by workers *before* warp / mujoco_warp.  Nothing in /repo or site-packages is
modified; all interception is of Warp, from the harness process.

  setup(sched=..., debug=..., poison=...)  -> configures cache dir, template, wrappers
  set_mode(mode, perm)                     -> task order for the next launches
  LaunchHook                               -> per-launch schedule chooser / tracer
"""

import ctypes
import os
import sys

VERIF = os.path.dirname(os.path.dirname(os.path.abspath(__file__)))
CACHE = os.environ.get("MJWARP_VERIF_CACHE", os.path.join(VERIF, ".cache"))

CTRL_ADDR = 0x10000000000
CTRL_WORDS = 1 << 17  # int64 words (1 MiB)
PERM_OFF = 8

_ctl = None  # ctypes array of int64 over the control page
_state = {"sched": False, "debug": False, "poison": None, "hook": None, "nlaunch": 0}


_SCHED_TEMPLATE = """

extern "C" {{

// Python CPU entry points (verification harness: task order read from a control page)
WP_API void {name}_cpu_forward(
    wp::launch_bounds_t<{launch_ndim}> *dim,
    wp_args_{name} *_wp_args)
{{
    wp::tile_shared_storage_t tile_mem;
#if defined(WP_ENABLE_TILES_IN_STACK_MEMORY)
    wp::shared_tile_storage = &tile_mem;
#endif

    volatile long long *ctl = (volatile long long *)0x10000000000ULL;
    long long mode = ctl[0];
    size_t n = dim->size;
    ctl[1] += 1;
    if (mode == 2 && (size_t)ctl[2] != n) {{ ctl[3] += 1; mode = 0; }}
    for (size_t k = 0; k < n; ++k)
    {{
        size_t task_index = k;
        if (mode == 1) task_index = n - 1 - k;
        else if (mode == 2) task_index = (size_t)ctl[8 + k];
        {name}_cpu_kernel_forward(*dim, task_index, _wp_args);
    }}
}}

}} // extern C

"""


def _map_control_page():
  global _ctl
  libc = ctypes.CDLL(None, use_errno=True)
  libc.mmap.restype = ctypes.c_void_p
  libc.mmap.argtypes = [ctypes.c_void_p, ctypes.c_size_t, ctypes.c_int, ctypes.c_int, ctypes.c_int, ctypes.c_long]
  PROT_RW, MAP_PRIVATE, MAP_ANON, MAP_FIXED_NOREPLACE = 3, 2, 0x20, 0x100000
  size = CTRL_WORDS * 8
  p = libc.mmap(CTRL_ADDR, size, PROT_RW, MAP_PRIVATE | MAP_ANON | MAP_FIXED_NOREPLACE, -1, 0)
  if p != CTRL_ADDR:
    raise RuntimeError(f"control page mmap failed: got {p!r} errno={ctypes.get_errno()}")
  _ctl = (ctypes.c_int64 * CTRL_WORDS).from_address(CTRL_ADDR)
  for i in range(PERM_OFF):
    _ctl[i] = 0


def setup(sched=False, debug=False, poison=None):
  """Must be called before `import warp`."""
  assert "warp" not in sys.modules, "world.setup must run before warp is imported"
  tag = "sched" if sched else ("debug" if debug else "std")
  cache = os.path.join(CACHE, f"warp-{tag}")
  os.makedirs(cache, exist_ok=True)
  os.environ["WARP_CACHE_PATH"] = cache
  _state.update(sched=sched, debug=debug, poison=poison)

  import warp as wp

  wp.config.quiet = True
  wp.config.kernel_cache_dir = cache
  if debug:
    wp.config.mode = "debug"
    wp.config.verify_fp = False
  if sched:
    _map_control_page()
    import warp._src.codegen as cg

    assert "for (size_t task_index = 0; task_index < dim->size; ++task_index)" in cg.cpu_module_template_forward
    cg.cpu_module_template_forward = _SCHED_TEMPLATE

  _wrap_launch(wp)
  _wrap_empty(wp)
  wp.init()
  assert os.path.realpath(wp.config.kernel_cache_dir).startswith(os.path.realpath(cache)), wp.config.kernel_cache_dir
  return wp


# ---------------------------------------------------------------- launches


class LaunchHook:
  """Called around every wp.launch / wp.launch_tiled.

  before(index, key, n) -> None | "desc" | list[int] (explicit permutation of n tasks)
  """

  def before(self, index, key, n, outputs):
    return None


def set_hook(hook):
  _state["hook"] = hook
  _state["nlaunch"] = 0


def nlaunch():
  return _state["nlaunch"]


def set_mode(mode, perm=None):
  if _ctl is None:
    return
  if mode == 2:
    n = len(perm)
    assert n + PERM_OFF <= CTRL_WORDS
    _ctl[2] = n
    for i, p in enumerate(perm):
      _ctl[PERM_OFF + i] = p
  _ctl[0] = mode


def counters():
  """(kernel launches seen by the template, permutation size mismatches)."""
  return (_ctl[1], _ctl[3]) if _ctl is not None else (0, 0)


def _dim_size(dim):
  if isinstance(dim, int):
    return dim
  n = 1
  for x in dim:
    n *= int(x)
  return n


def _kernel_key(kernel):
  k = getattr(kernel, "key", None) or getattr(kernel, "__name__", str(kernel))
  return str(k)


def _wrap_launch(wp):
  orig_launch = wp.launch
  orig_tiled = wp.launch_tiled

  def _around(orig, a, kw):
    hook = _state["hook"]
    idx = _state["nlaunch"]
    _state["nlaunch"] = idx + 1
    if hook is None:
      return orig(*a, **kw)
    kernel = kw.get("kernel", a[0] if a else None)
    dim = kw.get("dim", a[1] if len(a) > 1 else None)
    n = _dim_size(dim)
    outs = kw.get("outputs", ())
    choice = hook.before(idx, _kernel_key(kernel), n, outs)
    if choice is None:
      set_mode(0)
    elif choice == "desc":
      set_mode(1)
    else:
      set_mode(2, choice)
    try:
      ret = orig(*a, **kw)
    finally:
      set_mode(0)
    after = getattr(hook, "after", None)
    if after is not None:
      after(idx, _kernel_key(kernel), n, outs)
    return ret

  def launch(*a, **kw):
    return _around(orig_launch, a, kw)

  def launch_tiled(*a, **kw):
    return _around(orig_tiled, a, kw)

  wp.launch = launch
  wp.launch_tiled = launch_tiled


# ---------------------------------------------------------------- poison

POISON_ALPHABET = (0x00, 0xFF, 0x7F, 0xC3)


def set_poison(byte):
  _state["poison"] = byte


def _wrap_empty(wp):
  orig_empty = wp.empty
  orig_empty_like = wp.empty_like

  def _poison(a):
    b = _state["poison"]
    if b is not None and a is not None and getattr(a, "ptr", None) and a.capacity:
      ctypes.memset(a.ptr, b, a.capacity)
    return a

  def empty(*a, **kw):
    return _poison(orig_empty(*a, **kw))

  def empty_like(*a, **kw):
    return _poison(orig_empty_like(*a, **kw))

  wp.empty = empty
  wp.empty_like = empty_like


# ---------------------------------------------------------------- canary


def canary(wp, n=7):
  """Proves the installed schedule is what actually runs. Returns observed orders per mode."""
  import numpy as np

  @wp.kernel(module="unique")
  def _canary(cursor: wp.array[int], out: wp.array[int]):
    tid = wp.tid()
    k = wp.atomic_add(cursor, 0, 1)
    out[k] = tid

  def run(choice):
    class H(LaunchHook):
      def before(self, index, key, nn, outputs):
        return choice

    cursor = wp.zeros(1, dtype=int)
    out = wp.zeros(n, dtype=int)
    old = _state["hook"], _state["nlaunch"]
    set_hook(H())
    wp.launch(_canary, dim=n, inputs=[cursor], outputs=[out])
    _state["hook"], _state["nlaunch"] = old
    return out.numpy().tolist()

  perm = [(3 * i + 2) % n for i in range(n)]
  asc, desc, ex = run(None), run("desc"), run(perm)
  ok = asc == list(range(n)) and desc == list(range(n - 1, -1, -1)) and ex == perm
  if not ok:
    raise RuntimeError(f"schedule canary failed: asc={asc} desc={desc} explicit={ex} expected={perm}")
  return True
