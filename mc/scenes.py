"""Hand-built rich scenes (tree c branches: c -> {c2b, c3b}, so branch-wise tree traversals share an ancestor)

Hand-built rich scenes shared by the schedule / history / capacity / batch drivers.

`rich(opt)` has three kinematic trees plus a slider, resting and stacked contacts, joint limits, friction loss,
connect + weld + joint equalities, a limited spatial tendon, a fixed tendon with friction loss, actuators with
activation state, and sensors (incl. contact/touch) -- every row-producing mechanism the anchors name.
"""

import numpy as np


def rich(opt="", sleep=False, delay=False, extra_sensor=True):
  flag = '<flag sleep="enable"/>' if sleep else ""
  delay_attr = ' delay="0.012" nsample="4"' if delay else ""
  sensors = (
    """
  <sensor>
    <touch site="sa"/>
    <framepos objtype="site" objname="sb"/>
    <jointpos joint="h1"/>
    <actuatorfrc actuator="m1"/>
    <accelerometer site="sc"/>
    <contact geom1="floor" geom2="abox" data="found force" reduce="mindist" num="2"/>
    <subtreecom body="c"/>
    <tendonpos tendon="t"/>
  </sensor>"""
    if extra_sensor
    else ""
  )
  return f"""<mujoco>
  <option timestep="0.004" {opt}>{flag}</option>
  <default><geom friction="0.8 0.02 0.01"/></default>
  <worldbody>
    <geom name="floor" type="plane" size="5 5 .1"/>
    <body name="a" pos="0 0 0.098"><freejoint name="fa"/><geom name="abox" type="box" size=".1 .12 .1" mass="1.1"/><site name="sa" pos="0 0 -.09" size="0.05"/></body>
    <body name="b" pos="0.03 0.01 0.29"><freejoint name="fb"/><geom name="bsph" type="sphere" size=".1" mass="0.7" condim="4"/><site name="sb"/></body>
    <body name="c" pos="-0.6 0 0.62">
      <joint name="h1" type="hinge" axis="0 1 0" limited="true" range="-0.3 0.3" frictionloss="0.2" damping="0.05"/>
      <geom name="c1" type="capsule" fromto="0 0 0 0 0 -0.3" size=".04" mass="0.5"/>
      <body name="c2b" pos="0 0 -0.3">
        <joint name="h2" type="hinge" axis="0 1 0" frictionloss="0.1"/>
        <geom name="c2" type="capsule" fromto="0 0 0 0 0 -0.28" size=".04" mass="0.4" condim="1"/>
        <site name="sc" pos="0 0 -0.28"/>
      </body>
      <body name="c3b" pos="0 0.06 -0.15">
        <joint name="h3" type="hinge" axis="1 0 0" damping="0.02"/>
        <geom name="c3" type="capsule" fromto="0 0 0 0 0.12 -0.05" size=".02" mass="0.1" contype="0" conaffinity="0"/>
      </body>
    </body>
    <body name="e" pos="0.8 0 0.3"><joint name="s1" type="slide" axis="0 0 1" limited="true" range="-0.1 0.1"/><geom name="esph" type="sphere" size=".08" mass="0.6"/><site name="se"/></body>
    <body name="f" pos="0.8 0.4 0.079"><freejoint name="ff"/><geom name="fcyl" type="capsule" size=".08 .1" quat="0.7071 0.7071 0 0" mass="0.5" condim="6"/></body>
  </worldbody>
  <equality>
    <connect body1="a" body2="e" anchor="0.4 0 0.1" solref="0.1 1"/>
    <weld body1="f" body2="e" solref="0.1 1"/>
    <joint joint1="h2" joint2="s1" polycoef="0 0.5 0 0 0"/>
  </equality>
  <tendon>
    <spatial name="t" limited="true" range="0 0.66"><site site="sb"/><site site="sc"/></spatial>
    <fixed name="tf" frictionloss="0.15"><joint joint="h1" coef="1"/><joint joint="s1" coef="-2"/></fixed>
  </tendon>
  <actuator>
    <motor name="m1" joint="h1" gear="2"{delay_attr}/>
    <position name="p1" joint="s1" kp="20"/>
    <general name="g1" joint="h2" dyntype="filter" dynprm="0.05" gainprm="1.5"/>
  </actuator>{sensors}
</mujoco>"""


def rich_states(mjm, nworld, variant=0):
  """Deterministic per-world states: world w differs from world 0 (limits violated on different sides, etc.)."""
  import mujoco

  out = []
  for w in range(nworld):
    d = mujoco.MjData(mjm)
    mujoco.mj_resetData(mjm, d)
    k = w + variant
    jid = lambda n: mjm.jnt_qposadr[mujoco.mj_name2id(mjm, mujoco.mjtObj.mjOBJ_JOINT, n)]
    d.qpos[jid("h1")] = 0.34 if k % 2 == 0 else -0.33
    d.qpos[jid("h2")] = 0.3 - 0.2 * k
    d.qpos[jid("h3")] = -0.4 + 0.3 * k
    d.qpos[jid("s1")] = 0.11 if k % 3 != 1 else -0.105
    d.qpos[jid("fb") + 0] += 0.01 * k
    d.qvel[:] = 0.05 * np.cos(np.arange(mjm.nv) + k)
    d.ctrl[:] = [0.4 - 0.3 * k, 0.05 * (k + 1), -0.5 + 0.2 * k][: mjm.nu]
    d.act[:] = 0.1 * (k + 1)
    out.append(d)
  return out


def small(opt=""):
  """A small well-conditioned scene (CG converges tightly): box resting on the floor, limited pendulum with
  friction loss whose tip is connected to a slider, two worlds differ by state."""
  return f"""<mujoco>
  <option timestep="0.004" {opt}/>
  <worldbody>
    <geom name="floor" type="plane" size="5 5 .1"/>
    <body name="a" pos="0 0 0.099"><freejoint name="fa"/><geom name="abox" type="box" size=".1 .12 .1" mass="1.1"/></body>
    <body name="c" pos="-0.6 0 0.62">
      <joint name="h1" type="hinge" axis="0 1 0" limited="true" range="-0.3 0.3" frictionloss="0.2" damping="0.05"/>
      <geom name="c1" type="capsule" fromto="0 0 0 0 0 -0.3" size=".04" mass="0.5"/>
      <site name="sc" pos="0 0 -0.3"/>
    </body>
    <body name="e" pos="-0.6 0.3 0.3"><joint name="s1" type="slide" axis="0 0 1" limited="true" range="-0.1 0.1"/><geom name="esph" type="sphere" size=".08" mass="0.6"/></body>
  </worldbody>
  <equality><connect body1="c" body2="e" anchor="0 0 -0.3" solref="0.1 1"/></equality>
  <actuator><motor name="m1" joint="h1" gear="2"/><position name="p1" joint="s1" kp="20"/></actuator>
  <sensor><jointpos joint="h1"/><actuatorfrc actuator="m1"/></sensor>
</mujoco>"""


def small_states(mjm, nworld, variant=0):
  import mujoco

  out = []
  for w in range(nworld):
    d = mujoco.MjData(mjm)
    k = w + variant
    jid = lambda n: mjm.jnt_qposadr[mujoco.mj_name2id(mjm, mujoco.mjtObj.mjOBJ_JOINT, n)]
    d.qpos[jid("h1")] = 0.32 if k % 2 == 0 else -0.31
    d.qpos[jid("s1")] = 0.103 if k % 3 != 1 else -0.102
    d.qvel[:] = 0.05 * np.cos(np.arange(mjm.nv) + k)
    d.ctrl[:] = [0.4 - 0.3 * k, 0.05 * (k + 1)][: mjm.nu]
    out.append(d)
  return out
