#!/usr/bin/env python3
"""Runs the repository suite (or some files) and reports tests of BASELINE.stable_pass that no longer pass.
usage: suite_check.py [--repo DIR] [pytest file args...]   (exit 0 = no regression)"""
import ast, json, os, subprocess, sys, tempfile, xml.etree.ElementTree as ET
args = sys.argv[1:]
repo = "/repo"
if args[:1] == ["--repo"]:
  repo, args = args[1], args[2:]
b = json.load(open("/root/.vp/BASELINE.json"))
stable = b["stable_pass"]
if isinstance(stable, str):
  stable = ast.literal_eval(stable)
stable = set(stable)
out = tempfile.mktemp(suffix=".xml")
cmd = ["/venv/bin/python", "-m", "pytest", "-q", "-p", "no:cacheprovider", "--timeout=900", "--continue-on-collection-errors", f"--junitxml={out}", "-n", os.environ.get("SUITE_JOBS", "6")] + args
try:
  import xdist  # noqa
except Exception:
  cmd = [c for c in cmd if c not in ("-n", os.environ.get("SUITE_JOBS", "6"))]
env = dict(os.environ, PYTHONPATH=repo)
r = subprocess.run(cmd, cwd=repo, env=env, capture_output=True, text=True)
passed, seen = set(), set()
for tc in ET.parse(out).getroot().iter("testcase"):
  name = f"{tc.get('classname')}::{tc.get('name')}"
  seen.add(name)
  if not any(ch.tag in ("failure", "error", "skipped") for ch in tc):
    passed.add(name)
scope = stable & seen if args else stable
reg = sorted(scope - passed)
print(f"ran={len(seen)} passed={len(passed)} stable_in_scope={len(scope)} regressions={len(reg)}")
for n in reg[:40]:
  print("REGRESSION", n)
print(r.stdout[-600:])
sys.exit(1 if reg else 0)
