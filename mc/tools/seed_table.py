#!/usr/bin/env python3
"""Prints the markdown detection table from /verif/seeded/*/meta.json (last evaluation of every check per seed)."""
import glob, json, os
rows = []
for d in sorted(glob.glob("/verif/seeded/*/")):
  mp = os.path.join(d, "meta.json")
  if not os.path.exists(mp):
    continue
  m = json.load(open(mp))
  last = {}
  first = {}
  for ev in m.get("evaluation", []):
    for p, v in ev["checks"].items():
      first.setdefault(p, v["detected"])
      last[p] = v["detected"]
  det = [p for p, v in last.items() if v]
  missed_first = [p for p in last if last[p] and not first[p]]
  summ = (m.get("summary") or m.get("what") or "")
  if isinstance(summ, dict):
    summ = json.dumps(summ)
  rows.append((os.path.basename(d.rstrip("/")), m.get("property", "?"), " ".join(str(summ).split())[:150], ", ".join(det) or "-", ", ".join(missed_first) or "-", ", ".join(p for p in last if not last[p]) or "-"))
print("| seeded change | property | what it changes | detected by (quick tier) | detected only after strengthening | run but silent |")
print("|---|---|---|---|---|---|")
for r in rows:
  print("| " + " | ".join(r) + " |")
