#!/usr/bin/env python3
"""Evaluates a seeded change: seed_eval.py <seed_dir> <Cxx> [<Cyy> ...] [--tier quick]

Applies <seed_dir>/patch.diff in a scratch worktree of /repo HEAD (outside /repo and /verif), runs the demonstration with and
without the change, runs the named checks against the changed tree (PYTHONPATH points the workers at the worktree), records the
outcome in <seed_dir>/meta.json ("evaluation"), and removes the worktree."""
import json, os, shutil, subprocess, sys, tempfile, time

seed = os.path.abspath(sys.argv[1])
props = [a for a in sys.argv[2:] if not a.startswith("--")]
tier = "thorough" if "--thorough" in sys.argv else "quick"
wt = tempfile.mkdtemp(prefix="seedwt_", dir="/tmp")
os.rmdir(wt)
subprocess.check_call(["git", "-C", "/repo", "worktree", "add", "-q", "--detach", wt, "HEAD"])
res = {"repo_head": subprocess.check_output(["git", "-C", "/repo", "rev-parse", "--short", "HEAD"]).decode().strip(), "tier": tier, "checks": {}}
try:
  env = dict(os.environ, PYTHONPATH=wt)
  demo = os.path.join(seed, "demo.py")
  if os.path.exists(demo):
    r0 = subprocess.run(["/venv/bin/python", demo], env=env, cwd=wt, capture_output=True, text=True, timeout=1800)
    res["demo_without_change"] = r0.returncode
  ap = subprocess.run(["git", "-C", wt, "apply", os.path.join(seed, "patch.diff")], capture_output=True, text=True)
  if ap.returncode != 0:
    res["apply_error"] = ap.stderr[-500:]
  else:
    if os.path.exists(demo):
      r1 = subprocess.run(["/venv/bin/python", demo], env=env, cwd=wt, capture_output=True, text=True, timeout=1800)
      res["demo_with_change"] = r1.returncode
      res["demo_output"] = (r1.stdout + r1.stderr)[-600:]
    for p in props:
      t = time.time()
      r = subprocess.run(["/venv/bin/python", "/verif/mc/run.py", p, "--tier", tier, "--no-evidence", "--jobs", os.environ.get("SEED_JOBS", "8")], env=env, cwd="/verif", capture_output=True, text=True)
      lines = [l for l in r.stdout.splitlines() if l.startswith("VIOLATION") or l.startswith("   ")]
      res["checks"][p] = {"exit": r.returncode, "detected": r.returncode == 1, "wall_s": round(time.time() - t, 1), "first_violations": lines[:6], "summary": r.stdout.strip().splitlines()[-1:] }
finally:
  subprocess.call(["git", "-C", "/repo", "worktree", "remove", "--force", wt])
  shutil.rmtree(wt, ignore_errors=True)
mp = os.path.join(seed, "meta.json")
meta = json.load(open(mp)) if os.path.exists(mp) else {}
meta.setdefault("evaluation", []).append(res)
json.dump(meta, open(mp, "w"), indent=1)
print(json.dumps(res, indent=1)[:3000])
