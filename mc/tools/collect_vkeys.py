#!/usr/bin/env python3
"""collect_vkeys.py Cxx [seeds...] : runs the quick check for each seed and prints every distinct unknown vkey with a count."""
import collections, glob, json, os, shutil, subprocess, sys
prop = sys.argv[1]; seeds = sys.argv[2:] or ["0"]
tot = collections.Counter(); ex = {}
for s in seeds:
  shutil.rmtree(f"/verif/replays/{prop}", ignore_errors=True)
  r = subprocess.run(["/venv/bin/python", "/verif/mc/run.py", prop, "--no-evidence", "--jobs", os.environ.get("JOBS", "8")], cwd="/verif", env=dict(os.environ, VERIF_SEED=s), capture_output=True, text=True)
  print(f"seed {s}: exit {r.returncode} | {r.stdout.strip().splitlines()[-1] if r.stdout.strip() else r.stderr[-300:]}")
  for f in glob.glob(f"/verif/replays/{prop}/*.json"):
    for v in json.load(open(f))["violations"]:
      tot[v["vkey"]] += 1; ex.setdefault(v["vkey"], str(v.get("what"))[:160])
for k, n in sorted(tot.items()):
  print(f"{n:5d}  {k}\n         {ex[k]}")
