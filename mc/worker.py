"""Long-lived worker: executes scenarios of one property driver on the real code.

Protocol (JSON lines over two inherited pipe fds, so Warp/MuJoCo stdout noise cannot corrupt it):
  parent -> worker : {"i": int, "scn": {...}}            | {"quit": true}
  worker -> parent : {"ready": true, "canary": bool}     | {"i": int, "res": {...}}
"""

import hashlib
import importlib
import json
import os
import sys
import time
import traceback


def digest_of(res):
  """Stable hash of the observable part of a result (used by the determinism self-check)."""
  d = res.get("digest")
  if d is None:
    d = {k: res.get(k) for k in ("ok", "nontrivial", "key", "violations")}
  return hashlib.sha1(json.dumps(d, sort_keys=True, default=str).encode()).hexdigest()


def run_one(drv, scn):
  t = time.time()
  try:
    res = drv.execute(scn)
  except Exception as e:  # a harness/driver exception is never silently a pass
    res = {
      "ok": False,
      "error": f"{type(e).__name__}: {e}",
      "traceback": traceback.format_exc()[-3000:],
      "violations": [],
    }
  res.setdefault("ok", True)
  res.setdefault("violations", [])
  res["wall"] = round(time.time() - t, 4)
  return res


def main():
  prop, rfd, wfd = sys.argv[1], int(sys.argv[2]), int(sys.argv[3])
  sys.path.insert(0, os.path.dirname(os.path.dirname(os.path.abspath(__file__))))
  drv = importlib.import_module(f"mc.props.{prop.lower()}")
  from mc import world

  cfg = dict(getattr(drv, "WORLD", {}))
  wp = world.setup(sched=cfg.get("sched", False), debug=cfg.get("debug", False), poison=cfg.get("poison"))
  can = False
  if cfg.get("sched"):
    can = world.canary(wp)
  if hasattr(drv, "worker_init"):
    drv.worker_init()
  inp = os.fdopen(rfd, "r")
  out = os.fdopen(wfd, "w")

  def send(o):
    out.write(json.dumps(o, default=str) + "\n")
    out.flush()

  send({"ready": True, "canary": can})
  first = True
  selfcheck = getattr(drv, "SELFCHECK_DETERMINISM", True)
  for line in inp:
    msg = json.loads(line)
    if msg.get("quit"):
      break
    scn = msg["scn"]
    res = run_one(drv, scn)
    # determinism is proved per run, not assumed: first scenario and every would-be violation run twice
    if selfcheck and (first or (not res["ok"] and not res.get("error"))):
      res2 = run_one(drv, scn)
      if digest_of(res) != digest_of(res2):
        res["nondeterministic"] = True
        res["second"] = {k: res2.get(k) for k in ("ok", "violations", "key")}
    first = False
    send({"i": msg["i"], "res": res})


if __name__ == "__main__":
  main()
