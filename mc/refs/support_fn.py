"""Float64 support functions, signed surface functions and the separation certificate for convex geoms.

Deliberately boring reference code (NumPy, float64), shared by C04 (class S/M certificate) and C20.

  Shape                      one posed geom (plane, sphere, capsule, ellipsoid, cylinder, box, mesh)
  support(s, n) -> (h, p)    h = max_{x in s} n.x ; p = centroid of the support set (world frame)
  sep(s1, s2, n)             = -h1(n) - h2(-n): signed separation of the two geoms along the unit vector n
                             (>0: a slab of that width with normal n separates them; <0: translating s2 by
                             -sep*n is necessary and sufficient to separate them *along n*).
                             For convex sets  max_n sep(n) = signed distance (penetration depth if negative).
  refine(s1, s2, n0)         local float64 ascent of sep over the unit sphere, started at n0
  surface(s, x)              signed distance of x to the surface of s (exact for sphere, capsule, box, cylinder,
                             plane, convex mesh outside-face regions; first order for the ellipsoid)
  from_model(mjm, mjd, g)    Shape of geom g at the pose in mjd (after mj_kinematics)
"""

import itertools

import numpy as np

PLANE, HFIELD, SPHERE, CAPSULE, ELLIPSOID, CYLINDER, BOX, MESH = range(8)
NAMES = {PLANE: "plane", HFIELD: "hfield", SPHERE: "sphere", CAPSULE: "capsule", ELLIPSOID: "ellipsoid", CYLINDER: "cylinder", BOX: "box", MESH: "mesh"}
TIE = 1e-9


class Shape:
  def __init__(self, type, size, pos, mat, verts=None):
    self.type = int(type)
    self.size = np.asarray(size, np.float64)
    self.pos = np.asarray(pos, np.float64).reshape(3)
    self.mat = np.asarray(mat, np.float64).reshape(3, 3)
    self.verts = None if verts is None else np.asarray(verts, np.float64).reshape(-1, 3)  # local frame
    self._faces = None

  def moved(self, t):
    s = Shape(self.type, self.size, self.pos + np.asarray(t, np.float64), self.mat, self.verts)
    s._faces = self._faces
    return s

  @property
  def convex(self):
    return self.type not in (HFIELD,)

  def faces(self):
    """Hull faces of a (small) convex mesh in the local frame: list of (unit normal, offset) with n.x <= offset inside."""
    if self._faces is None:
      self._faces = hull_planes(self.verts)
    return self._faces


def hull_planes(v):
  v = np.asarray(v, np.float64)
  out = []
  n = len(v)
  if n > 40:
    raise ValueError("hull_planes is brute force; meant for small meshes")
  scale = np.max(np.linalg.norm(v - v.mean(0), axis=1))
  for i, j, k in itertools.combinations(range(n), 3):
    nn = np.cross(v[j] - v[i], v[k] - v[i])
    ln = np.linalg.norm(nn)
    if ln < 1e-12 * scale * scale:
      continue
    nn = nn / ln
    dd = (v - v[i]) @ nn
    if np.all(dd <= 1e-9 * scale):
      pass
    elif np.all(dd >= -1e-9 * scale):
      nn = -nn
    else:
      continue
    off = float(nn @ v[i])
    if not any(np.allclose(nn, p[0], atol=1e-9) and abs(off - p[1]) < 1e-9 for p in out):
      out.append((nn, off))
  return out


def _sgn(x):
  """sign with a dead zone: 0 for ties (support set is then a segment/face; we return its centroid)."""
  return np.where(np.abs(x) < TIE, 0.0, np.sign(x))


def support(s, n):
  """(h, p): support value and centroid of the support set of shape s in world direction n (unit)."""
  n = np.asarray(n, np.float64)
  nl = s.mat.T @ n  # direction in the local frame
  t = s.type
  if t == SPHERE:
    pl = s.size[0] * nl
  elif t == CAPSULE:
    r, hl = s.size[0], s.size[1]
    pl = r * nl + np.array([0.0, 0.0, hl * _sgn(nl[2])])
  elif t == ELLIPSOID:
    sz = s.size[:3]
    den = np.linalg.norm(sz * nl)
    pl = (sz * sz * nl) / den
  elif t == CYLINDER:
    r, hh = s.size[0], s.size[1]
    rad = np.hypot(nl[0], nl[1])
    pl = np.zeros(3)
    if rad > TIE:
      pl[:2] = r * nl[:2] / rad
    pl[2] = hh * _sgn(nl[2])
  elif t == BOX:
    pl = s.size[:3] * _sgn(nl)
  elif t == MESH:
    dots = s.verts @ nl
    mx = dots.max()
    # mesh vertices are stored in float32 and re-expressed in the mesh's inertial frame: ties are only ~1e-8 exact
    sel = dots >= mx - 2e-6 * (1e-2 + np.abs(s.verts).max())
    pl = s.verts[sel].mean(0)
  elif t == PLANE:
    # half-space z_local <= 0: bounded only along its own normal
    if nl[2] > 1.0 - 1e-6:
      pl = np.zeros(3)
    else:
      return np.inf, None
  else:
    raise ValueError(f"no support function for geom type {t}")
  p = s.pos + s.mat @ pl
  return float(n @ p), p


def sep(s1, s2, n):
  """Signed separation of s1 and s2 along unit n (n points from s1 to s2)."""
  n = np.asarray(n, np.float64)
  n = n / np.linalg.norm(n)
  h1, _ = support(s1, n)
  h2, _ = support(s2, -n)
  return -h1 - h2


def witness(s1, s2, n):
  """Support points (p1 on s1 towards s2, p2 on s2 towards s1) for direction n."""
  n = np.asarray(n, np.float64)
  n = n / np.linalg.norm(n)
  return support(s1, n)[1], support(s2, -n)[1]


def refine(s1, s2, n0, iters=60):
  """Local ascent of sep(n) over the unit sphere starting from n0 (pattern search, float64)."""
  n = np.asarray(n0, np.float64)
  n = n / np.linalg.norm(n)
  if s1.type == PLANE or s2.type == PLANE:
    return n, sep(s1, s2, n)
  best = sep(s1, s2, n)
  step = 0.2
  for _ in range(iters):
    a = np.cross(n, [1.0, 0, 0] if abs(n[0]) < 0.9 else [0, 1.0, 0])
    a /= np.linalg.norm(a)
    b = np.cross(n, a)
    improved = False
    for dvec in (a, -a, b, -b, (a + b) / np.sqrt(2), (a - b) / np.sqrt(2), (-a + b) / np.sqrt(2), (-a - b) / np.sqrt(2)):
      c = n + step * dvec
      c /= np.linalg.norm(c)
      v = sep(s1, s2, c)
      if v > best + 1e-15:
        best, n, improved = v, c, True
    if not improved:
      step *= 0.5
      if step < 1e-9:
        break
  return n, best


def surface(s, x):
  """Signed distance from world point x to the surface of s (negative inside)."""
  xl = s.mat.T @ (np.asarray(x, np.float64) - s.pos)
  t = s.type
  if t == SPHERE:
    return float(np.linalg.norm(xl) - s.size[0])
  if t == CAPSULE:
    r, hl = s.size[0], s.size[1]
    z = np.clip(xl[2], -hl, hl)
    return float(np.linalg.norm(xl - np.array([0, 0, z])) - r)
  if t == ELLIPSOID:
    sz = s.size[:3]
    f = np.linalg.norm(xl / sz)
    if f < 1e-12:
      return float(-sz.min())
    g = np.linalg.norm(xl / (sz * sz)) / f
    return float((f - 1.0) / g)
  if t == CYLINDER:
    r, hh = s.size[0], s.size[1]
    dr = np.hypot(xl[0], xl[1]) - r
    dz = abs(xl[2]) - hh
    outside = np.hypot(max(dr, 0.0), max(dz, 0.0))
    inside = min(max(dr, dz), 0.0)
    return float(outside + inside)
  if t == BOX:
    q = np.abs(xl) - s.size[:3]
    return float(np.linalg.norm(np.maximum(q, 0.0)) + min(q.max(), 0.0))
  if t == MESH:
    # exact inside and in face regions; a lower bound in edge/vertex regions
    return float(max(nn @ xl - off for nn, off in s.faces()))
  if t == PLANE:
    return float(xl[2])
  raise ValueError(f"no surface function for geom type {t}")


def from_model(mjm, mjd, g):
  t = int(mjm.geom_type[g])
  verts = None
  if t == MESH:
    mid = int(mjm.geom_dataid[g])
    a, k = int(mjm.mesh_vertadr[mid]), int(mjm.mesh_vertnum[mid])
    verts = np.array(mjm.mesh_vert[a : a + k], np.float64)
  return Shape(t, np.array(mjm.geom_size[g]), np.array(mjd.geom_xpos[g]), np.array(mjd.geom_xmat[g]).reshape(3, 3), verts)
