"""Constraint-bearing scene family shared by C05 / C06 / C22 / C24 / C39.

A scene is a 3-body kinematic tree (every DFS-ordered tree) with one of two joint patterns, decorated with a
*feature set*: a choice of at most k feature groups and one option per chosen group.  Ranges of limits and the
placement of contact geoms are made relative to the evaluated state (two-pass build: a first compile evaluates
kinematics / tendon lengths at the state, the second compile places limits and contact geoms), so every option
is active (or deliberately inactive) by construction and not by luck.

Only closed-form collision pairs are used for contacts (plane/sphere/capsule/box against sphere or capsule) so
that contact frames of the two engines agree to float32 precision and row comparisons are meaningful.
"""

import itertools
import math

import numpy as np

from mc import space

fmt = space.fmt

# joint pattern -> per body joint kind, plus named roles
PATTERNS = {
  0: dict(joints=("hingeslide", "ball", "hinge"), H="j1", S="j1b", H2="j3", B="j2", F=None, tf=("j1b", "j3"), jeq2=("j1", "j3")),
  1: dict(joints=("free", "hingeslide", "ball"), H="j2", S="j2b", H2=None, B="j3", F="j1", tf=("j2", "j2b"), jeq2=("j2", "j2b")),
}

# feature group -> options (simplest first)
GROUPS = {
  "connect": ("body", "site", "world", "off0", "offrt"),
  "weld": ("body", "site", "world", "relpose", "off0"),
  "jeq": ("one", "two", "offrt"),
  "teq": ("one", "two", "off0"),
  "dfl": ("one", "all"),
  "tfl": ("fixed", "spatial"),
  "hlim": ("lo", "hi", "margin", "out", "narrow"),
  "slim": ("lo", "hi"),
  "blim": ("viol", "margin", "out"),
  "tlim": ("lo", "hi", "margin", "sp_hi", "narrow"),
  "con": ("c1w", "c3w", "c4w", "c6w", "c3bb", "c6bb", "margin", "gapout", "adh", "adhmargin", "adhgap"),
}
GROUP_ORDER = tuple(GROUPS)


def feature_sets(kmax, groups=GROUP_ORDER, options=None):
  """Every choice of <=kmax groups and one option per chosen group (exhaustive), smallest first."""
  out = []
  for k in range(0, kmax + 1):
    for gs in itertools.combinations(groups, k):
      opts = [(options or GROUPS)[g] for g in gs]
      for combo in itertools.product(*opts):
        out.append([[g, o] for g, o in zip(gs, combo)])
  return out


# ------------------------------------------------------------------------------------------- state


def state_of(pattern, variant, which):
  """Deterministic displaced state (every joint away from its reference; quats possibly unnormalised)."""
  joints = PATTERNS[pattern]["joints"]
  lay, nq, nv = space.qpos_layout(joints)
  sc, qu, vs = space.QPOS_SCALAR[variant % 4], space.QPOS_QUAT[variant % 4], space.QVEL_SCALAR[variant % 4]
  qpos, qvel = [0.0] * nq, [0.0] * nv
  for j, (kind, qa, nq_, da, nv_) in enumerate(lay):
    k = 1 + (which + j) % 2
    if kind == "s":
      qpos[qa] = sc[k]
    elif kind == "q":
      qpos[qa : qa + 4] = list(qu[k])
    else:
      qpos[qa : qa + 3] = [0.1 * k, -0.2 * k, 0.3 + 0.1 * k]
      qpos[qa + 3 : qa + 7] = list(qu[k])
    for t in range(nv_):
      qvel[da + t] = vs[1 + (k + t) % 2] * (0.5 + 0.25 * t)
  return qpos, qvel


# ------------------------------------------------------------------------------------------- small math


def _unit(v):
  v = np.asarray(v, float)
  return v / np.linalg.norm(v)


def _quat_z_to(n):
  """Quaternion rotating +z onto unit vector n."""
  n = _unit(n)
  z = np.array([0.0, 0.0, 1.0])
  c = float(np.dot(z, n))
  if c < -0.999999:
    return (0.0, 1.0, 0.0, 0.0)
  ax = np.cross(z, n)
  q = np.array([1.0 + c, ax[0], ax[1], ax[2]])
  q /= np.linalg.norm(q)
  return tuple(float(x) for x in q)


def _quat_to_mat(q):
  w, x, y, z = _unit(q)
  return np.array(
    [
      [1 - 2 * (y * y + z * z), 2 * (x * y - w * z), 2 * (x * z + w * y)],
      [2 * (x * y + w * z), 1 - 2 * (x * x + z * z), 2 * (y * z - w * x)],
      [2 * (x * z - w * y), 2 * (y * z + w * x), 1 - 2 * (x * x + y * y)],
    ]
  )


# ------------------------------------------------------------------------------------------- rendering

_N_PLANE = _unit((0.36, 0.48, 0.8))
_U_DIR = _unit((0.6, -0.48, 0.64))
_CB_LOCAL = (0.05, -0.04, 0.06)  # contact geom on the target body (local)
_CB_QUAT = (0.8, 0.36, -0.48, 0.0)
_BOX_QUAT = (0.9238795, 0.2209424, 0.2209424, 0.2209424)
_FRIC = "0.7 0.02 0.01"


def _bb_pair(parents):
  """First pair of bodies (a,b), a<b, that are not parent and child."""
  for a, b in ((1, 3), (2, 3), (1, 2)):
    if parents[b - 1] != a and parents[a - 1] != b:
      return a, b
  return None


def render(scn, probe=None):
  """MJCF of a scene; with probe=None limits/contact geoms are omitted (first pass)."""
  parents, pat, variant = scn["parents"], PATTERNS[scn["pattern"]], scn.get("variant", 0)
  feats = {g: o for g, o in scn["feats"]}
  joints = pat["joints"]
  n = len(parents)
  children = {i: [] for i in range(n + 1)}
  for i, p in enumerate(parents):
    children[p].append(i + 1)

  jattr = {}  # joint name -> attribute string
  body_geoms = {i: "" for i in range(n + 1)}
  need_tf = need_ts = False

  def add(jn, s):
    if jn:
      jattr[jn] = jattr.get(jn, "") + " " + s

  # dof friction loss
  if "dfl" in feats:
    if feats["dfl"] == "one":
      add(pat["B"], 'frictionloss="0.35"')
    else:
      for jn in ("j1", "j1b", "j2", "j2b", "j3"):
        add(jn, f'frictionloss="{0.2 + 0.07 * len(jn) + 0.05 * int(jn[1]):.3g}"')
  # joint limits (need probe)
  if probe is not None:
    q = probe["q"]
    if "hlim" in feats:
      v = q[pat["H"]]
      o = feats["hlim"]
      rng = {"lo": (v + 0.15, v + 1.0), "hi": (v - 1.0, v - 0.15), "margin": (v - 0.05, v + 1.0), "out": (v - 0.5, v + 0.5), "narrow": (v - 0.03, v + 0.04)}[o]
      extra = ' solimplimit="0.8 0.97 0.4 0.3 3"' if o == "hi" else ""
      add(pat["H"], f'limited="true" range="{rng[0]:.6f} {rng[1]:.6f}" margin="0.1"{extra}')
    if "slim" in feats:
      v = q[pat["S"]]
      o = feats["slim"]
      rng = {"lo": (v + 0.12, v + 1.0), "hi": (v - 1.0, v - 0.12)}[o]
      extra = ' solreflimit="-600 -25"' if o == "hi" else ""
      add(pat["S"], f'limited="true" range="{rng[0]:.6f} {rng[1]:.6f}"{extra}')
    if "blim" in feats:
      ang = probe["ball_angle"]
      o = feats["blim"]
      hi = {"viol": max(ang - 0.2, 0.05), "margin": ang + 0.04, "out": ang + 0.5}[o]
      add(pat["B"], f'limited="true" range="0 {hi:.6f}" margin="0.1"')

  # tendons
  tendon_attr = {"tf": "", "ts": ""}
  if "teq" in feats:
    need_tf = True
    need_ts = need_ts or feats["teq"] == "two"
  if "tfl" in feats:
    if feats["tfl"] == "fixed":
      need_tf = True
      tendon_attr["tf"] += ' frictionloss="0.4"'
    else:
      need_ts = True
      tendon_attr["ts"] += ' frictionloss="0.25"'
  if "tlim" in feats:
    o = feats["tlim"]
    tn = "ts" if o == "sp_hi" else "tf"
    if tn == "tf":
      need_tf = True
    else:
      need_ts = True
    if probe is not None:
      L = probe["ten_length"][tn]
      rng = {"lo": (L + 0.15, L + 1.0), "hi": (L - 1.0, L - 0.15), "margin": (L - 0.05, L + 1.0), "sp_hi": (0.0, max(L - 0.1, 0.01)), "narrow": (L - 0.03, L + 0.04)}[o]
      extra = ' solimplimit="0.85 0.99 0.5 0.4 2"' if o == "hi" else ""
      tendon_attr[tn] += f' limited="true" range="{rng[0]:.6f} {rng[1]:.6f}" margin="0.1"{extra}'
  tendons = ""
  if need_tf:
    a, b = pat["tf"]
    tendons += f'<fixed name="tf"{tendon_attr["tf"]}><joint joint="{a}" coef="0.8"/><joint joint="{b}" coef="-1.7"/></fixed>'
  if need_ts:
    tendons += f'<spatial name="ts"{tendon_attr["ts"]}><site site="s1"/><site site="s3"/></spatial>'

  # equalities
  eqs = ""
  if "connect" in feats:
    o = feats["connect"]
    act = ' active="false"' if o == "off0" else ""
    if o == "site":
      eqs += '<connect name="eqc" site1="s1" site2="s3" solref="0.003 0.8" solimp="0.7 0.95 3.0 0.6 1.5"/>'
    elif o == "world":
      eqs += '<connect name="eqc" body1="b2" anchor="0.1 -0.05 0.12" solref="-700 -30"/>'
    else:
      eqs += f'<connect name="eqc" body1="b3" body2="b1" anchor="0.1 0.05 -0.08"{act}/>'
  if "weld" in feats:
    o = feats["weld"]
    act = ' active="false"' if o == "off0" else ""
    if o == "site":
      eqs += '<weld name="eqw" site1="s2" site2="s3" torquescale="0.6"/>'
    elif o == "world":
      eqs += '<weld name="eqw" body1="b3" anchor="0.05 0.02 -0.03" solimp="0.85 0.98 2.0 0.4 2.5"/>'
    elif o == "relpose":
      eqs += '<weld name="eqw" body1="b1" body2="b3" relpose="0.1 -0.2 0.15 0.8 0.36 -0.48 0" anchor="0.02 0.03 0.04" torquescale="1.4"/>'
    else:
      eqs += f'<weld name="eqw" body1="b1" body2="b3" torquescale="0.7"{act}/>'
  if "jeq" in feats:
    o = feats["jeq"]
    if o == "two":
      a, b = pat["jeq2"]
      eqs += f'<joint name="eqj" joint1="{a}" joint2="{b}" polycoef="0.05 0.8 -0.3 0.2 0.1" solref="-800 -30"/>'
    else:
      eqs += f'<joint name="eqj" joint1="{pat["H"]}" polycoef="0.1 0 0 0 0"/>'
  if "teq" in feats:
    o = feats["teq"]
    act = ' active="false"' if o == "off0" else ""
    if o == "two":
      eqs += '<tendon name="eqt" tendon1="tf" tendon2="ts" polycoef="0.02 0.6 0.3 -0.2 0.1"/>'
    else:
      eqs += f'<tendon name="eqt" tendon1="tf" polycoef="0.07 0 0 0 0" solimp="0.8 0.96 1.0 0.5 2"{act}/>'

  # contacts (need probe)
  world_extra = ""
  if probe is not None and "con" in feats:
    o = feats["con"]
    xpos, xmat = probe["xpos"], probe["xmat"]
    tgt = 3
    condim = {"c1w": 1, "c3w": 3, "c4w": 4, "c6w": 6, "c3bb": 3, "c6bb": 6}.get(o, 3)
    common = f'contype="1" conaffinity="1" condim="{condim}" friction="{_FRIC}" mass="0"'
    mg = ""
    if o in ("margin", "gapout", "adh", "adhmargin", "adhgap"):
      mg = ' margin="0.05" gap="0.02"'
    if o in ("adh", "adhmargin", "adhgap"):
      mg += ' adhesion="6"'
    # MuJoCo 3.13: margins add (0.1), contacts with margin <= dist < margin+gap are detected but excluded from rows
    pen = {"margin": -0.01, "gapout": -0.12, "adh": 0.02, "adhmargin": -0.04, "adhgap": -0.12}.get(o, 0.03)
    if o in ("c3bb", "c6bb"):
      pair = _bb_pair(parents)
      a, tgt = pair
    r = 0.06
    loc = np.array(_CB_LOCAL)
    p = xpos[tgt] + xmat[tgt] @ loc
    if o == "c4w":
      # world capsule against the body's sphere (sphere-capsule is closed-form in both engines and both build the
      # tangent frame from the normal alone; MuJoCo's plane-capsule aligns the tangent with the capsule axis instead)
      R = 0.05
      body_geoms[tgt] += f'<geom name="cb" type="sphere" size="{r}" pos="{fmt(_CB_LOCAL)}" {common}{mg}/>'
      c = p + _U_DIR * (r + R - pen)
      world_extra = f'<geom name="ca" type="capsule" size="{R} 0.09" pos="{fmt(tuple(c))}" quat="{fmt(_CB_QUAT)}" {common}/>'
    else:
      body_geoms[tgt] += f'<geom name="cb" type="sphere" size="{r}" pos="{fmt(_CB_LOCAL)}" {common}{mg}/>'
      if o in ("c1w", "margin", "gapout", "adh", "adhmargin", "adhgap"):
        pp = p - _N_PLANE * (r - pen)
        world_extra = f'<geom name="ca" type="plane" size="2 2 0.1" pos="{fmt(tuple(pp))}" quat="{fmt(_quat_z_to(_N_PLANE))}" {common}{mg}/>'
      elif o == "c3w":
        R = 0.08
        c = p + _U_DIR * (r + R - pen)
        world_extra = f'<geom name="ca" type="sphere" size="{R}" pos="{fmt(tuple(c))}" {common}/>'
      elif o == "c6w":
        hx, hy, hz = 0.1, 0.12, 0.08
        Rb = _quat_to_mat(_BOX_QUAT)
        c = p - Rb[:, 2] * (hz + r - pen) + Rb[:, 0] * 0.03 - Rb[:, 1] * 0.02
        world_extra = f'<geom name="ca" type="box" size="{hx} {hy} {hz}" pos="{fmt(tuple(c))}" quat="{fmt(_BOX_QUAT)}" {common}/>'
      elif o == "c3bb":
        R = 0.05
        c = p + _U_DIR * (r + R - pen)
        la = xmat[a].T @ (c - xpos[a])
        body_geoms[a] += f'<geom name="ca" type="sphere" size="{R}" pos="{fmt(tuple(la))}" {common}/>'
      elif o == "c6bb":
        R = 0.04
        c = p + _U_DIR * (r + R - pen)
        la = xmat[a].T @ (c - xpos[a])
        body_geoms[a] += f'<geom name="ca" type="capsule" size="{R} 0.06" pos="{fmt(tuple(la))}" quat="{fmt(_CB_QUAT)}" {common}/>'

  gtypes = ("sphere", "capsule", "box", "ellipsoid", "cylinder")
  sizes = {"sphere": "0.07", "capsule": "0.04 0.09", "box": "0.05 0.07 0.04", "ellipsoid": "0.05 0.08 0.06", "cylinder": "0.05 0.08"}

  def joint_xml(kind, i):
    ax = fmt(space.axis_of(i, variant))
    jp = fmt(space._POS[(i + 3) % len(space._POS)])
    a = lambda jn: jattr.get(jn, "")
    if kind == "hinge":
      return f'<joint name="j{i}" type="hinge" axis="{ax}" pos="{jp}"{a(f"j{i}")}/>'
    if kind == "slide":
      return f'<joint name="j{i}" type="slide" axis="{ax}" pos="{jp}"{a(f"j{i}")}/>'
    if kind == "ball":
      return f'<joint name="j{i}" type="ball" pos="{jp}"{a(f"j{i}")}/>'
    if kind == "free":
      return f'<joint name="j{i}" type="free"{a(f"j{i}")}/>'
    if kind == "hingeslide":
      ax2 = fmt(space.axis_of(i + 1, variant))
      return (
        f'<joint name="j{i}" type="hinge" axis="{ax}" pos="{jp}"{a(f"j{i}")}/>'
        f'<joint name="j{i}b" type="slide" axis="{ax2}"{a(f"j{i}b")}/>'
      )
    return ""

  def body(i):
    pos, quat = space.pose_of(i, variant)
    gt = gtypes[i % len(gtypes)]
    gpos, gquat = space.pose_of(i + 2, variant)
    spos, squat = space.pose_of(i + 4, variant)
    s = f'<body name="b{i}" pos="{fmt(pos)}" quat="{fmt(quat)}">'
    s += joint_xml(joints[i - 1], i)
    s += (
      f'<geom name="g{i}" type="{gt}" size="{sizes[gt]}" pos="{fmt(tuple(0.3 * x for x in gpos))}" quat="{fmt(gquat)}" '
      f'mass="{0.6 + 0.35 * i:.3g}" contype="0" conaffinity="0"/>'
    )
    s += f'<site name="s{i}" pos="{fmt(tuple(0.4 * x for x in spos))}" quat="{fmt(squat)}" size="0.01"/>'
    s += body_geoms[i]
    for c in children[i]:
      s += body(c)
    return s + "</body>"

  w = "".join(body(c) for c in children[0])
  sections = (f"<tendon>{tendons}</tendon>" if tendons else "") + (f"<equality>{eqs}</equality>" if eqs else "")
  option = scn.get("option", "")
  return f'<mujoco><compiler angle="radian"/>{option}<worldbody>{world_extra}{w}</worldbody>{sections}</mujoco>'


def build(scn):
  """Two-pass build -> (mjm, info) or (None, error string). info: qpos/qvel of the design state, runtime eq_active."""
  import mujoco

  qpos, qvel = state_of(scn["pattern"], scn.get("variant", 0), scn.get("state", 1))
  try:
    m0 = mujoco.MjModel.from_xml_string(render(scn, None))
  except Exception as e:
    return None, "pass1: " + str(e)[:200]
  d0 = mujoco.MjData(m0)
  d0.qpos[:] = qpos
  mujoco.mj_kinematics(m0, d0)
  mujoco.mj_comPos(m0, d0)
  mujoco.mj_tendon(m0, d0)
  q = {}
  ball_angle = 0.0
  for j in range(m0.njnt):
    name = mujoco.mj_id2name(m0, mujoco.mjtObj.mjOBJ_JOINT, j)
    adr = m0.jnt_qposadr[j]
    jt = int(m0.jnt_type[j])
    if jt in (int(mujoco.mjtJoint.mjJNT_HINGE), int(mujoco.mjtJoint.mjJNT_SLIDE)):
      q[name] = float(d0.qpos[adr])
    elif jt == int(mujoco.mjtJoint.mjJNT_BALL):
      qq = np.array(d0.qpos[adr : adr + 4])
      qq /= np.linalg.norm(qq)
      ball_angle = 2.0 * math.atan2(float(np.linalg.norm(qq[1:])), abs(float(qq[0])))
  tl = {}
  for t in range(m0.ntendon):
    tl[mujoco.mj_id2name(m0, mujoco.mjtObj.mjOBJ_TENDON, t)] = float(d0.ten_length[t])
  probe = dict(q=q, ball_angle=ball_angle, ten_length=tl, xpos=np.array(d0.xpos), xmat=np.array(d0.xmat).reshape(-1, 3, 3))
  xml = render(scn, probe)
  try:
    mjm = mujoco.MjModel.from_xml_string(xml)
  except Exception as e:
    return None, "pass2: " + str(e)[:200]
  feats = {g: o for g, o in scn["feats"]}
  eq_off = []
  for g, nm in (("connect", "eqc"), ("jeq", "eqj")):
    if feats.get(g) == "offrt":
      eq_off.append(mujoco.mj_name2id(mjm, mujoco.mjtObj.mjOBJ_EQUALITY, nm))
  return mjm, dict(qpos=qpos, qvel=qvel, eq_off=eq_off, xml=xml)


def applicable(scn):
  """Structural applicability of a feature set to a (tree, pattern): everything is applicable except body-body
  contacts on trees where every body pair is parent/child (none among 3-body trees except the chain's (1,2),(2,3))."""
  feats = {g: o for g, o in scn["feats"]}
  if feats.get("con") in ("c3bb", "c6bb") and _bb_pair(scn["parents"]) is None:
    return False
  return True


# ------------------------------------------------------------------------------------------- dedicated solver scenes

DEDICATED = ("sphere_slide", "sphere_rest", "capsule6", "stack2", "stack3", "chain_lim", "pile_mixed")


def dedicated(name, variant=0):
  """(xml, qpos, qvel, make_data kwargs) of a hand-built contact / limit scene for the solver properties."""
  v = variant % 4
  condim = (3, 4, 6, 3)[v]
  fr = ("0.8 0.02 0.01", "0.5 0.03 0.02", "1.1 0.01 0.005", "0.3 0.05 0.01")[v]
  tilt = ("1 0 0 0", "0.9961947 0.0871557 0 0", "0.9961947 0 0.0871557 0", "0.9914449 0.0922959 0.0922959 0")[v]
  plane = f'<geom name="floor" type="plane" size="3 3 .1" quat="{tilt}" condim="{condim}" friction="{fr}"/>'
  R = _quat_to_mat([float(x) for x in tilt.split()])
  n = R[:, 2]
  kw = dict(njmax=256, nconmax=64)

  def above(h, lateral=(0.0, 0.0)):
    p = n * h + R[:, 0] * lateral[0] + R[:, 1] * lateral[1]
    return [float(x) for x in p]

  if name in ("sphere_slide", "sphere_rest"):
    xml = (
      f'<mujoco><worldbody>{plane}<body name="s" pos="0 0 0"><freejoint/>'
      f'<geom type="sphere" size="0.1" condim="{condim}" friction="{fr}" mass="1.3"/></body></worldbody></mujoco>'
    )
    qpos = above(0.097) + [1, 0, 0, 0]
    qvel = [0.9, -0.4, -0.2, 0.5, 2.0, -1.0] if name == "sphere_slide" else [0.0] * 6
    return xml, qpos, qvel, kw
  if name == "capsule6":
    xml = (
      f'<mujoco><worldbody>{plane}<body name="c"><freejoint/>'
      f'<geom type="capsule" size="0.05 0.2" condim="6" friction="{fr}" mass="0.9"/></body>'
      f'<body name="p" pos="0.5 0.5 0.5"><joint name="h" type="hinge" axis="0 1 0"/><geom type="sphere" size="0.05" pos="0.2 0 0" contype="0" conaffinity="0"/></body>'
      f'</worldbody><equality><joint joint1="h" polycoef="0.3 0 0 0 0"/></equality></mujoco>'
    )
    # capsule lying on the plane: its axis (local z) along the plane's x axis
    axis = R[:, 0]
    q = _quat_z_to(axis)
    qpos = above(0.047) + list(q) + [0.0]
    qvel = [0.3, 0.6, -0.1, 1.0, -0.5, 2.0, 0.7]
    return xml, qpos, qvel, kw
  if name in ("stack2", "stack3"):
    nb = 2 if name == "stack2" else 3
    bodies, qpos, qvel = "", [], []
    h = 0.0
    for i in range(nb):
      hz = 0.05 + 0.01 * i
      h += hz - (0.002 if i == 0 else 0.003)
      bodies += (
        f'<body name="box{i}"><freejoint/><geom type="box" size="{0.12 - 0.02 * i} {0.1 - 0.015 * i} {hz}" condim="{condim}" '
        f'friction="{fr}" mass="{1.0 + 0.5 * i}"/></body>'
      )
      qpos += above(h, (0.01 * i, -0.015 * i)) + [float(x) for x in tilt.split()]
      qvel += [0.2 * (i + 1), -0.1 * i, -0.05, 0.0, 0.1 * i, 0.3 * (i - 1)]
      h += hz
    xml = f"<mujoco><worldbody>{plane}{bodies}</worldbody></mujoco>"
    return xml, qpos, qvel, kw
  if name == "chain_lim":
    xml = (
      '<mujoco><compiler angle="radian"/><worldbody><body name="a" pos="0 0 1">'
      '<joint name="j1" type="hinge" axis="0 1 0" limited="true" range="-0.3 0.3" frictionloss="0.2"/><geom type="capsule" fromto="0 0 0 0.3 0 0" size="0.03"/>'
      '<body name="b" pos="0.3 0 0"><joint name="j2" type="hinge" axis="0.6 0.8 0" limited="true" range="-0.2 0.5" margin="0.05" frictionloss="0.1"/>'
      '<geom type="capsule" fromto="0 0 0 0.3 0 0" size="0.03"/>'
      '<body name="c" pos="0.3 0 0"><joint name="j3" type="ball" limited="true" range="0 0.4" frictionloss="0.05"/><joint name="j4" type="slide" axis="1 0 0" limited="true" range="-0.05 0.05"/>'
      '<geom type="capsule" fromto="0 0 0 0.25 0 0" size="0.03"/><site name="tip" pos="0.25 0 0"/></body></body></body>'
      '<site name="anchor" pos="0.2 0.3 1.2"/></worldbody>'
      '<tendon><spatial name="t" limited="true" range="0 0.5" frictionloss="0.3"><site site="anchor"/><site site="tip"/></spatial>'
      '<fixed name="tf" limited="true" range="-0.1 0.1"><joint joint="j1" coef="1"/><joint joint="j2" coef="-0.5"/></fixed></tendon></mujoco>'
    )
    s = (1.0, -1.0, 0.6, 1.3)[v]
    qpos = [0.45 * s, 0.6 * s, 0.9238795, 0.2209424 * s, 0.2209424, 0.2209424, 0.08 * s]
    qvel = [0.5 * s, -1.0, 0.3, -0.4 * s, 0.2, 0.6]
    return xml, qpos, qvel, dict(njmax=64)
  if name == "pile_mixed":
    xml = (
      f'<mujoco><worldbody>{plane}'
      f'<body name="s1"><freejoint/><geom type="sphere" size="0.08" condim="1" mass="0.7"/></body>'
      f'<body name="s2"><freejoint/><geom type="sphere" size="0.07" condim="{condim}" friction="{fr}" mass="0.5"/></body>'
      f'<body name="c1"><freejoint/><geom type="capsule" size="0.04 0.1" condim="4" friction="{fr}" mass="0.6"/></body>'
      f'<body name="m" pos="0.4 0 0.3"><joint name="sl" type="slide" axis="0 0 1" frictionloss="0.4"/><geom type="sphere" size="0.05" contype="0" conaffinity="0"/></body>'
      f"</worldbody><equality><connect body1=\"s2\" body2=\"c1\" anchor=\"0.05 0 0.02\"/></equality></mujoco>"
    )
    qpos = above(0.077, (0.0, 0.0)) + [1, 0, 0, 0] + above(0.2, (0.05, 0.02)) + [1, 0, 0, 0] + above(0.037, (0.3, 0.1)) + list(_quat_z_to(R[:, 1])) + [0.0]
    qvel = [0.1, 0.2, -0.3, 0, 0, 0] + [-0.2, 0.1, -0.5, 0.3, 0.2, 0.1] + [0.4, 0.0, -0.1, 0.5, 0.0, 1.0] + [0.8]
    return xml, qpos, qvel, kw
  raise KeyError(name)
