"""Pair scenes shared by C04 / C18 / C20: two geoms A (static) and B (on a free body) in a constructed contact.

Construction (float64, via support functions): pick orientations qa, qb and a unit contact normal n; let pA be the
centroid of A's support set in direction n and pB that of B in direction -n; translate B so that pB = pA + d*n.
For d > 0 the supporting planes at pA, pB separate the geoms, so the true distance is exactly d with normal n;
for d < 0 the geoms overlap by |d| along n (the true penetration depth is <= |d|).
Orientation cases choose which features meet: face/face, face/side, generic smooth or vertex points, vertex/face,
edge/edge (for polytopes), pole/cap etc. for the smooth types.
"""

import itertools

import numpy as np

from mc import space
from mc.refs import support_fn as sf

TYPES = ("plane", "sphere", "capsule", "ellipsoid", "cylinder", "box", "tet", "cube")
ORDER = {"plane": 0, "hfield": 1, "sphere": 2, "capsule": 3, "ellipsoid": 4, "cylinder": 5, "box": 6, "tet": 7, "cube": 7}
ORIENTS = ("generic", "aligned", "rot90", "vertex_face", "edge_edge")

# sizes: role A (static, larger) / role B (moving, smaller); scaled per seed variant
_SIZE = {
  "sphere": ((0.11,), (0.08,)),
  "capsule": ((0.05, 0.12), (0.04, 0.09)),
  "ellipsoid": ((0.08, 0.12, 0.06), (0.06, 0.05, 0.09)),
  "cylinder": ((0.09, 0.07), (0.06, 0.1)),
  "box": ((0.12, 0.1, 0.08), (0.06, 0.07, 0.05)),
  "plane": ((1, 1, 0.1), (1, 1, 0.1)),
}
_SCALE = (1.0, 1.15, 0.9, 1.3)
_TET = np.array([[0.0, 0.0, 0.0], [0.22, 0.0, 0.0], [0.0, 0.2, 0.0], [0.0, 0.0, 0.18]])
_CUBE = np.array(list(itertools.product((-1, 1), repeat=3)), float) * np.array([0.1, 0.09, 0.08])

_GEN_Q = [
  ((0.9238795, 0.2209424, 0.2209424, 0.2209424), (0.8, 0.36, -0.48, 0.0), (0.5, 0.5, 0.5, -0.5)),
  ((0.8660254, -0.2886751, 0.2886751, 0.2886751), (0.9659258, 0.0, 0.1830127, -0.1830127), (0.7071068, 0.5, -0.5, 0.0)),
  ((0.7071068, 0.5, -0.5, 0.0), (0.9238795, 0.2209424, 0.2209424, 0.2209424), (0.8, 0.36, -0.48, 0.0)),
  ((0.9659258, 0.0, 0.1830127, -0.1830127), (0.5, 0.5, 0.5, -0.5), (0.8660254, -0.2886751, 0.2886751, 0.2886751)),
]
_GEN_N = [(0.36, 0.48, 0.8), (0.6, 0.0, 0.8), (-0.48, 0.6, 0.64), (0.0, -0.6, 0.8)]
A_POS = (0.05, -0.04, 0.3)


def type_pairs(include_same=True):
  out = []
  for i, a in enumerate(TYPES):
    for b in TYPES[i:]:
      if a == "plane" and b == "plane":
        continue
      if a == b and not include_same:
        continue
      out.append((a, b))
  return out


def quat2mat(q):
  w, x, y, z = np.asarray(q, float) / np.linalg.norm(q)
  return np.array(
    [
      [1 - 2 * (y * y + z * z), 2 * (x * y - w * z), 2 * (x * z + w * y)],
      [2 * (x * y + w * z), 1 - 2 * (x * x + z * z), 2 * (y * z - w * x)],
      [2 * (x * z - w * y), 2 * (y * z + w * x), 1 - 2 * (x * x + y * y)],
    ]
  )


def orientation(orient, variant):
  """(qa, qb, n) for an orientation case; n in world coordinates (unit)."""
  g1, g2, g3 = _GEN_Q[variant % 4]
  ident = (1.0, 0.0, 0.0, 0.0)
  if orient == "aligned":
    qa, qb, n = ident, ident, np.array([0.0, 0.0, 1.0])
  elif orient == "rot90":
    qa, qb, n = ident, (0.7071067811865476, 0.7071067811865476, 0.0, 0.0), np.array([0.0, 0.0, 1.0])
  elif orient == "generic":
    qa, qb, n = g1, g2, np.array(_GEN_N[variant % 4])
  elif orient == "vertex_face":
    qa, qb = g1, g2
    n = quat2mat(qa)[:, 2]
  elif orient == "edge_edge":
    qa, qb = g1, g3
    n = np.cross(quat2mat(qa)[:, 0], quat2mat(qb)[:, 1])
  else:
    raise ValueError(orient)
  return qa, qb, n / np.linalg.norm(n)


def _geom_attrs(t, role, variant):
  sc = _SCALE[variant % 4]
  if t in ("tet", "cube"):
    return f'type="mesh" mesh="{t}{role}"'
  sz = _SIZE[t][0 if role == "A" else 1]
  if t != "plane":
    sz = tuple(sc * x for x in sz)
  return f'type="{t}" size="{space.fmt(tuple(float(x) for x in sz))}"'


def _assets(ta, tb, variant):
  sc = _SCALE[variant % 4]
  s = ""
  for t, role in ((ta, "A"), (tb, "B")):
    if t in ("tet", "cube"):
      v = (_TET if t == "tet" else _CUBE) * sc * (1.0 if role == "A" else 0.6)
      s += f'<mesh name="{t}{role}" vertex="{" ".join(f"{x:.6g}" for x in v.ravel())}"/>'
  return f"<asset>{s}</asset>" if s else ""


def scene_xml(ta, tb, qa, margin=0.0, gap=0.0, variant=0, option="", contact="", geomA_extra="", geomB_extra="", extra_world=""):
  """A = static world geom (index 0), B = geom on a free body (index 1)."""
  ma, mb = 0.6 * margin, 0.4 * margin
  ga, gb = 0.25 * gap, 0.75 * gap
  mg = lambda m, g: (f' margin="{m:.6g}"' if m else "") + (f' gap="{g:.6g}"' if g else "")
  return (
    f"<mujoco>{option}{_assets(ta, tb, variant)}<worldbody>"
    f'<geom name="gA" {_geom_attrs(ta, "A", variant)} pos="{space.fmt(A_POS)}" quat="{space.fmt(tuple(qa))}"{mg(ma, ga)} {geomA_extra}/>'
    f"{extra_world}"
    f'<body name="bB"><freejoint name="fB"/><geom name="gB" {_geom_attrs(tb, "B", variant)}{mg(mb, gb)} {geomB_extra}/></body>'
    f"</worldbody>{contact}</mujoco>"
  )


def d_cases(margin, gap):
  """Signed separations along n: deep, shallow, touching-eps, inside margin, inside gap, outside."""
  return [
    ("deep", -0.03),
    ("shallow", -0.004),
    ("touch", -1e-4),
    ("in_margin", 0.5 * margin if margin else 1e-4),
    ("in_gap", margin + 0.5 * gap if gap else (0.9 * margin if margin else 3e-4)),
    ("outside", margin + gap + 0.02),
  ]


def place(mjm, qb, n, dlist, gA=0, gB=1):
  """qpos of B's free joint for each separation d: B's support point in -n sits at A's support point + d*n.

  Returns (list of qpos[7], shapes (A, B at the first pose), pA).
  """
  import mujoco

  mjd = mujoco.MjData(mjm)
  adr = int(mjm.jnt_qposadr[mjm.body_jntadr[mjm.geom_bodyid[gB]]])
  mjd.qpos[adr : adr + 3] = 0
  mjd.qpos[adr + 3 : adr + 7] = qb
  mujoco.mj_kinematics(mjm, mjd)
  sA = sf.from_model(mjm, mjd, gA)
  sB0 = sf.from_model(mjm, mjd, gB)
  if sA.type == sf.PLANE:
    pA = sA.pos + sA.mat @ np.array([0.07, -0.05, 0.0])
  else:
    pA = sf.support(sA, n)[1]
  pB0 = sf.support(sB0, -n)[1]
  qs = []
  for d in dlist:
    t = pA + d * n - pB0
    q = np.array(mjd.qpos)
    q[adr : adr + 3] = t
    qs.append(q)
  return qs, sA, sB0, pA, pB0


# ------------------------------------------------------------------------------- scenario -> built scene (C04/C18/C20)

HF = dict(nrow=3, ncol=3, size=(0.3, 0.25, 0.12, 0.05), elev=(0.1, 0.4, 0.2, 0.5, 1.0, 0.6, 0.3, 0.7, 0.2))


def option_xml(scn, extra=""):
  flags = ""
  if not scn.get("multiccd", 1):
    flags += ' multiccd="disable"'
  s = f"<flag{flags}/>" if flags else ""
  return f"<option {extra}>{s}</option>" if (s or extra) else ""


def build_pair(scn):
  """Pair scenario -> dict(mjm, qs, cases, sA, n, static, moving) or dict(outcome=...)."""
  from mc import util

  ta, tb = (scn["tb"], scn["ta"]) if scn.get("swap") else (scn["ta"], scn["tb"])
  v, margin, gap = scn["variant"], scn["margin"], scn["gap"]
  qa, qb, n = orientation(scn["orient"], v)
  if ta == "plane":
    n = quat2mat(qa)[:, 2]
  xml = scene_xml(ta, tb, qa, margin, gap, v, option=option_xml(scn))
  mjm, err = util.try_load(xml)
  if mjm is None:
    return dict(outcome="rejected_by_compiler", info=err)
  cases = d_cases(margin, gap)
  qs, sA, sB0, pA, pB0 = place(mjm, qb, n, [d for _, d in cases])
  return dict(mjm=mjm, qs=qs, cases=cases, sA=sA, n=n, xml=xml)


def build_hfield(scn):
  """Height-field scenario: B's lowest point along the field's up axis is put d above the central peak."""
  import mujoco

  from mc import util

  tb, v, margin, gap = scn["tb"], scn["variant"], scn["margin"], scn["gap"]
  qa, qb, _ = orientation(scn["orient"], v)
  if scn["orient"] != "generic":
    qa = (1.0, 0, 0, 0)
  asset = f'<hfield name="hf" nrow="{HF["nrow"]}" ncol="{HF["ncol"]}" size="{space.fmt(HF["size"])}" elevation="{space.fmt(HF["elev"])}"/>'
  xml = scene_xml("sphere", tb, qa, margin, gap, v)
  a0 = xml.index('<geom name="gA"')
  a1 = xml.index("/>", a0) + 2
  mg = (f' margin="{0.6 * margin:.6g}"' if margin else "") + (f' gap="{0.25 * gap:.6g}"' if gap else "")
  gA = f'<geom name="gA" type="hfield" hfield="hf" pos="{space.fmt(A_POS)}" quat="{space.fmt(tuple(qa))}"{mg}/>'
  xml = xml[:a0] + gA + xml[a1:]
  if "<asset>" in xml:
    xml = xml.replace("<asset>", "<asset>" + asset)
  else:
    xml = xml.replace("<worldbody>", f"<asset>{asset}</asset><worldbody>")
  mjm, err = util.try_load(xml)
  if mjm is None:
    return dict(outcome="rejected_by_compiler", info=err)
  R = quat2mat(qa)
  up = R[:, 2]
  peak = np.array(A_POS) + R @ np.array([0.0, 0.0, HF["size"][2] * 1.0])
  cases = d_cases(margin, gap)
  mjd0 = mujoco.MjData(mjm)
  mjd0.qpos[3:7] = qb
  mujoco.mj_kinematics(mjm, mjd0)
  sB0 = sf.from_model(mjm, mjd0, 1)
  pB0 = sf.support(sB0, -up)[1]
  qs = []
  for _, dd in cases:
    q = np.array(mjd0.qpos)
    q[:3] = peak + dd * up - pB0
    qs.append(q)
  return dict(mjm=mjm, qs=qs, cases=cases, up=up, xml=xml)


def run_worlds(mjm, qs, nconmax=64, configure=None):
  """put_model + one batched kinematics/collision call with one world per qpos. May raise NotImplementedError."""
  import mujoco_warp as mjw

  from mc import util

  m = mjw.put_model(mjm)
  if configure:
    configure(m)
  d = mjw.make_data(mjm, nworld=len(qs), nconmax=nconmax)
  util.set_field(d.qpos, np.array(qs, dtype=np.float32))
  mjw.kinematics(m, d)
  mjw.collision(m, d)
  return m, d
