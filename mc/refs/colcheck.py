"""Contact comparison / validity checks shared by C04 (parity + certificate) and C20 (validity).

Pair classes (by how MJWarp routes the pair, see collision_driver.MJ_COLLISION_TABLE):
  P  closed-form primitive function, same manifold rule as MuJoCo -> compared contact by contact (f32)
  C  convex (GJK/EPA, optionally multi-contact) or plane-mesh manifold -> judged by the float64
     support-function certificate sep(n) = -h1(n) - h2(-n); MuJoCo's numbers are used only where MuJoCo
     passes the same certificate itself.
"""

import itertools

import numpy as np

from mc.refs import support_fn as sf

EPS32 = 6e-8
_P = {
  (sf.PLANE, sf.SPHERE),
  (sf.PLANE, sf.CAPSULE),
  (sf.PLANE, sf.ELLIPSOID),
  (sf.PLANE, sf.CYLINDER),
  (sf.PLANE, sf.BOX),
  (sf.SPHERE, sf.SPHERE),
  (sf.SPHERE, sf.CAPSULE),
  (sf.SPHERE, sf.CYLINDER),
  (sf.SPHERE, sf.BOX),
  (sf.CAPSULE, sf.CAPSULE),
  (sf.CAPSULE, sf.BOX),
}


def pair_name(t1, t2):
  a, b = sorted((int(t1), int(t2)))
  return f"{sf.NAMES[a]}-{sf.NAMES[b]}"


def pair_class(t1, t2):
  a, b = sorted((int(t1), int(t2)))
  if a == sf.HFIELD:
    return "H"
  return "P" if (a, b) in _P else "C"


CERT_BASE = 5e-4


def cert_tol(dist, pos, margin=0.0, base=CERT_BASE, lever=0.1):
  """Tolerance for |dist - sep(n)| of one convex-solver (GJK/EPA) contact computed in float32.

  base    convex-solver tolerance: EPA stops when the depth is within ccd_tolerance eps=1e-6; on a surface with radius
          of curvature rho that leaves the normal free within sqrt(2*eps/rho) (4.5e-3 rad for rho=0.1), and sep(n) moves
          by that angle times the lever arm to the support points (<= ~0.1 here) -> ~5e-4. (Calibration: MuJoCo's own
          float64 solver shows up to 2.2e-4 on the same scenes, MJWarp up to 2.6e-4 on regular cases.)
  margin  the CCD runs on margin-inflated (rounded) shapes with a capped iteration count; both engines then
          approximate a spherical cap of radius `margin` by polytope faces: envelope 0.05*margin.
  float32 MJWarp forms the normal from the difference of two float32 witness points |dist| apart: direction error
          ~eps32*|pos|/|dist|, times the lever arm.
  """
  d = max(abs(float(dist)), 1e-9)
  ang = min(2.0, 2.0 * EPS32 * (1.0 + float(np.max(np.abs(pos)))) / d)
  return base + 0.05 * abs(float(margin)) + ang * lever


def match(ref, got):
  """Minimum-cost assignment on position (brute force; manifolds have <= 5 points). Returns list of (i_ref, i_got)."""
  n = len(ref)
  if n != len(got):
    return None
  if n == 0:
    return []
  cost = np.array([[np.linalg.norm(r["pos"] - g["pos"]) for g in got] for r in ref])
  if n > 6:
    # greedy fallback for large sets (not used by the pair scenes)
    order, used = [], set()
    for i in range(n):
      j = min((j for j in range(n) if j not in used), key=lambda j: cost[i, j])
      used.add(j)
      order.append((i, j))
    return order
  best = min(itertools.permutations(range(n)), key=lambda p: sum(cost[i, p[i]] for i in range(n)))
  return [(i, best[i]) for i in range(n)]


def frame_valid(c, con, tag, vkey_prefix, tol=1e-5):
  """Frame rows orthonormal, right-handed, first row unit."""
  F = np.asarray(con["frame"], np.float64).reshape(3, 3)
  ok = True
  if not np.all(np.isfinite(F)):
    c.fail(f"{vkey_prefix}:frame_nonfinite", f"{tag}: non-finite frame {F.tolist()}")
    return False
  g = F @ F.T
  err = float(np.max(np.abs(g - np.eye(3))))
  if err > tol:
    c.fail(f"{vkey_prefix}:frame_not_orthonormal", f"{tag}: |F F^T - I|max={err:.3g} frame={np.round(F, 6).tolist()}")
    ok = False
  det = float(np.linalg.det(F))
  if abs(det - 1.0) > 3 * tol:
    c.fail(f"{vkey_prefix}:frame_not_right_handed", f"{tag}: det(frame)={det:.6g}")
    ok = False
  c.nchecked += 2
  return ok


def certificate(s1, s2, con):
  """(sep along the contact's normal, dist - sep)."""
  n = np.asarray(con["frame"], np.float64).reshape(3, 3)[0]
  s = sf.sep(s1, s2, n)
  return s, float(con["dist"]) - s


def best_sep(s1, s2, normals):
  """Best separation over candidate normals and their local float64 refinements."""
  best, bn = -np.inf, None
  for n in normals:
    if n is None or not np.all(np.isfinite(n)) or np.linalg.norm(n) < 0.5:
      continue
    v = sf.sep(s1, s2, n)
    if v > best:
      best, bn = v, np.asarray(n, np.float64)
  if bn is None:
    return best, bn
  rn, rv = sf.refine(s1, s2, bn)
  if rv > best:
    best, bn = rv, rn
  return best, bn
