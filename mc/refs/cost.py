"""Float64 NumPy reference of MuJoCo's constrained Gauss cost, its gradient and its per-row force law.

    cost(a) = 1/2 (a - a_s)' M (a - a_s) + sum_rows s_row(J a - aref)
    grad(a) = M (a - a_s) - J' f(J a - aref),            f = -ds/djar

Row laws (engine_solver.c / engine_core_constraint.c `mj_constraintUpdate`):
  equality                 s = D/2 jar^2                                   f = -D jar                     QUADRATIC
  friction loss (dof/ten)  rf = floss/D:  jar <= -rf: s = -floss (rf/2 + jar), f = +floss                  LINEARNEG
                                          jar >=  rf: s = -floss (rf/2 - jar), f = -floss                  LINEARPOS
                                          else quadratic
  limit / frictionless / pyramidal edge   jar < 0 quadratic, else s = 0, f = 0                             SATISFIED
  elliptic contact (dim rows, row 0 normal): mu = friction[0]/sqrt(impratio), U0 = jar0*mu, Uj = jarj*friction[j-1],
        N = U0, T = |U1..|;  top (N >= mu T, or T<=0 and N>=0): 0;  bottom (mu N + T <= 0, or T<=0 and N<0): quadratic
        on every row;  middle: Dm = D0/(mu^2 (1+mu^2)), s = Dm/2 (N - mu T)^2, f0 = -Dm (N - mu T) mu,
        fj = -f0/T * Uj * friction[j-1]                                                                    CONE

Because the cost is M-strongly convex, for any a:   cost(a) - min cost <= 1/2 g' M^-1 g   and
||a - a*||_M <= sqrt(g' M^-1 g)  (g = grad(a)).  These are the certificates used by C06 (they do not depend on any
solver iterate, MuJoCo's or MJWarp's).
"""

import numpy as np

SATISFIED, QUADRATIC, LINEARNEG, LINEARPOS, CONE = 0, 1, 2, 3, 4
T_EQ, T_FDOF, T_FTEN, T_LJNT, T_LTEN, T_CFL, T_CPYR, T_CELL = range(8)
MINVAL = 1e-15


class Problem:
  """One world's constrained-acceleration problem in float64."""

  def __init__(self, M, qacc_smooth, J, D, aref, frictionloss, type_, cones, meaninertia, tolerance):
    self.M = np.asarray(M, np.float64)
    self.qacc_smooth = np.asarray(qacc_smooth, np.float64)
    self.J = np.asarray(J, np.float64)
    self.D = np.asarray(D, np.float64)
    self.aref = np.asarray(aref, np.float64)
    self.frictionloss = np.asarray(frictionloss, np.float64)
    self.type = np.asarray(type_, np.int64)
    self.cones = cones  # list of (row index array [dim], friction[5], mu) for elliptic contacts with dim>1
    self.meaninertia = float(meaninertia)
    self.tolerance = float(tolerance)
    self.nv = self.M.shape[0]
    self.nefc = self.J.shape[0]
    self.in_cone = np.zeros(self.nefc, bool)
    for rows, _, _ in cones:
      self.in_cone[rows] = True

  # ------------------------------------------------------------------ row law
  def rows(self, jar):
    """(force, state, cost_per_row) for residuals jar = J a - aref."""
    jar = np.asarray(jar, np.float64)
    D, t = self.D, self.type
    force = np.zeros(self.nefc)
    state = np.zeros(self.nefc, np.int64)
    cost = np.zeros(self.nefc)
    quad_f = -D * jar
    quad_c = 0.5 * D * jar * jar
    # equality
    e = t == T_EQ
    force[e], state[e], cost[e] = quad_f[e], QUADRATIC, quad_c[e]
    # friction loss
    f = (t == T_FDOF) | (t == T_FTEN)
    if f.any():
      fl = self.frictionloss
      rf = np.where(D > 0, fl / np.where(D > 0, D, 1.0), 0.0)
      neg = f & (jar <= -rf)
      pos = f & (jar >= rf) & ~neg
      mid = f & ~neg & ~pos
      force[neg], state[neg], cost[neg] = fl[neg], LINEARNEG, -fl[neg] * (0.5 * rf[neg] + jar[neg])
      force[pos], state[pos], cost[pos] = -fl[pos], LINEARPOS, -fl[pos] * (0.5 * rf[pos] - jar[pos])
      force[mid], state[mid], cost[mid] = quad_f[mid], QUADRATIC, quad_c[mid]
    # one-sided rows (limits, frictionless, pyramidal, and elliptic contacts of dim 1 which carry no cone)
    o = (t >= T_LJNT) & ~self.in_cone
    act = o & (jar < 0)
    force[act], state[act], cost[act] = quad_f[act], QUADRATIC, quad_c[act]
    # elliptic cones
    for rows, fri, mu in self.cones:
      dim = len(rows)
      j = jar[rows]
      U = np.empty(dim)
      U[0] = j[0] * mu
      U[1:] = j[1:] * fri[: dim - 1]
      N = U[0]
      T = float(np.sqrt(np.sum(U[1:] ** 2)))
      if N >= mu * T or (T <= 0 and N >= 0):
        continue  # satisfied (zeros)
      if mu * N + T <= 0 or (T <= 0 and N < 0):
        force[rows], state[rows], cost[rows] = quad_f[rows], QUADRATIC, quad_c[rows]
        continue
      Dm = D[rows[0]] / max(mu * mu * (1 + mu * mu), MINVAL)
      NmT = N - mu * T
      f0 = -Dm * NmT * mu
      force[rows[0]] = f0
      force[rows[1:]] = -f0 / T * U[1:] * fri[: dim - 1]
      state[rows] = CONE
      cost[rows[0]] = 0.5 * Dm * NmT * NmT
    return force, state, cost

  # ------------------------------------------------------------------ cost / gradient
  def evaluate(self, qacc):
    qacc = np.asarray(qacc, np.float64)
    jar = self.J @ qacc - self.aref if self.nefc else np.zeros(0)
    force, state, crow = self.rows(jar)
    dq = qacc - self.qacc_smooth
    Mdq = self.M @ dq
    gauss = 0.5 * float(dq @ Mdq)
    qfrc = self.J.T @ force if self.nefc else np.zeros(self.nv)
    grad = Mdq - qfrc
    return dict(cost=gauss + float(crow.sum()), gauss=gauss, grad=grad, force=force, state=state, jar=jar, qfrc_constraint=qfrc, Mdq=Mdq)

  def scale(self):
    """The solver's own rescaling: value / (meaninertia * max(1, nv))."""
    return 1.0 / (self.meaninertia * max(1, self.nv))

  def certificate(self, qacc):
    """Scaled gradient norm, scaled suboptimality bound 1/2 g'M^-1 g, M-norm distance bound to the optimum."""
    ev = self.evaluate(qacc)
    g = ev["grad"]
    try:
      Mig = np.linalg.solve(self.M, g)
      dec = max(float(g @ Mig), 0.0)
    except np.linalg.LinAlgError:
      dec = float("inf")
    s = self.scale()
    ev.update(gradient=s * float(np.linalg.norm(g)), subopt=s * 0.5 * dec, dist_M=float(np.sqrt(dec)))
    # float32 floor of a gradient evaluation: the magnitudes that are summed into each component of g
    mag = np.abs(self.M) @ np.abs(qacc - self.qacc_smooth) + (np.abs(self.J.T) @ np.abs(ev["force"]) if self.nefc else 0.0)
    ev["grad_mag"] = s * float(np.linalg.norm(mag))
    ev["mag_vec"] = mag
    return ev

  def certificate_excess(self, ev, rel):
    """Certificate on the part of the gradient that rounding of relative size `rel` (per summed term) cannot explain:
    r_i = max(|g_i| - rel*mag_i, 0);  returns (scaled ||r||, scaled 1/2 r'M^-1 r)."""
    r = np.maximum(np.abs(ev["grad"]) - rel * ev["mag_vec"], 0.0) * np.sign(ev["grad"])
    try:
      dec = max(float(r @ np.linalg.solve(self.M, r)), 0.0)
    except np.linalg.LinAlgError:
      dec = float("inf")
    s = self.scale()
    return s * float(np.linalg.norm(r)), s * 0.5 * dec

  def boundary_distance(self, jar):
    """Per row: how far (in units of jar) the row is from a change of zone (inf for equality rows)."""
    jar = np.asarray(jar, np.float64)
    out = np.full(self.nefc, np.inf)
    t, D = self.type, self.D
    f = (t == T_FDOF) | (t == T_FTEN)
    rf = np.where(D > 0, self.frictionloss / np.where(D > 0, D, 1.0), 0.0)
    out[f] = np.minimum(np.abs(jar[f] - rf[f]), np.abs(jar[f] + rf[f]))
    o = (t >= T_LJNT) & ~self.in_cone
    out[o] = np.abs(jar[o])
    for rows, fri, mu in self.cones:
      dim = len(rows)
      U = np.empty(dim)
      U[0] = jar[rows[0]] * mu
      U[1:] = jar[rows[1:]] * fri[: dim - 1]
      N, T = U[0], float(np.sqrt(np.sum(U[1:] ** 2)))
      out[rows] = min(abs(N - mu * T), abs(mu * N + T)) / max(mu, 1e-12)
    return out


# ------------------------------------------------------------------------------------------- extraction


def problem_from_mjw(mjm, m, d, world, rows=None):
  """Builds the Problem of one world from MJWarp's own arrays (float32 values taken as exact)."""
  from mc import util

  if rows is None:
    nefc, rows = util.efc_dense(m, d, world)
  else:
    nefc = rows["J"].shape[0]
  M = util.full_m(mjm, d, world)
  cones = []
  if nefc and np.any(rows["type"] == T_CELL):
    impr = m.opt.impratio_invsqrt.numpy()
    impr = float(impr[world % impr.shape[0]])
    for con in util.mjw_contacts(d, world):
      dim = int(con["dim"])
      adr = np.asarray(con["efc_address"]).reshape(-1)
      if dim > 1 and adr[0] >= 0:
        r = adr[:dim].astype(int)
        if np.all(r >= 0) and np.all(r < nefc) and rows["type"][r[0]] == T_CELL:
          cones.append((r, np.asarray(con["friction"], np.float64), float(con["friction"][0]) * impr))
  mi = m.stat.meaninertia.numpy()
  tol = m.opt.tolerance.numpy()
  return Problem(
    M,
    d.qacc_smooth.numpy()[world],
    rows["J"],
    rows["D"],
    rows["aref"],
    rows["frictionloss"],
    rows["type"],
    cones,
    float(mi[world % mi.shape[0]]),
    float(tol[world % tol.shape[0]]),
  )


def problem_from_mj(mjm, mjd):
  """The same Problem from MuJoCo's own float64 arrays (used to validate this reference against MuJoCo itself)."""
  import mujoco

  from mc import util

  nefc, rows = util.mj_efc_dense(mjm, mjd)
  M = np.zeros((mjm.nv, mjm.nv))
  mujoco.mju_sym2dense(M, mjd.M, mjm.M_rownnz, mjm.M_rowadr, mjm.M_colind)
  cones = []
  if mjm.opt.cone == mujoco.mjtCone.mjCONE_ELLIPTIC:
    mu_scale = 1.0 / np.sqrt(max(mjm.opt.impratio, MINVAL))
    for i in range(mjd.ncon):
      con = mjd.contact[i]
      if con.dim > 1 and con.efc_address >= 0 and not con.exclude:
        r = np.arange(con.efc_address, con.efc_address + con.dim)
        if rows["type"][r[0]] == T_CELL:
          cones.append((r, np.array(con.friction), float(con.friction[0]) * mu_scale))
  return Problem(M, mjd.qacc_smooth, rows["J"], rows["D"], rows["aref"], rows["frictionloss"], rows["type"], cones, mjm.stat.meaninertia, mjm.opt.tolerance)


# ------------------------------------------------------------------------------------------- float64 reference solve


def refine(P, q0, iters=60):
  """Independent float64 minimisation of P's cost (damped Newton, finite-difference Hessian of the analytic gradient,
  Armijo backtracking on the exact cost).  Returns (q*, cost(q*), slack) where slack = 1/2 g*'M^-1 g* bounds how far
  cost(q*) can still be above the true minimum (strong convexity), so  cost(q)-cost(q*) <= subopt(q) <= cost(q)-cost(q*)+slack.
  """
  q = np.array(q0, np.float64)
  ev = P.evaluate(q)
  best = (q.copy(), ev["cost"], ev["grad"].copy())
  JT = P.J.T
  for _ in range(iters):
    g = ev["grad"]
    gn = float(np.linalg.norm(g))
    if gn <= 1e-13 * (1.0 + float(np.linalg.norm(np.abs(P.M) @ np.abs(q - P.qacc_smooth)))):
      break
    H = np.empty((P.nv, P.nv))
    for i in range(P.nv):
      h = 1e-6 * (1.0 + abs(q[i]))
      e = np.zeros(P.nv)
      e[i] = h
      H[:, i] = (P.evaluate(q + e)["grad"] - P.evaluate(q - e)["grad"]) / (2 * h)
    H = 0.5 * (H + H.T)
    try:
      np.linalg.cholesky(H)
    except np.linalg.LinAlgError:
      H = P.M + (JT * P.D) @ P.J if P.nefc else P.M
    p = -np.linalg.solve(H, g)
    gp = float(g @ p)
    if gp >= 0:
      p = -np.linalg.solve(P.M, g)
      gp = float(g @ p)
    t, c0 = 1.0, ev["cost"]
    moved = False
    for _ls in range(50):
      evn = P.evaluate(q + t * p)
      if evn["cost"] <= c0 + 1e-4 * t * gp:
        moved = True
        break
      t *= 0.5
    if not moved:
      break
    q, ev = q + t * p, evn
    if ev["cost"] <= best[1]:
      best = (q.copy(), ev["cost"], ev["grad"].copy())
  qb, cb, gb = best
  try:
    slack = 0.5 * max(float(gb @ np.linalg.solve(P.M, gb)), 0.0)
  except np.linalg.LinAlgError:
    slack = float("inf")
  return qb, cb, slack
