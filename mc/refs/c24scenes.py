"""C24 only: scenes whose force-law parameters differ per world (batched Model / Option fields).

Dimension: every batched ("*") field that enters the row force law (impratio, friction, solref, solimp, frictionloss of
contacts / explicit pairs / dofs / joint limits / tendons) x a batch of 3 distinct values (world 0 holds the middle one, so
other worlds hold both a smaller and a larger value; the thorough tier rotates the assignment) x a sweep of states that
carries every row from deep inside its quadratic (sticking) zone through the zone boundary into the saturated / sliding
zone, plus rest, reversed and separating states.  World w holds value w % 3 and state w // 3, i.e. the full cross
product of values and states is evaluated by one forward() (and the value index wraps, `worldid % shape[0]`).

Scenes:
  slide      three spheres (condim 3 / 4 / 6: sliding, sliding + spinning, sliding + rolling) and a box (4 contacts,
             explicit <pair>) on a plane, penetrating a few mm; state = sliding speed
  chain_lim  conscenes.dedicated("chain_lim"): limited hinges / ball / slide with dof friction loss, a limited spatial
             tendon with friction loss, a limited fixed tendon; state = scale of the design velocity
"""

import math

import numpy as np

from mc.refs import conscenes as cs

# geometric sweep, ratio 2^(1/3): no zone of relative width >= 1.26 between 0.01 and 0.8 is stepped over
SCALES = [0.01 * 2.0 ** (k / 3.0) for k in range(20)]

# field -> scene.  Only fields that enter the row force law (D, aref, friction cone, friction loss).
FIELDS = {
  "opt.impratio_invsqrt": "slide",
  "geom_friction": "slide",
  "geom_solref": "slide",
  "geom_solimp": "slide",
  "pair_friction": "slide",
  "pair_solref": "slide",
  "pair_solreffriction": "slide",
  "pair_solimp": "slide",
  "dof_frictionloss": "chain_lim",
  "dof_solref": "chain_lim",
  "dof_solimp": "chain_lim",
  "jnt_solref": "chain_lim",
  "jnt_solimp": "chain_lim",
  "tendon_frictionloss": "chain_lim",
  "tendon_solref_fri": "chain_lim",
  "tendon_solimp_fri": "chain_lim",
  "tendon_solref_lim": "chain_lim",
  "tendon_solimp_lim": "chain_lim",
}

# assignment of (low, mid, high) to the batch entries; entry k is seen by worlds k, k+3, ...
ORDERS = ([1, 0, 2], [2, 1, 0], [0, 2, 1])


def scenarios(tier, seed):
  variant = seed % 4
  out = []
  orders = ORDERS[:1] if tier == "quick" else ORDERS
  variants = [variant] if tier == "quick" else [variant, (variant + 1) % 4]
  for v in variants:
    for order in orders:
      for field, scene in FIELDS.items():
        out.append(dict(fam="batched", scene=scene, field=field, order=list(order), variant=v))
  return out


# ------------------------------------------------------------------------------------------- scenes


def scene(name, variant):
  """(xml, [(label, qpos, qvel)], make_data kwargs)."""
  v = variant % 4
  if name == "chain_lim":
    xml, qpos, qvel, kw = cs.dedicated("chain_lim", v)
    states = [("rest", qpos, [0.0] * len(qvel))]
    states += [(f"x{s:.4g}", qpos, [s * x for x in qvel]) for s in SCALES]
    states += [("reversed", qpos, [-0.3 * x for x in qvel]), ("design", qpos, list(qvel))]
    return xml, states, dict(kw)
  if name == "slide":
    mu = (0.6, 0.8, 0.4, 1.0)[v]
    sgn = (1.0, -1.0, 1.0, -1.0)[v]
    fr3 = f"{mu} {0.02 + 0.01 * v:.3g} {0.005 + 0.002 * v:.3g}"
    fr5 = f"{mu} {0.8 * mu:.3g} 0.02 0.004 0.006"
    pen = (0.005, 0.003, 0.008, 0.004)[v]
    r = 0.1
    xml = (
      "<mujoco><worldbody>"
      f'<geom name="floor" type="plane" size="5 5 .1" condim="1" friction="{fr3}"/>'
      f'<body name="a" pos="0 0 {r - pen}"><freejoint/><geom name="ga" type="sphere" size="{r}" mass="1" condim="3" friction="{fr3}"/></body>'
      f'<body name="b" pos="0.6 0 {r - pen}"><freejoint/><geom name="gb" type="sphere" size="{r}" mass="0.7" condim="4" friction="{fr3}"/></body>'
      f'<body name="c" pos="1.2 0 {r - pen}"><freejoint/><geom name="gc" type="sphere" size="{r}" mass="1.5" condim="6" friction="{fr3}"/></body>'
      f'<body name="d" pos="1.9 0 {0.1 - 0.4 * pen}"><freejoint/><geom name="gd" type="box" size="0.1 0.12 0.1" mass="2" contype="0" conaffinity="0"/></body>'
      "</worldbody>"
      f'<contact><pair name="pd" geom1="floor" geom2="gd" condim="3" friction="{fr5}"/></contact>'
      "</mujoco>"
    )
    qpos = []
    for x, z in ((0.0, r - pen), (0.6, r - pen), (1.2, r - pen), (1.9, 0.1 - 0.4 * pen)):
      qpos += [x, 0.0, z, 1.0, 0.0, 0.0, 0.0]
    # per body: direction of the velocity (linear, angular) at unit sliding speed
    dirs = [
      [1.0, 0.0, 0.0, 0.0, 0.0, 0.0],  # a: pure sliding
      [0.6, -0.8, 0.0, 0.0, 0.0, 20.0],  # b: sliding + spinning about the normal
      [-0.8, 0.6, 0.0, 3.0, 5.0, 10.0],  # c: sliding + rolling + spinning
      [1.0, 0.5, 0.0, 0.0, 0.0, 0.0],  # d: box sliding along both tangents
    ]

    def vel(s, vz=0.0):
      out = []
      for dr in dirs:
        out += [sgn * s * x for x in dr[:2]] + [vz] + [sgn * s * x for x in dr[3:]]
      return out

    states = [("rest", qpos, vel(0.0))]
    states += [(f"v{s:.4g}", qpos, vel(s)) for s in SCALES]
    states += [("reversed", qpos, vel(-0.07)), ("separating", qpos, vel(0.1, vz=1.5))]
    return xml, states, dict(njmax=48, nconmax=12)
  raise KeyError(name)


# ------------------------------------------------------------------------------------------- values


def values(field, base, variant):
  """[low, mid, high]: three distinct legal values of the field; base = compiled value (numpy, without the batch dim)."""
  v = variant % 4
  name = field.split(".")[-1]
  b64 = base.astype(np.float64)
  if name == "impratio_invsqrt":
    imp = ((1.0, 4.0, 16.0), (1.0, 2.0, 20.0), (0.5, 1.0, 8.0), (1.0, 10.0, 100.0))[v]
    return [np.full_like(b64, 1.0 / math.sqrt(x)) for x in imp], [f"impratio={x:g}" for x in imp]
  if name.endswith("frictionloss"):
    sc = (0.3, 1.0, 3.0)
    return [b64 * s for s in sc], [f"x{s:g}" for s in sc]
  if name.endswith("friction") and "solref" not in name:
    sc = ((0.5, 1.0, 2.0), (0.4, 1.0, 1.5), (0.7, 1.0, 3.0), (0.25, 1.0, 1.25))[v]
    return [b64 * s for s in sc], [f"x{s:g}" for s in sc]
  if "solref" in name:
    # positive form (timeconst, dampratio) for even variants, direct form (-stiffness, -damping) for odd ones
    if v % 2 == 0:
      prm = ((0.05, 0.8), (0.02, 1.0), (0.008, 1.2)) if v == 0 else ((0.04, 1.5), (0.015, 1.0), (0.006, 0.6))
    else:
      prm = ((-400.0, -30.0), (-2500.0, -100.0), (-9000.0, -150.0)) if v == 1 else ((-900.0, -20.0), (-3000.0, -110.0), (-12000.0, -300.0))
    out = []
    for p in prm:
      a = b64.copy()
      a[..., 0], a[..., 1] = p
      out.append(a)
    return out, [f"solref=({p[0]:g},{p[1]:g})" for p in prm]
  if "solimp" in name:
    prm = ((0.5, 0.8, 0.01), (0.9, 0.95, 0.001), (0.97, 0.995, 0.004))
    out = []
    for p in prm:
      a = b64.copy()
      a[..., 0], a[..., 1], a[..., 2] = p
      out.append(a)
    return out, [f"solimp=({p[0]:g},{p[1]:g},{p[2]:g},..)" for p in prm]
  raise KeyError(field)


def put_batched(mjw, wp, mjm, field, order, variant):
  """Model whose `field` holds [values[order[0]], values[order[1]], ...] along the batch dimension; labels per entry."""
  owner, _, name = field.rpartition(".")
  b = len(order)
  if owner == "":
    m = mjw.put_model(mjm, batch_sizes={name: b})
    arr = getattr(m, name)
    base = arr.numpy()[0]
    vals, labels = values(field, base, variant)
    stacked = np.stack([vals[k] for k in order]).astype(base.dtype)
    assert arr.shape[0] == b and arr.numpy().shape == stacked.shape, (field, arr.shape, stacked.shape)
    arr.assign(stacked)
  else:
    m = mjw.put_model(mjm)
    own = getattr(m, owner)
    arr = getattr(own, name)
    base = arr.numpy()[0]
    vals, labels = values(field, base, variant)
    stacked = np.stack([vals[k] for k in order]).astype(base.dtype)
    new = wp.array(stacked, dtype=arr.dtype)
    new._is_batched = True
    setattr(own, name, new)
  return m, [labels[k] for k in order]
