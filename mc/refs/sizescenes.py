"""Model-SIZE scene family for C06 (used only by mc/props/c06.py).

The constraint solver dispatches on the number of dofs (solver.py / io.py of the pinned tree):
  nv <= 32 | > 32   one-tile Cholesky vs blocked (augmented for Newton) Cholesky; nv_pad rounding 4 vs 16; jacobian=auto picks sparse
  nv <= 50 | > 50   jv = J*search fused into the line-search kernel vs separate kernels (zero + atomic accumulation by
                    ceil(nv/20) threads per row, reused while the search ray is unchanged); same split for the initial Jaref
  nv <= 60 | > 60   dense Jacobian refused by put_model above 60 (sparse only)
  nv+1 <= 48 | > 48 (Newton), nv <= 48 | > 48 (CG): nv_pad 48 vs 64 (tile count of the blocked factorisation / J'DJ tiles);
                    nv_pad 80 from nv = 64 (Newton: 63)
A size scene is built for an exact nv on each side of every threshold, in two structurally different kinds:

  "row":  k = nv // 6 free bodies (box, sphere, sphere, box, ...: 4 or 1 contacts each) lying in a grid on a (flat or 5 degree
          tilted) plane, 2 mm deep, no coupling between them (6x6 inertia blocks), plus nv - 6k hinge dofs of a pendulum arm
          with violated limits.  Sizes and masses vary with the index; every third triple of bodies has stiff contacts (solimp 0.99/0.999 instead of the default
          0.9/0.95; box geoms have priority 1 so their values are the contact's); approach speed along the plane normal runs
          through {0.05, 1, 3} m/s.  Four states: moving (approach + sliding + spinning), and three "pressed" states (pure normal
          approach, the three rotations of the speed alphabet) in which every contact row stays active from the start
          point to the optimum, i.e. the solver's constraint states never change while it iterates.
  "arms": nv hinge dofs in serial arms of <= 12 links hanging from the world (12x12 dense inertia blocks, deep trees), with
          violated / margin-active joint limits, friction loss, joint equalities coupling neighbouring arms and a limited
          fixed tendon; no contacts.  States: moving, moving reversed, at rest.

Only closed-form collision pairs (plane-box, plane-sphere).
"""

import numpy as np

from mc.refs import conscenes as cs

# (nv, why, kinds in the quick tier) -- both sides of every size threshold; dense is requested only where put_model accepts it
# (nv <= 60).  The quick tier keeps the kernel-dispatch thresholds; around 32|33 only the (cheap) arms kind.
SIZES = (
  (32, "last one-tile Cholesky", ("arms",)),
  (33, "first blocked Cholesky, nv_pad 48", ("arms",)),
  (47, "Newton: last nv_pad 48", ()),
  (48, "Newton: first nv_pad 64; CG: last nv_pad 48", ()),
  (49, "CG: first nv_pad 64", ()),
  (50, "last fused jv", ("row", "arms")),
  (51, "first separate jv / Jaref accumulation (3 threads per row)", ("row", "arms")),
  (60, "largest dense", ("row", "arms")),
  (61, "sparse only", ("row", "arms")),
  (65, "sparse only; nv_pad 80", ()),
)
DENSE_MAX = 60

SOLIMP = ("0.9 0.95 0.001", "0.9 0.95 0.001", "0.99 0.999 0.001")
VDOWN = (0.05, 1.0, 3.0)
ARM = 12


def row(nv, variant=0):
  """k = nv // 6 free bodies lying in a grid on the plane, no couplings between them; nv - 6k limited hinge dofs; 4 states."""
  v = variant % 4
  condim = (3, 4, 3, 6)[v]
  fr = ("0.8 0.02 0.01", "0.5 0.03 0.02", "1.1 0.01 0.005", "0.3 0.05 0.01")[v]
  tilt = ("1 0 0 0", "0.9961947 0.0871557 0 0", "0.9961947 0 0.0871557 0", "0.9990482 0.0308436 0.0308436 0")[v]  # flat, 5 deg about x / y / the diagonal
  tq = [float(x) for x in tilt.split()]
  R = cs._quat_to_mat(tq)
  n = R[:, 2]
  k, r = divmod(nv, 6)
  xml_b, qpos, qvel, qvel_p = "", [], [], ([], [], [])
  for i in range(k):
    col, rw = i % 5, i // 5
    lateral = (0.6 * col - 1.2, 0.6 * rw - 0.6)
    si, di = (i // 3 + v) % 3, (i + i // 3) % 3
    hx, hy, hz = 0.12 - 0.01 * (i % 2), 0.1 - 0.01 * (i % 4 // 2), 0.05 + 0.01 * (i % 4)
    if i % 3 == 0:
      geom = f'type="box" size="{hx:.3g} {hy:.3g} {hz:.3g}"'
    else:
      hz += 0.03
      geom = f'type="sphere" size="{hz:.3g}"'
    pos = n * (hz - 0.002) + R[:, 0] * lateral[0] + R[:, 1] * lateral[1]
    xml_b += (
      f'<body name="b{i}"><freejoint/><geom {geom} condim="{condim}" friction="{fr}" priority="1" '
      f'solimp="{SOLIMP[si]}" mass="{1.0 + 0.3 * i:.7g}"/></body>'
    )
    qpos += [float(x) for x in pos] + tq
    lat = (0.3 * ((i % 3) - 1), -0.2 * ((i % 2) * 2 - 1))
    lin = -n * VDOWN[di] + R[:, 0] * lat[0] + R[:, 1] * lat[1]
    qvel += [float(x) for x in lin] + [0.4 * ((i % 3) - 1), -0.3 * (i % 2), 0.5 * ((i + 1) % 3 - 1)]
    for rot in range(3):
      qvel_p[rot].extend([float(x) for x in -n * VDOWN[(di + rot) % 3]] + [0.0, 0.0, 0.0])
  arm = ""
  if r:
    arm, close = '<body name="arm" pos="0 0 1.5">', "</body>"
    for j in range(r):
      if j:
        arm += '<body pos="0.15 0 0">'
        close += "</body>"
      axis = ("0 1 0", "0.6 0.8 0", "0 0 1")[j % 3]
      arm += (
        f'<joint name="a{j}" type="hinge" axis="{axis}" limited="true" range="-0.3 0.3"/>'
        f'<geom type="capsule" fromto="0 0 0 0.15 0 0" size="0.02" contype="0" conaffinity="0"/>'
      )
      qpos.append((0.4, -0.1, -0.35)[j % 3])
      qvel.append((0.5, -1.0, 0.3)[j % 3])
      for rot in range(3):
        qvel_p[rot].append(0.0)
    arm += close
  plane = f'<geom name="floor" type="plane" size="3 3 .1" quat="{tilt}" condim="{condim}" friction="{fr}"/>'
  xml = f'<mujoco><compiler angle="radian"/><worldbody>{plane}{xml_b}{arm}</worldbody></mujoco>'
  return xml, [(qpos, qvel)] + [(qpos, qv) for qv in qvel_p], dict(njmax=1024, nconmax=128)


def arms(nv, variant=0):
  v = variant % 4
  s = (1.0, -1.0, 0.6, 1.3)[v]
  narm = -(-nv // ARM)
  body, qpos, qvel, eq, fixed = "", [], [], "", ""
  jid = 0
  for a in range(narm):
    L = min(ARM, nv - a * ARM)
    x = f'<body name="arm{a}" pos="{0.5 * a} 0 2">'
    close = "</body>"
    for j in range(L):
      if j:
        x += '<body pos="0.1 0 0">'
        close += "</body>"
      axis = ("0 1 0", "0.6 0.8 0", "0 0 1", "1 0 0")[(j + a) % 4]
      mode = (j + 2 * a) % 4  # 0 violated low, 1 free, 2 inside margin, 3 violated high
      fl = f' frictionloss="{0.05 * (1 + j % 3)}"' if (j + a) % 3 == 0 else ""
      mg = ' margin="0.05"' if mode == 2 else ""
      x += (
        f'<joint name="j{jid}" type="hinge" axis="{axis}" limited="true" range="-0.25 0.25"{mg}{fl} damping="0.01"/>'
        f'<geom type="capsule" fromto="0 0 0 0.1 0 0" size="0.015" contype="0" conaffinity="0" mass="{0.2 * (1 + (j + a) % 3):.3g}"/>'
      )
      qpos.append(s * (-0.3, 0.1, 0.22, 0.33)[mode] if mode != 2 else 0.22)
      qvel.append((0.8, -1.2, 0.4, -0.6, 1.5)[(j + 3 * a) % 5] * s)
      jid += 1
    body += x + close
    if a:
      # couple this arm to the previous one (off-diagonal Hessian block)
      eq += f'<joint joint1="j{a * ARM}" joint2="j{(a - 1) * ARM + 1}" polycoef="0.05 0.5 0 0 0"/>'
  fixed = (
    f'<tendon><fixed name="tf" limited="true" range="-0.05 0.05"><joint joint="j0" coef="1"/>'
    f'<joint joint="j{nv - 1}" coef="-0.5"/><joint joint="j{nv // 2}" coef="0.7"/></fixed></tendon>'
  )
  xml = (
    f'<mujoco><compiler angle="radian"/><worldbody>{body}</worldbody>'
    + (f"<equality>{eq}</equality>" if eq else "")
    + fixed
    + "</mujoco>"
  )
  return xml, [(qpos, qvel), (qpos, [-0.5 * x + 0.1 for x in qvel]), (qpos, [0.0] * nv)], dict(njmax=256, nconmax=8)


KINDS = {"row": row, "arms": arms}


def build(kind, nv, variant=0):
  """(xml, [(qpos, qvel), ...] one per world, make_data kwargs)"""
  return KINDS[kind](nv, variant)
