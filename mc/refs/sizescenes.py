"""Model-SIZE scene family for C06 (used only by mc/props/c06.py).

The constraint solver dispatches on the number of dofs (solver.py / io.py of the pinned tree):
  nv <= 32 | > 32   one-tile Cholesky vs blocked (augmented for Newton) Cholesky; nv_pad rounding 4 vs 16; jacobian=auto picks sparse
  nv+1 <= 48 | > 48 (Newton), nv <= 48 | > 48 (CG): nv_pad 48 vs 64 (tile count of the blocked factorisation / J'DJ tiles)
  nv <= 50 | > 50   jv = J*search fused into the line-search kernel vs separate kernels (zero + atomic accumulation by
                    ceil(nv/20) threads per row); same split for the initial Jaref
  nv <= 60 | > 60   dense Jacobian refused by put_model above 60 (sparse only); nv_pad 64 vs 80 from nv = 64 (Newton: 63)
A size scene is built for an exact nv on each side of every threshold, in two structurally different kinds:

  "bodies": k = nv // 6 free bodies lying on / hitting a tilted plane (kinds cycling box, box stacked on the previous box,
            sphere, lying capsule; 6x6 inertia blocks; connects between some neighbours give off-diagonal Hessian blocks) and
            nv - 6k hinge dofs of a limited pendulum arm.  Per body the contact parameters run through small alphabets:
            mass scale {1, 0.01, 0.001}, solimp {default, 0.99/0.999, 0.999/0.9999} (body geoms have priority 1, so the
            body's values are the contact's), approach speed along the plane normal {0.05, 1, 3}.
  "arms":   nv hinge dofs in serial arms of <= 12 links hanging from the world (12x12 dense inertia blocks, deep trees), with
            violated / margin-active joint limits, friction loss, joint equalities coupling neighbouring arms and a limited
            fixed tendon; no contacts.

Only closed-form collision pairs (plane-box, plane-sphere, plane-capsule, box-box as in the dedicated stack scenes).
"""

import numpy as np

from mc.refs import conscenes as cs

# (nv, why) -- both sides of every size threshold; dense is requested only where put_model accepts it (nv <= 60)
SIZES = (
  (32, "last one-tile Cholesky"),
  (33, "first blocked Cholesky, nv_pad 48"),
  (47, "Newton: last nv_pad 48"),
  (48, "Newton: first nv_pad 64; CG: last nv_pad 48"),
  (49, "CG: first nv_pad 64"),
  (50, "last fused jv"),
  (51, "first separate jv / Jaref accumulation (3 threads per row)"),
  (60, "largest dense"),
  (61, "sparse only; 4 accumulation threads"),
  (65, "sparse only; nv_pad 80"),
)
DENSE_MAX = 60

MASS = (1.0, 0.01, 0.001)
SOLIMP = ("0.9 0.95 0.001", "0.99 0.999 0.001", "0.999 0.9999 0.001")
VDOWN = (0.05, 1.0, 3.0)
ARM = 12


def _fmt(v):
  return " ".join(f"{float(x):.7g}" for x in v)


def bodies(nv, variant=0):
  v = variant % 4
  condim = (3, 4, 3, 6)[v]
  fr = ("0.8 0.02 0.01", "0.5 0.03 0.02", "1.1 0.01 0.005", "0.3 0.05 0.01")[v]
  tilt = ("1 0 0 0", "0.9961947 0.0871557 0 0", "0.9961947 0 0.0871557 0", "0.9914449 0.0922959 0.0922959 0")[v]
  tq = [float(x) for x in tilt.split()]
  R = cs._quat_to_mat(tq)
  n = R[:, 2]

  def above(h, lateral):
    return [float(x) for x in (n * h + R[:, 0] * lateral[0] + R[:, 1] * lateral[1])]

  def vel(i, down):
    lat = (0.3 * ((i % 3) - 1), -0.2 * ((i % 2) * 2 - 1))
    lin = -n * down + R[:, 0] * lat[0] + R[:, 1] * lat[1]
    ang = [0.4 * ((i % 3) - 1), -0.3 * (i % 2), 0.5 * ((i + 1) % 3 - 1)]
    return [float(x) for x in lin] + ang

  k, r = divmod(nv, 6)
  xml_b, qpos, qvel, eq = "", [], [], ""
  prev_box = None  # (height of its top face, lateral, mass alphabet index, solimp index) of the last bottom box
  for i in range(k):
    kind = ("box", "boxtop", "sphere", "capsule")[i % 4]
    col, row = i % 5, i // 5
    lateral = (0.6 * col - 1.2, 0.6 * row - 0.6)
    mi, si, di = (i + v) % 3, (i // 3 + v) % 3, (i + i // 3) % 3
    if kind == "boxtop" and prev_box is None:
      kind = "box"
    if kind == "boxtop":
      top, lateral0, mi, si = prev_box
      hz = 0.06
      size = f"0.1 0.085 {hz}"
      lateral = (lateral0[0] + 0.01, lateral0[1] - 0.015)
      pos = above(top + hz - 0.003, lateral)
      quat = tq
      geom = f'type="box" size="{size}"'
      mass = 1.5
      prev_box = None
    elif kind == "box":
      hz = 0.05
      geom = f'type="box" size="0.12 0.1 {hz}"'
      pos = above(hz - 0.002, lateral)
      quat = tq
      mass = 1.0
      prev_box = (2 * hz - 0.002, lateral, mi, si)
    elif kind == "sphere":
      geom = 'type="sphere" size="0.08"'
      pos = above(0.077, lateral)
      quat = [1, 0, 0, 0]
      mass = 0.7
    else:
      geom = 'type="capsule" size="0.04 0.1"'
      pos = above(0.037, lateral)
      quat = list(cs._quat_z_to(R[:, i % 2]))
      mass = 0.6
    xml_b += (
      f'<body name="b{i}"><freejoint/><geom {geom} condim="{condim}" friction="{fr}" priority="1" '
      f'solimp="{SOLIMP[si]}" mass="{mass * MASS[mi]:.7g}"/></body>'
    )
    qpos += pos + [float(x) for x in quat]
    qvel += vel(i, VDOWN[di])
    if kind == "capsule":
      # couple the capsule to the sphere before it (off-diagonal Hessian block, always-active quadratic rows)
      eq += f'<connect body1="b{i - 1}" body2="b{i}" anchor="0.05 0 0.02"/>'
  arm = ""
  if r:
    arm, close = '<body name="arm" pos="0 0 1.5">', "</body>"
    for j in range(r):
      if j:
        arm += f'<body pos="0.15 0 0">'
        close += "</body>"
      axis = ("0 1 0", "0.6 0.8 0", "0 0 1")[j % 3]
      fl = ' frictionloss="0.1"' if j % 2 else ""
      arm += (
        f'<joint name="a{j}" type="hinge" axis="{axis}" limited="true" range="-0.3 0.3"{fl}/>'
        f'<geom type="capsule" fromto="0 0 0 0.15 0 0" size="0.02" contype="0" conaffinity="0"/>'
      )
      qpos.append((0.4, -0.1, -0.35)[j % 3])
      qvel.append((0.5, -1.0, 0.3)[j % 3])
    arm += close
  plane = f'<geom name="floor" type="plane" size="3 3 .1" quat="{tilt}" condim="{condim}" friction="{fr}"/>'
  xml = (
    f'<mujoco><compiler angle="radian"/><worldbody>{plane}{xml_b}{arm}</worldbody>'
    + (f"<equality>{eq}</equality>" if eq else "")
    + "</mujoco>"
  )
  return xml, qpos, qvel, dict(njmax=1024, nconmax=128)


def arms(nv, variant=0):
  v = variant % 4
  s = (1.0, -1.0, 0.6, 1.3)[v]
  narm = -(-nv // ARM)
  body, qpos, qvel, eq, fixed = "", [], [], "", ""
  jid = 0
  for a in range(narm):
    L = min(ARM, nv - a * ARM)
    x = f'<body name="arm{a}" pos="{0.5 * a} 0 2">'
    close = "</body>"
    for j in range(L):
      if j:
        x += '<body pos="0.1 0 0">'
        close += "</body>"
      axis = ("0 1 0", "0.6 0.8 0", "0 0 1", "1 0 0")[(j + a) % 4]
      mode = (j + 2 * a) % 4  # 0 violated low, 1 free, 2 inside margin, 3 violated high
      fl = f' frictionloss="{0.05 * (1 + j % 3)}"' if (j + a) % 3 == 0 else ""
      mg = ' margin="0.05"' if mode == 2 else ""
      x += (
        f'<joint name="j{jid}" type="hinge" axis="{axis}" limited="true" range="-0.25 0.25"{mg}{fl} damping="0.01"/>'
        f'<geom type="capsule" fromto="0 0 0 0.1 0 0" size="0.015" contype="0" conaffinity="0" mass="{0.2 * (1 + (j + a) % 3):.3g}"/>'
      )
      qpos.append(s * (-0.3, 0.1, 0.22, 0.33)[mode] if mode != 2 else 0.22)
      qvel.append((0.8, -1.2, 0.4, -0.6, 1.5)[(j + 3 * a) % 5] * s)
      jid += 1
    body += x + close
    if a:
      # couple this arm to the previous one (off-diagonal Hessian block)
      eq += f'<joint joint1="j{a * ARM}" joint2="j{(a - 1) * ARM + 1}" polycoef="0.05 0.5 0 0 0"/>'
  fixed = (
    f'<tendon><fixed name="tf" limited="true" range="-0.05 0.05"><joint joint="j0" coef="1"/>'
    f'<joint joint="j{nv - 1}" coef="-0.5"/><joint joint="j{nv // 2}" coef="0.7"/></fixed></tendon>'
  )
  xml = (
    f'<mujoco><compiler angle="radian"/><worldbody>{body}</worldbody>'
    + (f"<equality>{eq}</equality>" if eq else "")
    + fixed
    + "</mujoco>"
  )
  return xml, qpos, qvel, dict(njmax=256, nconmax=8)


KINDS = {"bodies": bodies, "arms": arms}


def build(kind, nv, variant=0):
  return KINDS[kind](nv, variant)
