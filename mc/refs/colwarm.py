"""Worker warm-up for collision drivers.

MJWarp's primitive narrow phase keeps a process-global, grow-only dispatch list
(collision_primitive._PRIMITIVE_COLLISION_TYPES/_FUNC; property C36 owns that behaviour). The kernel that runs for a
scenario therefore depends on which pair types earlier scenarios of the same worker contained. To make every worker
independent of its scenario order, each worker first runs one model that contains every default primitive pair type
(as explicit <pair>s, in the library's own table order), so the list is complete and identical in all workers before
the first scenario. NATIVECCD stays at its default, so (box, box) is never added.
"""

_DONE = False

_XML = """
<mujoco>
  <asset><mesh name="wm" vertex="0 0 0  0.1 0 0  0 0.1 0  0 0 0.1"/></asset>
  <default><geom contype="0" conaffinity="0"/></default>
  <worldbody>
    <geom name="pl" type="plane" size="1 1 0.1"/>
    <body pos="0 0 1"><freejoint/><geom name="s1" type="sphere" size="0.1"/></body>
    <body pos="1 0 1"><freejoint/><geom name="s2" type="sphere" size="0.1"/></body>
    <body pos="2 0 1"><freejoint/><geom name="c1" type="capsule" size="0.05 0.1"/></body>
    <body pos="3 0 1"><freejoint/><geom name="c2" type="capsule" size="0.05 0.1"/></body>
    <body pos="4 0 1"><freejoint/><geom name="e1" type="ellipsoid" size="0.05 0.1 0.07"/></body>
    <body pos="5 0 1"><freejoint/><geom name="y1" type="cylinder" size="0.05 0.1"/></body>
    <body pos="6 0 1"><freejoint/><geom name="b1" type="box" size="0.05 0.1 0.07"/></body>
    <body pos="7 0 1"><freejoint/><geom name="m1" type="mesh" mesh="wm"/></body>
  </worldbody>
  <contact>
    <pair geom1="pl" geom2="s1"/><pair geom1="pl" geom2="c1"/><pair geom1="pl" geom2="e1"/><pair geom1="pl" geom2="y1"/>
    <pair geom1="pl" geom2="b1"/><pair geom1="pl" geom2="m1"/><pair geom1="s1" geom2="s2"/><pair geom1="s1" geom2="c1"/>
    <pair geom1="s1" geom2="y1"/><pair geom1="s1" geom2="b1"/><pair geom1="c1" geom2="c2"/><pair geom1="c1" geom2="b1"/>
  </contact>
</mujoco>
"""


def warm_dispatch():
  global _DONE
  if _DONE:
    return
  import mujoco
  import mujoco_warp as mjw
  from mujoco_warp._src import collision_primitive as cp

  mjm = mujoco.MjModel.from_xml_string(_XML)
  m = mjw.put_model(mjm)
  d = mjw.make_data(mjm, nworld=1, nconmax=32)
  mjw.kinematics(m, d)
  mjw.collision(m, d)
  want = [k for k in cp._PRIMITIVE_COLLISIONS if not (k[0] == k[1] and int(k[0]) == 6)]
  have = list(cp._PRIMITIVE_COLLISION_TYPES)
  if have != want:
    raise RuntimeError(f"primitive dispatch list not in canonical state after warm-up: {have}")
  _DONE = True
