"""Kitchen-sink model for C10: one scene in which (nearly) every batchable Model/Option field has an effect.

Contents: plane/box/mesh/ellipsoid contacts (geom margins, gaps, friction, solmix, solref, solimp), an explicit
sphere-sphere pair and an explicit ellipsoid-box (CCD) pair, limited + sprung + damped + frictional slide/hinge/ball
joints (all limits violated in the initial state), fixed and spatial tendons (limit, friction, spring, damper,
armature, actuator force range), connect/joint/tendon/weld equalities, motor/position/filter/integrator/muscle/
slider-crank/site/adhesion actuators, gravity compensation, fluid forces, tracking cameras and lights, and sensors
reading all of that.  The geoms of the explicit gap-zone pairs carry a large geom margin only so that the broad-phase filter
(which ignores pair margins - a known defect outside C10) lets them through.
"""

import numpy as np

SINK = """<mujoco>
<compiler angle="radian"/>
<option timestep="0.004" {opt} wind="0.3 -0.2 0.1" density="1.2" viscosity="0.02" magnetic="0.1 -0.4 0.3" impratio="2">
  <flag energy="enable" {flag}/>
</option>
<size nuserdata="2"/>
<asset>
  <mesh name="tet" vertex="0 0 0  0.12 0 0  0 0.12 0  0 0 0.12"/>
  <mesh name="wedge" vertex="0 0 0  0.15 0 0  0 0.1 0  0 0 0.09  0.15 0.1 0.05"/>
  <material name="mat" rgba="0.5 0.6 0.7 1"/>
</asset>
<worldbody>
  <geom name="floor" type="plane" size="3 3 0.1" contype="1" conaffinity="0" margin="0.01" gap="0.002" friction="0.9 0.01 0.002" solmix="1.5" solref="0.03 0.9" solimp="0.85 0.93 0.002 0.5 2" material="mat" surfacevel="0.05 0 0 0 0 0.1"/>
  <light name="l0" pos="0 0 3" dir="0 0 -1"/>
  <camera name="c0" pos="1 -1 1" quat="0.8 0.36 -0.48 0"/>
  <site name="w0" pos="0.3 0.3 0.6"/>
  <body name="mo" mocap="true" pos="0.6 0.6 0.4"><geom name="gmo" size="0.03" contype="0" conaffinity="0"/></body>
  <body name="box" pos="0 0 0.098" gravcomp="0.4">
    <freejoint name="fj"/>
    <geom name="gbox" type="box" size="0.1 0.08 0.1" contype="0" conaffinity="1" margin="0.008" gap="0.001" friction="0.7 0.02 0.003" solmix="0.8" solref="0.025 1.1" solimp="0.88 0.94 0.0015 0.5 2" fluidshape="ellipsoid"/>
    <site name="sbox" pos="0.05 0.02 0.1" quat="0.8 0.36 -0.48 0"/>
    <camera name="c1" mode="trackcom" pos="0.3 -0.3 0.3" quat="0.9238795 0.2209424 0.2209424 0.2209424"/>
    <light name="l1" mode="trackcom" pos="0 0 1" dir="0.36 0.48 -0.8"/>
    <camera name="c2" mode="targetbody" target="arm" pos="0.2 0.2 0.2"/>
    <light name="l2" mode="track" pos="0.1 0 0.5" dir="0 0.6 -0.8"/>
  </body>
  <body name="meshb" pos="0.5 0 -0.002">
    <freejoint name="fm"/>
    <geom name="gmesh" type="mesh" mesh="tet" contype="0" conaffinity="1" margin="0.006" friction="0.8 0.01 0.001" mass="0.3"/>
  </body>
  <body name="ell" pos="-0.5 0 0.058">
    <freejoint name="fe"/>
    <geom name="gell" type="ellipsoid" size="0.09 0.07 0.06" contype="0" conaffinity="1" margin="0.004" mass="0.4"/>
  </body>
  <body name="b2" pos="-0.5 0.08 0.17">
    <joint name="b2j" type="slide" axis="0 0 1"/>
    <geom name="gb2" type="box" size="0.06 0.06 0.1" quat="0.9659258 0.1830127 0 -0.1830127" contype="0" conaffinity="0" mass="0.3"/>
  </body>
  <body name="base" pos="0 0.7 0.6">
    <joint name="sl" type="slide" axis="0.6 0 0.8" pos="0.01 0.02 0.03" range="-0.05 0.3" limited="true" margin="0.01" stiffness="12 5 2" springref="0.05" damping="0.6 0.2 0.1" armature="0.05" frictionloss="0.15"
           solreflimit="0.03 0.8" solimplimit="0.86 0.92 0.002 0.5 2" solreffriction="0.04 1.2" solimpfriction="0.87 0.91 0.003 0.5 2" actuatorfrclimited="true" actuatorfrcrange="-0.2 0.2"/>
    <geom name="gbase" type="capsule" size="0.04 0.08" quat="0.7071068 0.5 -0.5 0" contype="0" conaffinity="0"/>
    <site name="sbase" pos="0 0.05 0.08"/>
    <body name="arm" pos="0.1 0.05 0.12" quat="0.9659258 0 0.1830127 -0.1830127">
      <joint name="hg" type="hinge" axis="0 0.8 -0.6" pos="0.02 -0.01 0.03" range="-0.4 0.2" limited="true" margin="0.02" stiffness="3" springref="0.1" damping="0.2" armature="0.02" frictionloss="0.05"/>
      <geom name="garm" type="capsule" size="0.03 0.1" pos="0.05 0 0.05" contype="0" conaffinity="0"/>
      <site name="sarm" pos="0.1 0.02 0.1"/>
      <site name="crank" pos="0.05 0.05 0.02"/>
      <camera name="c3" mode="track" pos="0.2 -0.1 0.3" quat="0.8660254 -0.2886751 0.2886751 0.2886751"/>
      <body name="tip" pos="0.1 0 0.2">
        <joint name="bj" type="ball" pos="0.01 0.01 0" range="0 0.5" limited="true" margin="0.015" damping="0.1" stiffness="1.5"/>
        <geom name="gtip" size="0.04" contype="0" conaffinity="0" mass="0.2"/>
        <site name="stip" pos="0 0.03 0.06"/>
        <site name="slider" pos="0.02 0 0.1" quat="0.9238795 0.2209424 0.2209424 0.2209424"/>
      </body>
    </body>
  </body>
  <body name="p1" pos="1 1 0.3"><joint name="p1j" type="slide" axis="0 0 1"/><geom name="gp1" size="0.1" contype="0" conaffinity="0"/></body>
  <body name="p2" pos="1 1 0.45"><joint name="p2j" type="slide" axis="0 0 1"/><geom name="gp2" size="0.1" contype="0" conaffinity="0"/></body>
  <geom name="gs1" size="0.05" pos="2 0 0.5" contype="2" conaffinity="2" margin="0.01" gap="0.005" adhesion="2"/>
  <body name="ga1" pos="2 0 0.6297"><joint type="slide" axis="0 0 1"/><geom name="gg1" size="0.05" contype="2" conaffinity="2" margin="0.01" gap="0.005" adhesion="1.5"/></body>
  <geom name="gs2" size="0.05" pos="2 1 0.5" contype="4" conaffinity="4" margin="0.01" gap="0.005" adhesion="2"/>
  <body name="ga2" pos="2 1 0.6303"><joint type="slide" axis="0 0 1"/><geom name="gg2" size="0.05" contype="4" conaffinity="4" margin="0.01" gap="0.005" adhesion="1.5"/></body>
  <geom name="gs3" size="0.05" margin="0.05" pos="2 2 0.5" contype="0" conaffinity="0"/>
  <body name="ga3" pos="2 2 0.6297"><joint type="slide" axis="0 0 1"/><geom name="gg3" size="0.05" margin="0.05" contype="0" conaffinity="0"/></body>
  <geom name="gs4" size="0.05" margin="0.05" pos="2 3 0.5" contype="0" conaffinity="0"/>
  <body name="ga4" pos="2 3 0.6303"><joint type="slide" axis="0 0 1"/><geom name="gg4" size="0.05" margin="0.05" contype="0" conaffinity="0"/></body>
</worldbody>
<contact>
  <pair name="pg3" geom1="gs3" geom2="gg3" condim="3" margin="0.02" gap="0.01" adhesion="3"/>
  <pair name="pg4" geom1="gs4" geom2="gg4" condim="3" margin="0.02" gap="0.01" adhesion="3"/>
  <pair name="pccd" geom1="gell" geom2="gb2" condim="3"/>
  <pair name="pp" geom1="gp1" geom2="gp2" condim="4" margin="0.02" gap="0.003" friction="0.6 0.5 0.01 0.002 0.003" solref="0.035 0.95" solreffriction="0.05 1.05" solimp="0.84 0.9 0.004 0.5 2"/>
</contact>
<tendon>
  <fixed name="tf" limited="true" range="-0.02 0.05" margin="0.01" stiffness="4 2 1" springlength="0.01 0.02" damping="0.3 0.1 0.05" armature="0.03" frictionloss="0.08"
         solreflimit="0.033 0.85" solimplimit="0.83 0.9 0.002 0.5 2" solreffriction="0.042 1.15" solimpfriction="0.82 0.89 0.003 0.5 2" actuatorfrclimited="true" actuatorfrcrange="-0.05 0.05">
    <joint joint="sl" coef="0.7"/><joint joint="hg" coef="-0.4"/>
  </fixed>
  <spatial name="ts" stiffness="6" damping="0.2" springlength="0.2"><site site="w0"/><site site="sarm"/><site site="stip"/></spatial>
  <fixed name="tg"><joint joint="p1j" coef="1"/></fixed>
</tendon>
<equality>
  <connect name="ec" body1="tip" body2="mo" anchor="0.02 0.03 0.05" solref="0.05 1.3" solimp="0.8 0.88 0.004 0.5 2"/>
  <joint name="ej" joint1="p2j" joint2="sl" polycoef="0.02 0.6 0.3 0 0" solref="0.045 1.25"/>
  <tendon name="et" tendon1="tg" tendon2="ts" polycoef="0.01 0.3 0 0 0" solref="0.06 1.1"/>
  <weld name="ew" body1="p1" relpose="0.02 0.01 0.33 0.98 0.1 0.1 0.1" anchor="0.01 0.02 0.03" torquescale="0.7" solref="0.07 1.0"/>
</equality>
<actuator>
  <motor name="am" joint="sl" gear="1.3" ctrllimited="true" ctrlrange="-0.4 0.4" forcelimited="true" forcerange="-0.6 0.6"/>
  <position name="ap" joint="hg" kp="8" kv="0.4" forcelimited="true" forcerange="-0.1 0.1"/>
  <general name="af" joint="hg" dyntype="filter" dynprm="0.3" gainprm="2.5" biastype="affine" biasprm="0.1 -0.5 -0.05" actlimited="true" actrange="-0.2 0.25" gear="0.8"/>
  <general name="aint" tendon="tf" dyntype="integrator" gainprm="1.5" actlimited="true" actrange="-0.3 0.12"/>
  <muscle name="amu" tendon="ts" lengthrange="0.3 1.2" force="-1" scale="150"/>
  <general name="acr" cranksite="crank" slidersite="slider" cranklength="0.3" gainprm="0.9" gear="0.5"/>
  <general name="ast" site="stip" refsite="sbase" gear="0.3 -0.2 0.5 0.1 0.2 -0.1" gainprm="1.1"/>
  <adhesion name="aad" body="box" gain="0.7" ctrlrange="0 1"/>
</actuator>
<sensor>
  <jointpos joint="sl"/><jointvel joint="hg"/><tendonpos tendon="ts"/><tendonvel tendon="tf"/><actuatorfrc actuator="am"/><actuatorfrc actuator="amu"/>
  <framepos objtype="site" objname="stip"/><framequat objtype="site" objname="sbox"/><framepos objtype="camera" objname="c1"/><framexaxis objtype="camera" objname="c2"/>
  <magnetometer site="sarm"/><accelerometer site="stip"/><gyro site="sbox"/><force site="sarm"/><torque site="sarm"/>
  <subtreecom body="base"/><subtreelinvel body="base"/><subtreeangmom body="box"/><touch site="sbox"/>
  <jointactuatorfrc joint="sl"/><tendonactuatorfrc tendon="tf"/><jointlimitfrc joint="hg"/><tendonlimitfrc tendon="tf"/>
  <e_potential/><e_kinetic/><clock/>
</sensor>
</mujoco>"""

VARIANTS = {
  "A": ('', ''),
  "B": ('cone="elliptic" solver="CG" integrator="implicitfast" jacobian="sparse" tolerance="1e-7"', ''),
  "C": ('tolerance="1e-7"', 'sleep="enable"'),
  "D": ('integrator="RK4" jacobian="sparse" tolerance="1e-7"', ''),
}

CTRL = (0.5, 0.2, 0.3, -0.4, 0.6, 0.3, -0.2, 0.5)
ACT = (0.3, 0.15, 0.2)


def xml(variant):
  opt, flag = VARIANTS[variant]
  return SINK.format(opt=opt, flag=flag)


def initial_state(mjm, alt=0):
  """(qpos, qvel, ctrl, act, mocap_pos): limits violated, everything moving."""
  import mujoco

  q = np.array(mjm.qpos0)
  adr = {mjm.joint(i).name: int(mjm.jnt_qposadr[i]) for i in range(mjm.njnt)}
  q[adr["sl"]] = 0.31 + 0.01 * alt
  q[adr["hg"]] = 0.25 - 0.02 * alt
  ang = 0.6 + 0.05 * alt
  q[adr["bj"] : adr["bj"] + 4] = (np.cos(ang / 2), 0.6 * np.sin(ang / 2), 0.0, 0.8 * np.sin(ang / 2))
  v = 0.1 * np.sin(np.arange(mjm.nv) + alt)
  mocap = np.array(mjm.body_pos[mjm.body("mo").id]) + (0.02, -0.01, 0.03)
  return q, v, np.array(CTRL) * (1 - 0.1 * alt), np.array(ACT), mocap
