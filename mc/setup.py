#!/venv/bin/python
"""setup_cmd: creates cache dirs and pre-compiles the kernel sets (std / sched / debug) from files on disk only."""
import os, subprocess, sys, time
V = os.path.dirname(os.path.dirname(os.path.abspath(__file__)))
os.makedirs(os.path.join(V, ".cache"), exist_ok=True)
os.makedirs(os.path.join(V, "evidence"), exist_ok=True)
t = time.time()
procs = [subprocess.Popen(["/venv/bin/python", os.path.join(V, "mc", "prewarm.py"), tag], cwd=V) for tag in ("std", "sched", "debug")]
rc = [p.wait() for p in procs]
print("prewarm", rc, round(time.time() - t, 1), "s")
sys.exit(0 if all(r == 0 for r in rc) else 1)
