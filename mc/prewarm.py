"""Compiles the kernels a step of a small rich scene needs into one of the harness caches."""
import os, sys
sys.path.insert(0, os.path.dirname(os.path.dirname(os.path.abspath(__file__))))
from mc import world
tag = sys.argv[1]
wp = world.setup(sched=(tag == "sched"), debug=(tag == "debug"))
import mujoco, mujoco_warp as mjw
XML = """<mujoco><option {opt}/><worldbody><geom type="plane" size="5 5 .1"/>
<body pos="0 0 0.2"><freejoint/><geom type="box" size=".1 .1 .1"/></body>
<body pos="0.5 0 0.3"><joint name="h" type="hinge" axis="0 1 0" range="-1 1" limited="true" frictionloss="0.1"/><geom type="capsule" size=".05 .2"/>
<body pos="0 0 0.3"><joint type="ball"/><geom size=".08"/></body></body></worldbody>
<actuator><motor joint="h"/></actuator></mujoco>"""
for opt in ('', 'jacobian="sparse"', 'cone="elliptic" solver="CG"', 'integrator="implicitfast"', 'integrator="RK4"', 'integrator="implicit"'):
  mjm = mujoco.MjModel.from_xml_string(XML.format(opt=opt))
  m = mjw.put_model(mjm); d = mjw.make_data(mjm, nworld=2)
  mjw.step(m, d); mjw.step(m, d)
print("prewarm", tag, "ok")
