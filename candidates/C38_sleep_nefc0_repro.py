import sys
sys.path.insert(0,'/verif')
from mc import world
wp=world.setup()
import numpy as np, mujoco, mujoco_warp as mjw
from mc import util
xml='''<mujoco><option timestep="0.004" {opt}><flag sleep="enable"/></option><worldbody><geom type="plane" size="3 3 .1"/>
<body pos="0 0 {z}"><freejoint/><geom type="box" size=".1 .1 .1"/></body>
<body pos="1 0 {z}"><freejoint/><geom type="sphere" size=".1"/></body></worldbody></mujoco>'''
for opt in ('jacobian="dense"','jacobian="sparse"','jacobian="sparse" cone="elliptic"','jacobian="dense" cone="elliptic"'):
  for poison in (None,0xFF,0x7F,0xC3):
    mjm=util.load(xml.format(opt=opt,z=1.0)); m=mjw.put_model(mjm)
    world.set_poison(poison)
    d=mjw.make_data(mjm,nworld=2)
    mjw.step(m,d); mjw.step(m,d)
    world.set_poison(None)
    s=mujoco.MjData(mjm); mujoco.mj_step(mjm,s); mujoco.mj_step(mjm,s)
    print(opt,poison,'nefc',d.nefc.numpy(),'qacc',d.qacc.numpy()[0][:3],'qvel z',d.qvel.numpy()[0][2],'mj',s.qvel[2],'qfrc_c',np.abs(d.qfrc_constraint.numpy()).max())
# stale qfrc_constraint: contact then no contact
for opt in ('jacobian="sparse" cone="elliptic"','jacobian="dense"','jacobian="sparse"'):
  mjm=util.load(xml.format(opt=opt,z=0.099)); m=mjw.put_model(mjm); d=mjw.make_data(mjm,nworld=1)
  mjw.forward(m,d); a=np.abs(d.qfrc_constraint.numpy()).max(); n1=d.nefc.numpy().copy()
  q=d.qpos.numpy(); q[0,2]=1.0; q[0,9]=1.0; util.set_field(d.qpos,q)
  mjw.forward(m,d); print(opt,'nefc before/after',n1,d.nefc.numpy(),'qfrc_constraint max before',a,'after',np.abs(d.qfrc_constraint.numpy()).max(), 'qacc', d.qacc.numpy()[0][:3])
